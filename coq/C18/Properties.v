(* C18 — property theorems only.  Each is closed by [exact] of a lemma from the Proofs
   files and followed by Print Assumptions; the Examples show that the hypotheses are
   satisfiable and pin the statements to concrete inputs. *)
From Common Require Import Prelude.
From Coq Require Import QArith Qabs.
From C18 Require Import Model ProofsStr ProofsUrl ProofsFile ProofsArgs ProofsPretty.
Local Open Scope N_scope.

(* ===================================================================== StringManip.h *)

(* longestBeginningMatch is the longest common prefix: a prefix of both, every common
   prefix is a prefix of it, and the characters that follow it (if both exist) differ *)
Theorem lbm_is_lcp : forall a b,
  prefix (lbm a b) a /\ prefix (lbm a b) b /\
  (forall p, prefix p a -> prefix p b -> prefix p (lbm a b)) /\
  (forall x y ta tb, a = lbm a b ++ x :: ta -> b = lbm a b ++ y :: tb -> x <> y).
Proof. exact ProofsStr.lbm_is_lcp. Qed.
Print Assumptions lbm_is_lcp.

Theorem beginsWith_prefix : forall s p, beginsWith s p = true <-> exists t, s = p ++ t.
Proof. exact ProofsStr.beginsWith_prefix. Qed.
Print Assumptions beginsWith_prefix.

(* split on one character: the tokens hold exactly the non-delimiter content in order *)
Theorem split_char_concat : forall s d,
  concat (split_char s d) = filter (fun c => negb (N.eqb c d)) s /\
  Forall (fun t => ~ In d t) (split_char s d).
Proof. exact ProofsStr.split_char_concat. Qed.
Print Assumptions split_char_concat.

(* ... and re-joining them on the delimiter gives the input back (getline swallows one
   trailing delimiter) *)
Theorem split_char_join : forall s d,
  (split_char s d = [] <-> s = []) /\
  (s = join d (split_char s d) \/ (s = join d (split_char s d) ++ [d] /\ split_char s d <> [])).
Proof. exact ProofsStr.split_char_join. Qed.
Print Assumptions split_char_join.

Example split_char_example :
  split_char [97; 58; 58; 98; 99; 58] 58 = [[97]; []; [98; 99]].
Proof. vm_compute. reflexivity. Qed.

(* split on a delimiter SET: the input is  sep_1 t_1 sep_2 t_2 ... sep_n t_n trail  where every
   sep_i and trail consist of delimiters only, every sep_i but possibly the first is non-empty,
   every t_i is non-empty and delimiter-free — i.e. t_1..t_n are exactly the maximal
   delimiter-free runs, in order, none dropped whatever its length.  Without keepDelim the
   result is t_1..t_n; with keepDelim every t_i is preceded by the last character of sep_i
   (the delimiter in front of it; nothing for a token that starts the input). *)
Theorem split_set_tokens : forall s delims,
  let isd := fun c => mem c delims in
  exists seps core trail,
    length seps = length core /\
    Forall (all_in isd true) (trail :: seps) /\
    Forall (fun sp => sp <> []) (tl seps) /\
    Forall (tok_ok isd) core /\
    s = wv seps core ++ trail /\
    split_set s delims false = core /\
    split_set s delims true = zipw true seps core.
Proof. exact ProofsStr.split_set_tokens. Qed.
Print Assumptions split_set_tokens.

Theorem split_set_concat : forall s delims,
  concat (split_set s delims false) = filter (fun c => negb (mem c delims)) s /\
  Forall (fun t => t <> [] /\ forall c, In c t -> mem c delims = false) (split_set s delims false).
Proof. exact ProofsStr.split_set_concat. Qed.
Print Assumptions split_set_concat.

(* "a, b,,c" on {',', ' '} : 1-character tokens kept; keepDelim puts the delimiter in front of
   every token but the leading one *)
Example split_set_example :
  split_set [97; 44; 32; 98; 44; 44; 99] [44; 32] false = [[97]; [98]; [99]] /\
  split_set [97; 44; 32; 98; 44; 44; 99] [44; 32] true = [[97]; [32; 98]; [44; 99]].
Proof. vm_compute. split; reflexivity. Qed.

(* tokenize (PseudoURL.cpp): the same statement — every non-empty run between delimiters is
   kept, including runs of length 1 *)
Theorem tokenize_tokens : forall s d,
  let isd := fun c => N.eqb c d in
  exists seps core trail,
    length seps = length core /\
    Forall (all_in isd true) (trail :: seps) /\
    Forall (fun sp => sp <> []) (tl seps) /\
    Forall (tok_ok isd) core /\
    s = wv seps core ++ trail /\
    tokenize s d = core.
Proof. exact ProofsStr.tokenize_tokens. Qed.
Print Assumptions tokenize_tokens.

Theorem tokenize_concat : forall s d,
  concat (tokenize s d) = filter (fun c => negb (N.eqb c d)) s /\
  Forall (fun t => t <> [] /\ ~ In d t) (tokenize s d).
Proof. exact ProofsStr.tokenize_concat. Qed.
Print Assumptions tokenize_concat.

Theorem tokenize_is_split_set : forall s d, tokenize s d = split_set s [d] false.
Proof. exact ProofsStr.tokenize_is_split_set. Qed.
Print Assumptions tokenize_is_split_set.

(* /repo before the repair ("> 1"): "a:bc:d" lost its 1-character tokens *)
Theorem tokenize_old_refuted :
  exists s d, tokenize_old s d <> tokenize s d /\ tokenize_old s d <> split_set s [d] false.
Proof. exact ProofsStr.tokenize_old_drops. Qed.
Print Assumptions tokenize_old_refuted.

Example tokenize_example :
  tokenize [97; 58; 98; 99; 58; 58; 100] 58 = [[97]; [98; 99]; [100]] /\
  tokenize_old [97; 58; 98; 99; 58; 58; 100] 58 = [[98; 99]].
Proof. vm_compute. split; reflexivity. Qed.

Theorem lower_pointwise : forall s,
  length (lowerCase s) = length s /\
  forall i c, nth_error s i = Some c ->
    nth_error (lowerCase s) i = Some (if (65 <=? c) && (c <=? 90) then c + 32 else c).
Proof. exact ProofsStr.lower_pointwise. Qed.
Print Assumptions lower_pointwise.

Theorem upper_pointwise : forall s,
  length (upperCase s) = length s /\
  forall i c, nth_error s i = Some c ->
    nth_error (upperCase s) i = Some (if (97 <=? c) && (c <=? 122) then c - 32 else c).
Proof. exact ProofsStr.upper_pointwise. Qed.
Print Assumptions upper_pointwise.

(* ======================================================================= PseudoURL *)

(* For a type without "://", a non-empty file name without ':', and name=value pairs whose
   names are non-empty and free of ':' and '=' and whose values are free of ':' (values may be
   empty and may contain '='):  parsing  type "://" file {":" name "=" value}  returns exactly
   those parts; getValue returns the value of the LAST pair with that name; hasParam holds
   exactly for the names present; getValue throws (None) exactly for the others. *)
Theorem pseudourl_parse_assemble : forall ty file ps,
  (forall a b, ty <> a ++ sep3 ++ b) /\
  file <> [] /\ ~ In 58 file /\
  Forall (fun p => fst p <> [] /\ ~ In 58 (fst p) /\ ~ In 61 (fst p) /\ ~ In 58 (snd p)) ps ->
  let u := purl_parse (ty ++ sep3 ++ file ++ concat (map (fun p => 58 :: fst p ++ 61 :: snd p) ps)) in
  u_type u = ty /\ u_file u = file /\ u_params u = ps /\
  (forall name v, getValue u name = Some v <->
     exists l1 l2, ps = l1 ++ (name, v) :: l2 /\ (forall v', ~ In (name, v') l2)) /\
  (forall name, hasParam u name = true <-> exists v, In (name, v) ps) /\
  (forall name, getValue u name = None <-> forall v, ~ In (name, v) ps).
Proof. exact ProofsUrl.pseudourl_parse_assemble. Qed.
Print Assumptions pseudourl_parse_assemble.

(* for every parsed URL, well-formed or not *)
Theorem getValue_last_duplicate : forall u name v,
  getValue u name = Some v <->
  exists l1 l2, u_params u = l1 ++ (name, v) :: l2 /\ (forall v', ~ In (name, v') l2).
Proof. exact ProofsUrl.getValue_last. Qed.
Print Assumptions getValue_last_duplicate.

Theorem hasParam_iff_present : forall u name,
  hasParam u name = true <-> exists v, In (name, v) (u_params u).
Proof. exact ProofsUrl.hasParam_iff. Qed.
Print Assumptions hasParam_iff_present.

Theorem getValue_throws_iff_absent : forall u name, getValue u name = None <-> hasParam u name = false.
Proof. exact ProofsUrl.getValue_none. Qed.
Print Assumptions getValue_throws_iff_absent.

(* with the old tokenize a well-formed URL with a 1-character file name parsed wrongly *)
Theorem pseudourl_old_refuted :
  exists ty file ps, wf_parts ty file ps /\
    purl_parse_old (assemble ty file ps) <> {| u_type := ty; u_file := file; u_params := ps |}.
Proof. exact ProofsUrl.purl_parse_old_refuted. Qed.
Print Assumptions pseudourl_old_refuted.

(* "t://f:n=1:m=:n=2" : 1-character parts, an empty value, a duplicate *)
Example pseudourl_example :
  let u := purl_parse [116; 58; 47; 47; 102; 58; 110; 61; 49; 58; 109; 61; 58; 110; 61; 50] in
  u_type u = [116] /\ u_file u = [102] /\ u_params u = [([110], [49]); ([109], []); ([110], [50])] /\
  getValue u [110] = Some [50] /\ getValue u [109] = Some [] /\ getValue u [122] = None /\
  hasParam u [109] = true /\ hasParam u [122] = false.
Proof. vm_compute. repeat split; reflexivity. Qed.

(* ======================================================================== FileName *)

(* what the constructors produce: no backslash, no trailing separator; idempotent *)
Theorem filename_normalised : forall s,
  (~ In BSL (fn_norm s) /\ forall g, fn_norm s <> g ++ [SEP]) /\ fn_norm (fn_norm s) = fn_norm s.
Proof. exact ProofsFile.fn_norm_spec. Qed.
Print Assumptions filename_normalised.

(* f = path ++ base; base is the last component (no separator; path is empty or ends with
   one).  Either the last component has no dot: name = base, ext = "", dropExt = f,
   setExt(e) = FileName(f ++ e); or base = name ++ "." ++ ext where ext is dot-free (taken
   after the last dot of the LAST COMPONENT), dropExt = FileName(path ++ name) and
   setExt(e) = FileName(path ++ name ++ e).  Holds for every string, in particular for
   hidden files (name = ""), dots in directory names, and after trailing separators were
   stripped. *)
Theorem filename_decompose : forall f,
  let path := fn_path f in let base := fn_base f in
  f = path ++ base /\ ~ In SEP base /\ (path = [] \/ exists p, path = p ++ [SEP]) /\
  ((~ In DOT base /\ fn_name f = base /\ fn_ext f = [] /\ fn_dropExt f = f /\
    forall x, fn_setExt f x = fn_norm (f ++ x)) \/
   (In DOT base /\ base = fn_name f ++ DOT :: fn_ext f /\ ~ In DOT (fn_ext f) /\
    fn_dropExt f = fn_norm (path ++ fn_name f) /\
    forall x, fn_setExt f x = fn_norm (path ++ fn_name f ++ x))).
Proof. exact ProofsFile.filename_cases. Qed.
Print Assumptions filename_decompose.

Theorem filename_ext_last_component : forall f,
  fn_ext f = fn_ext (fn_base f) /\ fn_name f = fn_name (fn_base f).
Proof. exact ProofsFile.ext_last_component. Qed.
Print Assumptions filename_ext_last_component.

(* recomposition for FileName values *)
Theorem filename_setExt_own_ext : forall f,
  normal f -> In DOT (fn_base f) -> fn_setExt f (DOT :: fn_ext f) = f.
Proof. exact ProofsFile.setExt_own_ext. Qed.
Print Assumptions filename_setExt_own_ext.

Theorem filename_dropExt_addExt : forall f,
  normal f -> In DOT (fn_base f) -> fn_name f <> [] \/ fn_path f = [] ->
  fn_addExt (fn_dropExt f) (DOT :: fn_ext f) = f.
Proof. exact ProofsFile.dropExt_addExt. Qed.
Print Assumptions filename_dropExt_addExt.

(* The side condition above is forced: OPEN known finding
   C18-dropExt-hidden-file-under-directory-drops-separator.  For a hidden file directly under a
   directory ("a/.x": name() empty, path() non-empty) dropExt() = FileName("a/") = "a" loses the
   separator, so dropExt().addExt(".x") = "a.x" is not the file, and setExt(e) differs from
   dropExt().addExt(e).  The check reports exactly this class under that signature. *)
Theorem dropExt_addExt_hidden_refuted :
  exists f, normal f /\ In DOT (fn_base f) /\ fn_name f = [] /\ fn_path f <> [] /\
            fn_dropExt f <> fn_path f ++ fn_name f /\
            fn_addExt (fn_dropExt f) (DOT :: fn_ext f) <> f /\
            fn_setExt f (DOT :: fn_ext f) = f /\
            fn_setExt f [46; 121] <> fn_addExt (fn_dropExt f) [46; 121].
Proof. exact ProofsFile.dropExt_addExt_hidden_refuted. Qed.
Print Assumptions dropExt_addExt_hidden_refuted.

Theorem filename_no_ext : forall f,
  normal f -> ~ In DOT (fn_base f) -> fn_dropExt f = f /\ fn_setExt f [] = f /\ fn_addExt f [] = f.
Proof. exact ProofsFile.dropExt_no_ext. Qed.
Print Assumptions filename_no_ext.

(* operator+ appends one component: path() is the left operand plus separator, base() the right *)
Theorem filename_plus_component : forall a b,
  normal a -> a <> [] -> normal b -> b <> [] -> ~ In SEP b ->
  fn_plus a b = a ++ SEP :: b /\ fn_path (fn_plus a b) = a ++ [SEP] /\ fn_base (fn_plus a b) = b.
Proof. exact ProofsFile.plus_component. Qed.
Print Assumptions filename_plus_component.

Theorem filename_plus_recompose : forall p b,
  normal p -> p <> [] -> normal b -> b <> [] -> ~ In SEP b ->
  let f := fn_plus p b in fn_plus (fn_norm (fn_path f)) (fn_base f) = f.
Proof. exact ProofsFile.plus_path_base. Qed.
Print Assumptions filename_plus_recompose.

(* operator== / operator!= compare the normalised names (str(), c_str(), operator std::string and
   operator<< hand out that same string) *)
Theorem filename_eq_spec : forall a b, fn_eq a b = true <-> a = b.
Proof. exact ProofsFile.fn_eq_spec. Qed.
Print Assumptions filename_eq_spec.

(* operator-: cuts behind the first character of the name that occurs among base's characters
   (find_first_of); unchanged when no character is shared *)
Theorem filename_minus_spec : forall a b,
  ((forall c, In c a -> ~ In c b) -> fn_minus a b = a) /\
  (forall p c r, a = p ++ c :: r -> In c b -> (forall x, In x p -> ~ In x b) -> fn_minus a b = fn_norm r).
Proof. exact ProofsFile.fn_minus_spec. Qed.
Print Assumptions filename_minus_spec.

(* ... hence it is not the inverse of operator+ ("dir/file" - "dir" = "ir/file"): reported as a
   possible finding; operator- is not named in the property's recomposition clause *)
Theorem filename_minus_not_inverse_of_plus :
  exists a b, normal a /\ normal b /\ a <> [] /\ b <> [] /\ ~ In SEP b /\ fn_minus (fn_plus a b) a <> b.
Proof. exact ProofsFile.fn_minus_not_inverse_of_plus. Qed.
Print Assumptions filename_minus_not_inverse_of_plus.

(* ext()/dropExt() of /repo before the repair: "dir.d/file" had extension "d/file" *)
Theorem filename_ext_old_refuted :
  exists f, normal f /\ ~ In DOT (fn_base f) /\ fn_ext_old f <> [] /\ fn_ext_old f <> fn_ext f /\
            fn_dropExt_old f <> fn_dropExt f /\ fn_base f <> fn_name f ++ DOT :: fn_ext_old f.
Proof. exact ProofsFile.filename_ext_old_refuted. Qed.
Print Assumptions filename_ext_old_refuted.

(* instances: ".bashrc"; "dir.d/file"; "a\b.c//" *)
Example filename_hidden :
  let f := fn_norm [46; 98; 97; 115; 104; 114; 99] in
  fn_path f = [] /\ fn_name f = [] /\ fn_ext f = [98; 97; 115; 104; 114; 99] /\ fn_dropExt f = [].
Proof. exact ProofsFile.inst_hidden. Qed.
Example filename_dot_in_dir :
  let f := fn_norm [100; 105; 114; 46; 100; 47; 102; 105; 108; 101] in
  fn_path f = [100; 105; 114; 46; 100; 47] /\ fn_base f = [102; 105; 108; 101] /\
  fn_name f = [102; 105; 108; 101] /\ fn_ext f = [] /\ fn_dropExt f = f.
Proof. exact ProofsFile.inst_dot_in_dir. Qed.
Example filename_trailing_sep :
  let f := fn_norm [97; 92; 98; 46; 99; 47; 47] in
  f = [97; 47; 98; 46; 99] /\ fn_path f = [97; 47] /\ fn_name f = [98] /\ fn_ext f = [99] /\
  fn_dropExt f = [97; 47; 98] /\ fn_setExt f [46; 120] = [97; 47; 98; 46; 120].
Proof. exact ProofsFile.inst_trailing. Qed.

(* ==================================================================== ArgumentList *)

(* ArgumentList(ac, av) drops av[0]; remove(where, k) deletes exactly [where, where+k) *)
Theorem arglist_remove_spec : forall (av : list str) w k,
  al_remove (al_ctor av) w k = firstn w (tl av) ++ skipn (w + k) (tl av).
Proof. exact ProofsArgs.arglist_remove_spec. Qed.
Print Assumptions arglist_remove_spec.

(* parseAndRemove for ANY tryConsume with 0 <= tryConsume(l, i) <= size - i:  it terminates and
   the final list is the one described by [run]: walking the original arguments from the
   left, an argument is kept when tryConsume answers 0 on the list as it is then (kept
   arguments followed by the not yet visited ones), and the next n arguments are dropped when
   it answers n > 0.  The result is a subsequence of the input (original order, nothing
   invented) and it is the only list [run] admits. *)
Theorem arglist_remaining : forall tryConsume : list str -> nat -> nat,
  (forall l i, (i < length l)%nat -> (tryConsume l i <= length l - i)%nat) ->
  forall l, exists res,
    parseAndRemove tryConsume l = Some res /\ run tryConsume [] l res /\ subseq res l /\
    (forall res', run tryConsume [] l res' -> res' = res).
Proof. exact ProofsArgs.arglist_remaining. Qed.
Print Assumptions arglist_remaining.

(* "-x" takes one value, everything else is kept: [a; -x; 1; b; -x] -> [a; b] *)
Definition tc_example (l : list str) (i : nat) : nat :=
  if str_eqb (nth i l []) [45; 120] then Nat.min 2 (length l - i) else 0%nat.
Example arglist_example_bound : forall l i, (i < length l)%nat -> (tc_example l i <= length l - i)%nat.
Proof. intros l i H. unfold tc_example. destruct (str_eqb _ _); lia. Qed.
Example arglist_example :
  parseAndRemove tc_example [[97]; [45; 120]; [49]; [98]; [45; 120]] = Some [[97]; [98]].
Proof. vm_compute. reflexivity. Qed.

Theorem removeArgs_spec : forall (d : str) ac av w k,
  length av = ac -> (w + k <= ac)%nat ->
  fst (removeArgs d ac av w k) = (ac - k)%nat /\
  length (snd (removeArgs d ac av w k)) = ac /\
  firstn (ac - k) (snd (removeArgs d ac av w k)) = firstn w av ++ skipn (w + k) av.
Proof. exact (@ProofsArgs.removeArgs_spec str). Qed.
Print Assumptions removeArgs_spec.

Example removeArgs_example :
  removeArgs [] 5 [[97]; [98]; [99]; [100]; [101]] 1 2 = (3%nat, [[97]; [100]; [101]; [100]; [101]]).
Proof. vm_compute. reflexivity. Qed.

(* ============================================================ prettyDouble/Number *)
Local Open Scope Q_scope.

(* prettyDouble for 1e3 <= |v| < 1000 * 1e18f (all thresholds at the exact values of the float
   literals): the suffix is the SI letter of 10^k, the printed mantissa is v divided by the
   float literal nearest 10^k (relative error <= 2^-24), it lies in [1, 1000) and multiplies
   back to v exactly. *)
Theorem pretty_suffix_large : forall v : Q,
  inject_Z F1e03 <= Qabs v -> Qabs v < inject_Z (1000 * F1e18) ->
  let c := pd_choice v in
  pc_wf c = true /\ pc_mul c = false /\
  1 <= Qabs (pretty_mantissa c v) /\ Qabs (pretty_mantissa c v) < 1000 /\
  Qabs v == Qabs (pretty_mantissa c v) * inject_Z (pc_factor c).
Proof. exact ProofsPretty.pretty_suffix_large. Qed.
Print Assumptions pretty_suffix_large.

(* prettyDouble for 1/1e15f <= |v| <= 1: the mantissa is v times the float literal; because the
   literals 1e-12f..1e-3f and 1e15f, 1e12f are not powers of ten the interval [1, 1000] holds
   up to a relative 2^-23 at the exact thresholds (far below the printed precision 0.05) *)
Theorem pretty_suffix_small : forall v : Q,
  / inject_Z F1e15 <= Qabs v -> Qabs v <= 1 ->
  let c := pd_choice v in
  pc_wf c = true /\ pc_mul c = true /\
  1 - (1 # 8388608) <= Qabs (pretty_mantissa c v) /\
  Qabs (pretty_mantissa c v) <= 1000 * (1 + (1 # 8388608)) /\
  Qabs (pretty_mantissa c v) == Qabs v * inject_Z (pc_factor c).
Proof. exact ProofsPretty.pretty_suffix_small. Qed.
Print Assumptions pretty_suffix_small.

Theorem pretty_plain_between : forall v : Q,
  1 < Qabs v -> Qabs v < inject_Z F1e03 -> pc_suffix (pd_choice v) = 0%N.
Proof. exact ProofsPretty.pretty_plain. Qed.
Print Assumptions pretty_plain_between.

(* prettyNumber(s): d = (double)s; same statement for d >= 1000 (every size_t is < 1000*1e18f) *)
Theorem pretty_number_suffix : forall s : N,
  let d := Z.of_N (double_of_N s) in
  (F1e03 <= d < 1000 * F1e18)%Z ->
  let c := pn_choice s in
  pc_wf c = true /\ pc_mul c = false /\
  1 <= pretty_mantissa c (inject_Z d) /\ pretty_mantissa c (inject_Z d) < 1000 /\
  inject_Z d == pretty_mantissa c (inject_Z d) * inject_Z (pc_factor c).
Proof. exact ProofsPretty.pretty_number_suffix. Qed.
Print Assumptions pretty_number_suffix.

Theorem pretty_number_plain : forall s : N,
  (Z.of_N (double_of_N s) < F1e03)%Z -> pc_suffix (pn_choice s) = 0%N.
Proof. exact ProofsPretty.pretty_number_plain. Qed.
Print Assumptions pretty_number_plain.

Theorem pretty_number_exact_below_2p53 : forall s : N, (s < 2 ^ 53)%N -> double_of_N s = s.
Proof. exact ProofsPretty.double_of_N_exact. Qed.
Print Assumptions pretty_number_exact_below_2p53.

(* the 'E' branch of /repo before the repair swallowed [1e15f, 1e18f): 2e16 -> "0.0E" *)
Theorem pretty_exa_old_refuted :
  exists v : Q,
    inject_Z F1e15 <= v /\ v < inject_Z F1e18 /\
    pc_suffix (pd_choice_old v) = 69%N /\ pretty_mantissa (pd_choice_old v) v < 1 /\
    pc_suffix (pd_choice v) = 80%N /\
    pc_suffix (pn_choice_old 20000000000000000) = 69%N /\ pc_suffix (pn_choice 20000000000000000) = 80%N.
Proof. exact ProofsPretty.pretty_exa_old_refuted. Qed.
Print Assumptions pretty_exa_old_refuted.

(* thresholds sit at the float values: 1e18f = 999999984306749440 prints with E, one below with P;
   10^15 (above 1e15f = 999999986991104) with P; 1/4096 with u; 2^60 is rounded exactly *)
Example pretty_threshold_examples :
  pc_suffix (pd_choice (inject_Z 999999984306749440)) = 69%N /\
  pc_suffix (pd_choice (inject_Z 999999984306749439)) = 80%N /\
  pc_suffix (pn_choice 1000000000000000) = 80%N /\
  pc_suffix (pn_choice 999999986991103) = 84%N /\
  pc_suffix (pd_choice (1 # 4096)) = 117%N /\
  pc_suffix (pd_choice (- (3 # 2))) = 0%N /\
  double_of_N (2 ^ 60 + 1) = (2 ^ 60)%N.
Proof. vm_compute. repeat split; reflexivity. Qed.
