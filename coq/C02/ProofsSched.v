(* C02 — proofs about schedule() / async() (definitions in Sched.v) *)
From Common Require Import Prelude.
From Coq Require Import Permutation.
From C02 Require Import Sched.
Local Open Scope N_scope.

(* ================================================================== A. async() *)
Lemma async_ref_ok : async_ok async_pre_ref [] async_body_ref 1 = true.
Proof. vm_compute. reflexivity. Qed.

(* the closure runs exactly once (backend contract) => the future yields fcn's value *)
Lemma async_future_value_ref (T : Type) (fcn : unit -> T) :
  forall tr, In tr (async_traces async_pre_ref [] async_body_ref 1) -> future_get T fcn tr = Some (fcn tt).
Proof. intros tr H. simpl in H. destruct H as [H|[]]. subst. reflexivity. Qed.

(* generic version: any trace accepted by trace_ok delivers the value *)
Lemma shared_state_stable (T : Type) (fcn : unit -> T) : forall tr h h' v,
  heap_run h tr = Some h' -> shared_state T fcn h (Some v) tr = Some v \/ shared_state T fcn h (Some v) tr = Some (fcn tt).
Proof.
  induction tr as [|e r IH]; intros h h' v H; simpl in *.
  - left. reflexivity.
  - destruct (heap_step h e) as [h1|]; [|discriminate]. destruct e; eauto.
    destruct (IH h1 h' (fcn tt) H); right; assumption.
Qed.

Lemma future_value_of_ok (T : Type) (fcn : unit -> T) : forall tr,
  trace_ok tr = true -> future_get T fcn tr = Some (fcn tt).
Proof.
  intros tr H. unfold trace_ok in H. apply andb_true_iff in H as [H _]. apply andb_true_iff in H as [H C].
  apply Nat.eqb_eq in C. unfold future_get.
  destruct (heap_run HNone tr) as [hf|] eqn:R; [|discriminate]. clear H.
  assert (G : forall tr h st hf, heap_run h tr = Some hf -> (0 < countb is_invoke tr)%nat ->
                                 shared_state T fcn h st tr = Some (fcn tt)).
  { clear. induction tr as [|e r IH]; intros h st hf H C.
    - unfold countb in C. simpl in C. lia.
    - simpl in *. destruct (heap_step h e) as [h1|]; [|discriminate].
      destruct e; unfold countb in *; simpl in C; try (eapply IH; eauto; fail).
      destruct (shared_state_stable T fcn r h1 hf (fcn tt) H); assumption. }
  eapply G; eauto. lia.
Qed.

(* breaking variants are refuted by the same checker *)
Lemma async_delete_first_refuted : async_ok async_pre_ref [] [ADelete; AInvoke] 1 = false.
Proof. vm_compute. reflexivity. Qed.
Lemma async_no_delete_refuted : async_ok async_pre_ref [] [AInvoke] 1 = false.
Proof. vm_compute. reflexivity. Qed.
Lemma async_run_twice_refuted : async_ok async_pre_ref [] async_body_ref 2 = false.
Proof. vm_compute. reflexivity. Qed.
Lemma async_never_run_refuted : async_ok async_pre_ref [] async_body_ref 0 = false.
Proof. vm_compute. reflexivity. Qed.
Lemma async_future_after_schedule_refuted : async_ok [AAlloc] [AGetFuture] async_body_ref 1 = false.
Proof. vm_compute. reflexivity. Qed.

(* --------------------------------------------------- schedule(): exactly once *)
Section Backend.
  Variable C : Type.
  Variable C_eq_dec : forall a b : C, {a = b} + {a <> b}.
  (* TBB task_arena::enqueue / detached std::thread: stated contract *)
  Variable executed : list C -> list C.
  Hypothesis backend_contract : forall q, Permutation (executed q) q.

  Lemma schedule_exactly_once : forall q c, count_occ C_eq_dec (executed q) c = count_occ C_eq_dec q c.
  Proof. intros q c. apply Permutation_count_occ. apply backend_contract. Qed.
End Backend.

Lemma debug_contract (C : Type) : forall q : list C, Permutation (debug_executed q) q.
Proof. intro q. apply Permutation_refl. Qed.

(* ============================================ B. internal backend: one-piece task set *)
Lemma range_one (k : N) : N.max (1 / k) 1 = 1.
Proof.
  destruct (N.eq_dec k 0) as [->|K].
  - reflexivity.
  - assert (1 / k <= 1) by (apply N.div_le_upper_bound; lia). lia.
Qed.

Lemma one_piece nt full :
  add_task_set 1 1 nt full = Some [(0, 1, match full with true :: _ => Inline | _ => Queued end)].
Proof.
  unfold add_task_set, range_to_split, range_to_run. rewrite !range_one.
  destruct full as [|[] fl]; reflexivity.
Qed.

Lemma try_run_one : try_run 1 (0, 1) = ((0, 1), None).
Proof. reflexivity. Qed.

Section InternalOnce.
  (* LockLessMultiReadPipe contract: at quiescence every piece written has been popped by
     exactly one TryRunTask (needs a thread that keeps calling TryRunTask: a worker, or the
     caller inside WaitforTask — see the one-thread finding) *)
  Variable popped : list (N * N) -> list (N * N).
  Hypothesis pipe_contract : forall w, Permutation (popped w) w.

  (* ranges on which ExecuteRange is invoked for a set of size 1 *)
  Definition exec_invocations (nt : N) (full : list bool) : option (list (N * N)) :=
    match add_task_set 1 1 nt full with
    | Some ps => Some (map rng (filter is_inline ps)
                       ++ map (fun p => fst (try_run (range_to_run 1 1 nt) p)) (popped (map rng (filter is_queued ps))))
    | None => None
    end.

  Lemma schedule_once_internal nt full : exec_invocations nt full = Some [(0, 1)].
  Proof.
    unfold exec_invocations. rewrite one_piece. unfold range_to_run. rewrite range_one.
    destruct full as [|[] fl]; simpl.
    - pose proof (pipe_contract [(0,1)]) as P. apply Permutation_sym in P. apply Permutation_length_1_inv in P.
      rewrite P. reflexivity.
    - pose proof (pipe_contract []) as P. apply Permutation_sym in P. apply Permutation_nil in P. rewrite P. reflexivity.
    - pose proof (pipe_contract [(0,1)]) as P. apply Permutation_sym in P. apply Permutation_length_1_inv in P.
      rewrite P. reflexivity.
  Qed.
End InternalOnce.


(* ------------------------------------------------ the explicit pipe contract *)
Lemma burst_accounts cap : forall ids q inl,
  Permutation (fst (burst (pipe_write cap) q inl ids) ++ snd (burst (pipe_write cap) q inl ids)) (ids ++ q ++ inl) /\
  ((length q <= cap)%nat -> (length (fst (burst (pipe_write cap) q inl ids)) <= cap)%nat).
Proof.
  induction ids as [|x r IH]; intros q inl.
  - simpl. split; [apply Permutation_refl | auto].
  - cbn [burst]. destruct (pipe_write cap q x) as [q'|] eqn:W; unfold pipe_write in W;
      destruct (length q <? cap)%nat eqn:E; inversion W; subst; clear W.
    + destruct (IH (x :: q) inl) as [P L]. split.
      * eapply Permutation_trans; [exact P|]. simpl. apply Permutation_sym. apply Permutation_middle.
      * intros _. apply L. simpl. apply Nat.ltb_lt in E. lia.
    + destruct (IH q (x :: inl)) as [P L]. split.
      * eapply Permutation_trans; [exact P|].
        replace (r ++ q ++ x :: inl) with ((r ++ q) ++ x :: inl) by (rewrite <- app_assoc; reflexivity).
        eapply Permutation_trans; [apply Permutation_sym; apply Permutation_middle|].
        simpl. rewrite <- app_assoc. apply Permutation_refl.
      * exact L.
Qed.

Section BurstOnce.
  Variable popped : list N -> list N.
  Hypothesis pipe_contract : forall w, Permutation (popped w) w.   (* each stored piece handed to exactly one reader *)
  (* closures executed once the pipe has been drained = the inline ones + the popped ones *)
  Definition burst_executed (cap : nat) (ids : list N) : list N :=
    let r := burst (pipe_write cap) [] [] ids in snd r ++ popped (fst r).
  Lemma burst_exactly_once cap ids : Permutation (burst_executed cap ids) ids.
  Proof.
    unfold burst_executed. destruct (burst_accounts cap ids [] []) as [P _].
    rewrite !app_nil_r in P.
    eapply Permutation_trans; [|exact P].
    eapply Permutation_trans; [apply Permutation_app_comm|].
    apply Permutation_app_tail. apply pipe_contract.
  Qed.
End BurstOnce.

(* a pipe that overwrites unread entries when full loses closures even if every stored piece is popped once *)
Lemma overwriting_pipe_loses :
  let r := burst (pipe_write_overwriting 2) [] [] [1; 2; 3] in
  count_occ N.eq_dec (snd r ++ fst r) 1 = 0%nat.
Proof. vm_compute. reflexivity. Qed.

(* ================================= C. memory events on the heap LocalTask *)
Definition opt_list (p : option N) : list N := match p with Some q => [q] | None => [] end.

Lemma existsb_eqb_false t l : ~ In t l -> existsb (N.eqb t) l = false.
Proof.
  intro H. destruct (existsb (N.eqb t) l) eqn:E; [|reflexivity].
  apply existsb_exists in E as [x [Hx E]]. apply N.eqb_eq in E. subst. contradiction.
Qed.

(* repaired ExecuteRange { t(); defer(this) }: for every history of a thread — any list of
   distinct tasks, any task left in the slot — no access follows the free of its task *)
Lemma fixed_no_uaf : forall ts pending freed,
  NoDup (opt_list pending ++ ts) ->
  (forall t, In t (opt_list pending ++ ts) -> ~ In t freed) ->
  no_uaf freed (thread_events exec_range_fixed true pending ts) = true.
Proof.
  induction ts as [|t r IH]; intros pending freed ND DJ.
  - destruct pending as [q|]; simpl; [|reflexivity].
    rewrite existsb_eqb_false; [reflexivity|]. apply DJ. left. reflexivity.
  - assert (Ht : ~ In t freed) by (apply DJ; apply in_or_app; right; left; reflexivity).
    destruct pending as [q|].
    + assert (Hq : ~ In q freed) by (apply DJ; left; reflexivity).
      simpl in ND. apply NoDup_cons_iff in ND as [Nq ND]. apply NoDup_cons_iff in ND as [Nt ND].
      assert (Hqt : q <> t) by (intro; subst; apply Nq; left; reflexivity).
      cbn [thread_events exec_range exec_range_fixed app no_uaf].
      rewrite !(existsb_eqb_false t freed Ht). rewrite (existsb_eqb_false q freed Hq).
      cbn [negb andb existsb].
      replace (t =? q) with false by (symmetry; apply N.eqb_neq; congruence).
      rewrite (existsb_eqb_false t freed Ht). cbn [orb negb andb].
      apply IH.
      * simpl. constructor; assumption.
      * intros x Hx [E|Hf].
        -- subst x. simpl in Hx. destruct Hx as [E|Hx]; [congruence|]. apply Nq. right. exact Hx.
        -- revert Hf. apply DJ. right. exact Hx.
    + simpl in ND. apply NoDup_cons_iff in ND as [Nt ND].
      cbn [thread_events exec_range exec_range_fixed app no_uaf].
      rewrite !(existsb_eqb_false t freed Ht). cbn [negb andb].
      apply IH.
      * simpl. constructor; assumption.
      * intros x Hx. apply DJ. exact Hx.
Qed.

(* each task executed by the thread has its body run once and is freed once (at the latest at
   thread exit) *)
Lemma countb_app {A} (p : A -> bool) a b : countb p (a ++ b) = (countb p a + countb p b)%nat.
Proof. unfold countb. rewrite filter_app, app_length. reflexivity. Qed.

Lemma fixed_counts_absent : forall ts pending t,
  ~ In t (opt_list pending ++ ts) ->
  frees t (thread_events exec_range_fixed true pending ts) = 0%nat /\
  bodies t (thread_events exec_range_fixed true pending ts) = 0%nat.
Proof.
  induction ts as [|u r IH]; intros pending t H.
  - destruct pending as [q|]; simpl; [|split; reflexivity].
    assert (q <> t) by (intro; subst; apply H; left; reflexivity).
    unfold frees, bodies, countb. simpl. replace (q =? t) with false by (symmetry; apply N.eqb_neq; assumption).
    split; reflexivity.
  - assert (Hu : u <> t) by (intro; subst; apply H; apply in_or_app; right; left; reflexivity).
    assert (Eu : (u =? t) = false) by (apply N.eqb_neq; assumption).
    destruct (IH (Some u) t) as [F B].
    { simpl. intros [E|K]; [congruence|]. apply H. apply in_or_app. right. right. exact K. }
    destruct pending as [q|].
    + assert (Hq : q <> t) by (intro; subst; apply H; left; reflexivity).
      assert (Eq : (q =? t) = false) by (apply N.eqb_neq; assumption).
      cbn [thread_events exec_range exec_range_fixed app].
      unfold frees, bodies, countb in *. cbn [filter fst snd]. rewrite Eu, Eq. cbn [length]. split; assumption.
    + cbn [thread_events exec_range exec_range_fixed app].
      unfold frees, bodies, countb in *. cbn [filter fst snd]. rewrite Eu. cbn [length]. split; assumption.
Qed.

Lemma fixed_free_counts : forall ts pending t,
  NoDup (opt_list pending ++ ts) -> In t ts ->
  frees t (thread_events exec_range_fixed true pending ts) = 1%nat /\
  bodies t (thread_events exec_range_fixed true pending ts) = 1%nat.
Proof.
  induction ts as [|u r IH]; intros pending t ND Hin; [contradiction|].
  assert (NDu : NoDup (u :: r)).
  { destruct pending; simpl in ND; [apply NoDup_cons_iff in ND as [_ ND]|]; exact ND. }
  assert (Hq : forall q, pending = Some q -> q <> u /\ ~ In q r).
  { intros q ->. simpl in ND. apply NoDup_cons_iff in ND as [N _]. split; intro; apply N; [left; congruence | right; assumption]. }
  destruct (N.eq_dec u t) as [->|Hu].
  - (* t is the head: body now, freed by the next task or at exit; absent from the rest *)
    apply NoDup_cons_iff in NDu as [Nt NDr].
    assert (R : frees t (thread_events exec_range_fixed true (Some t) r) = 1%nat /\
                bodies t (thread_events exec_range_fixed true (Some t) r) = 0%nat).
    { clear IH Hin ND Hq. destruct r as [|v r].
      - unfold frees, bodies, countb. simpl. rewrite N.eqb_refl. split; reflexivity.
      - assert (Hv : v <> t) by (intro; subst; apply Nt; left; reflexivity).
        assert (Ev : (v =? t) = false) by (apply N.eqb_neq; assumption).
        destruct (fixed_counts_absent r (Some v) t) as [F B].
        { simpl. intros [E|K]; [congruence|]. apply Nt. right. exact K. }
        cbn [thread_events exec_range exec_range_fixed app].
        unfold frees, bodies, countb in *. cbn [filter fst snd]. rewrite Ev, N.eqb_refl. cbn [length].
        rewrite F, B. split; reflexivity. }
    destruct R as [F B].
    destruct pending as [q|].
    + destruct (Hq q eq_refl) as [Hqt _]. assert (Eq : (q =? t) = false) by (apply N.eqb_neq; assumption).
      cbn [thread_events exec_range exec_range_fixed app].
      unfold frees, bodies, countb in *. cbn [filter fst snd]. rewrite Eq, N.eqb_refl. cbn [length].
      rewrite F, B. split; reflexivity.
    + cbn [thread_events exec_range exec_range_fixed app].
      unfold frees, bodies, countb in *. cbn [filter fst snd]. rewrite N.eqb_refl. cbn [length].
      rewrite F, B. split; reflexivity.
  - assert (Eu : (u =? t) = false) by (apply N.eqb_neq; assumption).
    destruct Hin as [E|Hin]; [congruence|].
    destruct (IH (Some u) t) as [F B]; [simpl; exact NDu | exact Hin |].
    destruct pending as [q|].
    + destruct (Hq q eq_refl) as [_ Hqr].
      assert (Hqt : q <> t) by (intro; subst; contradiction).
      assert (Eq : (q =? t) = false) by (apply N.eqb_neq; assumption).
      cbn [thread_events exec_range exec_range_fixed app].
      unfold frees, bodies, countb in *. cbn [filter fst snd]. rewrite Eu, Eq. cbn [length]. split; assumption.
    + cbn [thread_events exec_range exec_range_fixed app].
      unfold frees, bodies, countb in *. cbn [filter fst snd]. rewrite Eu. cbn [length]. split; assumption.
Qed.

(* as found: ExecuteRange { t(); delete this; } followed by the scheduler's decrement *)
Lemma old_uaf_refuted : exists t, no_uaf [] (submit_events t ++ thread_events exec_range_old true None [t]) = false.
Proof. exists 7. vm_compute. reflexivity. Qed.
(* the same self-delete would be harmless if the scheduler decremented BEFORE ExecuteRange *)
Lemma old_dec_first_ok : no_uaf [] (submit_events 7 ++ thread_events exec_range_old false None [7]) = true.
Proof. vm_compute. reflexivity. Qed.

(* submit + run: the whole life of one task object *)
Lemma fixed_task_life t : no_uaf [] (submit_events t ++ thread_events exec_range_fixed true None [t]) = true.
Proof.
  reflexivity.
Qed.

(* nested execution: never freed while on the stack (checked on the shapes of nested_shapes) *)
Lemma nested_fixed_ok : nested_ok exec_range_fixed = true.
Proof. vm_compute. reflexivity. Qed.
(* slot written before the user function: the nested task's reset frees the still-running outer task *)
Lemma nested_defer_first_refuted : stack_safe [] [] (outer_run exec_range_defer_first 1 [2] None) = false.
Proof. vm_compute. reflexivity. Qed.
(* ... although without nesting that order is indistinguishable *)
Lemma defer_first_flat_ok : no_uaf [] (submit_events 1 ++ thread_events exec_range_defer_first true None [1; 2; 3]) = true.
Proof. vm_compute. reflexivity. Qed.
Lemma nested_old_refuted : stack_safe [] [] (outer_run exec_range_old 1 [] None) = false.
Proof. vm_compute. reflexivity. Qed.

(* store-buffer litmus: a lost wake-up is possible unless BOTH sides fence between their store and their load *)
Lemma litmus_table :
  lost_wakeup_possible false false = true /\ lost_wakeup_possible false true = true /\
  lost_wakeup_possible true false = true /\ lost_wakeup_possible true true = false.
Proof. vm_compute. repeat split. Qed.
Lemma litmus_iff f1 f2 : lost_wakeup_possible f1 f2 = negb (f1 && f2).
Proof. destruct f1, f2; vm_compute; reflexivity. Qed.

(* claims of the only queued item: exactly one claimant wins iff both claims are atomic compare-and-swaps *)
Lemma double_claim_table :
  double_claim_possible ClaimCAS ClaimCAS = false /\
  double_claim_possible ClaimCheckThenStore ClaimCAS = true /\ double_claim_possible ClaimCAS ClaimCheckThenStore = true /\
  double_claim_possible ClaimCheckThenStore ClaimCheckThenStore = true /\
  double_claim_possible ClaimUnknown ClaimCAS = true /\ double_claim_possible ClaimCAS ClaimUnknown = true.
Proof. vm_compute. repeat split. Qed.
Lemma double_claim_iff o t : double_claim_possible o t = negb (match o, t with ClaimCAS, ClaimCAS => true | _, _ => false end).
Proof. destruct o, t; vm_compute; reflexivity. Qed.

(* ------------------------------------------------ teardown drains everything, follow-ups included *)
Lemma fsize_app a b : fsize (a ++ b) = (fsize a + fsize b)%nat.
Proof. unfold fsize. induction a as [|x a IH]; simpl; [reflexivity|]. rewrite IH. lia. Qed.
Lemma fids_app a b : fids (a ++ b) = fids a ++ fids b.
Proof. unfold fids. apply flat_map_app. Qed.
Lemma tsize_unfold id fs : tsize (Task id fs) = S (fsize fs).
Proof. reflexivity. Qed.
Lemma tids_unfold id fs : tids (Task id fs) = id :: fids fs.
Proof. reflexivity. Qed.

Lemma drain_or_complete : forall fuel queue done, (fsize queue + 2 <= fuel)%nat ->
  exists done', drain LOr fuel true queue done = Some ([], done') /\ Permutation done' (fids queue ++ done).
Proof.
  induction fuel as [|f IH]; intros queue done H; [lia|].
  destruct queue as [|[id fs] r].
  - (* nothing queued: one probe, then the loop ends *)
    destruct f as [|f']; [simpl in H; lia|].
    exists done. split; [reflexivity | apply Permutation_refl].
  - assert (Hs : fsize (Task id fs :: r) = S (fsize fs + fsize r)).
    { unfold fsize at 1. cbn [fold_right]. rewrite tsize_unfold. reflexivity. }
    destruct (IH (fs ++ r) (id :: done)) as [d' [E P]].
    { rewrite fsize_app. lia. }
    exists d'. split.
    + cbn [drain eval_lcond orb]. exact E.
    + eapply Permutation_trans; [exact P|].
      assert (R : fids (Task id fs :: r) ++ done = id :: (fids fs ++ fids r) ++ done).
      { change (fids (Task id fs :: r)) with (tids (Task id fs) ++ fids r). rewrite tids_unfold. simpl.
        rewrite <- ?app_assoc. reflexivity. }
      rewrite R, fids_app. apply Permutation_sym. apply Permutation_middle.
Qed.

Lemma teardown_or_runs_everything queue :
  exists done, teardown LOr queue = Some ([], done) /\ Permutation done (fids queue).
Proof.
  destruct (drain_or_complete (fsize queue + 2) queue [] (Nat.le_refl _)) as [d [E P]].
  exists d. split; [exact E|]. rewrite app_nil_r in P. exact P.
Qed.

(* as seeded: "&&" — with no busy worker the loop is never entered: everything queued is dropped *)
Lemma teardown_and_drops queue : teardown LAnd queue = Some (queue, []).
Proof. unfold teardown. replace (fsize queue + 2)%nat with (S (fsize queue + 1)) by lia. reflexivity. Qed.

(* with a worker still running a task that schedules a follow-up: "||" waits for it and drains the follow-up, "&&" leaves *)
Definition mt_example (c : lcond) := drain_mt c 20 true [(3%nat, Task 1 [Task 2 [Task 3 []]])] [] [].
Lemma teardown_mt_examples :
  mt_example LOr = Some ([], [], [3; 2; 1]) /\
  (exists q i d, mt_example LAnd = Some (q, i, d) /\ i <> []).
Proof. split; [vm_compute; reflexivity|]. eexists _, _, _. split; [vm_compute; reflexivity | discriminate]. Qed.

(* one wake-up per push: nothing is stranded next to a sleeping worker *)
Lemma every_push_no_stranded n workers : stranded WakeEveryPush n workers = 0%nat.
Proof.
  unfold stranded, started, wakes. destruct (Nat.min n workers <? workers)%nat eqn:E; [|reflexivity].
  apply Nat.ltb_lt in E. assert (Nat.min n workers = n) by lia. lia.
Qed.
(* waking only on the empty -> non-empty transition strands the second of two back-to-back closures next to idle workers *)
Lemma empty_transition_strands : stranded WakeOnEmptyToNonEmpty 2 3 = 1%nat /\ started WakeOnEmptyToNonEmpty 2 3 = 1%nat.
Proof. split; reflexivity. Qed.
Lemma empty_transition_strands_general n workers : (2 <= n)%nat -> (2 <= workers)%nat -> stranded WakeOnEmptyToNonEmpty n workers = (n - 1)%nat.
Proof.
  intros Hn Hw. unfold stranded, started, wakes. replace (Nat.min n 1) with 1%nat by lia.
  replace (Nat.min 1 workers) with 1%nat by lia. assert (E : (1 <? workers)%nat = true) by (apply Nat.ltb_lt; lia). rewrite E. reflexivity.
Qed.

(* the slot after thread-exit destruction (instances: see exit_shapes) *)
Lemma exit_raw_pointer_ok : exit_shapes_ok SlotRawPointer = true.
Proof. vm_compute. reflexivity. Qed.
Lemma exit_owning_object_refuted : exit_history SlotOwningObject None [1] [2] = None /\ exit_shapes_ok SlotOwningObject = false.
Proof. split; vm_compute; reflexivity. Qed.
Lemma exit_no_drain_any_slot k pending before : exit_history k pending before [] = Some (thread_events exec_range_fixed true pending before).
Proof. reflexivity. Qed.
