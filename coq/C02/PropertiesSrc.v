(* C02 — the property theorems instantiated at the fact table derived from the source tree
   on this run (gen/Facts.v): member order, lambda statement order, get()/destructor shape,
   async()'s closure, schedule_internal's ExecuteRange, TryRunTask's decrement. *)
From Common Require Import Prelude.
From Coq Require Import Permutation.
From C02 Require Import Model Proofs Sched ProofsSched ProofsSrc.
From C02.gen Require Import Facts.

Theorem asynctask_safe_src : forall l t s, reachable (mkcfg facts_src l t) s ->
  err s = None /\
  (forall v, got s = Some v -> v = VResult) /\
  (fin_seen s = true -> cp s = CGetW -> tp s = TDone) /\
  (cp s = CDone -> tp s = TDone) /\
  (calls s <= 1 /\ (tp s = TDone -> calls s = 1)) /\
  (cp s <> CDone -> exists s', In s' (succs (mkcfg facts_src l t) s)).
Proof. exact src_safe_props. Qed.
Print Assumptions asynctask_safe_src.

Theorem asynctask_trace_accepted_src : forall l t tr s, exec (mkcfg facts_src l t) init tr s ->
  slot_run t slot0 tr = Some (lret s, vret s).
Proof. exact src_trace_accepted. Qed.
Print Assumptions asynctask_trace_accepted_src.

(* every store of jobFinished in the task closure is release-or-stronger and every load in finished()/valid()/get() is
   acquire-or-stronger (memory orders extracted from the AST; std::atomic's default is seq_cst): the flag publishes the result *)
Theorem asynctask_flag_publishes_src : f_flag_publishes facts_src = true /\
  flag_publishes flag_store_orders_src flag_load_orders_src = true.
Proof. exact src_flag_publishes. Qed.
Print Assumptions asynctask_flag_publishes_src.

Theorem async_heap_task_deleted_once_src : async_ok async_pre_src async_post_src async_body_src 1 = true.
Proof. exact src_async_ok. Qed.
Print Assumptions async_heap_task_deleted_once_src.

Theorem async_future_value_src : forall (T : Type) (fcn : unit -> T) tr,
  In tr (async_traces async_pre_src async_post_src async_body_src 1) -> future_get T fcn tr = Some (fcn tt).
Proof. exact src_async_future. Qed.
Print Assumptions async_future_value_src.

Theorem schedule_internal_no_uaf_src : forall ts pending,
  NoDup (opt_list pending ++ ts) ->
  no_uaf [] (thread_events exec_range_src tryrun_dec_after_exec_src pending ts) = true.
Proof. exact src_no_uaf. Qed.
Print Assumptions schedule_internal_no_uaf_src.

Theorem schedule_internal_task_life_src : forall t,
  no_uaf [] (submit_events t ++ thread_events exec_range_src tryrun_dec_after_exec_src None [t]) = true.
Proof. exact src_task_life. Qed.
Print Assumptions schedule_internal_task_life_src.

Theorem schedule_internal_nested_not_freed_on_stack_src : nested_ok exec_range_src = true.
Proof. exact src_nested_ok. Qed.
Print Assumptions schedule_internal_nested_not_freed_on_stack_src.

(* WakeThreads reads m_NumThreadsWaiting behind a full barrier and WaitForTasks increments it atomically before it
   checks the pipes: no lost wake-up in the store-buffer litmus *)
Theorem schedule_internal_no_lost_wakeup_src : lost_wakeup_possible wake_fenced_src wait_fenced_src = false.
Proof. exact src_no_lost_wakeup. Qed.
Print Assumptions schedule_internal_no_lost_wakeup_src.

(* schedule_impl / AsyncTaskImpl per backend: complete statement lists equal the reference shapes (no static or
   thread_local locals — the arena is attached per call, the std::thread is a per-call local —, no extra calls);
   async() contains nothing but the recognised statements *)
Theorem glue_code_shape_src : glue_ok sched_impl_src impl_ctor_src impl_wait_src = true /\ async_unknown_stmts_src = 0%nat.
Proof. exact src_glue_ok. Qed.
Print Assumptions glue_code_shape_src.

(* the hypothesis of the pipe contract on the code as it is: owner (WriterTryReadFront) and thief (ReaderTryReadBack) both
   claim a slot by ONE AtomicCompareAndSwap(&m_Flags[i], FLAG_INVALID, FLAG_CAN_READ), and WriterTryWriteFront refuses a slot
   that is not FLAG_CAN_WRITE: the only queued item cannot be claimed twice, an unread item is not overwritten *)
Theorem pipe_claims_atomic_src : pipe_claims_ok pipe_front_claim_src pipe_back_claim_src pipe_write_guard_src = true.
Proof. exact src_pipe_claims_ok. Qed.
Print Assumptions pipe_claims_atomic_src.

(* teardown on the code as it is: WaitforAll's loop condition (extracted) drains every task and every follow-up exactly once;
   ~TaskScheduler -> WaitforAllAndShutdown = [WaitforAll; StopThreads(true); free pipes; free pinned lists] *)
Theorem teardown_runs_everything_exactly_once_src : forall queue,
  exists done, teardown waitforall_cond_src queue = Some ([], done) /\ Permutation done (fids queue).
Proof. exact src_teardown. Qed.
Print Assumptions teardown_runs_everything_exactly_once_src.
Theorem shutdown_order_src : sdlist_eqb shutdown_steps_src shutdown_ref = true /\ dtor_shuts_down_src = true.
Proof. exact src_shutdown_order. Qed.
Print Assumptions shutdown_order_src.

(* SplitAndAddTask: WakeThreads follows EVERY successful write into the pipe, unconditionally (extracted) *)
Theorem schedule_internal_wake_every_push_src : forall n workers, stranded wake_policy_src n workers = 0%nat.
Proof. exact src_wake_every_push. Qed.
Print Assumptions schedule_internal_wake_every_push_src.

(* the reclaim slot of the code as it is: usable after the thread's TLS destructors (a plain pointer) and reclaimed at thread exit *)
Theorem schedule_internal_exit_drain_src : exit_shapes_ok reclaim_slot_kind_src = true /\ reclaim_at_thread_exit_src = true.
Proof. exact src_exit_slot. Qed.
Print Assumptions schedule_internal_exit_drain_src.
