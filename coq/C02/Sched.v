(* C02 — schedule() / async(): definitions only (proofs in ProofsSched.v).
   A. async(): events on the heap packaged_task (rkcommon/tasking/async.h)
   B. internal backend: a scheduled closure is a ONE-PIECE task set
      (TaskSys.h schedule_internal -> TaskScheduler.cpp AddTaskSetToPipe / SplitAndAddTask / TryRunTask)
   C. internal backend: accesses to the heap LocalTask by the scheduler and by the task itself *)
From Common Require Import Prelude.
Local Open Scope N_scope.


(* ------------------------------------------------ the per-backend glue code, as COMPLETE statement lists
   (schedule_impl in detail/schedule.inl; AsyncTaskImpl's constructor and wait() in detail/async_task.inl).
   Anything not in this vocabulary — a static or thread_local local, an extra call — is SUnknown and fails closed. *)
Inductive backend := BTbb | BOmp | BInt | BDbg.
Inductive sstmt :=
  | SArenaLocal      (* tbb::task_arena ta = task_arena(attach());   a NON-static local: the CALLER's arena on every call *)
  | SEnqueue         (* ta.enqueue(fcn) *)
  | SThreadLocal     (* std::thread thread(fcn);  non-static local *)
  | SDetach          (* thread.detach() *)
  | SCallInternal    (* detail::schedule_internal(std::move(fcn)) *)
  | SCallDirect      (* fcn()  — Debug: synchronous *)
  | SRun             (* taskGroup.run(fcn) *)
  | SInitMember      (* member initialised from the closure: thread(fcn) / task(fcn) *)
  | SSchedInternal   (* detail::scheduleTaskInternal(&task) *)
  | SWaitGroup       (* taskGroup.wait() *)
  | SJoinIfJoinable  (* if (thread.joinable()) thread.join() *)
  | SWaitInternal    (* detail::waitInternal(&task) *)
  | SUnknown.
Definition sstmt_eqb (a b : sstmt) : bool :=
  match a, b with
  | SArenaLocal, SArenaLocal | SEnqueue, SEnqueue | SThreadLocal, SThreadLocal | SDetach, SDetach
  | SCallInternal, SCallInternal | SCallDirect, SCallDirect | SRun, SRun | SInitMember, SInitMember
  | SSchedInternal, SSchedInternal | SWaitGroup, SWaitGroup | SJoinIfJoinable, SJoinIfJoinable
  | SWaitInternal, SWaitInternal => true
  | _, _ => false     (* SUnknown equals nothing *)
  end.
Fixpoint slist_eqb (a b : list sstmt) : bool :=
  match a, b with [], [] => true | x :: r, y :: s => sstmt_eqb x y && slist_eqb r s | _, _ => false end.
(* the shapes the contracts of this file are stated for: the closure is handed to the backend exactly once per call,
   through an object created by that call *)
Definition sched_impl_ref (b : backend) : list sstmt :=
  match b with BTbb => [SArenaLocal; SEnqueue] | BOmp => [SThreadLocal; SDetach] | BInt => [SCallInternal] | BDbg => [SCallDirect] end.
Definition impl_ctor_ref (b : backend) : list sstmt :=
  match b with BTbb => [SRun] | BOmp => [SInitMember] | BInt => [SInitMember; SSchedInternal] | BDbg => [SCallDirect] end.
Definition impl_wait_ref (b : backend) : list sstmt :=
  match b with BTbb => [SWaitGroup] | BOmp => [SJoinIfJoinable] | BInt => [SWaitInternal] | BDbg => [] end.
Definition all_backends := [BTbb; BOmp; BInt; BDbg].
Definition glue_ok (sched ctor wait : backend -> list sstmt) : bool :=
  forallb (fun b => slist_eqb (sched b) (sched_impl_ref b) && slist_eqb (ctor b) (impl_ctor_ref b) && slist_eqb (wait b) (impl_wait_ref b))
          all_backends.

(* ================================================================== A. async() *)
Inductive aev := AAlloc      (* new package_t(fcn) *)
               | AGetFuture  (* task->get_future() *)
               | AInvoke     (* invoke the packaged task — runs fcn, stores its value in the shared state *)
               | ADelete.    (* delete task *)
Inductive hst := HNone | HLive | HFreed.
Definition heap_step (h : hst) (e : aev) : option hst :=
  match h, e with
  | HNone, AAlloc => Some HLive
  | HLive, AGetFuture | HLive, AInvoke => Some HLive
  | HLive, ADelete => Some HFreed
  | _, _ => None            (* use before allocation / after delete, double delete *)
  end.
Fixpoint heap_run (h : hst) (tr : list aev) : option hst :=
  match tr with
  | [] => Some h
  | e :: r => match heap_step h e with Some h' => heap_run h' r | None => None end
  end.
Definition is_invoke (e : aev) := match e with AInvoke => true | _ => false end.
Definition is_delete (e : aev) := match e with ADelete => true | _ => false end.
Definition is_getfuture (e : aev) := match e with AGetFuture => true | _ => false end.
Definition countb {A} (p : A -> bool) (l : list A) : nat := length (filter p l).

(* all interleavings of two event sequences (the caller's statements after the schedule()
   call race with the closure) *)
Fixpoint interleave_aux (fuel : nat) (a b : list aev) : list (list aev) :=
  match fuel with
  | O => []
  | S f => match a, b with
           | [], _ => [b]
           | _, [] => [a]
           | x :: a', y :: b' => map (cons x) (interleave_aux f a' b) ++ map (cons y) (interleave_aux f a b')
           end
  end.
Definition interleave (a b : list aev) := interleave_aux (S (length a + length b)) a b.

(* pre: caller's events before schedule(closure); post: caller's events after it;
   body: the closure; runs: how often the backend executes the closure *)
Definition async_traces (pre post body : list aev) (runs : nat) : list (list aev) :=
  map (app pre) (interleave post (concat (repeat body runs))).
Definition trace_ok (tr : list aev) : bool :=
  match heap_run HNone tr with Some HFreed => true | _ => false end   (* every use inside the lifetime; deleted exactly once *)
  && Nat.eqb (countb is_invoke tr) 1                                  (* the packaged_task is invoked exactly once *)
  && Nat.eqb (countb is_getfuture tr) 1.
Definition async_ok (pre post body : list aev) (runs : nat) : bool :=
  forallb trace_ok (async_traces pre post body runs).

(* std::packaged_task / std::future contract: invoking the packaged task stores fcn's value
   in the shared state; the future obtained from get_future() yields that value once stored *)
Section Future.
  Variable T : Type.
  Variable fcn : unit -> T.
  Fixpoint shared_state (h : hst) (st : option T) (tr : list aev) : option T :=
    match tr with
    | [] => st
    | e :: r => match heap_step h e with
                | Some h' => shared_state h' (match e with AInvoke => Some (fcn tt) | _ => st end) r
                | None => None
                end
    end.
  Definition future_get (tr : list aev) : option T := shared_state HNone None tr.
End Future.

(* as written in async.h *)
Definition async_pre_ref := [AAlloc; AGetFuture].
Definition async_body_ref := [AInvoke; ADelete].

(* ------------------------------------------------ schedule(): the backend contract
   TBB task_arena::enqueue, a detached std::thread (OpenMP build) and the internal pipe are
   oracles: [executed q] is the list of closures the backend has run at quiescence after the
   closures q were handed to it.  The Debug backend is the identity (synchronous call). *)
Definition debug_executed {C : Type} (q : list C) : list C := q.

(* ============================================ B. internal backend: one-piece task set *)
Definition num_partitions (nt : N) : N := if nt =? 1 then 1 else nt * (nt - 1).
Definition num_initial (nt : N) : N := if nt =? 1 then 1 else N.min (nt - 1) 8.
Definition range_to_run (size minr nt : N) : N := N.max (size / num_partitions nt) minr.
Definition range_to_split (size minr nt : N) : N := N.max (size / num_initial nt) minr.

Inductive disp := Queued | Inline.
Definition piece := (N * N * disp)%type.
(* SplitAndAddTask (TaskScheduler.cpp:324-350), as it stands; [full] is the oracle for
   WriterTryWriteFront failing (pipe full), one answer per loop iteration *)
Fixpoint split_and_add (fuel : nat) (start end_ split rtr : N) (full : list bool) : option (list piece) :=
  if start =? end_ then Some [] else
  match fuel with
  | O => None
  | S f =>
    let pe := start + N.min split (end_ - start) in
    match full with
    | true :: fl =>
        let pe' := if rtr <? split then start + rtr else pe in
        option_map (cons (start, pe', Inline)) (split_and_add f pe' end_ split rtr fl)
    | _ => option_map (cons (start, pe, Queued)) (split_and_add f pe end_ split rtr (tl full))
    end
  end.
(* AddTaskSetToPipe (352-368) *)
Definition add_task_set (size minr nt : N) (full : list bool) : option (list piece) :=
  split_and_add (S (N.to_nat size)) 0 size (range_to_split size minr nt) (range_to_run size minr nt) full.
(* TryRunTask (254-274) on a popped piece: the range handed to ExecuteRange now, and the
   remainder that is split and re-added *)
Definition try_run (rtr : N) (p : N * N) : (N * N) * option (N * N) :=
  let (s, e) := p in
  if rtr <? e - s then ((s, s + rtr), Some (s + rtr, e)) else ((s, e), None).

Definition rng (p : piece) : N * N := fst p.
Definition is_inline (p : piece) := match snd p with Inline => true | _ => false end.
Definition is_queued (p : piece) := match snd p with Queued => true | _ => false end.


(* ------------------------------------------------ the pipe contract, made explicit
   LockLessMultiReadPipe (one writer, many readers, 2^8 slots) is modelled as a bounded bag:
     WriterTryWriteFront  either FAILS (pipe full: nothing is stored, SplitAndAddTask then runs the piece
                          inline on the writer) or stores the piece;
     a stored piece is later handed to exactly one reader (WriterTryReadFront / ReaderTryReadBack).
   [burst] is a thread issuing schedule() for the closures ids while no reader pops (all workers busy):
   it returns the pieces left in the pipe and the ones run inline by the writer. *)
Definition pipe_write (cap : nat) (q : list N) (x : N) : option (list N) :=
  if (length q <? cap)%nat then Some (x :: q) else None.
Fixpoint burst (write : list N -> N -> option (list N)) (q inl : list N) (ids : list N) : list N * list N :=
  match ids with
  | [] => (q, inl)
  | x :: r => match write q x with
              | Some q' => burst write q' inl r
              | None => burst write q (x :: inl) r
              end
  end.
(* a pipe whose full test is wrong: the write "succeeds" on a full pipe by overwriting the oldest unread entry *)
Definition pipe_write_overwriting (cap : nat) (q : list N) (x : N) : option (list N) :=
  Some (x :: firstn (cap - 1) q).


(* ------------------------------------------------ wake-up: publish-then-check on both sides needs a full fence
   Scheduling thread (SplitAndAddTask; WakeThreads):  X := 1 (pipe write index: a task is published);  r1 := Y (m_NumThreadsWaiting)
   Idle worker       (WaitForTasks):                   Y := 1 (m_NumThreadsWaiting incremented);        r2 := X (IsPipeEmpty)
   If r1 = 0 and r2 = 0 nobody is signalled and the worker sleeps on the semaphore with a task pending: the closure is
   not run "eventually, with no further action required from the caller".  On x86-TSO a store sits in the store buffer
   of its core until flushed and a later load of ANOTHER location may be satisfied from memory first, so both loads can
   miss both stores unless EACH side has a full fence (or a locked instruction) between its store and its load.
   This is the hypothesis behind "a stored piece is handed to a reader" in the pipe contract above.
   State of the litmus: memory X,Y; one store-buffer slot per thread; program counters; loaded values. *)
Record sbstate := mksb { sm1 : bool; sm2 : bool; sb1 : bool; sb2 : bool; sp1 : nat; sp2 : nat; sr1 : bool; sr2 : bool }.
Definition sb_init : sbstate := mksb false false false false 0 0 true true.
(* pc 0: store into the own buffer; pc 1: the fence (if present: enabled only once the buffer is flushed); pc 2: load; 3: done *)
Definition sb_succs (fence1 fence2 : bool) (s : sbstate) : list sbstate :=
  (match sp1 s with
   | O => [mksb (sm1 s) (sm2 s) true (sb2 s) 1 (sp2 s) (sr1 s) (sr2 s)]
   | S O => if negb fence1 || negb (sb1 s) then [mksb (sm1 s) (sm2 s) (sb1 s) (sb2 s) 2 (sp2 s) (sr1 s) (sr2 s)] else []
   | S (S O) => [mksb (sm1 s) (sm2 s) (sb1 s) (sb2 s) 3 (sp2 s) (sm2 s) (sr2 s)]
   | _ => [] end) ++
  (match sp2 s with
   | O => [mksb (sm1 s) (sm2 s) (sb1 s) true (sp1 s) 1 (sr1 s) (sr2 s)]
   | S O => if negb fence2 || negb (sb2 s) then [mksb (sm1 s) (sm2 s) (sb1 s) (sb2 s) (sp1 s) 2 (sr1 s) (sr2 s)] else []
   | S (S O) => [mksb (sm1 s) (sm2 s) (sb1 s) (sb2 s) (sp1 s) 3 (sr1 s) (sm1 s)]
   | _ => [] end) ++
  (if sb1 s then [mksb true (sm2 s) false (sb2 s) (sp1 s) (sp2 s) (sr1 s) (sr2 s)] else []) ++   (* flush buffer 1 *)
  (if sb2 s then [mksb (sm1 s) true (sb1 s) false (sp1 s) (sp2 s) (sr1 s) (sr2 s)] else []).      (* flush buffer 2 *)
Definition sb_done (s : sbstate) : bool := Nat.eqb (sp1 s) 3 && Nat.eqb (sp2 s) 3.
(* is there an execution in which both loads miss both stores? (every execution has at most 8 steps) *)
Fixpoint both_miss_from (fuel : nat) (f1 f2 : bool) (s : sbstate) : bool :=
  match fuel with
  | O => false
  | S k => (sb_done s && negb (sr1 s) && negb (sr2 s)) || existsb (both_miss_from k f1 f2) (sb_succs f1 f2 s)
  end.
Definition lost_wakeup_possible (fence_scheduler fence_worker : bool) : bool :=
  both_miss_from 10 fence_scheduler fence_worker sb_init.


(* ------------------------------------------------ "a stored piece goes to exactly ONE reader" — the claim of a slot
   The pipe's owner (WriterTryReadFront, from the front) and the thieves (ReaderTryReadBack, from the back) race for the
   same slot when ONE item is queued (front = back).  A claim is the transition of the slot flag CAN_READ -> INVALID.
   HYPOTHESIS of the pipe contract: every reader-side claim is a single atomic compare-and-swap.  A check-then-store
   claim lets two claimants both succeed: the task body runs twice, m_RunningCount goes negative, the next wait hangs. *)
Inductive claim := ClaimCAS | ClaimCheckThenStore | ClaimUnknown.
Inductive wguard := WGNotCanWrite (* if (m_Flags[i] != FLAG_CAN_WRITE) return false;  — single writer *) | WGOther.
(* two claimants on one readable slot: flag, and per claimant (pc, what it loaded, did it succeed) *)
Record cl := mkcl { c_pc : nat; c_seen : bool; c_won : bool }.
Definition cl0 := mkcl 0 false false.
(* one step of a claimant on the flag (true = CAN_READ): returns (flag', claimant') or None when it has finished *)
Definition claim_step (k : claim) (flag : bool) (c : cl) : option (bool * cl) :=
  match k, c_pc c with
  | ClaimCAS, O => Some (if flag then (false, mkcl 1 flag true) else (flag, mkcl 1 flag false))   (* atomic *)
  | ClaimCheckThenStore, O => Some (flag, mkcl 1 flag false)                                        (* plain load *)
  | ClaimCheckThenStore, S O => Some (if c_seen c then (false, mkcl 2 true true) else (flag, mkcl 2 false false))  (* store *)
  | _, _ => None
  end.
Fixpoint both_win_from (fuel : nat) (k1 k2 : claim) (flag : bool) (a b : cl) : bool :=
  match fuel with
  | O => false
  | S f =>
      (c_won a && c_won b) ||
      match claim_step k1 flag a with Some (fl, a') => both_win_from f k1 k2 fl a' b | None => false end ||
      match claim_step k2 flag b with Some (fl, b') => both_win_from f k1 k2 fl a b' | None => false end
  end.
(* can owner and thief both claim the only item?  Unknown claim shapes fail closed. *)
Definition double_claim_possible (owner thief : claim) : bool :=
  match owner, thief with
  | ClaimUnknown, _ | _, ClaimUnknown => true
  | _, _ => both_win_from 6 owner thief true cl0 cl0
  end.
Definition pipe_claims_ok (owner thief : claim) (w : wguard) : bool :=
  negb (double_claim_possible owner thief) && match w with WGNotCanWrite => true | WGOther => false end.


(* ------------------------------------------------ scheduler teardown (WaitforAll, the drain step of ~TaskScheduler)
   ~TaskScheduler -> WaitforAllAndShutdown -> WaitforAll; StopThreads(true); free the pipes.  WaitforAll:
       bHaveTasks = true;
       while (bHaveTasks <op> m_NumThreadsWaiting < threadsRunning) { bHaveTasks = TryRunTask(); if (!bHaveTasks) bHaveTasks = some pipe non-empty; }
   A task is its id and the follow-ups it schedules WHILE it runs (any depth).  [drain] is the loop as executed by the
   tearing-down thread when every worker is already waiting (always the case with ONE tasking thread: no workers):
   the second operand of the loop condition is then false. *)
Inductive task := Task (id : N) (followups : list task).
Fixpoint tsize (t : task) : nat :=
  match t with Task _ fs => S ((fix sz (l : list task) : nat := match l with [] => O | x :: r => (tsize x + sz r)%nat end) fs) end.
Fixpoint tids (t : task) : list N :=
  match t with Task id fs => id :: (fix ids (l : list task) : list N := match l with [] => [] | x :: r => tids x ++ ids r end) fs end.
Definition fsize (l : list task) : nat := fold_right (fun t a => (tsize t + a)%nat) O l.
Definition fids (l : list task) : list N := flat_map tids l.

Inductive lcond := LOr | LAnd | LOther.
Definition eval_lcond (c : lcond) (a b : bool) : option bool :=
  match c with LOr => Some (a || b) | LAnd => Some (a && b) | LOther => None end.
(* returns what is left in the pipes and the ids run, in order; None = out of fuel / unknown condition *)
Fixpoint drain (c : lcond) (fuel : nat) (have : bool) (queue : list task) (done : list N) : option (list task * list N) :=
  match fuel with
  | O => None
  | S f =>
    match eval_lcond c have false with
    | None => None
    | Some false => Some (queue, done)
    | Some true =>
        match queue with
        | [] => drain c f false [] done                              (* TryRunTask finds nothing, all pipes empty *)
        | Task id fs :: r => drain c f true (fs ++ r) (id :: done)   (* runs one task; its follow-ups are queued *)
        end
    end
  end.
Definition teardown (c : lcond) (queue : list task) : option (list task * list N) :=
  drain c (fsize queue + 2) true queue [].

(* with workers: tasks still being executed by workers complete after some loop iterations (their delay) and then queue
   their follow-ups; "m_NumThreadsWaiting < threadsRunning" holds exactly while some worker is still busy *)
Fixpoint drain_mt (c : lcond) (fuel : nat) (have : bool) (inflight : list (nat * task)) (queue : list task) (done : list N)
  : option (list task * list (nat * task) * list N) :=
  match fuel with
  | O => None
  | S f =>
    match eval_lcond c have (match inflight with [] => false | _ => true end) with
    | None => None
    | Some false => Some (queue, inflight, done)
    | Some true =>
        (* workers advance: those whose delay is 0 finish: id done, follow-ups queued *)
        let fin := filter (fun p => Nat.eqb (fst p) 0) inflight in
        let rest := map (fun p => (pred (fst p), snd p)) (filter (fun p => negb (Nat.eqb (fst p) 0)) inflight) in
        let q1 := flat_map (fun p => match snd p with Task _ fs => fs end) fin ++ queue in
        let d1 := map (fun p => match snd p with Task id _ => id end) fin ++ done in
        match q1 with
        | [] => drain_mt c f false rest [] d1
        | Task id fs :: r => drain_mt c f true rest (fs ++ r) (id :: d1)
        end
    end
  end.
(* shutdown order *)
Inductive sdstep := SdDrain (* WaitforAll() *) | SdStopThreads (* StopThreads(true) *) | SdFreePipes | SdOther.
Definition sdstep_eqb (a b : sdstep) := match a, b with SdDrain, SdDrain | SdStopThreads, SdStopThreads | SdFreePipes, SdFreePipes => true | _, _ => false end.
Fixpoint sdlist_eqb (a b : list sdstep) : bool :=
  match a, b with [], [] => true | x :: r, y :: s => sdstep_eqb x y && sdlist_eqb r s | _, _ => false end.
Definition shutdown_ref := [SdDrain; SdStopThreads; SdFreePipes; SdFreePipes].


(* ------------------------------------------------ one wake-up per successful push
   SplitAndAddTask calls WakeThreads(1) after EVERY successful write into the pipe.  That is what "executed eventually, no
   caller action" needs when scheduled closures depend on later-scheduled ones (or are simply long-running): with all workers
   asleep, n closures pushed back to back by one thread and each woken worker staying inside the closure it took (long-running /
   waiting for a later one), n workers must be woken.  [stranded] = closures left in the pipe next to sleeping workers with no
   wake-up pending. *)
Inductive wakepolicy := WakeEveryPush | WakeOnEmptyToNonEmpty | WakeUnknown.
Definition wakes (p : wakepolicy) (n : nat) : nat :=
  match p with WakeEveryPush => n | WakeOnEmptyToNonEmpty => Nat.min n 1 | WakeUnknown => O end.
(* workers all asleep; n pushes; each wake-up gets one sleeping worker to take one closure and stay in it *)
Definition started (p : wakepolicy) (n workers : nat) : nat := Nat.min (wakes p n) workers.
Definition stranded (p : wakepolicy) (n workers : nat) : nat :=
  if (started p n workers <? workers)%nat then (n - started p n workers)%nat else O.   (* queued closures while a worker still sleeps *)

(* ================================= C. memory events on the heap LocalTask (by task id) *)
Inductive mev := MAlloc      (* new LocalTask *)
               | MWriteRC    (* m_RunningCount = 0          AddTaskSetToPipe *)
               | MWriteRange (* m_RangeToRun = ...          AddTaskSetToPipe *)
               | MRmwInc     (* AtomicAdd(m_RunningCount,1) SplitAndAddTask *)
               | MReadRange  (* pTask->m_RangeToRun         TryRunTask / SplitAndAddTask *)
               | MBody       (* ExecuteRange: t() *)
               | MFree       (* delete *)
               | MRmwDec.    (* AtomicAdd(m_RunningCount,-1) after ExecuteRange returned *)
(* statements of schedule_internal's LocalTask::ExecuteRange *)
Inductive xstmt := XBody      (* t(); *)
                 | XFreeSelf  (* delete this; *)
                 | XDefer.    (* hand [this] to the per-thread slot: frees the task finished BEFORE on this thread *)

Definition ev := (mev * N)%type.
(* the submitting thread: schedule_internal + AddTaskSetToPipe up to the write into the pipe *)
Definition submit_events (t : N) : list ev := [(MAlloc, t); (MWriteRC, t); (MWriteRange, t); (MRmwInc, t)].

(* one ExecuteRange call on task t by a thread whose deferred slot holds [pending] *)
Fixpoint exec_range (xs : list xstmt) (t : N) (pending : option N) : list ev * option N :=
  match xs with
  | [] => ([], pending)
  | XBody :: r => let (e, p) := exec_range r t pending in ((MBody, t) :: e, p)
  | XFreeSelf :: r => let (e, p) := exec_range r t pending in ((MFree, t) :: e, p)
  | XDefer :: r => let (e, p) := exec_range r t (Some t) in
                   ((match pending with Some q => [(MFree, q)] | None => [] end) ++ e, p)
  end.
(* a thread running the tasks ts one after the other (TryRunTask, or the pipe-full branch of
   SplitAndAddTask): read m_RangeToRun; ExecuteRange; then the decrement — in the order the
   source has them; at thread exit the deferred slot (a unique_ptr) frees what it holds *)
Fixpoint thread_events (xs : list xstmt) (dec_after : bool) (pending : option N) (ts : list N) : list ev :=
  match ts with
  | [] => match pending with Some q => [(MFree, q)] | None => [] end
  | t :: r => let (e, p) := exec_range xs t pending in
              (MReadRange, t) :: (if dec_after then e ++ [(MRmwDec, t)] else (MRmwDec, t) :: e)
              ++ thread_events xs dec_after p r
  end.

(* checker: no event on a freed task, no double free *)
Fixpoint no_uaf (freed : list N) (tr : list ev) : bool :=
  match tr with
  | [] => true
  | (m, t) :: r => negb (existsb (N.eqb t) freed) &&
                   no_uaf (match m with MFree => t :: freed | _ => freed end) r
  end.
Definition frees (t : N) (tr : list ev) : nat :=
  countb (fun e : ev => match fst e with MFree => N.eqb (snd e) t | _ => false end) tr.
Definition bodies (t : N) (tr : list ev) : nat :=
  countb (fun e : ev => match fst e with MBody => N.eqb (snd e) t | _ => false end) tr.


(* ------------------------------------------------ nested execution on one thread (depth 1)
   While the user function t() of a scheduled task runs, it may block in a tasking wait (AsyncTask::get,
   parallel_for); its thread then helps out and executes other scheduled tasks [inner] NESTED, i.e. while
   the outer ExecuteRange is still on the stack.  Statement: a task object is never freed while its
   ExecuteRange is on the stack — the reclaim slot is written only after the user function returned. *)
Inductive nev := NEnter (t : N) | NLeave (t : N) | NBody (t : N) | NFree (t : N) | NDec (t : N).
Definition opt_free (p : option N) : list nev := match p with Some q => [NFree q] | None => [] end.
Fixpoint leaf_range (xs : list xstmt) (t : N) (pending : option N) : list nev * option N :=
  match xs with
  | [] => ([], pending)
  | XBody :: r => let (e, p) := leaf_range r t pending in (NBody t :: e, p)
  | XFreeSelf :: r => let (e, p) := leaf_range r t pending in (NFree t :: e, p)
  | XDefer :: r => let (e, p) := leaf_range r t (Some t) in (opt_free pending ++ e, p)
  end.
Definition leaf_run (xs : list xstmt) (t : N) (pending : option N) : list nev * option N :=
  let (e, p) := leaf_range xs t pending in (NEnter t :: e ++ [NLeave t; NDec t], p).
Fixpoint leaves_run (xs : list xstmt) (ts : list N) (pending : option N) : list nev * option N :=
  match ts with
  | [] => ([], pending)
  | t :: r => let (e, p) := leaf_run xs t pending in let (e2, p2) := leaves_run xs r p in (e ++ e2, p2)
  end.
Fixpoint outer_range (xs0 xs : list xstmt) (t : N) (inner : list N) (pending : option N) : list nev * option N :=
  match xs with
  | [] => ([], pending)
  | XBody :: r => let (ei, p1) := leaves_run xs0 inner pending in
                  let (e, p) := outer_range xs0 r t inner p1 in (NBody t :: ei ++ e, p)
  | XFreeSelf :: r => let (e, p) := outer_range xs0 r t inner pending in (NFree t :: e, p)
  | XDefer :: r => let (e, p) := outer_range xs0 r t inner (Some t) in (opt_free pending ++ e, p)
  end.
Definition outer_run (xs : list xstmt) (t : N) (inner : list N) (pending : option N) : list nev :=
  let (e, p) := outer_range xs xs t inner pending in
  NEnter t :: e ++ [NLeave t; NDec t] ++ opt_free p (* thread exit *).
Definition memN (t : N) (l : list N) : bool := existsb (N.eqb t) l.
Fixpoint stack_safe (stack freed : list N) (tr : list nev) : bool :=
  match tr with
  | [] => true
  | NEnter t :: r => negb (memN t freed) && stack_safe (t :: stack) freed r
  | NLeave t :: r => stack_safe (filter (fun u => negb (N.eqb u t)) stack) freed r
  | NBody t :: r | NDec t :: r => negb (memN t freed) && stack_safe stack freed r
  | NFree t :: r => negb (memN t stack) && negb (memN t freed) && stack_safe stack (t :: freed) r
  end.
(* the shapes checked: 0..3 nested tasks, slot empty or holding an earlier task *)
Definition nested_shapes : list (list N * option N) :=
  [([], None); ([], Some 9); ([2], None); ([2], Some 9); ([2; 3], None); ([2; 3], Some 9); ([2; 3; 4], Some 9)]%N.
Definition nested_ok (xs : list xstmt) : bool :=
  forallb (fun s => stack_safe [] [] (outer_run xs 1%N (fst s) (snd s))) nested_shapes.
Definition exec_range_defer_first := [XDefer; XBody].   (* the slot written BEFORE the user function runs *)


Definition exec_range_old := [XBody; XFreeSelf].     (* as found *)
Definition exec_range_fixed := [XBody; XDefer].      (* repaired: reclaim after the scheduler's decrement *)

(* ------------------------------------------------ the reclaim slot at thread exit and AFTER it
   The per-thread slot holds the task this thread finished last; it is reclaimed by the next finish on the same thread or at
   thread exit (TLS destructors).  At PROCESS exit the main thread's TLS destructors run BEFORE the static destructor of the
   scheduler, which then drains the queued tasks on the main thread: ExecuteRange writes the slot again, after the slot's own
   thread-exit destruction.  A plain pointer (trivially destructible) is still a valid empty slot then; an owning object
   (unique_ptr) has been destroyed: using it is a use of a dead object (double delete of the task it held). *)
Inductive slotkind := SlotRawPointer | SlotOwningObject | SlotUnknown.
Definition slot_usable_after_tls_destruction (k : slotkind) : bool := match k with SlotRawPointer => true | _ => false end.
(* tasks run by the thread after its TLS destructors: like thread_events with the repaired ExecuteRange, but nothing frees the
   last one any more (it stays reachable from the slot until the process ends) *)
Fixpoint drain_events (pending : option N) (ts : list N) : list ev :=
  match ts with
  | [] => []
  | t :: r => (MReadRange, t) :: (MBody, t) :: (match pending with Some q => [(MFree, q)] | None => [] end) ++ (MRmwDec, t) :: drain_events (Some t) r
  end.
(* before: tasks run before thread exit; TLS destruction frees the slot; after: tasks drained afterwards. None: the slot is dead *)
Definition exit_history (k : slotkind) (pending : option N) (before after : list N) : option (list ev) :=
  match after with
  | [] => Some (thread_events exec_range_fixed true pending before)
  | _ => if slot_usable_after_tls_destruction k
         then Some (thread_events exec_range_fixed true pending before ++ drain_events None after) else None
  end.
Definition exit_history_ok (k : slotkind) (pending : option N) (before after : list N) : bool :=
  match exit_history k pending before after with
  | Some tr => no_uaf [] tr &&
               forallb (fun t => Nat.eqb (bodies t tr) 1) (before ++ after) &&
               forallb (fun t => Nat.eqb (frees t tr) 1) (before ++ removelast after) &&
               forallb (fun t => Nat.eqb (frees t tr) 0) (match after with [] => [] | _ => [last after 0%N] end)
  | None => false
  end.
Definition exit_shapes : list (option N * list N * list N) :=
  [(None, [], [1; 2; 3]); (None, [1; 2], [3; 4; 5]); (Some 9, [1], [2]); (None, [1; 2; 3], []); (Some 9, [], []); (None, [1], [2; 3; 4; 5; 6])]%N.
Definition exit_shapes_ok (k : slotkind) : bool := forallb (fun s => exit_history_ok k (fst (fst s)) (snd (fst s)) (snd s)) exit_shapes.

