#!/bin/bash
# regenerate gen/Facts.v (AsyncTask member/statement order facts from the clang AST; used by bin/setup); props/C02/check.py does the same on every run.
cd "$(dirname "$0")"
mkdir -p gen ../../build/C02/ast
inc=$(python3 ../../lib/mkversion.py 2>/dev/null | tail -1)
exec python3 ../../tools/c02facts/gen_facts.py "${VERIF_REPO:-/repo}" "$inc" gen/Facts.v ../../build/C02/ast >/dev/null 2>&1
