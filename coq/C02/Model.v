(* C02 — AsyncTask<T> lifetime system (rkcommon/tasking/AsyncTask.h, detail/async_task.inl)
   as a finite two-thread interleaving model.  Definitions only; proofs are in Proofs.v.

   The system is parameterised by a table of SOURCE-DERIVED facts (record [facts]; the
   instance for the current working tree is generated into gen/Facts.v on every run by
   tools/c02facts/gen_facts.py from the clang AST): member declaration order (= construction
   order), statement order of the task lambda, the shape of get() and of the destructor. *)
From Coq Require Import List Bool Arith.
Import ListNotations.

(* ------------------------------------------------------------------ vocabulary *)
Inductive member := MFlag (* jobFinished *) | MImpl (* taskImpl *) | MRet (* retValue *).
Inductive life := Raw | Live | Dead.
Inductive val := VIndet (* indeterminate *) | VDefault (* T() *) | VResult (* what fcn() returned *).
Inductive launch := Spawn (* TBB / OpenMP / Internal: task runs on another logical thread *)
                  | Call  (* Debug: the AsyncTaskImpl constructor runs fcn() synchronously *).
(* statements of the task lambda [this, fcn]() { ... } *)
Inductive tstmt := StAssignRet (* retValue = fcn(); *) | StSetFlag (* jobFinished = true; *).
(* shape of T get() *)
Inductive getkind := GetGuarded    (* if (!jobFinished) wait(); return retValue; *)
                   | GetAlwaysWait (* wait(); return retValue; *)
                   | GetNoWait     (* return retValue; *).
(* memory order of an operation on jobFinished (MNonAtomic: the flag is not a std::atomic) *)
Inductive morder := MNonAtomic | MRelaxed | MConsume | MAcquire | MRelease | MAcqRel | MSeqCst.
Definition releases (o : morder) : bool := match o with MRelease | MAcqRel | MSeqCst => true | _ => false end.
Definition acquires (o : morder) : bool := match o with MAcquire | MAcqRel | MSeqCst => true | _ => false end.
(* get() returns retValue WITHOUT waiting once it has read the flag as true: the flag is then the only thing that orders
   "retValue = fcn()" before "return retValue".  It does so iff every store of the flag in the task is release-or-stronger
   and every load in finished()/valid()/get() is acquire-or-stronger (std::atomic's default seq_cst is both). *)
Definition flag_publishes (stores loads : list morder) : bool :=
  match stores with [] => false | _ => forallb releases stores && forallb acquires loads end.

Inductive errk := ERet  (* operation on retValue outside its lifetime *)
                | EFlag (* access to jobFinished outside its lifetime *)
                | EImpl (* wait on / destruction of taskImpl outside its lifetime, or destruction while the task runs *)
                | ERace (* get() took the no-wait path on a flag that does not publish the result: data race on retValue *).
(* events on the retValue slot (what the instrumented payload of the harness records) *)
Inductive sev := SConstruct | SAssign | SRead | SDestroy.

Record facts := mkfacts {
  f_order : list member;       (* declaration order of the data members of AsyncTask<T> *)
  f_task : list tstmt;         (* statement order of the task lambda *)
  f_get : getkind;
  f_dtor_waits : bool;         (* ~AsyncTask calls wait() *)
  f_flag_publishes : bool      (* flag_publishes (orders of the flag stores) (orders of the flag loads): an atomic flag whose
                                  stores are release-or-stronger and whose loads are acquire-or-stronger *)
}.
Record cfg := mkcfg { c_facts : facts; c_launch : launch; c_trivial : bool }.

(* ------------------------------------------------ storage-lifetime machine of retValue
   Raw -> Live v -> Dead.  Non-trivial T: construct needs Raw (gives T()), assign / read /
   destroy need Live.  Trivially constructible T: the lifetime starts with the storage, so
   construction is a no-op on the value and assignment / read are allowed on Raw storage. *)
Definition slot := (life * val)%type.
Definition slot0 : slot := (Raw, VIndet).
Definition slot_step (trivial : bool) (s : slot) (e : sev) : option slot :=
  let (l, v) := s in
  match e with
  | SConstruct => match l with
                  | Raw => Some (Live, if trivial then v else VDefault)
                  | _ => None end
  | SAssign => match l with
               | Live => Some (Live, VResult)
               | Raw => if trivial then Some (Raw, VResult) else None
               | Dead => None end
  | SRead => match l with
             | Live => Some (l, v)
             | Raw => if trivial then Some (l, v) else None
             | Dead => None end
  | SDestroy => match l with
                | Live => Some (Dead, v)
                | Raw => if trivial then Some (Dead, v) else None
                | Dead => None end
  end.
Fixpoint slot_run (trivial : bool) (s : slot) (tr : list sev) : option slot :=
  match tr with
  | [] => Some s
  | e :: r => match slot_step trivial s e with Some s' => slot_run trivial s' r | None => None end
  end.
(* the values returned by the reads of an accepted trace *)
Fixpoint slot_reads (trivial : bool) (s : slot) (tr : list sev) : list val :=
  match tr with
  | [] => []
  | e :: r => match slot_step trivial s e with
              | Some s' => (match e with SRead => [snd s] | _ => [] end) ++ slot_reads trivial s' r
              | None => [] end
  end.

(* ---------------------------------------------------------------------- state *)
Inductive top := TCallFcn | TAssign | TSetFlag.        (* micro-operations of the task *)
Definition expand (st : tstmt) : list top :=
  match st with StAssignRet => [TCallFcn; TAssign] | StSetFlag => [TSetFlag] end.
Definition tprog (f : facts) : list top := flat_map expand (f_task f).

Inductive tpc := TNone | TRun (k : nat) | TDone.
Inductive cpc :=
  | CCons (k : nat)   (* about to construct member number k (declaration order) *)
  | CIdle             (* between client calls *)
  | CGet0             (* get(): about to test the flag *)
  | CGetW             (* get(): inside wait() *)
  | CGetR             (* get(): about to copy retValue *)
  | CWaitW            (* wait() *)
  | CDtorW            (* ~AsyncTask: inside wait() *)
  | CDtor (k : nat)   (* ~AsyncTask: about to destroy member number k of the reverse order *)
  | CDone.            (* destructor has returned: the storage of the AsyncTask is released *)

Record state := mk {
  cp : cpc; tp : tpc;
  lflag : life; vflag : bool;      (* jobFinished *)
  limpl : life;                    (* taskImpl *)
  lret : life; vret : val;         (* retValue *)
  calls : nat;                     (* how often fcn was invoked (capped at 2) *)
  fin_seen : bool;                 (* some finished() call has returned true *)
  got : option val;                (* value returned by the latest get() *)
  err : option errk }.

Definition init : state := mk (CCons 0) TNone Raw false Raw Raw VIndet 0 false None None.

Definition set_cp s x := mk x (tp s) (lflag s) (vflag s) (limpl s) (lret s) (vret s) (calls s) (fin_seen s) (got s) (err s).
Definition set_tp s x := mk (cp s) x (lflag s) (vflag s) (limpl s) (lret s) (vret s) (calls s) (fin_seen s) (got s) (err s).
Definition set_flag s l v := mk (cp s) (tp s) l v (limpl s) (lret s) (vret s) (calls s) (fin_seen s) (got s) (err s).
Definition set_impl s l := mk (cp s) (tp s) (lflag s) (vflag s) l (lret s) (vret s) (calls s) (fin_seen s) (got s) (err s).
Definition set_ret s (x : slot) := mk (cp s) (tp s) (lflag s) (vflag s) (limpl s) (fst x) (snd x) (calls s) (fin_seen s) (got s) (err s).
Definition set_calls s n := mk (cp s) (tp s) (lflag s) (vflag s) (limpl s) (lret s) (vret s) n (fin_seen s) (got s) (err s).
Definition set_fin s b := mk (cp s) (tp s) (lflag s) (vflag s) (limpl s) (lret s) (vret s) (calls s) b (got s) (err s).
Definition set_got s g := mk (cp s) (tp s) (lflag s) (vflag s) (limpl s) (lret s) (vret s) (calls s) (fin_seen s) g (err s).
Definition set_err s e := mk (cp s) (tp s) (lflag s) (vflag s) (limpl s) (lret s) (vret s) (calls s) (fin_seen s) (got s) (Some e).

(* an operation on the retValue slot: goes through the lifetime machine and is recorded
   as an event; outside the lifetime the state becomes an error state *)
Definition ret_op (c : cfg) (s : state) (e : sev) : list sev * state :=
  match slot_step (c_trivial c) (lret s, vret s) e with
  | Some x => ([e], set_ret s x)
  | None => ([e], set_err s ERet)
  end.

Definition is_live (l : life) := match l with Live => true | _ => false end.
Definition is_raw (l : life) := match l with Raw => true | _ => false end.
Definition t_done (s : state) := match tp s with TDone => true | _ => false end.
Definition t_running (s : state) := match tp s with TRun _ => true | _ => false end.
Definition no_err (s : state) := match err s with None => true | _ => false end.

(* ------------------------------------------------------------------ task thread *)
Definition t_next (c : cfg) (k : nat) : tpc :=
  if S k <? length (tprog (c_facts c)) then TRun (S k) else TDone.

Definition step_task (c : cfg) (s : state) : list (list sev * state) :=
  match tp s with
  | TRun k =>
    match nth_error (tprog (c_facts c)) k with
    | None => [([], set_tp s TDone)]
    | Some TCallFcn => [([], set_tp (set_calls s (Nat.min 2 (S (calls s)))) (t_next c k))]
    | Some TAssign => let (ev, s') := ret_op c s SAssign in [(ev, if no_err s' then set_tp s' (t_next c k) else s')]
    | Some TSetFlag =>
        if is_live (lflag s) then [([], set_tp (set_flag s Live true) (t_next c k))]
        else [([], set_err s EFlag)]
    end
  | _ => []
  end.

(* ---------------------------------------------------------------- client thread *)
Definition construct (c : cfg) (s : state) (m : member) : list sev * state :=
  match m with
  | MFlag => if is_raw (lflag s) then ([], set_flag s Live false) else ([], set_err s EFlag)
  | MImpl => if is_raw (limpl s)
             then ([], set_tp (set_impl s Live) (match tprog (c_facts c) with [] => TDone | _ => TRun 0 end))
             else ([], set_err s EImpl)
  | MRet => ret_op c s SConstruct
  end.

Definition destroy (c : cfg) (s : state) (m : member) : list sev * state :=
  match m with
  | MFlag => if is_live (lflag s) then ([], set_flag s Dead (vflag s)) else ([], set_err s EFlag)
  | MImpl => (* std::thread / task_group / the queued LocalTask must not be destroyed while the task runs *)
             if is_live (limpl s) && t_done s then ([], set_impl s Dead) else ([], set_err s EImpl)
  | MRet => ret_op c s SDestroy
  end.

(* taskImpl.wait(): needs a live taskImpl; returns only when the task thread has ended *)
Definition wait_step (s : state) (after : cpc) : list (list sev * state) :=
  if is_live (limpl s) then (if t_done s then [([], set_cp s after)] else [])
  else [([], set_err s EImpl)].

Definition step_client (c : cfg) (s : state) : list (list sev * state) :=
  let f := c_facts c in
  match cp s with
  | CCons k =>
    match nth_error (f_order f) k with
    | Some m => let (ev, s') := construct c s m in [(ev, if no_err s' then set_cp s' (CCons (S k)) else s')]
    | None => [([], set_cp s CIdle)]
    end
  | CIdle =>
    [ (* finished() *)
      (if is_live (lflag s) then ([], set_fin s (fin_seen s || vflag s)) else ([], set_err s EFlag));
      (* get() *)
      ([], set_cp s CGet0);
      (* wait() *)
      ([], set_cp s CWaitW);
      (* destructor *)
      ([], set_cp s (if f_dtor_waits f then CDtorW else CDtor 0)) ]
  | CGet0 =>
    match f_get f with
    | GetGuarded => if is_live (lflag s)
                    then (if vflag s
                          then (if f_flag_publishes f then [([], set_cp s CGetR)] else [([], set_err s ERace)])
                          else [([], set_cp s CGetW)])
                    else [([], set_err s EFlag)]
    | GetAlwaysWait => [([], set_cp s CGetW)]
    | GetNoWait => [([], set_cp s CGetR)]
    end
  | CGetW => wait_step s CGetR
  | CGetR => let (ev, s') := ret_op c s SRead in
             [(ev, if no_err s' then set_cp (set_got s' (Some (vret s))) CIdle else s')]
  | CWaitW => wait_step s CIdle
  | CDtorW => wait_step s (CDtor 0)
  | CDtor k =>
    match nth_error (rev (f_order f)) k with
    | Some m => let (ev, s') := destroy c s m in [(ev, if no_err s' then set_cp s' (CDtor (S k)) else s')]
    | None => [([], set_cp s CDone)]
    end
  | CDone => []
  end.

(* Debug backend: the constructing thread is inside fcn() while the task runs *)
Definition client_enabled (c : cfg) (s : state) : bool :=
  match c_launch c with Spawn => true | Call => negb (t_running s) end.

Definition succs_ev (c : cfg) (s : state) : list (list sev * state) :=
  if no_err s then (if client_enabled c s then step_client c s else []) ++ step_task c s else [].
Definition succs (c : cfg) (s : state) : list state := map snd (succs_ev c s).

(* ---------------------------------------------------------- decidable equality *)
Definition life_eqb (a b : life) := match a, b with Raw, Raw | Live, Live | Dead, Dead => true | _, _ => false end.
Definition val_eqb (a b : val) := match a, b with VIndet, VIndet | VDefault, VDefault | VResult, VResult => true | _, _ => false end.
Definition errk_eqb (a b : errk) := match a, b with ERet, ERet | EFlag, EFlag | EImpl, EImpl | ERace, ERace => true | _, _ => false end.
Definition opt_eqb {A} (e : A -> A -> bool) (a b : option A) :=
  match a, b with None, None => true | Some x, Some y => e x y | _, _ => false end.
Definition tpc_eqb (a b : tpc) :=
  match a, b with TNone, TNone | TDone, TDone => true | TRun x, TRun y => Nat.eqb x y | _, _ => false end.
Definition cpc_eqb (a b : cpc) :=
  match a, b with
  | CCons x, CCons y | CDtor x, CDtor y => Nat.eqb x y
  | CIdle, CIdle | CGet0, CGet0 | CGetW, CGetW | CGetR, CGetR | CWaitW, CWaitW | CDtorW, CDtorW | CDone, CDone => true
  | _, _ => false end.
Definition state_eqb (a b : state) : bool :=
  cpc_eqb (cp a) (cp b) && tpc_eqb (tp a) (tp b) && life_eqb (lflag a) (lflag b) && Bool.eqb (vflag a) (vflag b)
  && life_eqb (limpl a) (limpl b) && life_eqb (lret a) (lret b) && val_eqb (vret a) (vret b)
  && Nat.eqb (calls a) (calls b) && Bool.eqb (fin_seen a) (fin_seen b) && opt_eqb val_eqb (got a) (got b)
  && opt_eqb errk_eqb (err a) (err b).

(* --------------------------------------------- reachable-set exploration (fuelled BFS) *)
Definition mem (s : state) (l : list state) : bool := existsb (state_eqb s) l.
Fixpoint add_new (cands seen new : list state) : list state * list state :=
  match cands with
  | [] => (seen, new)
  | s :: r => if mem s seen then add_new r seen new else add_new r (s :: seen) (s :: new)
  end.
Fixpoint bfs (c : cfg) (fuel : nat) (frontier seen : list state) : option (list state) :=
  match frontier with
  | [] => Some seen
  | _ => match fuel with
         | O => None                                   (* out of fuel: no certificate *)
         | S f => let (seen', new) := add_new (flat_map (succs c) frontier) seen [] in bfs c f new seen'
         end
  end.
Definition fuel := 100%nat.
Definition explore (c : cfg) : option (list state) := bfs c fuel [init] [init].

(* the certificate test: the set contains init and is closed under every step *)
Definition closed (c : cfg) (l : list state) : bool :=
  mem init l && forallb (fun s => forallb (fun s' => mem s' l) (succs c s)) l.

Definition check (c : cfg) (safe : state -> bool) : bool :=
  match explore c with Some l => closed c l && forallb safe l | None => false end.
Definition count (c : cfg) : nat := match explore c with Some l => length l | None => 0 end.
Definition find_bad (c : cfg) (safe : state -> bool) : option state :=
  match explore c with Some l => find (fun s => negb (safe s)) l | None => None end.

(* ------------------------------------------------------------ safety predicates *)
(* (i) no operation on retValue (nor on the flag / the task handle) outside its lifetime *)
Definition safe_life (s : state) : bool := no_err s.
(* (ii) get() returns exactly the value fcn returned *)
Definition safe_get (s : state) : bool :=
  match got s with None => true | Some VResult => true | Some _ => false end.
(* (iii) once finished() has returned true, a get() that reaches wait() finds the task ended
   (no blocking step) — its value is covered by (ii) *)
Definition in_get_wait (s : state) := match cp s with CGetW => true | _ => false end.
Definition safe_fin (s : state) : bool := implb (fin_seen s && in_get_wait s) (t_done s).
(* (iv) when ~AsyncTask has returned the task thread has terminated *)
Definition c_done (s : state) := match cp s with CDone => true | _ => false end.
Definition safe_dtor (s : state) : bool := implb (c_done s) (t_done s).
(* fcn is invoked at most once, and exactly once when the task has ended *)
Definition safe_once (s : state) : bool :=
  (calls s <=? 1) && implb (t_done s) (calls s =? 1).
(* no deadlock: every state other than "destructor returned" has a successor *)
Definition safe_live (c : cfg) (s : state) : bool :=
  c_done s || negb (no_err s) || match succs c s with [] => false | _ => true end.
Definition safe_all (c : cfg) (s : state) : bool :=
  safe_life s && safe_get s && safe_fin s && safe_dtor s && safe_once s && safe_live c s.

(* the task is launched asynchronously and needs no client action to finish:
   in Spawn mode a launched task always has an enabled step *)
Definition task_enabled (c : cfg) (s : state) : bool :=
  implb (t_running s && no_err s) (match step_task c s with [] => false | _ => true end).

(* ------------------------------------------------------------- the two member orders *)
Definition facts_fixed : facts := mkfacts [MFlag; MRet; MImpl] [StAssignRet; StSetFlag] GetGuarded true true.
(* as found: retValue declared AFTER taskImpl *)
Definition facts_old : facts := mkfacts [MFlag; MImpl; MRet] [StAssignRet; StSetFlag] GetGuarded true true.

(* client-visible summary used by the extracted driver: all final outcomes of the client
   script "construct; get(); destroy" — not needed by the proofs *)
Definition all_cfgs (f : facts) : list cfg :=
  [mkcfg f Spawn false; mkcfg f Spawn true; mkcfg f Call false; mkcfg f Call true].
