(* C02 — property theorems about the model (repaired member order, and the order as found).
   Each theorem is closed by [exact] of a lemma of Proofs.v / ProofsSched.v.
   The same theorems instantiated at the SOURCE-DERIVED fact table are in PropertiesSrc.v. *)
From Common Require Import Prelude.
From Coq Require Import Permutation.
From C02 Require Import Model Proofs Sched ProofsSched.

(* ---- AsyncTask<T>: all interleavings of constructing/client thread and task thread, any
   client sequence over finished()/get()/wait() followed by the destructor, both launch modes
   (Spawn: TBB/OpenMP/Internal; Call: Debug), trivial and non-trivial T ---- *)

(* soundness of the reflective check: an inductive invariant, no depth bound *)
Theorem asynctask_check_sound : forall c safe,
  check c safe = true -> forall s, reachable c s -> safe s = true.
Proof. exact check_sound. Qed.
Print Assumptions asynctask_check_sound.

Definition fixed_cfg l t := mkcfg facts_fixed l t.

(* (i) no operation on retValue (nor on jobFinished / taskImpl) outside its lifetime *)
Theorem asynctask_lifetime_safe : forall l t s, reachable (fixed_cfg l t) s -> err s = None.
Proof. intros l t s R. eapply safe_all_life. exact (check_all_sound facts_fixed fixed_ok l t s R). Qed.
Print Assumptions asynctask_lifetime_safe.

(* (ii) get() returns exactly the value fcn returned.  HYPOTHESIS carried by facts_fixed (f_flag_publishes = true): the
   store of jobFinished in the task is release-or-stronger and its loads are acquire-or-stronger — the flag is what orders
   "retValue = fcn()" before the no-wait "return retValue"; see asynctask_relaxed_flag_refuted *)
Theorem asynctask_get_value : forall l t s, reachable (fixed_cfg l t) s -> forall v, got s = Some v -> v = VResult.
Proof. intros l t s R. eapply safe_all_get. exact (check_all_sound facts_fixed fixed_ok l t s R). Qed.
Print Assumptions asynctask_get_value.

(* (iii) finished() = true  =>  a later get() never blocks: if it reaches wait() at all the task has ended
   (its value is (ii)) *)
Theorem asynctask_finished_nonblocking : forall l t s, reachable (fixed_cfg l t) s ->
  fin_seen s = true -> cp s = CGetW -> tp s = TDone.
Proof. intros l t s R. eapply safe_all_fin. exact (check_all_sound facts_fixed fixed_ok l t s R). Qed.
Print Assumptions asynctask_finished_nonblocking.

(* (iv) when ~AsyncTask has returned the task thread has terminated *)
Theorem asynctask_dtor_joins : forall l t s, reachable (fixed_cfg l t) s -> cp s = CDone -> tp s = TDone.
Proof. intros l t s R. eapply safe_all_dtor. exact (check_all_sound facts_fixed fixed_ok l t s R). Qed.
Print Assumptions asynctask_dtor_joins.

(* fcn is invoked at most once, and exactly once when the task has ended *)
Theorem asynctask_fcn_once : forall l t s, reachable (fixed_cfg l t) s ->
  calls s <= 1 /\ (tp s = TDone -> calls s = 1).
Proof. intros l t s R. eapply safe_all_once. exact (check_all_sound facts_fixed fixed_ok l t s R). Qed.
Print Assumptions asynctask_fcn_once.

(* no deadlock: until the destructor has returned some thread can always step *)
Theorem asynctask_no_deadlock : forall l t s, reachable (fixed_cfg l t) s ->
  cp s <> CDone -> exists s', In s' (succs (fixed_cfg l t) s).
Proof. intros l t s R. eapply safe_all_live. exact (check_all_sound facts_fixed fixed_ok l t s R). Qed.
Print Assumptions asynctask_no_deadlock.

(* sizes of the explored invariants (Spawn/non-trivial, Spawn/trivial, Call/non-trivial, Call/trivial) *)
Theorem asynctask_state_counts : map count (all_cfgs facts_fixed) = [63; 63; 47; 47]%nat.
Proof. exact Proofs.fixed_counts. Qed.
Print Assumptions asynctask_state_counts.

(* the member order as found (retValue declared AFTER taskImpl) is refuted for non-trivial T:
   the task assigns retValue before it is constructed — asynchronous backends and Debug *)
Theorem asynctask_member_order_old_refuted :
  (exists s, reachable (mkcfg facts_old Spawn false) s /\ err s = Some ERet) /\
  (exists s, reachable (mkcfg facts_old Call false) s /\ err s = Some ERet).
Proof. exact (conj old_refuted_spawn old_refuted_call). Qed.
Print Assumptions asynctask_member_order_old_refuted.

(* ... while for trivially constructible T it is harmless (why the int/float unit tests pass) *)
Theorem asynctask_member_order_old_trivial_harmless :
  check (mkcfg facts_old Spawn true) (safe_all (mkcfg facts_old Spawn true)) = true /\
  check (mkcfg facts_old Call true) (safe_all (mkcfg facts_old Call true)) = true.
Proof. exact old_trivial_ok. Qed.
Print Assumptions asynctask_member_order_old_trivial_harmless.

(* trace validation: the acceptance function run by the extracted driver on the harness'
   instrumented-payload traces accepts the slot trace of every error-free execution *)
Theorem asynctask_trace_accepted : forall c tr s, exec c init tr s -> err s = None ->
  slot_run (c_trivial c) slot0 tr = Some (lret s, vret s).
Proof. exact trace_accepted. Qed.
Print Assumptions asynctask_trace_accepted.

(* non-vacuity: construct, finished()=true, get()=result, destroy is reachable in every configuration *)
Example asynctask_good_end_reachable : forall l t, exists s, reachable (fixed_cfg l t) s /\ good_end s = true.
Proof. exact good_end_reachable. Qed.

(* the checker refutes realistic slips and accepts harmless reorderings *)
Example asynctask_flag_before_assign_refuted : check (mkcfg facts_flag_first Spawn false) safe_get = false.
Proof. exact flag_first_refuted. Qed.
Example asynctask_dtor_not_waiting_refuted : check (mkcfg facts_no_dtor_wait Spawn false) safe_life = false.
Proof. exact no_dtor_wait_refuted. Qed.
Example asynctask_get_not_waiting_refuted : check (mkcfg facts_get_nowait Spawn false) safe_get = false.
Proof. exact get_nowait_refuted. Qed.
Example asynctask_relaxed_flag_refuted :
  check (mkcfg facts_relaxed_flag Spawn false) safe_life = false /\ check (mkcfg facts_relaxed_flag Spawn true) safe_life = false.
Proof. exact relaxed_flag_refuted. Qed.
Example asynctask_relaxed_flag_harmless_if_get_always_waits : check_all facts_relaxed_always_wait = true.
Proof. exact relaxed_always_wait_ok. Qed.
Example asynctask_flag_publishes_examples :
  flag_publishes [MSeqCst] [MSeqCst; MSeqCst] = true /\ flag_publishes [MRelease] [MAcquire] = true /\
  flag_publishes [MRelaxed] [MSeqCst] = false /\ flag_publishes [MSeqCst] [MRelaxed] = false /\
  flag_publishes [MSeqCst] [MConsume] = false /\ flag_publishes [MNonAtomic] [MNonAtomic] = false /\ flag_publishes [] [MSeqCst] = false.
Proof. exact flag_publishes_table. Qed.
Example asynctask_harmless_variants_ok : check_all facts_ret_first = true /\ check_all facts_always_wait = true.
Proof. exact harmless_ok. Qed.

(* ---- async() ---- *)
(* the heap packaged_task: allocated, get_future, invoked exactly once, deleted exactly once after use *)
Theorem async_heap_task_deleted_once : async_ok async_pre_ref [] async_body_ref 1 = true.
Proof. exact async_ref_ok. Qed.
Print Assumptions async_heap_task_deleted_once.

(* given "the closure runs exactly once" and the packaged_task/future contract, the future yields fcn's value *)
Theorem async_future_value : forall (T : Type) (fcn : unit -> T) tr,
  trace_ok tr = true -> future_get T fcn tr = Some (fcn tt).
Proof. exact future_value_of_ok. Qed.
Print Assumptions async_future_value.

Example async_slips_refuted :
  async_ok async_pre_ref [] [ADelete; AInvoke] 1 = false /\ async_ok async_pre_ref [] [AInvoke] 1 = false /\
  async_ok async_pre_ref [] async_body_ref 2 = false /\ async_ok async_pre_ref [] async_body_ref 0 = false /\
  async_ok [AAlloc] [AGetFuture] async_body_ref 1 = false.
Proof.
  exact (conj async_delete_first_refuted (conj async_no_delete_refuted (conj async_run_twice_refuted
        (conj async_never_run_refuted async_future_after_schedule_refuted)))).
Qed.

(* ---- schedule(): exactly once, from the backend contract ---- *)
(* TBB task_arena::enqueue / detached std::thread: ORACLES with the stated contract *)
Theorem schedule_exactly_once : forall (C : Type) (dec : forall a b : C, {a = b} + {a <> b})
  (executed : list C -> list C), (forall q, Permutation (executed q) q) ->
  forall q c, count_occ dec (executed q) c = count_occ dec q c.
Proof. exact ProofsSched.schedule_exactly_once. Qed.
Print Assumptions schedule_exactly_once.

(* Debug backend: synchronous call satisfies the contract outright *)
Theorem schedule_debug_contract : forall (C : Type) (q : list C), Permutation (debug_executed q) q.
Proof. exact debug_contract. Qed.
Print Assumptions schedule_debug_contract.

(* Internal backend: a scheduled closure is a ONE-piece task set for every thread count and
   whether or not the pipe is full ... *)
Theorem schedule_internal_one_piece : forall nt full,
  add_task_set 1 1 nt full = Some [(0, 1, match full with true :: _ => Inline | _ => Queued end)]%N.
Proof. exact one_piece. Qed.
Print Assumptions schedule_internal_one_piece.

(* ... so ExecuteRange (= one call of the closure) is invoked exactly once, given the pipe contract.
   The contract needs a thread that keeps popping: with ONE tasking thread there is no worker and
   the piece waits until the caller itself waits (known finding, see schedule_internal_progress) *)
Theorem schedule_once_internal : forall (popped : list (N * N) -> list (N * N)),
  (forall w, Permutation (popped w) w) ->
  forall nt full, exec_invocations popped nt full = Some [(0, 1)]%N.
Proof. exact ProofsSched.schedule_once_internal. Qed.
Print Assumptions schedule_once_internal.


(* The pipe contract used above, made explicit on a bounded-bag model of LockLessMultiReadPipe:
   a write either FAILS (pipe full; SplitAndAddTask then runs the piece inline on the writer) or stores
   the piece, and a stored piece is later handed to exactly one reader.  Then a burst of schedule() calls
   of any length from one thread, with no reader popping meanwhile (all workers busy), loses and
   duplicates nothing, and never holds more than [cap] pieces.  The harness scenario "parkburst"
   (workers parked, 300 / 1000 > 256 pending closures) is what exercises this contract on the real pipe. *)
Theorem schedule_internal_burst_exactly_once : forall (popped : list N -> list N),
  (forall w, Permutation (popped w) w) ->
  forall cap ids, Permutation (burst_executed popped cap ids) ids.
Proof. exact burst_exactly_once. Qed.
Print Assumptions schedule_internal_burst_exactly_once.

Theorem schedule_internal_burst_bounded : forall cap ids,
  (length (fst (burst (pipe_write cap) [] [] ids)) <= cap)%nat.
Proof. intros cap ids. apply (proj2 (burst_accounts cap ids [] [])). simpl. lia. Qed.
Print Assumptions schedule_internal_burst_bounded.

(* a pipe whose "full" test is wrong (overwrites the oldest unread entry) loses a closure *)
Example schedule_internal_overwriting_pipe_refuted :
  let r := burst (pipe_write_overwriting 2) [] [] [1; 2; 3]%N in
  count_occ N.eq_dec (snd r ++ fst r) 1%N = 0%nat.
Proof. exact overwriting_pipe_loses. Qed.

(* StartThreads creates nt-1 workers: someone other than the caller can pop iff nt >= 2 *)
Definition worker_threads (nt : N) : N := (nt - 1)%N.
Theorem schedule_internal_progress_partial : forall nt, (2 <= nt)%N -> (1 <= worker_threads nt)%N.
Proof. intros nt H. unfold worker_threads. lia. Qed.
Theorem schedule_internal_progress_one_thread_refuted : worker_threads 1 = 0%N.
Proof. reflexivity. Qed.

(* ---- the heap LocalTask of schedule_internal ---- *)
(* repaired ExecuteRange { t(); hand this to the per-thread slot }: on every thread history no
   access to a task object follows its free (the scheduler's final decrement precedes it) *)
Theorem schedule_internal_no_uaf : forall ts pending freed,
  NoDup (opt_list pending ++ ts) ->
  (forall t, In t (opt_list pending ++ ts) -> ~ In t freed) ->
  no_uaf freed (thread_events exec_range_fixed true pending ts) = true.
Proof. exact fixed_no_uaf. Qed.
Print Assumptions schedule_internal_no_uaf.

(* each task run by the thread: closure body once, object freed exactly once (at the latest at thread exit) *)
Theorem schedule_internal_freed_once : forall ts pending t,
  NoDup (opt_list pending ++ ts) -> In t ts ->
  frees t (thread_events exec_range_fixed true pending ts) = 1%nat /\
  bodies t (thread_events exec_range_fixed true pending ts) = 1%nat.
Proof. exact fixed_free_counts. Qed.
Print Assumptions schedule_internal_freed_once.

(* as found: ExecuteRange { t(); delete this; } and then AtomicAdd(&m_RunningCount,-1): use after free *)
Theorem schedule_internal_no_uaf_old_refuted :
  exists t, no_uaf [] (submit_events t ++ thread_events exec_range_old true None [t]) = false.
Proof. exact old_uaf_refuted. Qed.
Print Assumptions schedule_internal_no_uaf_old_refuted.

(* nested execution (a scheduled closure waits inside the tasking system and its thread runs other scheduled
   closures meanwhile): a task object is never freed while its ExecuteRange is on the stack, because the
   reclaim slot is written only after the user function returned.  Checked on the shapes of nested_shapes
   (0..3 nested tasks, slot empty / occupied; nesting depth 1) — instances, not a general theorem. *)
Theorem schedule_internal_nested_not_freed_on_stack_instances : nested_ok exec_range_fixed = true.
Proof. exact nested_fixed_ok. Qed.
Print Assumptions schedule_internal_nested_not_freed_on_stack_instances.
(* writing the slot BEFORE the user function is refuted by one nested task, though flat histories cannot tell *)
Example schedule_internal_defer_before_body_refuted :
  stack_safe [] [] (outer_run exec_range_defer_first 1%N [2%N] None) = false /\
  no_uaf [] (submit_events 1%N ++ thread_events exec_range_defer_first true None [1; 2; 3]%N) = true.
Proof. exact (conj nested_defer_first_refuted defer_first_flat_ok). Qed.

(* The "eventually" of schedule() on the internal backend rests on the wake-up handshake: the scheduling thread
   publishes the task and then checks m_NumThreadsWaiting, the idle worker publishes m_NumThreadsWaiting and then
   checks the pipes.  Store-buffer litmus (x86-TSO, 4 memory/buffer bits): both checks can miss both publications —
   a lost wake-up, the closure is not run until something else wakes the worker — unless EACH side has a full fence
   between its store and its load. *)
Theorem schedule_internal_wakeup_needs_both_fences : forall fence_scheduler fence_worker,
  lost_wakeup_possible fence_scheduler fence_worker = negb (fence_scheduler && fence_worker).
Proof. exact litmus_iff. Qed.
Print Assumptions schedule_internal_wakeup_needs_both_fences.
(* as found: only the worker side is fenced (its increment is an atomic RMW); the scheduler side reads plainly *)
Example schedule_internal_wakeup_as_found_refuted : lost_wakeup_possible false true = true.
Proof. exact (proj1 (proj2 litmus_table)). Qed.

(* a static arena handle (one per closure type, attached by whichever thread called first) is not the reference shape *)
Example schedule_impl_static_arena_rejected :
  glue_ok (fun b => match b with BTbb => [SUnknown; SEnqueue] | _ => sched_impl_ref b end) impl_ctor_ref impl_wait_ref = false
  /\ glue_ok sched_impl_ref impl_ctor_ref impl_wait_ref = true.
Proof. split; reflexivity. Qed.

(* "a stored piece goes to exactly ONE reader" (hypothesis pipe_contract of schedule_once_internal /
   schedule_internal_burst_exactly_once) requires every reader-side claim of a slot to be an atomic compare-and-swap:
   with one item queued, owner and thief race for the same slot *)
Theorem pipe_single_claim_needs_cas : forall owner thief,
  double_claim_possible owner thief = negb (match owner, thief with ClaimCAS, ClaimCAS => true | _, _ => false end).
Proof. exact double_claim_iff. Qed.
Print Assumptions pipe_single_claim_needs_cas.
(* check-then-store on the owner's side: both claimants succeed — the task body runs twice *)
Example pipe_check_then_store_refuted : double_claim_possible ClaimCheckThenStore ClaimCAS = true.
Proof. exact (proj1 (proj2 double_claim_table)). Qed.

(* ---- scheduler teardown (re-initialisation of the tasking system, process exit) ----
   Every task scheduled BEFORE teardown, and every follow-up scheduled by a task DURING teardown (any nesting depth), has
   run exactly once when WaitforAll — the drain step of ~TaskScheduler — returns, and the pipes are empty.  Stated for the
   loop as written ("||") with all workers waiting (in particular with one tasking thread, where there is no worker and
   teardown is what finally runs queued closures — cf. the open 1-thread finding, which is about running them WITHOUT it). *)
Theorem teardown_runs_everything_exactly_once : forall queue,
  exists done, teardown LOr queue = Some ([], done) /\ Permutation done (fids queue).
Proof. exact teardown_or_runs_everything. Qed.
Print Assumptions teardown_runs_everything_exactly_once.
(* "&&" instead of "||": the loop is never entered when no worker is busy — everything queued is dropped *)
Theorem teardown_with_and_drops_everything : forall queue, teardown LAnd queue = Some (queue, []).
Proof. exact teardown_and_drops. Qed.
Print Assumptions teardown_with_and_drops_everything.
(* with a busy worker whose task schedules follow-ups: "||" waits for it and drains them; "&&" leaves with work in flight *)
Example teardown_with_busy_worker :
  mt_example LOr = Some ([], [], [3; 2; 1]%N) /\ (exists q i d, mt_example LAnd = Some (q, i, d) /\ i <> []).
Proof. exact teardown_mt_examples. Qed.

(* one wake-up per successful push is what "executed eventually, no caller action" rests on when scheduled closures are
   long-running or wait for later-scheduled ones: with every worker asleep and n <= workers closures pushed back to back,
   nothing stays queued next to a sleeping worker *)
Theorem schedule_internal_wake_every_push_no_stranded : forall n workers, stranded WakeEveryPush n workers = 0%nat.
Proof. exact every_push_no_stranded. Qed.
Print Assumptions schedule_internal_wake_every_push_no_stranded.
(* waking only when the pipe goes from empty to non-empty: n-1 closures queued, workers asleep, no wake-up pending *)
Theorem schedule_internal_wake_on_empty_transition_refuted : forall n workers, (2 <= n)%nat -> (2 <= workers)%nat ->
  stranded WakeOnEmptyToNonEmpty n workers = (n - 1)%nat.
Proof. exact empty_transition_strands_general. Qed.
Print Assumptions schedule_internal_wake_on_empty_transition_refuted.

(* the per-thread reclaim slot: reclaimed by the next finish on the same thread or at thread exit; AFTER the thread-exit destruction
   (process exit: the scheduler's static destructor drains queued tasks on the main thread after its TLS destructors) a plain-pointer
   slot is still a valid empty slot: no use after free, every body once, every task but the very last freed once, the last one
   stays reachable.  Instances (exit_shapes: 0-3 tasks before exit, 0-5 drained after, slot empty / occupied), not a general theorem. *)
Theorem schedule_internal_exit_drain_instances : exit_shapes_ok SlotRawPointer = true.
Proof. exact exit_raw_pointer_ok. Qed.
Print Assumptions schedule_internal_exit_drain_instances.
(* an owning object (thread_local unique_ptr) as the slot is dead after the TLS destructors: draining then uses a destroyed object *)
Theorem schedule_internal_exit_owning_slot_refuted :
  exit_history SlotOwningObject None [1%N] [2%N] = None /\ exit_shapes_ok SlotOwningObject = false.
Proof. exact exit_owning_object_refuted. Qed.
Print Assumptions schedule_internal_exit_owning_slot_refuted.
