(* C02 <- C01: the pipe contract that coq/C02 states as a hypothesis
     (ProofsSched.v, Sections InternalOnce / BurstOnce:  Hypothesis pipe_contract : forall w, Permutation (popped w) w
      "at quiescence every piece written has been popped by exactly one reader")
   as a PROVED property of the micro-step model of LockLessMultiReadPipe (coq/C01/Pipe.v, PipeProofs.v, PipeStrand.v):
   in every reachable quiescent state of the pipe in which no slot is readable any more (the pipe has been drained), the
   items delivered (to the owner's WriterTryReadFront and the thieves' ReaderTryReadBack together) are a permutation of
   the items accepted by WriterTryWriteFront — for every interleaving, every size 2^k, any number of readers.
   The contract hypothesis of C02 is a FUNCTION popped defined for every list w; the pipe gives the RELATION
   "s is a drained quiescent reachable state with written s = w  ->  delivered s ~ w", which is what the C02 theorems use
   (they apply the hypothesis to the one list that was written).  The relational re-statements of the two C02 theorems
   are below, without any hypothesis about the pipe.  Progress (a quiescent state with queued items CAN be drained: the next
   solo read returns an item) is PipeStrand.nowrap_reader / nowrap_front, in the regime without index wrap. *)
From Coq Require Import List NArith Permutation Lia.
From C01 Require Import Pipe PipeProofs PipeStrand.
From C02 Require Import Sched ProofsSched.
Import ListNotations.
Local Open Scope N_scope.

Lemma claimed_quiescent n s : quiescent n s -> claimed n s = [].
Proof.
  intro Hq. unfold claimed, threads. assert (H : forall l, (forall t, In t l -> (t < n)%nat) ->
    flat_map (fun t => map (buf s) (opt_list (Pipe.claim (tls s t)))) l = []).
  { induction l as [|t l IH]; intro Hl; [reflexivity|]. cbn [flat_map].
    assert (Pipe.claim (tls s t) = None) as ->.
    { unfold Pipe.claim, Pipe.copied, Pipe.holds. rewrite (Hq t (Hl t (or_introl eq_refl))). reflexivity. }
    cbn. apply IH. intros t' Ht'. apply Hl. right. exact Ht'. }
  apply H. intros t Ht. apply in_seq in Ht. lia.
Qed.

(* the contract: a drained pipe has handed every accepted item to exactly one claimant, and nothing else *)
Theorem pipe_contract_proved : forall k w n, k < w -> forall s,
  reachable k w n s -> quiescent n s -> in_pipe k s = [] ->
  Permutation (map snd (delivered s)) (written s).
Proof.
  intros k w n Hkw s Hr Hq He. pose proof (PipeProofs.handoff_multiset k w n Hkw s Hr) as P.
  rewrite He, (claimed_quiescent n s Hq) in P. cbn in P. apply Permutation_sym. exact P.
Qed.

(* C02's burst theorem (schedule_internal_burst_exactly_once) with the hypothesis replaced by the pipe itself:
   the closures run inline by the writer + the items the drained pipe delivered = the closures scheduled *)
Theorem burst_exactly_once_on_pipe : forall k w n, k < w -> forall s cap ids,
  reachable k w n s -> quiescent n s -> in_pipe k s = [] ->
  Permutation (written s) (fst (burst (pipe_write cap) [] [] ids)) ->
  Permutation (snd (burst (pipe_write cap) [] [] ids) ++ map snd (delivered s)) ids.
Proof.
  intros k w n Hkw s cap ids Hr Hq He Hw.
  destruct (burst_accounts cap ids [] []) as [P _]. rewrite !app_nil_r in P.
  eapply Permutation_trans; [|exact P]. eapply Permutation_trans; [apply Permutation_app_comm|].
  apply Permutation_app_tail. eapply Permutation_trans; [apply (pipe_contract_proved k w n Hkw s Hr Hq He)|exact Hw].
Qed.

(* a single scheduled closure (C02 schedule_once_internal): if the pipe accepted the one piece and has been drained, it was
   delivered exactly once *)
Theorem one_piece_delivered_once : forall k w n, k < w -> forall s x,
  reachable k w n s -> quiescent n s -> in_pipe k s = [] -> written s = [x] -> map snd (delivered s) = [x].
Proof.
  intros k w n Hkw s x Hr Hq He Hw. pose proof (pipe_contract_proved k w n Hkw s Hr Hq He) as P. rewrite Hw in P.
  apply Permutation_sym in P. apply Permutation_length_1_inv in P. exact P.
Qed.

(* nothing accepted is lost by overwriting: the writer stores only into a slot whose flag is FLAG_CAN_WRITE *)
Theorem pipe_no_overwrite : forall k w n, k < w -> forall s t r rs, reachable k w n s ->
  tls s t = mkTl (Some MWrite) 5 r rs ->
  flags s (ract r) = FLAG_CAN_WRITE /\ (forall t', Pipe.holds (tls s t') <> Some (ract r)).
Proof.
  intros k w n Hkw s t r rs Hr El. destruct (PipeProofs.writer_never_overwrites k w n Hkw s t r rs Hr El) as [H1 [_ H3]]. auto.
Qed.

(* and a drained pipe is reached: while items are queued (and the indices have not wrapped) the next solo read returns one *)
Theorem pipe_progress : forall k w n, k < w -> forall s t,
  reachable k w n s -> quiescent n s -> in_pipe k s <> [] -> PipeStrand.NW w s -> (t < n)%nat ->
  exists fuel s' x, run_op k w n fuel s (t, OpRead) = Some (s', Some (true, x)) /\ In x (in_pipe k s).
Proof. exact PipeStrand.nowrap_reader. Qed.
