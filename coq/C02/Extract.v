From Coq Require Import Extraction ExtrOcamlBasic List.
From C02 Require Import Model Sched.
From C02.gen Require Import Facts.
Extraction "Model.ml" slot_run slot_reads slot0 check count find_bad safe_all all_cfgs facts_src facts_fixed facts_old
  succs_ev init async_ok async_pre_src async_post_src async_body_src
  thread_events no_uaf submit_events exec_range_src tryrun_dec_after_exec_src nested_ok.
