(* C02 — proofs about the AsyncTask lifetime system of Model.v.
   check_sound is proved once; the per-configuration theorems are closed by vm_compute. *)
From Coq Require Import List Bool Arith Lia.
From C02 Require Import Model.
Import ListNotations.

(* ------------------------------------------------------------ reachability *)
Inductive reachable (c : cfg) : state -> Prop :=
| R_init : reachable c init
| R_step : forall s s', reachable c s -> In s' (succs c s) -> reachable c s'.

(* executions with the events they emit on the retValue slot *)
Inductive exec (c : cfg) : state -> list sev -> state -> Prop :=
| E_nil : forall s, exec c s [] s
| E_step : forall s tr s1 ev s2, exec c s tr s1 -> In (ev, s2) (succs_ev c s1) -> exec c s (tr ++ ev) s2.

Lemma exec_reachable c tr s : exec c init tr s -> reachable c s.
Proof.
  remember init as s0 eqn:E. intro H. induction H as [s|s tr s1 ev s2 H IH Hin]; subst.
  - constructor.
  - eapply R_step; [apply IH; reflexivity|]. unfold succs. apply in_map_iff. exists (ev, s2). auto.
Qed.

(* ------------------------------------------------------- decidable equality *)
Lemma life_eqb_eq a b : life_eqb a b = true -> a = b.
Proof. destruct a, b; simpl; congruence. Qed.
Lemma val_eqb_eq a b : val_eqb a b = true -> a = b.
Proof. destruct a, b; simpl; congruence. Qed.
Lemma errk_eqb_eq a b : errk_eqb a b = true -> a = b.
Proof. destruct a, b; simpl; congruence. Qed.
Lemma opt_eqb_eq {A} (e : A -> A -> bool) (He : forall x y, e x y = true -> x = y) a b :
  opt_eqb e a b = true -> a = b.
Proof. destruct a, b; simpl; intro H; try congruence. f_equal. auto. Qed.
Lemma tpc_eqb_eq a b : tpc_eqb a b = true -> a = b.
Proof. destruct a, b; simpl; intro H; try congruence. apply Nat.eqb_eq in H. congruence. Qed.
Lemma cpc_eqb_eq a b : cpc_eqb a b = true -> a = b.
Proof. destruct a, b; simpl; intro H; try congruence; apply Nat.eqb_eq in H; congruence. Qed.

Lemma state_eqb_eq a b : state_eqb a b = true -> a = b.
Proof.
  unfold state_eqb. intro H.
  apply andb_true_iff in H as [H E0]. apply andb_true_iff in H as [H E1]. apply andb_true_iff in H as [H E2].
  apply andb_true_iff in H as [H E3]. apply andb_true_iff in H as [H E4]. apply andb_true_iff in H as [H E5].
  apply andb_true_iff in H as [H E6]. apply andb_true_iff in H as [H E7]. apply andb_true_iff in H as [H E8].
  apply andb_true_iff in H as [H E9].
  destruct a, b; simpl in *.
  apply cpc_eqb_eq in H. apply tpc_eqb_eq in E9. apply life_eqb_eq in E8. apply Bool.eqb_prop in E7.
  apply life_eqb_eq in E6. apply life_eqb_eq in E5. apply val_eqb_eq in E4. apply Nat.eqb_eq in E3.
  apply Bool.eqb_prop in E2. apply (opt_eqb_eq _ val_eqb_eq) in E1. apply (opt_eqb_eq _ errk_eqb_eq) in E0.
  congruence.
Qed.

Lemma mem_In s l : mem s l = true -> In s l.
Proof.
  unfold mem. intro H. apply existsb_exists in H as [x [Hx E]]. apply state_eqb_eq in E. subst. exact Hx.
Qed.

(* --------------------------------------------------------------- soundness *)
Lemma closed_sound c l : closed c l = true -> forall s, reachable c s -> In s l.
Proof.
  unfold closed. intro H. apply andb_true_iff in H as [Hi Hc].
  intros s R. induction R as [|s s' R IH Hs].
  - apply mem_In. exact Hi.
  - rewrite forallb_forall in Hc. specialize (Hc s IH). rewrite forallb_forall in Hc.
    apply mem_In. apply Hc. exact Hs.
Qed.

(* An inductive-invariant argument: the explored set is closed under all steps and
   contains init, hence contains every state reachable by an execution of any length. *)
Theorem check_sound c safe : check c safe = true -> forall s, reachable c s -> safe s = true.
Proof.
  unfold check. destruct (explore c) as [l|]; [|discriminate]. intro H.
  apply andb_true_iff in H as [Hc Hs]. intros s R.
  rewrite forallb_forall in Hs. apply Hs. eapply closed_sound; eauto.
Qed.

(* a state found in the explored set by a path: used for the refutation *)
Fixpoint run_path (c : cfg) (s : state) (p : list nat) : option state :=
  match p with
  | [] => Some s
  | i :: r => match nth_error (succs c s) i with Some s' => run_path c s' r | None => None end
  end.
Lemma run_path_reachable c p : forall s s', reachable c s -> run_path c s p = Some s' -> reachable c s'.
Proof.
  induction p as [|i r IH]; simpl; intros s s' R H.
  - congruence.
  - destruct (nth_error (succs c s) i) as [s1|] eqn:E; [|discriminate].
    eapply IH; [|exact H]. eapply R_step; [exact R|]. eapply nth_error_In; eauto.
Qed.

(* ------------------------------------------------ unpacking safe_all into Props *)
Lemma safe_all_life c s : safe_all c s = true -> err s = None.
Proof.
  unfold safe_all. intro H. repeat (apply andb_true_iff in H as [H _]).
  unfold safe_life, no_err in H. destruct (err s); congruence.
Qed.
Lemma safe_all_get c s : safe_all c s = true -> forall v, got s = Some v -> v = VResult.
Proof.
  unfold safe_all. intro H. do 4 (apply andb_true_iff in H as [H _]). apply andb_true_iff in H as [_ H].
  unfold safe_get in H. intros v E. rewrite E in H. destruct v; congruence.
Qed.
Lemma safe_all_fin c s : safe_all c s = true -> fin_seen s = true -> cp s = CGetW -> tp s = TDone.
Proof.
  unfold safe_all. intro H. do 3 (apply andb_true_iff in H as [H _]). apply andb_true_iff in H as [_ H].
  unfold safe_fin, in_get_wait, t_done in H. intros F C. rewrite F, C in H. simpl in H.
  destruct (tp s); congruence.
Qed.
Lemma safe_all_dtor c s : safe_all c s = true -> cp s = CDone -> tp s = TDone.
Proof.
  unfold safe_all. intro H. do 2 (apply andb_true_iff in H as [H _]). apply andb_true_iff in H as [_ H].
  unfold safe_dtor, c_done, t_done in H. intro C. rewrite C in H. simpl in H. destruct (tp s); congruence.
Qed.
Lemma safe_all_once c s : safe_all c s = true -> calls s <= 1 /\ (tp s = TDone -> calls s = 1).
Proof.
  unfold safe_all. intro H. apply andb_true_iff in H as [H _]. apply andb_true_iff in H as [_ H].
  unfold safe_once in H. apply andb_true_iff in H as [H1 H2]. apply Nat.leb_le in H1. split; [exact H1|].
  intro T. unfold t_done in H2. rewrite T in H2. simpl in H2. apply Nat.eqb_eq in H2. exact H2.
Qed.
Lemma safe_all_live c s : safe_all c s = true -> cp s <> CDone -> exists s', In s' (succs c s).
Proof.
  unfold safe_all. intro H. apply andb_true_iff in H as [H0 H].
  do 4 (apply andb_true_iff in H0 as [H0 _]). unfold safe_life in H0.
  unfold safe_live in H. rewrite H0 in H. simpl in H. rewrite orb_false_r in H. intro C.
  apply orb_true_iff in H as [H|H].
  - unfold c_done in H. destruct (cp s); congruence.
  - destruct (succs c s) as [|s' r]; [discriminate|]. exists s'. left. reflexivity.
Qed.

(* ---------------------------------- the four configurations of a fact table *)
Definition check_all (f : facts) : bool := forallb (fun c => check c (safe_all c)) (all_cfgs f).

Lemma check_all_sound f : check_all f = true ->
  forall l t s, reachable (mkcfg f l t) s -> safe_all (mkcfg f l t) s = true.
Proof.
  unfold check_all, all_cfgs. simpl. intro H.
  repeat match type of H with _ && _ = true => let H2 := fresh "K" in apply andb_true_iff in H as [H2 H] end.
  intros l t s R. destruct l, t; eapply check_sound; eauto.
Qed.

(* the repaired member order (retValue declared before taskImpl) *)
Lemma fixed_ok : check_all facts_fixed = true.
Proof. vm_compute. reflexivity. Qed.

Lemma fixed_counts : map count (all_cfgs facts_fixed) = [63; 63; 47; 47].
Proof. vm_compute. reflexivity. Qed.

(* the order as found: refuted for non-trivial T in both launch modes *)
Definition old_cfg (l : launch) := mkcfg facts_old l false.
Lemma old_refuted_spawn : exists s, reachable (old_cfg Spawn) s /\ err s = Some ERet.
Proof.
  (* construct jobFinished; construct taskImpl (spawns); task: call fcn; task: assign retValue *)
  destruct (run_path (old_cfg Spawn) init [0; 0; 1; 1]) as [s|] eqn:E; [|vm_compute in E; discriminate].
  exists s. split.
  - eapply run_path_reachable; [apply R_init | exact E].
  - vm_compute in E. inversion E. reflexivity.
Qed.
Lemma old_refuted_call : exists s, reachable (old_cfg Call) s /\ err s = Some ERet.
Proof.
  destruct (run_path (old_cfg Call) init [0; 0; 0; 0]) as [s|] eqn:E; [|vm_compute in E; discriminate].
  exists s. split.
  - eapply run_path_reachable; [apply R_init | exact E].
  - vm_compute in E. inversion E. reflexivity.
Qed.
(* with a trivially constructible T the old order is harmless: why the int/float unit tests pass *)
Lemma old_trivial_ok : check (mkcfg facts_old Spawn true) (safe_all (mkcfg facts_old Spawn true)) = true
                    /\ check (mkcfg facts_old Call true) (safe_all (mkcfg facts_old Call true)) = true.
Proof. split; vm_compute; reflexivity. Qed.

(* variants that must be refuted (used as regression facts for the reflective check) *)
Definition facts_flag_first : facts := mkfacts [MFlag; MRet; MImpl] [StSetFlag; StAssignRet] GetGuarded true true.
Definition facts_no_dtor_wait : facts := mkfacts [MFlag; MRet; MImpl] [StAssignRet; StSetFlag] GetGuarded false true.
Definition facts_get_nowait : facts := mkfacts [MFlag; MRet; MImpl] [StAssignRet; StSetFlag] GetNoWait true true.
Lemma flag_first_refuted : check (mkcfg facts_flag_first Spawn false) safe_get = false.
Proof. vm_compute. reflexivity. Qed.
Lemma no_dtor_wait_refuted : check (mkcfg facts_no_dtor_wait Spawn false) safe_life = false.
Proof. vm_compute. reflexivity. Qed.
Lemma get_nowait_refuted : check (mkcfg facts_get_nowait Spawn false) safe_get = false.
Proof. vm_compute. reflexivity. Qed.
(* harmless variants stay safe *)
Definition facts_ret_first : facts := mkfacts [MRet; MFlag; MImpl] [StAssignRet; StSetFlag] GetGuarded true true.
Definition facts_always_wait : facts := mkfacts [MFlag; MRet; MImpl] [StAssignRet; StSetFlag] GetAlwaysWait true true.
(* a flag that does not publish (e.g. a relaxed store): the no-wait path of get() races on retValue *)
Definition facts_relaxed_flag : facts := mkfacts [MFlag; MRet; MImpl] [StAssignRet; StSetFlag] GetGuarded true false.
Lemma relaxed_flag_refuted : check (mkcfg facts_relaxed_flag Spawn false) safe_life = false
                          /\ check (mkcfg facts_relaxed_flag Spawn true) safe_life = false.
Proof. split; vm_compute; reflexivity. Qed.
(* ... unless get() always waits (then the join orders the accesses) *)
Definition facts_relaxed_always_wait : facts := mkfacts [MFlag; MRet; MImpl] [StAssignRet; StSetFlag] GetAlwaysWait true false.
Lemma relaxed_always_wait_ok : check_all facts_relaxed_always_wait = true.
Proof. vm_compute. reflexivity. Qed.
Lemma flag_publishes_table :
  flag_publishes [MSeqCst] [MSeqCst; MSeqCst] = true /\ flag_publishes [MRelease] [MAcquire] = true /\
  flag_publishes [MRelaxed] [MSeqCst] = false /\ flag_publishes [MSeqCst] [MRelaxed] = false /\
  flag_publishes [MSeqCst] [MConsume] = false /\ flag_publishes [MNonAtomic] [MNonAtomic] = false /\ flag_publishes [] [MSeqCst] = false.
Proof. repeat split. Qed.
Lemma harmless_ok : check_all facts_ret_first = true /\ check_all facts_always_wait = true.
Proof. split; vm_compute; reflexivity. Qed.

(* ---------------------------------------------- non-vacuity: the good end is reachable *)
Definition good_end (s : state) : bool :=
  c_done s && t_done s && (match got s with Some VResult => true | _ => false end) && fin_seen s && no_err s.
Lemma good_end_reachable : forall l t, exists s, reachable (mkcfg facts_fixed l t) s /\ good_end s = true.
Proof.
  intros l t.
  assert (H : exists p s, run_path (mkcfg facts_fixed l t) init p = Some s /\ good_end s = true).
  { destruct l, t.
    (* Spawn: construct x3, ->Idle, task x3, finished, get, test, read, dtor, wait, destroy x3, done *)
    1,2: exists [0;0;0;0; 4;4;4; 0; 1;0;0; 3;0;0;0;0;0]; eexists; split; vm_compute; reflexivity.
    all: exists [0;0;0; 0;0;0; 0; 0; 1;0;0; 3;0;0;0;0;0]; eexists; split; vm_compute; reflexivity. }
  destruct H as [p [s [E G]]]. exists s. split; [|exact G].
  eapply run_path_reachable; [apply R_init | exact E].
Qed.

(* ------------------------------------- trace validation: the acceptance function
   slot_run accepts the slot-event trace of every error-free execution and ends in the
   slot state of the system *)
Lemma ret_op_slot c s e ev s' : ret_op c s e = (ev, s') -> err s = None -> err s' = None ->
  slot_run (c_trivial c) (lret s, vret s) ev = Some (lret s', vret s').
Proof.
  unfold ret_op. intros H E0 E1.
  destruct (slot_step (c_trivial c) (lret s, vret s) e) as [[l v]|] eqn:S; inversion H; subst; clear H.
  - unfold slot_run. rewrite S. reflexivity.
  - simpl in E1. discriminate.
Qed.

Ltac solve_nil := simpl; reflexivity.

Lemma step_task_slot c s ev s' : In (ev, s') (step_task c s) -> err s = None -> err s' = None ->
  slot_run (c_trivial c) (lret s, vret s) ev = Some (lret s', vret s').
Proof.
  unfold step_task. intros H E0 E1.
  destruct (tp s) as [|k|]; try contradiction.
  destruct (nth_error (tprog (c_facts c)) k) as [[| |]|].
  - destruct H as [H|[]]. inversion H; subst. solve_nil.
  - destruct (ret_op c s SAssign) as [ev0 s0] eqn:R. destruct H as [H|[]]. inversion H; subst; clear H.
    destruct (no_err s0) eqn:N.
    + simpl in E1. apply (ret_op_slot _ _ _ _ _ R E0) in E1. exact E1.
    + unfold no_err in N. destruct (err s0); congruence.
  - destruct (is_live (lflag s)); destruct H as [H|[]]; inversion H; subst; try solve_nil; try (simpl in E1; discriminate).
  - destruct H as [H|[]]. inversion H; subst. solve_nil.
Qed.

Lemma wait_step_slot c s a ev s' : In (ev, s') (wait_step s a) -> err s' = None ->
  slot_run (c_trivial c) (lret s, vret s) ev = Some (lret s', vret s').
Proof.
  unfold wait_step. intros H E1. destruct (is_live (limpl s)).
  - destruct (t_done s); [|contradiction]. destruct H as [H|[]]. inversion H; subst. solve_nil.
  - destruct H as [H|[]]. inversion H; subst. simpl in E1. discriminate.
Qed.

Lemma step_client_slot c s ev s' : In (ev, s') (step_client c s) -> err s = None -> err s' = None ->
  slot_run (c_trivial c) (lret s, vret s) ev = Some (lret s', vret s').
Proof.
  unfold step_client. intros H E0 E1.
  destruct (cp s) as [k| | | | | | |k|].
  - destruct (nth_error (f_order (c_facts c)) k) as [m|].
    + destruct (construct c s m) as [ev0 s0] eqn:K. destruct H as [H|[]]. inversion H; subst; clear H.
      assert (N : err s0 = None).
      { destruct (no_err s0) eqn:N; [unfold no_err in N; destruct (err s0); congruence|]. exact E1. }
      assert (L : lret (if no_err s0 then set_cp s0 (CCons (S k)) else s0) = lret s0 /\
                  vret (if no_err s0 then set_cp s0 (CCons (S k)) else s0) = vret s0) by (destruct (no_err s0); auto).
      destruct L as [L1 L2]. rewrite L1, L2.
      destruct m; simpl in K.
      * destruct (is_raw (lflag s)); inversion K; subst; try solve_nil; try (simpl in N; discriminate).
      * destruct (is_raw (limpl s)); inversion K; subst; try solve_nil; try (simpl in N; discriminate).
      * eapply ret_op_slot; eauto.
    + destruct H as [H|[]]. inversion H; subst. solve_nil.
  - simpl in H. destruct H as [H|[H|[H|[H|[]]]]]; try (inversion H; subst; solve_nil).
    destruct (is_live (lflag s)); inversion H; subst; try solve_nil; try (simpl in E1; discriminate).
  - destruct (f_get (c_facts c)).
    + destruct (is_live (lflag s)); [destruct (vflag s); [destruct (f_flag_publishes (c_facts c))|]|];
        destruct H as [H|[]]; inversion H; subst; try solve_nil; try (simpl in E1; discriminate).
    + destruct H as [H|[]]. inversion H; subst. solve_nil.
    + destruct H as [H|[]]. inversion H; subst. solve_nil.
  - eapply wait_step_slot; eauto.
  - destruct (ret_op c s SRead) as [ev0 s0] eqn:R. destruct H as [H|[]]. inversion H; subst; clear H.
    destruct (no_err s0) eqn:N.
    + simpl in E1. apply (ret_op_slot _ _ _ _ _ R E0) in E1. exact E1.
    + unfold no_err in N. destruct (err s0); congruence.
  - eapply wait_step_slot; eauto.
  - eapply wait_step_slot; eauto.
  - destruct (nth_error (rev (f_order (c_facts c))) k) as [m|].
    + destruct (destroy c s m) as [ev0 s0] eqn:K. destruct H as [H|[]]. inversion H; subst; clear H.
      assert (N : err s0 = None).
      { destruct (no_err s0) eqn:N; [unfold no_err in N; destruct (err s0); congruence|]. exact E1. }
      assert (L : lret (if no_err s0 then set_cp s0 (CDtor (S k)) else s0) = lret s0 /\
                  vret (if no_err s0 then set_cp s0 (CDtor (S k)) else s0) = vret s0) by (destruct (no_err s0); auto).
      destruct L as [L1 L2]. rewrite L1, L2.
      destruct m; simpl in K.
      * destruct (is_live (lflag s)); inversion K; subst; try solve_nil; try (simpl in N; discriminate).
      * destruct (is_live (limpl s) && t_done s); inversion K; subst; try solve_nil; try (simpl in N; discriminate).
      * eapply ret_op_slot; eauto.
    + destruct H as [H|[]]. inversion H; subst. solve_nil.
  - contradiction.
Qed.

Lemma succs_ev_slot c s ev s' : In (ev, s') (succs_ev c s) -> err s' = None ->
  err s = None /\ slot_run (c_trivial c) (lret s, vret s) ev = Some (lret s', vret s').
Proof.
  unfold succs_ev. intros H E1. destruct (no_err s) eqn:N; [|contradiction].
  assert (E0 : err s = None) by (unfold no_err in N; destruct (err s); congruence).
  split; [exact E0|]. apply in_app_or in H as [H|H].
  - destruct (client_enabled c s); [|contradiction]. eapply step_client_slot; eauto.
  - eapply step_task_slot; eauto.
Qed.

Lemma slot_run_app t s tr1 tr2 s1 : slot_run t s tr1 = Some s1 -> slot_run t s (tr1 ++ tr2) = slot_run t s1 tr2.
Proof.
  revert s. induction tr1 as [|e r IH]; simpl; intros s H.
  - congruence.
  - destruct (slot_step t s e); [|discriminate]. apply IH. exact H.
Qed.

Theorem trace_accepted c tr s : exec c init tr s -> err s = None ->
  slot_run (c_trivial c) slot0 tr = Some (lret s, vret s).
Proof.
  remember init as s0 eqn:E0. intro H. induction H as [s|s tr s1 ev s2 H IH Hin]; intro E; subst.
  - reflexivity.
  - destruct (succs_ev_slot _ _ _ _ Hin E) as [E1 S].
    rewrite (slot_run_app _ _ _ _ _ (IH eq_refl E1)). exact S.
Qed.
