(* C02 <- C01: the pipe contract of schedule()/async() on the internal backend as a PROVED property of the micro-step
   model of enkiTS LockLessMultiReadPipe (coq/C01/Pipe.v; every interleaving, every size 2^k, any number of readers).
   coq/C02/ProofsSched.v keeps the contract as a Section hypothesis in FUNCTIONAL form
       Hypothesis pipe_contract : forall w, Permutation (popped w) w
   (theorems schedule_once_internal, schedule_internal_burst_exactly_once of Properties.v).  The theorems below are its
   proved RELATIONAL instance: for every reachable, quiescent, drained state s of the pipe, delivered s ~ written s.
   Two gaps are stated, not forced (see props/C02/check.py assumptions):
     (1) the functional form "for every list w there is a drained run" would need the iteration of pipe_progress to a
         fixpoint (a solo read leaves the state quiescent with one readable slot fewer) — not proved;
     (2) Sched.pipe_write refuses iff the bag holds cap pieces; the real writer refuses whenever the slot at
         m_WriteIndex is not FLAG_CAN_WRITE (possible below capacity while a reader still copies that slot); C02's
         add_task_set already takes the refusal pattern as a free parameter, and a refused piece is run inline.
   This file is separate from Properties.v so that a problem on the C01 side cannot take C02's own theorems down. *)
From Coq Require Import List NArith Permutation.
From C01 Require Import Pipe PipeProofs PipeStrand.
From C02 Require Import Sched ProofsSched PipeBridge.
Import ListNotations.
Local Open Scope N_scope.

(* the contract: a drained pipe has handed every accepted item to exactly one claimant, and nothing else *)
Theorem pipe_contract_proved : forall k w n, k < w -> forall s,
  reachable k w n s -> quiescent n s -> in_pipe k s = [] ->
  Permutation (map snd (delivered s)) (written s).
Proof. exact PipeBridge.pipe_contract_proved. Qed.
Print Assumptions pipe_contract_proved.

(* schedule_internal_burst_exactly_once with the hypothesis replaced by the pipe itself: closures run inline by the
   writer + items delivered by the drained pipe = closures scheduled *)
Theorem burst_exactly_once_on_pipe : forall k w n, k < w -> forall s cap ids,
  reachable k w n s -> quiescent n s -> in_pipe k s = [] ->
  Permutation (written s) (fst (burst (pipe_write cap) [] [] ids)) ->
  Permutation (snd (burst (pipe_write cap) [] [] ids) ++ map snd (delivered s)) ids.
Proof. exact PipeBridge.burst_exactly_once_on_pipe. Qed.
Print Assumptions burst_exactly_once_on_pipe.

(* schedule_once_internal: the one piece of a scheduled closure, once accepted and the pipe drained, was delivered exactly once *)
Theorem one_piece_delivered_once : forall k w n, k < w -> forall s x,
  reachable k w n s -> quiescent n s -> in_pipe k s = [] -> written s = [x] -> map snd (delivered s) = [x].
Proof. exact PipeBridge.one_piece_delivered_once. Qed.
Print Assumptions one_piece_delivered_once.

(* nothing accepted is lost by overwriting: the writer stores only into a slot whose flag is FLAG_CAN_WRITE, held by nobody *)
Theorem pipe_no_overwrite : forall k w n, k < w -> forall s t r rs, reachable k w n s ->
  tls s t = mkTl (Some MWrite) 5 r rs ->
  flags s (ract r) = FLAG_CAN_WRITE /\ (forall t', Pipe.holds (tls s t') <> Some (ract r)).
Proof. exact PipeBridge.pipe_no_overwrite. Qed.
Print Assumptions pipe_no_overwrite.

(* a drained state is approached: while items are queued and the indices have not wrapped (fewer than 2^w - 1 published
   writes) the next solo ReaderTryReadBack, by any thread, returns one of them *)
Theorem pipe_progress : forall k w n, k < w -> forall s t,
  reachable k w n s -> quiescent n s -> in_pipe k s <> [] -> PipeStrand.NW w s -> (t < n)%nat ->
  exists fuel s' x, run_op k w n fuel s (t, OpRead) = Some (s', Some (true, x)) /\ In x (in_pipe k s).
Proof. exact PipeBridge.pipe_progress. Qed.
Print Assumptions pipe_progress.

(* non-vacuity: a drained quiescent reachable state of the production-width pipe with 2 slots after two writes, one steal, one owner pop *)
Example pipe_contract_instance :
  let r := run_seq 1 32 2 100 [(0, OpWrite 7); (0, OpWrite 8); (1, OpRead); (0, OpFront)]%nat init in
  snd r = [Some (true, 0); Some (true, 0); Some (true, 7); Some (true, 8)] /\ in_pipe 1 (fst r) = [] /\
  quiescentb 2 (fst r) = true /\ written (fst r) = [7; 8] /\ map snd (delivered (fst r)) = [7; 8].
Proof. vm_compute. repeat split. Qed.
