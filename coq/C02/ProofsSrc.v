(* C02 — the reflective checks re-run on the SOURCE-DERIVED fact table gen/Facts.v
   (regenerated from the clang AST of the working tree on every run). *)
From Coq Require Import List Bool Arith.
From Coq Require Import Permutation.
From C02 Require Import Model Proofs Sched ProofsSched.
From C02.gen Require Import Facts.
Import ListNotations.

Lemma src_ok : check_all facts_src = true.
Proof. vm_compute. reflexivity. Qed.

Lemma src_safe : forall l t s, reachable (mkcfg facts_src l t) s -> safe_all (mkcfg facts_src l t) s = true.
Proof. exact (check_all_sound facts_src src_ok). Qed.

Lemma src_safe_props : forall l t s, reachable (mkcfg facts_src l t) s ->
  err s = None /\
  (forall v, got s = Some v -> v = VResult) /\
  (fin_seen s = true -> cp s = CGetW -> tp s = TDone) /\
  (cp s = CDone -> tp s = TDone) /\
  (calls s <= 1 /\ (tp s = TDone -> calls s = 1)) /\
  (cp s <> CDone -> exists s', In s' (succs (mkcfg facts_src l t) s)).
Proof.
  intros l t s R. pose proof (src_safe l t s R) as H.
  repeat split.
  - eapply safe_all_life; eauto.
  - eapply safe_all_get; eauto.
  - eapply safe_all_fin; eauto.
  - eapply safe_all_dtor; eauto.
  - apply (safe_all_once _ _ H).
  - apply (safe_all_once _ _ H).
  - eapply safe_all_live; eauto.
Qed.

Lemma src_trace_accepted : forall l t tr s, exec (mkcfg facts_src l t) init tr s ->
  slot_run t slot0 tr = Some (lret s, vret s).
Proof.
  intros l t tr s E. apply (trace_accepted (mkcfg facts_src l t) tr s E).
  eapply safe_all_life. apply src_safe. eapply exec_reachable; eauto.
Qed.

Lemma src_flag_publishes : f_flag_publishes facts_src = true /\
  flag_publishes flag_store_orders_src flag_load_orders_src = true.
Proof. split; reflexivity. Qed.

Lemma src_async_ok : async_ok async_pre_src async_post_src async_body_src 1 = true.
Proof. vm_compute. reflexivity. Qed.

Lemma src_async_future (T : Type) (fcn : unit -> T) :
  forall tr, In tr (async_traces async_pre_src async_post_src async_body_src 1) -> future_get T fcn tr = Some (fcn tt).
Proof.
  intros tr H. apply future_value_of_ok. pose proof src_async_ok as K. unfold async_ok in K.
  rewrite forallb_forall in K. apply K. exact H.
Qed.

Lemma src_no_uaf : forall ts pending,
  NoDup (opt_list pending ++ ts) ->
  no_uaf [] (thread_events exec_range_src tryrun_dec_after_exec_src pending ts) = true.
Proof.
  intros ts pending ND. change exec_range_src with exec_range_fixed. change tryrun_dec_after_exec_src with true.
  apply fixed_no_uaf; [exact ND | intros t _ []].
Qed.

Lemma src_task_life : forall t,
  no_uaf [] (submit_events t ++ thread_events exec_range_src tryrun_dec_after_exec_src None [t]) = true.
Proof. intro t. reflexivity. Qed.

Lemma src_nested_ok : nested_ok exec_range_src = true.
Proof. vm_compute. reflexivity. Qed.

(* the fences found in the source: WakeThreads (scheduler side) and WaitForTasks (worker side) *)
Lemma src_no_lost_wakeup : lost_wakeup_possible wake_fenced_src wait_fenced_src = false.
Proof. vm_compute. reflexivity. Qed.

(* the per-backend glue code has exactly the shape the backend contracts are stated for *)
Lemma src_glue_ok : glue_ok sched_impl_src impl_ctor_src impl_wait_src = true /\ async_unknown_stmts_src = 0%nat.
Proof. split; vm_compute; reflexivity. Qed.

Lemma src_pipe_claims_ok : pipe_claims_ok pipe_front_claim_src pipe_back_claim_src pipe_write_guard_src = true.
Proof. vm_compute. reflexivity. Qed.

(* WaitforAll's loop condition and the shutdown order, as found in the source *)
Lemma src_teardown : forall queue,
  exists done, teardown waitforall_cond_src queue = Some ([], done) /\ Permutation done (fids queue).
Proof. change waitforall_cond_src with LOr. exact teardown_or_runs_everything. Qed.
Lemma src_shutdown_order : sdlist_eqb shutdown_steps_src shutdown_ref = true /\ dtor_shuts_down_src = true.
Proof. split; reflexivity. Qed.

Lemma src_wake_every_push : forall n workers, stranded wake_policy_src n workers = 0%nat.
Proof. change wake_policy_src with WakeEveryPush. exact every_push_no_stranded. Qed.

Lemma src_exit_slot : exit_shapes_ok reclaim_slot_kind_src = true /\ reclaim_at_thread_exit_src = true.
Proof. split; vm_compute; reflexivity. Qed.
