(* C20 — proofs about the trace recorder: chunked event lists, the shape and JSON
   well-formedness of what saveLog writes, completeness per thread and begin/end nesting. *)
From Common Require Import Prelude.
From C20 Require Import Model Spec ProofsImage.
Local Open Scope N_scope.

(* ================================================================== chunks *)
Lemma get_current_snoc r c :
  get_current (r ++ [c]) =
  if chunk_size <=? N.of_nat (length c) then (r ++ [c]) ++ [[]] else r ++ [c].
Proof. unfold get_current. rewrite rev_app_distr. reflexivity. Qed.

Lemma push_last_snoc r c e : push_last (r ++ [c]) e = r ++ [c ++ [e]].
Proof. unfold push_last. rewrite rev_app_distr. cbn [rev app]. rewrite rev_involutive. reflexivity. Qed.

(* one recording step: either the event goes to the end of the last chunk, which has room,
   or it opens a new chunk because there is none / the last is full.  All other chunks are
   left as they are. *)
Lemma record_cases l e :
  (l = [] /\ record l e = [[e]]) \/
  (exists r c, l = r ++ [c] /\ N.of_nat (length c) < chunk_size /\ record l e = r ++ [c ++ [e]]) \/
  (exists r c, l = r ++ [c] /\ chunk_size <= N.of_nat (length c) /\ record l e = l ++ [[e]]).
Proof.
  destruct l as [|c r _] using rev_ind.
  - left. split; reflexivity.
  - right. unfold record. rewrite get_current_snoc.
    destruct (N.leb_spec chunk_size (N.of_nat (length c))) as [Hfull|Hroom].
    + right. exists r, c. split; [reflexivity|]. split; [exact Hfull|].
      rewrite push_last_snoc. reflexivity.
    + left. exists r, c. split; [reflexivity|]. split; [exact Hroom|]. apply push_last_snoc.
Qed.

Definition chunk_ok (c : list tev) : Prop := (1 <= length c)%nat /\ N.of_nat (length c) <= chunk_size.
Definition chunk_full (c : list tev) : Prop := N.of_nat (length c) = chunk_size.
Definition chunks_ok (l : tlist) : Prop := Forall chunk_ok l /\ Forall chunk_full (removelast l).

Lemma chunks_ok_nil : chunks_ok [].
Proof. split; constructor. Qed.

Lemma record_ok l e :
  chunks_ok l -> chunks_ok (record l e) /\ concat (record l e) = concat l ++ [e].
Proof.
  intros [Hok Hfull].
  destruct (record_cases l e) as [[El Er]|[[r [c [El [Hc Er]]]]|[r [c [El [Hc Er]]]]]]; rewrite Er.
  - subst l. split; [|reflexivity]. split.
    + constructor; [|constructor]. unfold chunk_ok, chunk_size. cbn. lia.
    + cbn. constructor.
  - subst l. rewrite removelast_last in Hfull. apply Forall_app in Hok. destruct Hok as [Hr Hcc].
    split.
    + split.
      * apply Forall_app. split; [exact Hr|]. constructor; [|constructor].
        unfold chunk_ok. rewrite app_length. cbn [length]. lia.
      * rewrite removelast_last. exact Hfull.
    + rewrite !concat_app. cbn [concat]. rewrite !app_nil_r, app_assoc. reflexivity.
  - split.
    + split.
      * apply Forall_app. split; [exact Hok|]. constructor; [|constructor].
        unfold chunk_ok, chunk_size. cbn. lia.
      * rewrite removelast_last. subst l. rewrite removelast_last in Hfull.
        apply Forall_app in Hok. destruct Hok as [Hr Hcc]. apply Forall_app. split; [exact Hfull|].
        constructor; [|constructor]. inversion Hcc as [|c' l' [_ Hle] _]; subst.
        unfold chunk_full. lia.
    + rewrite concat_app. cbn [concat]. rewrite app_nil_r. reflexivity.
Qed.

Lemma record_fold evs : forall l,
  chunks_ok l -> chunks_ok (fold_left record evs l) /\ concat (fold_left record evs l) = concat l ++ evs.
Proof.
  induction evs as [|e evs IH]; intros l Hl; cbn [fold_left].
  - rewrite app_nil_r. split; [exact Hl | reflexivity].
  - destruct (record_ok l e Hl) as [Hl' Ec]. destruct (IH _ Hl') as [H1 H2].
    split; [exact H1|]. rewrite H2, Ec, <- app_assoc. reflexivity.
Qed.

(* chunks_concat *)
Lemma chunks_concat evs :
  concat (record_all evs) = evs /\
  Forall (fun c => (1 <= length c)%nat /\ N.of_nat (length c) <= chunk_size) (record_all evs) /\
  Forall (fun c => N.of_nat (length c) = chunk_size) (removelast (record_all evs)).
Proof.
  destruct (record_fold evs [] chunks_ok_nil) as [[H1 H2] H3]. split; [exact H3|]. split; assumption.
Qed.

(* the same for every prefix of the recording: no chunk ever exceeds the reserved capacity *)
Lemma record_all_app evs1 evs2 : record_all (evs1 ++ evs2) = fold_left record evs2 (record_all evs1).
Proof. unfold record_all. apply fold_left_app. Qed.

(* a recording step appends to a vector that still has room (size < capacity 8192: push_back does
   not reallocate) or to a fresh one; the chunks before it stay put *)
Lemma record_no_realloc evs e :
  exists r c, record (record_all evs) e = r ++ [c ++ [e]] /\
              N.of_nat (length c) < chunk_size /\
              (record_all evs = r ++ [c] \/ (record_all evs = r /\ c = [])).
Proof.
  destruct (record_cases (record_all evs) e) as [[El Er]|[[r [c [El [Hc Er]]]]|[r [c [El [Hc Er]]]]]].
  - exists [], []. rewrite Er, El. split; [reflexivity|]. split; [reflexivity|]. right. split; reflexivity.
  - exists r, c. split; [exact Er|]. split; [exact Hc|]. left. exact El.
  - exists (record_all evs), []. split; [exact Er|]. split; [reflexivity|]. right. split; reflexivity.
Qed.

(* ================================================================== shape of the log text *)
Lemma flat_map_render_intercalate objs : forall o,
  flat_map (fun o => render o ++ [44]) (o :: objs) = intercalate [44] (map render (o :: objs)) ++ [44].
Proof.
  induction objs as [|o' objs IH]; intro o.
  - cbn. rewrite app_nil_r. reflexivity.
  - cbn [flat_map] in *. rewrite IH. cbn [map intercalate]. rewrite <- !app_assoc. reflexivity.
Qed.

Lemma seek_overwrite_comma x : seek_overwrite ([91] ++ x ++ [44]) = [91] ++ x ++ [93].
Proof.
  assert (E : seek_overwrite ([91] ++ x ++ [44]) = removelast ([91] ++ x ++ [44]) ++ [93]).
  { destruct x as [|a x]; reflexivity. }
  rewrite E. rewrite (app_assoc [91] x [44]), removelast_last, <- app_assoc. reflexivity.
Qed.

Lemma saveLog_shape pname pid ths :
  saveLog pname pid ths = [91] ++ intercalate [44] (map render (log_objs pname pid ths)) ++ [93].
Proof.
  unfold saveLog, log_body. destruct (log_objs pname pid ths) as [|o objs].
  - reflexivity.
  - rewrite flat_map_render_intercalate. apply seek_overwrite_comma.
Qed.

(* the unrepaired writer on an empty log: "]" *)
Lemma saveLog_old_empty pid : saveLog_old None pid [] = [93] /\ json_array (saveLog_old None pid []) = false.
Proof. split; reflexivity. Qed.

(* ================================================================== the recogniser accepts it *)
Definition trans (s : str) (p q : pda) : Prop := run p s = Some q.

Lemma run_app p a b :
  run p (a ++ b) = match run p a with Some p' => run p' b | None => None end.
Proof.
  revert p. induction a as [|c a IH]; intro p; cbn [app run]; [reflexivity|].
  destruct (step p c); [apply IH | reflexivity].
Qed.

Lemma trans_app a b p q r : trans a p q -> trans b q r -> trans (a ++ b) p r.
Proof. unfold trans. intros H1 H2. rewrite run_app, H1. exact H2. Qed.


Lemma str_char_not_quote c : str_char_ok c = true -> (c =? 34) = false.
Proof.
  unfold str_char_ok. intro H. destruct (c =? 34); [|reflexivity].
  rewrite andb_false_r in H. discriminate.
Qed.

Lemma trans_text stk k s : text_ok s -> trans s (mkP stk (MStr k)) (mkP stk (MStr k)).
Proof.
  unfold trans, text_ok. induction s as [|c s IH]; intro H; cbn [run]; [reflexivity|].
  cbn [forallb] in H. apply andb_true_iff in H. destruct H as [Hc Hs].
  cbn [step p_mode p_stack]. rewrite (str_char_not_quote c Hc), Hc. apply IH. exact Hs.
Qed.

(* numbers *)
Lemma digit_bounds d : is_digit d = true -> 48 <= d <= 57.
Proof. unfold is_digit. intro H. apply andb_true_iff in H. lia. Qed.

Lemma digit_start stk d : is_digit d = true -> step (mkP stk MValue) d = Some (mkP stk (MNum NInt)).
Proof.
  intro H. pose proof (digit_bounds d H) as B.
  cbn [step p_mode p_stack]. unfold is_ws, start_value.
  destruct (N.eqb_spec d 32); [lia|]. destruct (N.eqb_spec d 9); [lia|].
  destruct (N.eqb_spec d 10); [lia|]. destruct (N.eqb_spec d 13); [lia|]. cbn [orb].
  destruct (N.eqb_spec d 34); [lia|]. destruct (N.eqb_spec d 123); [lia|].
  destruct (N.eqb_spec d 91); [lia|]. destruct (N.eqb_spec d 45); [lia|].
  rewrite H. reflexivity.
Qed.

Lemma trans_num_run stk s : forall q q', num_run q s = Some q' -> trans s (mkP stk (MNum q)) (mkP stk (MNum q')).
Proof.
  unfold trans. induction s as [|c s IH]; intros q q' H; cbn [num_run run] in *.
  - inversion H. reflexivity.
  - cbn [step p_mode p_stack]. destruct (num_step q c) as [q1|]; [|discriminate]. apply IH. exact H.
Qed.

Lemma num_run_digits s : forallb is_digit s = true -> num_run NInt s = Some NInt.
Proof.
  induction s as [|c s IH]; intro H; cbn [num_run]; [reflexivity|].
  cbn [forallb] in H. apply andb_true_iff in H. destruct H as [Hc Hs].
  cbn [num_step]. rewrite Hc. apply IH. exact Hs.
Qed.

Lemma trans_dec stk n : trans (dec n) (mkP stk MValue) (mkP stk (MNum NInt)).
Proof.
  pose proof (uint_chars_digits (N.to_uint n)) as D. fold (dec n) in D.
  destruct (dec n) as [|d ds] eqn:E; [exfalso; exact (dec_nonempty n E)|].
  cbn [forallb] in D. apply andb_true_iff in D. destruct D as [Hd Hds].
  change (d :: ds) with ([d] ++ ds). eapply trans_app.
  - unfold trans. cbn [run]. rewrite (digit_start stk d Hd). reflexivity.
  - apply trans_num_run. apply num_run_digits. exact Hds.
Qed.

Lemma is_number_dec n : is_number (dec n) = true.
Proof.
  pose proof (uint_chars_digits (N.to_uint n)) as D. fold (dec n) in D.
  destruct (dec n) as [|d ds] eqn:E; [exfalso; exact (dec_nonempty n E)|].
  cbn [forallb] in D. apply andb_true_iff in D. destruct D as [Hd Hds].
  unfold is_number. pose proof (digit_bounds d Hd) as B.
  destruct (N.eqb_spec d 45); [lia|]. rewrite Hd, (num_run_digits ds Hds). reflexivity.
Qed.

Lemma trans_number stk s :
  is_number s = true -> exists q, num_final q = true /\ trans s (mkP stk MValue) (mkP stk (MNum q)).
Proof.
  unfold is_number. destruct s as [|d r]; [discriminate|]. intro H.
  destruct (N.eqb_spec d 45) as [E|E].
  - subst d. destruct (num_run NMinus r) as [q'|] eqn:R; [|discriminate].
    exists q'. split; [exact H|]. change (45 :: r) with ([45] ++ r). eapply trans_app.
    + reflexivity.
    + apply trans_num_run. exact R.
  - destruct (is_digit d) eqn:Hd; [|discriminate].
    destruct (num_run NInt r) as [q'|] eqn:R; [|discriminate].
    exists q'. split; [exact H|]. change (d :: r) with ([d] ++ r). eapply trans_app.
    + unfold trans. cbn [run]. rewrite (digit_start stk d Hd). reflexivity.
    + apply trans_num_run. exact R.
Qed.

(* a number followed by the "}" that closes the object it is the last value of *)
Lemma trans_number_close stk u :
  is_number u = true -> trans (u ++ Lit.close1) (mkP (CObj :: stk) MValue) (mkP stk (after stk)).
Proof.
  intro H. destruct (trans_number (CObj :: stk) u H) as [q [Hq T]].
  eapply trans_app; [exact T|]. destruct q; try discriminate; reflexivity.
Qed.


Ltac seg :=
  first [ eapply trans_app; [apply trans_dec|]
        | eapply trans_app; [apply trans_text; assumption|]
        | eapply trans_app; [unfold trans; reflexivity|] ].

Definition vmode (m : mode) : Prop := m = MValue \/ m = MValueOrClose.

(* every object saveLog prints is one JSON value, wherever a value may stand *)
Lemma trans_render o stk m :
  obj_ok o -> vmode m -> trans (render o) (mkP stk m) (mkP stk (after stk)).
Proof.
  intros Ho Hm. destruct o as [pid pname|pid tid tname|pid tid e|pid tid bts util]; cbn [obj_ok] in Ho.
  - cbn [render]. destruct Hm as [-> | ->]; repeat seg; unfold trans; reflexivity.
  - cbn [render]. destruct Hm as [-> | ->]; repeat seg; unfold trans; reflexivity.
  - destruct Ho as [Hname [Hcat Hutil]].
    cbn [render]. destruct (e_kind e) eqn:K; cbn [kind_char].
    + (* begin *)
      destruct (e_cat e) as [c|] eqn:Ec.
      * pose proof (Hcat c eq_refl) as Hc. repeat rewrite <- app_assoc. cbn [app].
        destruct Hm as [-> | ->]; repeat seg; unfold trans; reflexivity.
      * repeat rewrite <- app_assoc. cbn [app].
        destruct Hm as [-> | ->]; repeat seg; unfold trans; reflexivity.
    + (* end *)
      pose proof (Hutil eq_refl) as Hu. repeat rewrite <- app_assoc. cbn [app].
      rewrite (app_assoc (e_util e) Lit.close1).
      destruct Hm as [-> | ->]; repeat seg;
        (eapply trans_app; [apply trans_number_close; exact Hu|]); unfold trans; reflexivity.
    + (* marker *)
      destruct (e_cat e) as [c|] eqn:Ec.
      * pose proof (Hcat c eq_refl) as Hc. repeat rewrite <- app_assoc. cbn [app].
        destruct Hm as [-> | ->]; repeat seg; unfold trans; reflexivity.
      * repeat rewrite <- app_assoc. cbn [app].
        destruct Hm as [-> | ->]; repeat seg; unfold trans; reflexivity.
    + (* counter *)
      destruct (e_cat e) as [c|] eqn:Ec.
      * pose proof (Hcat c eq_refl) as Hc. repeat rewrite <- app_assoc. cbn [app].
        destruct Hm as [-> | ->]; repeat seg; unfold trans; reflexivity.
      * repeat rewrite <- app_assoc. cbn [app].
        destruct Hm as [-> | ->]; repeat seg; unfold trans; reflexivity.
  - cbn [render]. change Lit.close2 with (Lit.close1 ++ Lit.close1).
    rewrite (app_assoc util Lit.close1).
    destruct Hm as [-> | ->]; repeat seg;
      (eapply trans_app; [apply trans_number_close; exact Ho|]); unfold trans; reflexivity.
Qed.

Lemma render_starts_with_brace o : exists r, render o = 123 :: r.
Proof. destruct o; cbn [render]; eexists; reflexivity. Qed.

Lemma render_is_object o : obj_ok o -> json_object (render o) = true.
Proof.
  intro Ho. pose proof (trans_render o [] MValue Ho (or_introl eq_refl)) as T.
  destruct (render_starts_with_brace o) as [r E]. rewrite E in *. unfold trans in T.
  change (run (mkP [CObj] MKeyOrClose) r = Some (mkP [] MDone)) in T.
  unfold json_object. rewrite T. reflexivity.
Qed.

Lemma trans_items objs : forall m,
  Forall obj_ok objs -> objs <> [] -> vmode m ->
  trans (intercalate [44] (map render objs)) (mkP [CArr] m) (mkP [CArr] MAfter).
Proof.
  induction objs as [|o objs IH]; intros m Hall Hne Hm; [contradiction|].
  inversion Hall as [|o' l' Ho Hall']; subst.
  destruct objs as [|o2 objs].
  - cbn [map intercalate]. apply (trans_render o [CArr] m Ho Hm).
  - change (intercalate [44] (map render (o :: o2 :: objs)))
      with (render o ++ [44] ++ intercalate [44] (map render (o2 :: objs))).
    eapply trans_app; [apply (trans_render o [CArr] m Ho Hm)|].
    eapply trans_app; [unfold trans; reflexivity|].
    apply IH; [exact Hall' | discriminate | left; reflexivity].
Qed.

Lemma json_array_intercalate objs :
  Forall obj_ok objs -> json_array ([91] ++ intercalate [44] (map render objs) ++ [93]) = true.
Proof.
  intro Hall. cbn [app json_array]. destruct objs as [|o objs].
  - reflexivity.
  - assert (T : trans (intercalate [44] (map render (o :: objs)) ++ [93])
                      (mkP [CArr] MValueOrClose) (mkP [] MDone)).
    { eapply trans_app; [apply trans_items; [exact Hall | discriminate | right; reflexivity]|].
      unfold trans. reflexivity. }
    unfold trans in T. rewrite T. reflexivity.
Qed.

(* ------------------------------------------------------------------ the objects are well formed *)
(* emit_chunk as two functions *)
Definition eo pid tid c st := fst (emit_chunk pid tid c st).
Definition es pid tid c st := snd (emit_chunk pid tid c st).


Lemma eo_nil pid tid st : eo pid tid [] st = [].
Proof. reflexivity. Qed.
Lemma es_nil pid tid st : es pid tid [] st = st.
Proof. reflexivity. Qed.

Lemma eo_cons pid tid e rest st :
  eo pid tid (e :: rest) st =
  match e_kind e with
  | KBegin => JEvent pid tid e :: eo pid tid rest (e :: st)
  | KEnd => match st with
            | [] => []
            | b :: st' => JEvent pid tid e :: util_of pid tid b e ++ eo pid tid rest st'
            end
  | _ => JEvent pid tid e :: eo pid tid rest st
  end.
Proof.
  unfold eo, util_of. cbn [emit_chunk]. destruct (e_kind e).
  - destruct (emit_chunk pid tid rest (e :: st)); reflexivity.
  - destruct st as [|b st']; [reflexivity|]. destruct (emit_chunk pid tid rest st'); reflexivity.
  - destruct (emit_chunk pid tid rest st); reflexivity.
  - destruct (emit_chunk pid tid rest st); reflexivity.
Qed.

Lemma es_cons pid tid e rest st :
  es pid tid (e :: rest) st =
  match e_kind e with
  | KBegin => es pid tid rest (e :: st)
  | KEnd => match st with
            | [] => []
            | b :: st' => es pid tid rest st'
            end
  | _ => es pid tid rest st
  end.
Proof.
  unfold es. cbn [emit_chunk]. destruct (e_kind e).
  - destruct (emit_chunk pid tid rest (e :: st)); reflexivity.
  - destruct st as [|b st']; [reflexivity|]. destruct (emit_chunk pid tid rest st'); reflexivity.
  - destruct (emit_chunk pid tid rest st); reflexivity.
  - destruct (emit_chunk pid tid rest st); reflexivity.
Qed.

Lemma emit_chunks_cons pid tid c cs st :
  emit_chunks pid tid (c :: cs) st = eo pid tid c st ++ emit_chunks pid tid cs (es pid tid c st).
Proof. unfold eo, es. cbn [emit_chunks]. destruct (emit_chunk pid tid c st); reflexivity. Qed.

Definition stack_ok (st : list tev) : Prop := Forall ev_ok st.

Lemma eo_ok pid tid c : forall st,
  Forall ev_ok c -> Forall ev_ok st ->
  Forall obj_ok (eo pid tid c st) /\ Forall ev_ok (es pid tid c st).
Proof.
  induction c as [|e c IH]; intros st Hc Hst.
  - rewrite eo_nil, es_nil. split; [constructor | exact Hst].
  - inversion Hc as [|e' c' He Hc']; subst. rewrite eo_cons, es_cons.
    destruct (e_kind e) eqn:K.
    + destruct (IH (e :: st) Hc' (Forall_cons _ He Hst)) as [H1 H2].
      split; [constructor; [exact He | exact H1] | exact H2].
    + destruct st as [|b st']; [split; constructor|].
      inversion Hst as [|b' s' Hb Hst']; subst.
      destruct (IH st' Hc' Hst') as [H1 H2]. split; [|exact H2].
      constructor; [exact He|]. apply Forall_app. split; [|exact H1].
      unfold util_of. destruct (is_long b e); constructor; [|constructor].
      cbn [obj_ok]. destruct He as [_ [_ Hu]]. apply Hu. exact K.
    + destruct (IH st Hc' Hst) as [H1 H2]. split; [constructor; [exact He | exact H1] | exact H2].
    + destruct (IH st Hc' Hst) as [H1 H2]. split; [constructor; [exact He | exact H1] | exact H2].
Qed.

Lemma emit_chunks_ok pid tid cs : forall st,
  Forall (Forall ev_ok) cs -> Forall ev_ok st -> Forall obj_ok (emit_chunks pid tid cs st).
Proof.
  induction cs as [|c cs IH]; intros st Hcs Hst; [constructor|].
  inversion Hcs as [|c' l' Hc Hcs']; subst. rewrite emit_chunks_cons.
  destruct (eo_ok pid tid c st Hc Hst) as [H1 H2]. apply Forall_app. split; [exact H1|].
  apply IH; assumption.
Qed.


Lemma emit_threads_ok pid ths : forall tid, Forall thread_ok ths -> Forall obj_ok (emit_threads pid tid ths).
Proof.
  induction ths as [|t ths IH]; intros tid H; [constructor|].
  inversion H as [|t' l' [Hn He] H']; subst. cbn [emit_threads].
  constructor; [exact Hn|]. apply Forall_app. split; [apply emit_chunks_ok; [exact He | constructor]|].
  apply IH. exact H'.
Qed.

Lemma log_objs_ok pname pid ths :
  (forall p, pname = Some p -> text_ok p) -> Forall thread_ok ths -> Forall obj_ok (log_objs pname pid ths).
Proof.
  intros Hp Ht. unfold log_objs. apply Forall_app. split; [|apply emit_threads_ok; exact Ht].
  destruct pname as [p|]; [|constructor]. constructor; [|constructor]. apply Hp. reflexivity.
Qed.

(* savelog_wellformed *)
Lemma savelog_wellformed pname pid ths :
  (forall p, pname = Some p -> text_ok p) -> Forall thread_ok ths ->
  let objs := log_objs pname pid ths in
  saveLog pname pid ths = [91] ++ intercalate [44] (map render objs) ++ [93] /\
  Forall (fun o => json_object (render o) = true) objs /\
  json_array (saveLog pname pid ths) = true.
Proof.
  intros Hp Ht objs. pose proof (log_objs_ok pname pid ths Hp Ht) as Hall. fold objs in Hall.
  split; [apply saveLog_shape|]. split.
  - eapply Forall_impl; [|exact Hall]. intros o Ho. apply render_is_object. exact Ho.
  - rewrite saveLog_shape. apply json_array_intercalate. exact Hall.
Qed.

(* threads that recorded through record_all inherit ev_ok from their events *)
Lemma Forall_concat {A} (P : A -> Prop) (l : list (list A)) : Forall P (concat l) -> Forall (Forall P) l.
Proof.
  induction l as [|c l IH]; cbn [concat]; intro H; [constructor|].
  apply Forall_app in H. destruct H as [H1 H2]. constructor; [exact H1 | apply IH; exact H2].
Qed.

Lemma record_all_ev_ok evs : Forall ev_ok evs -> Forall (Forall ev_ok) (record_all evs).
Proof.
  intro H. apply Forall_concat. destruct (chunks_concat evs) as [E _]. rewrite E. exact H.
Qed.

(* ================================================================== completeness per thread *)
Lemma events_of_tid_app tid a b : events_of_tid tid (a ++ b) = events_of_tid tid a ++ events_of_tid tid b.
Proof. unfold events_of_tid. apply flat_map_app. Qed.

Lemma events_of_util k pid tid b e : events_of_tid k (util_of pid tid b e) = [].
Proof. unfold util_of. destruct (is_long b e); reflexivity. Qed.

Lemma events_of_event_same pid tid e l :
  events_of_tid tid (JEvent pid tid e :: l) = e :: events_of_tid tid l.
Proof. unfold events_of_tid. cbn [flat_map]. rewrite N.eqb_refl. reflexivity. Qed.

Lemma events_of_event_other k pid tid e l :
  k <> tid -> events_of_tid k (JEvent pid tid e :: l) = events_of_tid k l.
Proof.
  intro H. unfold events_of_tid. cbn [flat_map]. destruct (N.eqb_spec tid k); [congruence | reflexivity].
Qed.

Lemma no_stray_end_app d a b : forall (H : no_stray_end d (a ++ b) = true), no_stray_end d a = true.
Proof.
  revert d. induction a as [|e a IH]; intros d H; [reflexivity|].
  cbn [app no_stray_end] in *. destruct (e_kind e).
  - apply IH. exact H.
  - destruct d as [|d']; [discriminate|]. apply IH. exact H.
  - apply IH. exact H.
  - apply IH. exact H.
Qed.

(* with no END lacking an open BEGIN, the events of a chunk all reach the output, in order,
   and what is left on the stack is as deep as the nesting says *)
Lemma eo_events pid tid c : forall st rest,
  no_stray_end (length st) (c ++ rest) = true ->
  events_of_tid tid (eo pid tid c st) = c /\
  no_stray_end (length (es pid tid c st)) rest = true.
Proof.
  induction c as [|e c IH]; intros st rest H.
  - rewrite eo_nil, es_nil. split; [reflexivity | exact H].
  - rewrite eo_cons, es_cons. cbn [app no_stray_end] in H. destruct (e_kind e).
    + destruct (IH (e :: st) rest H) as [H1 H2]. rewrite events_of_event_same, H1. split; [reflexivity | exact H2].
    + destruct st as [|b st']; [discriminate|]. cbn [length] in H.
      destruct (IH st' rest H) as [H1 H2].
      rewrite events_of_event_same, events_of_tid_app, events_of_util, H1. split; [reflexivity | exact H2].
    + destruct (IH st rest H) as [H1 H2]. rewrite events_of_event_same, H1. split; [reflexivity | exact H2].
    + destruct (IH st rest H) as [H1 H2]. rewrite events_of_event_same, H1. split; [reflexivity | exact H2].
Qed.

Lemma emit_chunks_events pid tid cs : forall st,
  no_stray_end (length st) (concat cs) = true ->
  events_of_tid tid (emit_chunks pid tid cs st) = concat cs.
Proof.
  induction cs as [|c cs IH]; intros st H; [reflexivity|].
  cbn [concat] in *. rewrite emit_chunks_cons, events_of_tid_app.
  destruct (eo_events pid tid c st (concat cs) H) as [H1 H2]. rewrite H1, (IH _ H2). reflexivity.
Qed.

(* objects of another thread id contribute nothing *)
Lemma eo_other k pid tid c : forall st, k <> tid -> events_of_tid k (eo pid tid c st) = [].
Proof.
  induction c as [|e c IH]; intros st Hk; [reflexivity|].
  rewrite eo_cons. destruct (e_kind e).
  - rewrite events_of_event_other by exact Hk. apply IH. exact Hk.
  - destruct st as [|b st']; [reflexivity|].
    rewrite events_of_event_other by exact Hk. rewrite events_of_tid_app, events_of_util. apply IH. exact Hk.
  - rewrite events_of_event_other by exact Hk. apply IH. exact Hk.
  - rewrite events_of_event_other by exact Hk. apply IH. exact Hk.
Qed.

Lemma emit_chunks_other k pid tid cs : forall st, k <> tid -> events_of_tid k (emit_chunks pid tid cs st) = [].
Proof.
  induction cs as [|c cs IH]; intros st Hk; [reflexivity|].
  rewrite emit_chunks_cons, events_of_tid_app, eo_other, IH by exact Hk. reflexivity.
Qed.


Lemma emit_threads_events pid ths : forall t0 k,
  Forall thread_nested ths ->
  events_of_tid k (emit_threads pid t0 ths) =
  if k <? t0 then []
  else match nth_error ths (N.to_nat (k - t0)) with
       | Some t => concat (t_events t)
       | None => []
       end.
Proof.
  induction ths as [|t ths IH]; intros t0 k H.
  - cbn [emit_threads]. destruct (k <? t0); [reflexivity|]. destruct (N.to_nat (k - t0)); reflexivity.
  - inversion H as [|t' l' Ht H']; subst. cbn [emit_threads].
    change (JThread pid t0 (t_name t) :: emit_chunks pid t0 (t_events t) [] ++ emit_threads pid (t0 + 1) ths)
      with ([JThread pid t0 (t_name t)] ++ emit_chunks pid t0 (t_events t) [] ++ emit_threads pid (t0 + 1) ths).
    rewrite !events_of_tid_app. change (events_of_tid k [JThread pid t0 (t_name t)]) with (@nil tev).
    rewrite (IH (t0 + 1) k H'). cbn [app].
    destruct (N.ltb_spec k t0) as [Hlt|Hge].
    + rewrite emit_chunks_other by lia. destruct (N.ltb_spec k (t0 + 1)); [reflexivity | lia].
    + destruct (N.eq_dec k t0) as [E|E].
      * subst k. rewrite emit_chunks_events by exact Ht.
        destruct (N.ltb_spec t0 (t0 + 1)); [|lia]. rewrite N.sub_diag. cbn [N.to_nat nth_error].
        rewrite app_nil_r. reflexivity.
      * rewrite emit_chunks_other by exact E. destruct (N.ltb_spec k (t0 + 1)); [lia|].
        replace (N.to_nat (k - t0)) with (S (N.to_nat (k - (t0 + 1)))) by lia. reflexivity.
Qed.


(* savelog_complete *)
Lemma savelog_complete pname pid (l : list (str * list tev)) k nm evs :
  Forall (fun p => no_stray_end 0 (snd p) = true) l ->
  nth_error l k = Some (nm, evs) ->
  events_of_tid (N.of_nat k) (log_objs pname pid (threads_of l)) = evs.
Proof.
  intros Hall Hk. unfold log_objs. rewrite events_of_tid_app.
  assert (E0 : events_of_tid (N.of_nat k) (match pname with Some p => [JProc pid p] | None => [] end) = []).
  { destruct pname; reflexivity. }
  rewrite E0. cbn [app]. rewrite emit_threads_events.
  - destruct (N.ltb_spec (N.of_nat k) 0); [lia|]. rewrite N.sub_0_r, Nat2N.id.
    unfold threads_of. rewrite nth_error_map, Hk. cbn [option_map t_events fst snd].
    apply chunks_concat.
  - unfold threads_of. apply Forall_forall. intros t Ht. apply in_map_iff in Ht.
    destruct Ht as [p [Ep Hp]]. subst t. unfold thread_nested. cbn [t_events].
    destruct (chunks_concat (snd p)) as [Ec _]. rewrite Ec.
    rewrite Forall_forall in Hall. apply Hall. exact Hp.
Qed.

(* ================================================================== nesting *)
Lemma eo_app pid tid a : forall b st,
  no_stray_end (length st) a = true ->
  eo pid tid (a ++ b) st = eo pid tid a st ++ eo pid tid b (es pid tid a st) /\
  es pid tid (a ++ b) st = es pid tid b (es pid tid a st).
Proof.
  induction a as [|e a IH]; intros b st H.
  - rewrite eo_nil, es_nil. split; reflexivity.
  - cbn [app]. rewrite !eo_cons, !es_cons. cbn [no_stray_end] in H. destruct (e_kind e).
    + destruct (IH b (e :: st) H) as [H1 H2]. rewrite H1, H2. split; reflexivity.
    + destruct st as [|x st']; [discriminate|]. cbn [length] in H.
      destruct (IH b st' H) as [H1 H2]. rewrite H1, H2. cbn [app]. rewrite <- app_assoc. split; reflexivity.
    + destruct (IH b st H) as [H1 H2]. rewrite H1, H2. split; reflexivity.
    + destruct (IH b st H) as [H1 H2]. rewrite H1, H2. split; reflexivity.
Qed.

(* with no stray END the chunk boundaries are invisible in the output *)
Lemma emit_chunks_flat pid tid cs : forall st,
  no_stray_end (length st) (concat cs) = true ->
  emit_chunks pid tid cs st = eo pid tid (concat cs) st.
Proof.
  induction cs as [|c cs IH]; intros st H; [reflexivity|].
  cbn [concat] in *. rewrite emit_chunks_cons.
  destruct (eo_app pid tid c (concat cs) st (no_stray_end_app _ _ _ H)) as [H1 _]. rewrite H1.
  destruct (eo_events pid tid c st (concat cs) H) as [_ H2]. rewrite (IH _ H2). reflexivity.
Qed.

(* a properly nested stretch of events emits its objects and leaves the stack of open
   begins exactly as it found it *)
Lemma balanced_eo pid tid m : balanced m -> forall st rest,
  eo pid tid (m ++ rest) st = eo pid tid m [] ++ eo pid tid rest st /\
  es pid tid (m ++ rest) st = es pid tid rest st.
Proof.
  induction 1 as [|e l Hb He Hl IH|b m e l Hb He Hm IHm Hl IHl]; intros st rest.
  - split; reflexivity.
  - cbn [app]. rewrite !eo_cons, !es_cons. unfold is_begin, is_end in Hb, He.
    destruct (IH st rest) as [H1 H2].
    destruct (e_kind e); try discriminate; rewrite H1, H2; split; reflexivity.
  - unfold is_begin in Hb. unfold is_end in He.
    assert (Kb : e_kind b = KBegin) by (destruct (e_kind b); try discriminate; reflexivity).
    assert (Ke : e_kind e = KEnd) by (destruct (e_kind e); try discriminate; reflexivity).
    replace ((b :: m ++ e :: l) ++ rest) with (b :: m ++ (e :: l ++ rest))
      by (cbn [app]; rewrite <- app_assoc; reflexivity).
    rewrite !eo_cons, !es_cons, Kb.
    destruct (IHm (b :: st) (e :: l ++ rest)) as [H1 H2]. rewrite H1, H2.
    destruct (IHm [b] (e :: l)) as [H3 H4]. rewrite H3.
    rewrite !eo_cons, !es_cons, Ke.
    destruct (IHl st rest) as [H5 H6]. rewrite H5, H6.
    destruct (IHl [] []) as [H7 _]. rewrite app_nil_r, eo_nil, app_nil_r in H7.
    split; [|reflexivity]. cbn [app]. rewrite <- !app_assoc. cbn [app]. rewrite <- !app_assoc. reflexivity.
Qed.

Lemma balanced_no_stray m : balanced m -> forall d rest, no_stray_end d (m ++ rest) = no_stray_end d rest.
Proof.
  induction 1 as [|e l Hb He Hl IH|b m e l Hb He Hm IHm Hl IHl]; intros d rest.
  - reflexivity.
  - cbn [app no_stray_end]. unfold is_begin, is_end in Hb, He.
    destruct (e_kind e); try discriminate; apply IH.
  - unfold is_begin in Hb. unfold is_end in He.
    replace ((b :: m ++ e :: l) ++ rest) with (b :: m ++ (e :: l ++ rest))
      by (cbn [app]; rewrite <- app_assoc; reflexivity).
    cbn [no_stray_end]. destruct (e_kind b); try discriminate. rewrite IHm.
    cbn [no_stray_end]. destruct (e_kind e); try discriminate. apply IHl.
Qed.

(* each END is matched with the innermost open BEGIN: with only properly nested events
   between b and e, the END e is processed against b — the utilisation counter of a long
   interval carries b's time stamp — whatever was open before b stays open *)
Lemma nesting_pair pid tid b m e rest st :
  is_begin b = true -> is_end e = true -> balanced m ->
  eo pid tid (b :: m ++ e :: rest) st =
    JEvent pid tid b :: eo pid tid m [] ++ JEvent pid tid e :: util_of pid tid b e ++ eo pid tid rest st /\
  es pid tid (b :: m ++ e :: rest) st = es pid tid rest st.
Proof.
  intros Hb He Hm. unfold is_begin in Hb. unfold is_end in He.
  assert (Kb : e_kind b = KBegin) by (destruct (e_kind b); try discriminate; reflexivity).
  assert (Ke : e_kind e = KEnd) by (destruct (e_kind e); try discriminate; reflexivity).
  rewrite eo_cons, es_cons, Kb.
  destruct (balanced_eo pid tid m Hm (b :: st) (e :: rest)) as [H1 H2]. rewrite H1, H2.
  rewrite eo_cons, es_cons, Ke. split; reflexivity.
Qed.

(* savelog_nesting: the same inside a whole recorded thread, across chunk boundaries *)
Lemma savelog_nesting pid tid pre b m e rest :
  is_begin b = true -> is_end e = true -> balanced m ->
  no_stray_end 0 (pre ++ b :: m ++ e :: rest) = true ->
  emit_chunks pid tid (record_all (pre ++ b :: m ++ e :: rest)) [] =
    eo pid tid pre [] ++
    JEvent pid tid b :: eo pid tid m [] ++ JEvent pid tid e :: util_of pid tid b e ++
    eo pid tid rest (es pid tid pre []).
Proof.
  intros Hb He Hm Hn.
  destruct (chunks_concat (pre ++ b :: m ++ e :: rest)) as [Ec _].
  rewrite emit_chunks_flat by (rewrite Ec; exact Hn). rewrite Ec.
  destruct (eo_app pid tid pre (b :: m ++ e :: rest) [] (no_stray_end_app _ _ _ Hn)) as [H1 _].
  rewrite H1. destruct (nesting_pair pid tid b m e rest (es pid tid pre []) Hb He Hm) as [H2 _].
  rewrite H2. reflexivity.
Qed.

(* a properly nested thread ends with no open begin ("Missing end" is not printed) *)
Lemma balanced_closed pid tid evs :
  balanced evs -> no_stray_end 0 evs = true /\ es pid tid evs [] = [].
Proof.
  intro H. split.
  - rewrite <- (app_nil_r evs). rewrite (balanced_no_stray evs H). reflexivity.
  - destruct (balanced_eo pid tid evs H [] []) as [_ H2]. rewrite app_nil_r in H2. exact H2.
Qed.

(* ================================================================== wrappers for recorded threads *)
Lemma threads_of_ok l : Forall input_ok l -> Forall thread_ok (threads_of l).
Proof.
  intro H. unfold threads_of. apply Forall_forall. intros t Ht. apply in_map_iff in Ht.
  destruct Ht as [p [E Hp]]. subst t. rewrite Forall_forall in H. destruct (H p Hp) as [Hn He].
  split; [exact Hn | apply record_all_ev_ok; exact He].
Qed.

Lemma savelog_wellformed_recorded pname pid l :
  (forall p, pname = Some p -> text_ok p) -> Forall input_ok l ->
  let objs := log_objs pname pid (threads_of l) in
  saveLog pname pid (threads_of l) = [91] ++ intercalate [44] (map render objs) ++ [93] /\
  Forall (fun o => json_object (render o) = true) objs /\
  json_array (saveLog pname pid (threads_of l)) = true.
Proof. intros Hp Hl. apply savelog_wellformed; [exact Hp | apply threads_of_ok; exact Hl]. Qed.

(* ================================================================== the recorder's map *)
Lemma record_concat l e : concat (record l e) = concat l ++ [e].
Proof.
  destruct (record_cases l e) as [[El Er]|[[r [c [El [Hc Er]]]]|[r [c [El [Hc Er]]]]]]; rewrite Er.
  - subst l. reflexivity.
  - subst l. rewrite !concat_app. cbn [concat]. rewrite !app_nil_r, app_assoc. reflexivity.
  - rewrite concat_app. cbn [concat]. rewrite app_nil_r. reflexivity.
Qed.

Lemma reg_find_app r en id :
  reg_find (r ++ [en]) id =
  match reg_find r id with Some x => Some x | None => if re_id en =? id then Some en else None end.
Proof.
  induction r as [|a r IH]; cbn [app reg_find]; [reflexivity|].
  destruct (re_id a =? id); [reflexivity | exact IH].
Qed.

Lemma reg_evs_attach r id id' : reg_evs (reg_attach r id) id' = reg_evs r id'.
Proof.
  unfold reg_attach, reg_evs, reg_get. destruct (reg_find r id) eqn:F; [reflexivity|].
  rewrite reg_find_app. destruct (reg_find r id'); [reflexivity|]. cbn [re_id].
  destruct (id =? id'); reflexivity.
Qed.

Lemma reg_all_attach r id : reg_all (reg_attach r id) = reg_all r.
Proof.
  unfold reg_attach. destruct (reg_find r id); [reflexivity|].
  unfold reg_all. rewrite flat_map_app. cbn. rewrite app_nil_r. reflexivity.
Qed.

Lemma reg_attach_found r id : exists en, reg_find (reg_attach r id) id = Some en.
Proof.
  unfold reg_attach. destruct (reg_find r id) as [en|] eqn:F.
  - exists en. exact F.
  - rewrite reg_find_app, F. cbn [re_id]. rewrite N.eqb_refl. eexists. reflexivity.
Qed.

Lemma reg_find_id r id en : reg_find r id = Some en -> re_id en = id.
Proof.
  induction r as [|a r IH]; cbn [reg_find]; [discriminate|].
  destruct (N.eqb_spec (re_id a) id) as [E|E]; [intro H; inversion H as [H1]; rewrite <- H1; exact E | exact IH].
Qed.

(* updating the entry of id with a function that keeps the id *)
Lemma reg_find_upd r id f id' :
  (forall en, re_id (f en) = re_id en) ->
  reg_find (reg_upd r id f) id' =
  if id' =? id then option_map f (reg_find r id) else reg_find r id'.
Proof.
  intro Hf. induction r as [|a r IH]; cbn [reg_upd reg_find].
  - destruct (id' =? id); reflexivity.
  - destruct (N.eqb_spec (re_id a) id) as [E|E]; cbn [reg_find].
    + rewrite Hf. destruct (N.eqb_spec id' id) as [E'|E'].
      * subst id'. rewrite E, N.eqb_refl. reflexivity.
      * destruct (N.eqb_spec (re_id a) id'); [congruence | reflexivity].
    + destruct (N.eqb_spec id' id) as [E'|E'].
      * subst id'. destruct (N.eqb_spec (re_id a) id); [contradiction | exact IH].
      * destruct (N.eqb_spec (re_id a) id'); [reflexivity | exact IH].
Qed.

Lemma reg_all_upd_rec r id e en0 :
  reg_find r id = Some en0 ->
  length (reg_all (reg_upd r id (fun en => mkRe (re_id en) (re_name en) (record (re_events en) e)))) = S (length (reg_all r)).
Proof.
  revert en0. induction r as [|a r IH]; intros en0 F; cbn [reg_find] in F; [discriminate|].
  cbn [reg_upd]. destruct (re_id a =? id).
  - unfold reg_all. cbn [flat_map re_events]. rewrite !app_length, record_concat, app_length. cbn. lia.
  - unfold reg_all in *. cbn [flat_map]. rewrite !app_length, (IH _ F). lia.
Qed.

Lemma reg_all_upd_name r id nm :
  reg_all (reg_upd r id (fun en => mkRe (re_id en) (Some nm) (re_events en))) = reg_all r.
Proof.
  induction r as [|a r IH]; [reflexivity|]. cbn [reg_upd]. destruct (re_id a =? id).
  - reflexivity.
  - unfold reg_all in *. cbn [flat_map]. rewrite IH. reflexivity.
Qed.

Lemma reg_step_evs r o id :
  reg_evs (reg_step r o) id = reg_evs r id ++ recs_of id [o].
Proof.
  destruct o as [i|i nm|i e]; cbn [reg_step recs_of flat_map].
  - rewrite reg_evs_attach, app_nil_r. reflexivity.
  - rewrite app_nil_r. unfold reg_evs, reg_get. rewrite reg_find_upd by reflexivity.
    destruct (N.eqb_spec id i) as [E|E].
    + subst i. pose proof (reg_evs_attach r id id) as A. unfold reg_evs, reg_get in A.
      destruct (reg_find (reg_attach r id) id); cbn [option_map re_events] in *; exact A.
    + apply (reg_evs_attach r i id).
  - unfold reg_evs, reg_get. rewrite reg_find_upd by reflexivity.
    destruct (N.eqb_spec id i) as [E|E].
    + subst i. rewrite N.eqb_refl. cbn [app].
      destruct (reg_attach_found r id) as [en F]. rewrite F. cbn [option_map re_events].
      rewrite record_concat. f_equal.
      pose proof (reg_evs_attach r id id) as A. unfold reg_evs, reg_get in A. rewrite F in A. exact A.
    + destruct (N.eqb_spec i id); [congruence|]. cbn [app]. rewrite app_nil_r. apply (reg_evs_attach r i id).
Qed.

Lemma reg_fold_evs ops : forall r id,
  reg_evs (fold_left reg_step ops r) id = reg_evs r id ++ recs_of id ops.
Proof.
  induction ops as [|o ops IH]; intros r id; cbn [fold_left].
  - unfold recs_of. cbn. rewrite app_nil_r. reflexivity.
  - rewrite IH, reg_step_evs. unfold recs_of. cbn [flat_map]. rewrite app_nil_r, <- app_assoc. reflexivity.
Qed.

(* no recorded event is ever dropped or moved: for every sequence of attach / name / record
   operations, repeated thread ids included, the list kept under an id holds exactly the
   events recorded under that id, in recording order *)
Lemma reg_events_of ops id : reg_evs (reg_run ops) id = recs_of id ops.
Proof. unfold reg_run. rewrite reg_fold_evs. reflexivity. Qed.

Lemma reg_step_count r o :
  length (reg_all (reg_step r o)) = (length (reg_all r) + rec_count [o])%nat.
Proof.
  destruct o as [i|i nm|i e]; cbn [reg_step rec_count filter length].
  - rewrite reg_all_attach. lia.
  - rewrite reg_all_upd_name, reg_all_attach. lia.
  - destruct (reg_attach_found r i) as [en F]. rewrite (reg_all_upd_rec _ _ _ _ F), reg_all_attach. lia.
Qed.

(* and nothing else is in the map: it holds as many events as were recorded *)
Lemma reg_total ops : length (reg_all (reg_run ops)) = rec_count ops.
Proof.
  unfold reg_run. assert (G : forall r, length (reg_all (fold_left reg_step ops r)) = (length (reg_all r) + rec_count ops)%nat).
  { induction ops as [|o ops IH]; intro r; cbn [fold_left].
    - unfold rec_count. cbn. lia.
    - rewrite IH, reg_step_count. unfold rec_count. cbn [filter]. destruct o; cbn [length]; lia. }
  rewrite G. reflexivity.
Qed.

(* one entry per id *)
Lemma reg_keys_upd r id f : (forall en, re_id (f en) = re_id en) -> map re_id (reg_upd r id f) = map re_id r.
Proof.
  intro Hf. induction r as [|a r IH]; [reflexivity|]. cbn [reg_upd]. destruct (re_id a =? id); cbn [map].
  - rewrite Hf. reflexivity.
  - rewrite IH. reflexivity.
Qed.

Lemma reg_find_none_notin r id : reg_find r id = None -> ~ In id (map re_id r).
Proof.
  induction r as [|a r IH]; cbn [reg_find map]; [intros _ []|].
  destruct (N.eqb_spec (re_id a) id) as [E|E]; [discriminate|]. intros F [H|H]; [contradiction | exact (IH F H)].
Qed.

Lemma NoDup_app_snoc {A} (l : list A) x : NoDup l -> ~ In x l -> NoDup (l ++ [x]).
Proof.
  induction l as [|a l IH]; intros ND NI; cbn.
  - constructor; [intros [] | constructor].
  - inversion ND as [|a' l' Ha ND']; subst. constructor.
    + rewrite in_app_iff. intros [H|[H|[]]]; [contradiction | subst; apply NI; left; reflexivity].
    + apply IH; [exact ND' | intro H; apply NI; right; exact H].
Qed.

Lemma reg_keys_attach r id : NoDup (map re_id r) -> NoDup (map re_id (reg_attach r id)).
Proof.
  intro ND. unfold reg_attach. destruct (reg_find r id) eqn:F; [exact ND|].
  rewrite map_app. cbn [map re_id]. apply NoDup_app_snoc; [exact ND | apply reg_find_none_notin; exact F].
Qed.

Lemma reg_keys_nodup ops : NoDup (map re_id (reg_run ops)).
Proof.
  unfold reg_run. assert (G : forall r, NoDup (map re_id r) -> NoDup (map re_id (fold_left reg_step ops r))).
  { induction ops as [|o ops IH]; intros r ND; cbn [fold_left]; [exact ND|]. apply IH.
    destruct o as [i|i nm|i e]; cbn [reg_step].
    - apply reg_keys_attach; exact ND.
    - rewrite reg_keys_upd by reflexivity. apply reg_keys_attach; exact ND.
    - rewrite reg_keys_upd by reflexivity. apply reg_keys_attach; exact ND. }
  apply G. constructor.
Qed.

(* completeness for any list of threads (not only freshly recorded ones) *)
Lemma savelog_complete_threads pname pid ths k t :
  Forall thread_nested ths -> nth_error ths k = Some t ->
  events_of_tid (N.of_nat k) (log_objs pname pid ths) = concat (t_events t).
Proof.
  intros Hall Hk. unfold log_objs. rewrite events_of_tid_app.
  assert (E0 : events_of_tid (N.of_nat k) (match pname with Some p => [JProc pid p] | None => [] end) = []).
  { destruct pname; reflexivity. }
  rewrite E0. cbn [app]. rewrite emit_threads_events by exact Hall.
  destruct (N.ltb_spec (N.of_nat k) 0); [lia|]. rewrite N.sub_0_r, Nat2N.id, Hk. reflexivity.
Qed.

(* the k-th entry of the map, whatever ids were reused, is printed with tid k and holds exactly the
   events recorded under its id *)
Lemma savelog_complete_registry pname pid idtext ops k en :
  (forall id, no_stray_end 0 (recs_of id ops) = true) ->
  nth_error (reg_run ops) k = Some en ->
  events_of_tid (N.of_nat k) (log_objs pname pid (reg_threads idtext (reg_run ops))) = recs_of (re_id en) ops.
Proof.
  intros Hn Hk.
  assert (Hget : forall e, In e (reg_run ops) -> concat (re_events e) = recs_of (re_id e) ops).
  { intros e Hin. rewrite <- reg_events_of. unfold reg_evs, reg_get.
    pose proof (reg_keys_nodup ops) as ND. revert Hin ND. generalize (reg_run ops) as r.
    induction r as [|a r IH]; intros Hin ND; [destruct Hin|]. cbn [reg_find map] in *.
    inversion ND as [|x l Hx ND']; subst. destruct Hin as [->|Hin].
    - rewrite N.eqb_refl. reflexivity.
    - destruct (N.eqb_spec (re_id a) (re_id e)) as [E|E].
      + exfalso. apply Hx. rewrite E. apply in_map. exact Hin.
      + apply IH; assumption. }
  rewrite (savelog_complete_threads pname pid _ k (mkThread (display_name idtext en) (re_events en))).
  - cbn [t_events]. apply Hget. eapply nth_error_In. exact Hk.
  - unfold reg_threads. apply Forall_forall. intros t Ht. apply in_map_iff in Ht. destruct Ht as [e [Et Hin]].
    subst t. unfold thread_nested. cbn [t_events]. rewrite (Hget e Hin). apply Hn.
  - unfold reg_threads. rewrite nth_error_map, Hk. reflexivity.
Qed.

(* ================================================================== the string cache *)
Lemma sc_find_app c p q t :
  sc_find (c ++ [(q, t)]) p = match sc_find c p with Some x => Some x | None => if q =? p then Some t else None end.
Proof.
  induction c as [|[q' t'] c IH]; cbn [app sc_find]; [reflexivity|].
  destruct (q' =? p); [reflexivity | exact IH].
Qed.

(* the cache only ever pairs a pointer with the text it designates *)
Definition sc_ok (txt : N -> str) (c : scache) : Prop := forall p t, sc_find c p = Some t -> t = txt p.

Lemma sc_lookup_ok txt c p :
  sc_ok txt c -> fst (sc_lookup c p (txt p)) = txt p /\ sc_ok txt (snd (sc_lookup c p (txt p))).
Proof.
  intro H. unfold sc_lookup. destruct (sc_find c p) as [t|] eqn:F; cbn [fst snd].
  - split; [apply H; exact F | exact H].
  - split; [reflexivity|]. intros p' t'. rewrite sc_find_app.
    destruct (sc_find c p') as [x|] eqn:F'; [intro E; inversion E; subst; apply H; exact F'|].
    destruct (N.eqb_spec p p'); [intro E; inversion E; subst; reflexivity | discriminate].
Qed.

(* for any sequence of lookups — first-seen and cached ones interleaved in any way, the same
   pointer used for names and categories — the string logged for each is the string its pointer
   designates (pointers designate a fixed text, as string literals do) *)
Lemma sc_run_faithful txt l : forall c,
  sc_ok txt c -> sc_run c (map (fun p => (p, txt p)) l) = map txt l.
Proof.
  induction l as [|p l IH]; intros c H; cbn [map sc_run]; [reflexivity|].
  destruct (sc_lookup_ok txt c p H) as [H1 H2].
  destruct (sc_lookup c p (txt p)) as [t c'] eqn:E. cbn [fst snd] in *. rewrite H1, (IH c' H2). reflexivity.
Qed.

Lemma sc_run_faithful_empty txt l : sc_run [] (map (fun p => (p, txt p)) l) = map txt l.
Proof. apply sc_run_faithful. intros p t F. discriminate. Qed.

(* without the assumption: a known pointer gets the text it had when first seen, and the cache is
   not changed by a hit *)
Lemma sc_lookup_hit c p text t : sc_find c p = Some t -> sc_lookup c p text = (t, c).
Proof. intro F. unfold sc_lookup. rewrite F. reflexivity. Qed.

Lemma sc_lookup_miss c p text :
  sc_find c p = None -> sc_lookup c p text = (text, c ++ [(p, text)]) /\ sc_find (c ++ [(p, text)]) p = Some text.
Proof.
  intro F. unfold sc_lookup. rewrite F. split; [reflexivity|]. rewrite sc_find_app, F, N.eqb_refl. reflexivity.
Qed.

(* ================================================================== several saves *)
Lemma hist_final_ops h : forall r, hist_final r h = fold_left reg_step (ops_of h) r.
Proof.
  induction h as [|x h IH]; intro r; [reflexivity|].
  unfold hist_final in *. cbn [fold_left]. destruct x as [o|]; cbn [hist_step ops_of flat_map app fold_left]; apply IH.
Qed.

(* saveLog is read-only: the recorder after a history with saves is the recorder after the same
   history without them *)
Lemma save_is_read_only h : hist_final [] h = reg_run (ops_of h).
Proof. apply hist_final_ops. Qed.

Lemma hist_saves_app h1 : forall r h2,
  hist_saves r (h1 ++ h2) = hist_saves r h1 ++ hist_saves (hist_final r h1) h2.
Proof.
  induction h1 as [|x h1 IH]; intros r h2; [reflexivity|].
  unfold hist_final. cbn [app hist_saves fold_left]. destruct x as [o|]; cbn [hist_step].
  - apply IH.
  - cbn [app]. f_equal. apply IH.
Qed.

(* the save that follows h1 sees, under every thread id, exactly the events recorded in h1 -
   earlier saves or not *)
Lemma save_sees_everything_so_far h1 h2 id :
  reg_evs (nth (length (hist_saves [] h1)) (hist_saves [] (h1 ++ HSave :: h2)) []) id = recs_of id (ops_of h1).
Proof.
  rewrite hist_saves_app. cbn [hist_saves]. rewrite app_nth2 by lia. rewrite Nat.sub_diag. cbn [nth].
  rewrite save_is_read_only. apply reg_events_of.
Qed.

Lemma ops_of_app h1 h2 : ops_of (h1 ++ h2) = ops_of h1 ++ ops_of h2.
Proof. unfold ops_of. apply flat_map_app. Qed.

Lemma recs_of_app id a b : recs_of id (a ++ b) = recs_of id a ++ recs_of id b.
Proof. unfold recs_of. apply flat_map_app. Qed.

(* a later save contains, for every thread id, everything an earlier save contained, as a prefix *)
Lemma later_save_contains_earlier_events h1 h2 h3 id :
  let all := h1 ++ HSave :: h2 ++ HSave :: h3 in
  let first := nth (length (hist_saves [] h1)) (hist_saves [] all) [] in
  let second := nth (length (hist_saves [] (h1 ++ HSave :: h2))) (hist_saves [] all) [] in
  reg_evs second id = reg_evs first id ++ recs_of id (ops_of h2).
Proof.
  intros all first second. subst first second all.
  rewrite (save_sees_everything_so_far h1 (h2 ++ HSave :: h3) id).
  replace (h1 ++ HSave :: h2 ++ HSave :: h3) with ((h1 ++ HSave :: h2) ++ HSave :: h3)
    by (rewrite <- app_assoc; reflexivity).
  rewrite (save_sees_everything_so_far (h1 ++ HSave :: h2) h3 id).
  rewrite ops_of_app, recs_of_app. cbn [ops_of flat_map app]. reflexivity.
Qed.

(* ================================================================== thread names are attributes *)
Lemma recs_of_names id ops l : (forall o, In o l -> match o with RRec _ _ => False | _ => True end) -> recs_of id (ops ++ l) = recs_of id ops.
Proof.
  intro H. rewrite recs_of_app. replace (recs_of id l) with (@nil tev); [apply app_nil_r|].
  induction l as [|o l IH]; [reflexivity|]. unfold recs_of in *. cbn [flat_map].
  pose proof (H o (or_introl eq_refl)) as Ho. destruct o; try contradiction; cbn [app]; apply IH; intros o' Hin; apply H; right; exact Hin.
Qed.

(* events of distinct threads never merge, whatever their names: after any history, and after any further setThreadName
   calls (two threads given the same name, a name set to the empty string ...), each id still has exactly its own events *)
Lemma names_never_merge ops names id :
  reg_evs (reg_run (ops ++ map (fun p => RName (fst p) (snd p)) names)) id = recs_of id ops.
Proof.
  rewrite reg_events_of. apply recs_of_names. intros o Hin. apply in_map_iff in Hin. destruct Hin as [p [E _]]. subst o. exact I.
Qed.

(* ================================================================== texts are written verbatim *)
(* without the text_ok hypothesis the log need not be JSON: one thread whose NAME contains a double quote (character codes 97 34 98: a, double quote, b),
   or one marker whose name does; saveLog writes the text as it is and the recogniser rejects the result *)
Lemma savelog_unescaped_text_witness :
  let q := [97; 34; 98] in
  let ev := mkEv KMarker [111; 107] None 0 1000 [] in
  json_array (saveLog None 1 (threads_of [(q, [ev])])) = false /\
  json_array (saveLog None 1 (threads_of [([116], [mkEv KMarker q None 0 1000 []])])) = false /\
  json_array (saveLog (Some q) 1 (threads_of [([116], [ev])])) = false /\
  json_array (saveLog None 1 (threads_of [([116], [mkEv KMarker [111; 107] (Some q) 0 1000 []])])) = false /\
  json_array (saveLog None 1 (threads_of [([116], [ev])])) = true.
Proof. vm_compute. repeat split; reflexivity. Qed.
