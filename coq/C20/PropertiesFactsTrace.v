(* C20 — source-derived obligations.  gen/Facts.v is regenerated from the working tree on every
   run (props/C20/factgen.py over the clang AST of SaveImage.h and tracing/Tracing.cpp); these
   theorems tie it to Model.v.  Kept apart from Properties.v so that a change of the source
   breaks these and leaves the theorems about the model standing. *)
From Common Require Import Prelude.
From C20 Require Import Model FactsDefs FactsCheckTrace.
Local Open Scope N_scope.

(* the tracing facts are the ones Model.v was written from: chunk constant 8192 used in
   `events.empty() || events.back().size() >= 8192` and in reserve(); the four recording
   functions push onto getCurrentEventList(); saveLog streams "[" first, closes each of its four
   kinds of object with "}," and none with a bare "}", seeks back one character only when
   tellp() > 1, streams "]" last; beginEvents is declared per thread (outside the loop over
   chunks); BEGIN pushes &evt, END takes top() and pops, a stray END breaks out of the chunk
   loop before printing; the utilisation counter needs duration > 100; tids count from 0;
   getThreadTraceList takes the lock first, looks the id up and inserts a new list only when the
   id is absent; the recording entry points fill a static thread_local cache from it once;
   getCachedString is `find by pointer; insert a copy if absent; return the mapped string` and
   ThreadEventList has no data member besides events, threadName, stringCache; every name and
   category an event stores went through it; saveLog takes the lock first and touches threadTrace
   only as the range of its loop (the map is not moved from, swapped, cleared or assigned) *)
Theorem facts_trace_match : tr_eqb gen_tr model_tr = true.
Proof. exact FactsCheckTrace.tr_match_lemma. Qed.
Print Assumptions facts_trace_match.

(* hence the model's functions are the ones these facts determine *)
Theorem facts_trace_model :
  (forall l, get_current_of gen_tr l = get_current l) /\
  (forall s, seek_of gen_tr s = seek_overwrite s) /\
  (forall pid tid cs st, emit_chunks_of gen_tr pid tid cs st = emit_chunks pid tid cs st) /\
  (forall b e, is_long_of gen_tr b e = is_long b e) /\
  tr_chunk gen_tr = chunk_size /\ tr_reserve gen_tr = chunk_size /\
  (forall r id, reg_attach_of gen_tr r id = reg_attach r id) /\
  (forall c p text, sc_lookup_of gen_tr c p text = Some (sc_lookup c p text)) /\
  (forall r x, hist_step_of gen_tr r x = hist_step r x).
Proof. exact FactsCheckTrace.tr_sound_lemma. Qed.
Print Assumptions facts_trace_model.
