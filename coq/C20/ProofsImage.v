(* C20 — proofs about the image writers: every read stays inside the w*h pixels, and the
   file parses back (independent reader of Spec.v) to (w, h, selected channels of the input). *)
From Common Require Import Prelude.
From Coq Require Import DecimalN.
From C20 Require Import Model Spec.
Local Open Scope N_scope.

(* ------------------------------------------------------------------ counting *)
Lemma in_upto n : forall s i, In i (upto n s) <-> s <= i < s + N.of_nat n.
Proof.
  induction n as [|n IH]; intros s i; cbn [upto].
  - cbn. lia.
  - cbn [In]. rewrite IH. lia.
Qed.

Lemma in_countN n i : In i (countN n) <-> i < n.
Proof. unfold countN. rewrite in_upto. lia. Qed.

Lemma length_upto n : forall s, length (upto n s) = n.
Proof. induction n as [|n IH]; intro s; cbn; [reflexivity | rewrite IH; reflexivity]. Qed.

Lemma length_countN n : length (countN n) = N.to_nat n.
Proof. apply length_upto. Qed.

Lemma countN_1 : countN 1 = [0]. Proof. reflexivity. Qed.
Lemma countN_3 : countN 3 = [0; 1; 2]. Proof. reflexivity. Qed.
Lemma countN_4 : countN 4 = [0; 1; 2; 3]. Proof. reflexivity. Qed.

Lemma map_flat_map {A B C} (f : B -> C) (g : A -> list B) l :
  map f (flat_map g l) = flat_map (fun x => map f (g x)) l.
Proof. induction l as [|a l IH]; cbn; [reflexivity | rewrite map_app, IH; reflexivity]. Qed.

Lemma length_flat_map_const {A B} (g : A -> list B) k l :
  (forall x, length (g x) = k) -> length (flat_map g l) = (length l * k)%nat.
Proof.
  intro H. induction l as [|a l IH]; cbn; [reflexivity | rewrite app_length, H, IH; reflexivity].
Qed.

(* ------------------------------------------------------------------ reads in bounds *)
(* what the index arithmetic needs of an instantiation: at least one stored component, and
   either one written component or no more written than stored *)
Definition fmt_ok (f : fmt) : Prop :=
  0 < f_pixcomp f /\ (f_ncomp f = 1 \/ f_ncomp f <= f_pixcomp f).

Lemma fmt_of_ok i : fmt_ok (fmt_of i).
Proof. unfold fmt_ok. destruct i; cbn; lia. Qed.

Lemma comp_sel_lt f c : fmt_ok f -> c < f_ncomp f -> comp_sel f c < f_pixcomp f.
Proof. unfold fmt_ok, comp_sel. intros [Hp Hn] Hc. destruct (N.eqb_spec (f_ncomp f) 1); lia. Qed.

Lemma src_row_lt f h y : y < h -> src_row f h y < h.
Proof. unfold src_row. destruct (f_flip f); lia. Qed.

Lemma index_lt r w h p x s : r < h -> x < w -> s < p -> r * w * p + (p * x + s) < w * h * p.
Proof.
  intros Hr Hx Hs.
  assert (H1 : p * x + s < p * (x + 1)) by lia.
  assert (H2 : p * (x + 1) <= p * w) by (apply N.mul_le_mono_l; lia).
  assert (H3 : (r + 1) * (w * p) <= h * (w * p)) by (apply N.mul_le_mono_r; lia).
  lia.
Qed.

Lemma read_index_lt f w h y x c :
  fmt_ok f -> y < h -> x < w -> c < f_ncomp f ->
  read_index comp_sel f w h y x c < w * h * f_pixcomp f.
Proof.
  intros Hf Hy Hx Hc. unfold read_index.
  apply index_lt; [apply src_row_lt; exact Hy | exact Hx | apply comp_sel_lt; assumption].
Qed.

Lemma in_img_reads sel f w h i :
  In i (img_reads sel f w h) <->
  exists y x c, y < h /\ x < w /\ c < f_ncomp f /\ i = read_index sel f w h y x c.
Proof.
  unfold img_reads, row_reads. rewrite in_flat_map. split.
  - intros [y [Hy Hi]]. apply in_flat_map in Hi. destruct Hi as [x [Hx Hi]].
    apply in_map_iff in Hi. destruct Hi as [c [E Hc]].
    exists y, x, c. rewrite in_countN in *. repeat split; [assumption .. | symmetry; exact E].
  - intros [y [x [c [Hy [Hx [Hc E]]]]]]. exists y. split; [apply in_countN; exact Hy|].
    apply in_flat_map. exists x. split; [apply in_countN; exact Hx|].
    apply in_map_iff. exists c. split; [symmetry; exact E | apply in_countN; exact Hc].
Qed.

Lemma reads_in_bounds_gen f w h i :
  fmt_ok f -> In i (img_reads comp_sel f w h) -> i < w * h * f_pixcomp f.
Proof.
  intros Hf Hi. apply in_img_reads in Hi. destruct Hi as [y [x [c [Hy [Hx [Hc E]]]]]].
  subst i. apply read_index_lt; assumption.
Qed.

Lemma reads_in_bounds i w h idx :
  In idx (img_reads comp_sel (fmt_of i) w h) -> idx < w * h * f_pixcomp (fmt_of i).
Proof. apply reads_in_bounds_gen. apply fmt_of_ok. Qed.

(* the number of reads = the number of components written *)
Lemma length_img_reads sel f w h :
  length (img_reads sel f w h) = N.to_nat (w * h * f_ncomp f).
Proof.
  unfold img_reads.
  rewrite (length_flat_map_const _ (N.to_nat w * N.to_nat (f_ncomp f))%nat).
  - rewrite length_countN. rewrite !N2Nat.inj_mul. lia.
  - intro y. unfold row_reads. rewrite (length_flat_map_const _ (N.to_nat (f_ncomp f))).
    + rewrite length_countN. reflexivity.
    + intro x. rewrite map_length. apply length_countN.
Qed.

(* performing the reads on a buffer that holds them all never leaves the buffer *)
Lemma read_all_ok inp idx :
  Forall (fun i => (N.to_nat i < length inp)%nat) idx ->
  read_all inp idx = inl (map (fun i => nth (N.to_nat i) inp 0) idx).
Proof.
  induction 1 as [|i idx Hi _ IH]; cbn [read_all map]; [reflexivity|].
  rewrite (nth_error_nth' inp 0 Hi), IH. reflexivity.
Qed.

Lemma writeImage_bytes i w h inp :
  length inp = N.to_nat (w * h * f_pixcomp (fmt_of i)) ->
  writeImage (fmt_of i) w h inp =
  WBytes (header (fmt_of i) w h
          ++ flat_map (le_bytes (f_csize (fmt_of i)))
                      (map (fun k => nth (N.to_nat k) inp 0) (img_reads comp_sel (fmt_of i) w h))
          ++ [10]).
Proof.
  intro L. unfold writeImage, writeImage_gen. rewrite read_all_ok; [reflexivity|].
  apply Forall_forall. intros k Hk. apply reads_in_bounds in Hk. rewrite L. lia.
Qed.

(* the unrepaired component selection leaves the buffer: writePFM<float> on a 2x2 image *)
Lemma pfm_float_old_oob :
  exists w h inp idx,
    length inp = N.to_nat (w * h * f_pixcomp (fmt_of PFM1)) /\
    In idx (img_reads comp_sel_old (fmt_of PFM1) w h) /\
    w * h * f_pixcomp (fmt_of PFM1) <= idx /\
    writeImage_old (fmt_of PFM1) w h inp = WOob idx.
Proof.
  exists 2, 2, [1; 2; 3; 4], 4. vm_compute. repeat split; try reflexivity.
  - right. left. reflexivity.
  - discriminate.
Qed.

(* ------------------------------------------------------------------ the reads are the spec's pixels *)
Lemma reads_expected i w h inp :
  map (fun k => nth (N.to_nat k) inp 0) (img_reads comp_sel (fmt_of i) w h) = expected i w h inp.
Proof.
  unfold img_reads, expected, row_reads. rewrite map_flat_map. apply flat_map_ext. intro y.
  rewrite map_flat_map. apply flat_map_ext. intro x. rewrite map_map.
  unfold pix, read_index, comp_sel, src_row.
  destruct i; cbn [fmt_of f_ncomp f_pixcomp f_flip bottom_up selected N.eqb Pos.eqb];
    rewrite ?countN_1, ?countN_3, ?countN_4; cbn [map];
    repeat (f_equal; try (f_equal; f_equal; lia)).
Qed.

(* ------------------------------------------------------------------ header round trip *)
Lemma strip_prefix_app p s : strip_prefix p (p ++ s) = Some s.
Proof. induction p as [|a p IH]; cbn; [reflexivity | rewrite N.eqb_refl; exact IH]. Qed.

Lemma uint_chars_digits u : forallb is_digit (uint_chars u) = true.
Proof. induction u; cbn; try reflexivity; exact IHu. Qed.

Lemma chars_uint_chars u : chars_uint (uint_chars u) = u.
Proof. induction u; cbn; try reflexivity; rewrite IHu; reflexivity. Qed.

Lemma span_digits_app ds c r :
  forallb is_digit ds = true -> is_digit c = false -> span_digits (ds ++ c :: r) = (ds, c :: r).
Proof.
  intros Hd Hc. induction ds as [|d ds IH]; cbn [app span_digits].
  - rewrite Hc. reflexivity.
  - cbn [forallb] in Hd. apply andb_true_iff in Hd. destruct Hd as [H1 H2].
    rewrite H1, (IH H2). reflexivity.
Qed.

Lemma dec_nonempty n : dec n <> [].
Proof.
  unfold dec. intro H. destruct (N.to_uint n) eqn:E; cbn in H; try discriminate.
  pose proof (Unsigned.of_to n) as R. rewrite E in R. cbn in R. subst n. cbn in E. discriminate.
Qed.

Lemma parse_dec_dec n c r : is_digit c = false -> parse_dec (dec n ++ c :: r) = Some (n, c :: r).
Proof.
  intro Hc. unfold parse_dec. rewrite span_digits_app; [|apply uint_chars_digits | exact Hc].
  destruct (dec n) as [|d ds] eqn:E; [exfalso; exact (dec_nonempty n E)|].
  rewrite <- E. unfold dec. rewrite chars_uint_chars, Unsigned.of_to. reflexivity.
Qed.

Lemma parse_header_header f w h rest :
  parse_header (f_magic f) (f_scale f) (header f w h ++ rest) = Some (w, h, rest).
Proof.
  unfold parse_header, header. repeat rewrite <- app_assoc.
  rewrite (app_assoc (f_magic f) [10]). rewrite strip_prefix_app. cbn [app].
  rewrite parse_dec_dec by reflexivity. cbn [strip_prefix N.eqb Pos.eqb].
  rewrite parse_dec_dec by reflexivity. cbn [app strip_prefix N.eqb Pos.eqb].
  change (10 :: rest) with ([10] ++ rest). rewrite app_assoc, strip_prefix_app. reflexivity.
Qed.

(* ------------------------------------------------------------------ payload round trip *)
Lemma length_le_bytes n : forall v, length (le_bytes n v) = n.
Proof. induction n as [|n IH]; intro v; cbn; [reflexivity | rewrite IH; reflexivity]. Qed.

Lemma le_val_le_bytes n : forall v, v < 256 ^ N.of_nat n -> le_val (le_bytes n v) = v.
Proof.
  induction n as [|n IH]; intros v Hv.
  - cbn in *. lia.
  - cbn [le_bytes le_val]. rewrite Nat2N.inj_succ, N.pow_succ_r' in Hv.
    rewrite IH by (apply N.div_lt_upper_bound; lia).
    pose proof (N.div_mod v 256). lia.
Qed.

Lemma firstn_len_app {A} (a b : list A) n : length a = n -> firstn n (a ++ b) = a.
Proof. intros <-. induction a as [|x a IH]; cbn; [destruct b; reflexivity | rewrite IH; reflexivity]. Qed.

Lemma skipn_len_app {A} (a b : list A) n : length a = n -> skipn n (a ++ b) = b.
Proof. intros <-. induction a as [|x a IH]; cbn; [reflexivity | exact IH]. Qed.

Lemma take_comps_ok cs vs rest :
  Forall (fun v => v < 256 ^ N.of_nat cs) vs ->
  take_comps cs (length vs) (flat_map (le_bytes cs) vs ++ rest) = Some (vs, rest).
Proof.
  induction 1 as [|v vs Hv _ IH]; cbn [length flat_map take_comps app]; [reflexivity|].
  rewrite <- app_assoc.
  assert (L : length (le_bytes cs v) = cs) by apply length_le_bytes.
  destruct (Nat.ltb_spec (length (le_bytes cs v ++ flat_map (le_bytes cs) vs ++ rest)) cs) as [Hlt|_].
  { rewrite app_length in Hlt. lia. }
  rewrite (firstn_len_app _ _ _ L), (skipn_len_app _ _ _ L).
  rewrite IH, le_val_le_bytes by exact Hv. reflexivity.
Qed.

Lemma pow256_pos k : 0 < 256 ^ k.
Proof. apply N.neq_0_lt_0. apply N.pow_nonzero. discriminate. Qed.

(* ------------------------------------------------------------------ image_decode *)
Lemma image_decode i w h inp :
  length inp = N.to_nat (w * h * f_pixcomp (fmt_of i)) -> comps_fit i inp ->
  exists bytes,
    writeImage (fmt_of i) w h inp = WBytes bytes /\
    read_image (fmt_of i) bytes = Some (w, h, expected i w h inp).
Proof.
  intros L Fit. eexists. split; [apply writeImage_bytes; exact L|].
  unfold read_image. rewrite parse_header_header. rewrite reads_expected.
  assert (Len : length (expected i w h inp) = N.to_nat (w * h * f_ncomp (fmt_of i))).
  { rewrite <- reads_expected, map_length. apply length_img_reads. }
  rewrite <- Len. rewrite take_comps_ok; [reflexivity|].
  rewrite <- reads_expected. apply Forall_forall. intros v Hv.
  apply in_map_iff in Hv. destruct Hv as [k [E _]]. subst v.
  destruct (nth_in_or_default (N.to_nat k) inp 0) as [Hin|E0].
  - unfold comps_fit in Fit. rewrite Forall_forall in Fit. apply Fit. exact Hin.
  - rewrite E0. apply pow256_pos.
Qed.

(* the same statement unfolded for the two families: rows bottom-up / as given *)
Lemma expected_rows i w h inp :
  expected i w h inp =
  flat_map (fun y => flat_map (fun x => map (fun c => pix i w inp (if bottom_up i then h - 1 - y else y) x c)
                                            (selected i)) (countN w)) (countN h).
Proof. reflexivity. Qed.

(* the decoded content has one entry per pixel and selected channel *)
Lemma length_expected i w h inp :
  length (expected i w h inp) = N.to_nat (w * h * N.of_nat (length (selected i))).
Proof.
  rewrite <- reads_expected, map_length, length_img_reads. destruct i; reflexivity.
Qed.

(* the writer never leaves the buffer it was given *)
Lemma writeImage_no_oob i w h inp idx :
  length inp = N.to_nat (w * h * f_pixcomp (fmt_of i)) -> writeImage (fmt_of i) w h inp <> WOob idx.
Proof. intro L. rewrite writeImage_bytes by exact L. discriminate. Qed.
