From Common Require Import Prelude.
From C20 Require Import Model Spec.
Local Open Scope N_scope.
