(* C20 — vocabulary of the source-derived fact table (gen/Facts.v, regenerated from the working
   tree on every run by props/C20/factgen.py) and what it means for Model.v.

   Images: the index / row / output-index expressions and loop bounds of the writeImage template
   as expression trees, and per wrapper (writePPM, writePGM, writePFM<T>) the template arguments
   and the header format string.  Evaluated over Z (C int arithmetic without overflow) they are
   proved to be Model.read_index / the loop nest of Model.img_reads / Model.fmt_of.
   Tracing: the chunk constant and the comparison that opens a new chunk, how saveLog separates
   and terminates objects, where the stack of open begins lives.  Parametric versions of
   Model.get_current / seek_overwrite / emit_chunks are proved equal to the model's for the
   facts the model was written from. *)
From Common Require Import Prelude.
From C20 Require Import Model.
Local Open Scope N_scope.

(* ================================================================== images *)
Inductive ivar := VX | VY | VC | VSizeX | VSizeY | VNComp | VPixComp | VFlip.

Inductive iexp :=
| EVar (v : ivar)
| EInt (n : N)
| EAdd (a b : iexp) | ESub (a b : iexp) | EMul (a b : iexp)
| EEq (a b : iexp)                   (* a == b, as 0/1 *)
| ECond (c a b : iexp)               (* c ? a : b      *)
| EUnknown.

Definition ivar_eqb (a b : ivar) : bool :=
  match a, b with
  | VX, VX | VY, VY | VC, VC | VSizeX, VSizeX | VSizeY, VSizeY | VNComp, VNComp | VPixComp, VPixComp | VFlip, VFlip => true
  | _, _ => false
  end.

Fixpoint iexp_eqb (a b : iexp) : bool :=
  match a, b with
  | EVar x, EVar y => ivar_eqb x y
  | EInt x, EInt y => N.eqb x y
  | EAdd a1 a2, EAdd b1 b2 | ESub a1 a2, ESub b1 b2 | EMul a1 a2, EMul b1 b2 | EEq a1 a2, EEq b1 b2 =>
      iexp_eqb a1 b1 && iexp_eqb a2 b2
  | ECond a1 a2 a3, ECond b1 b2 b3 => iexp_eqb a1 b1 && iexp_eqb a2 b2 && iexp_eqb a3 b3
  | _, _ => false                   (* EUnknown equals nothing *)
  end.

Lemma ivar_eqb_eq a b : ivar_eqb a b = true -> a = b.
Proof. destruct a, b; cbn; intro H; try discriminate; reflexivity. Qed.

Lemma iexp_eqb_eq a : forall b, iexp_eqb a b = true -> a = b.
Proof.
  induction a; intros [] H; cbn in H; try discriminate;
    repeat match goal with H : _ && _ = true |- _ => apply andb_true_iff in H; destruct H end.
  - f_equal. apply ivar_eqb_eq. assumption.
  - f_equal. apply N.eqb_eq. assumption.
  - f_equal; [apply IHa1 | apply IHa2]; assumption.
  - f_equal; [apply IHa1 | apply IHa2]; assumption.
  - f_equal; [apply IHa1 | apply IHa2]; assumption.
  - f_equal; [apply IHa1 | apply IHa2]; assumption.
  - f_equal; [apply IHa1 | apply IHa2 | apply IHa3]; assumption.
Qed.

Record ienv := mkEnv { v_x : Z; v_y : Z; v_c : Z; v_sx : Z; v_sy : Z; v_ncomp : Z; v_pixcomp : Z; v_flip : bool }.

Local Open Scope Z_scope.
Fixpoint evalZ (r : ienv) (e : iexp) : Z :=
  match e with
  | EVar VX => v_x r | EVar VY => v_y r | EVar VC => v_c r
  | EVar VSizeX => v_sx r | EVar VSizeY => v_sy r
  | EVar VNComp => v_ncomp r | EVar VPixComp => v_pixcomp r
  | EVar VFlip => if v_flip r then 1 else 0
  | EInt n => Z.of_N n
  | EAdd a b => evalZ r a + evalZ r b
  | ESub a b => evalZ r a - evalZ r b
  | EMul a b => evalZ r a * evalZ r b
  | EEq a b => if Z.eqb (evalZ r a) (evalZ r b) then 1 else 0
  | ECond c a b => if Z.eqb (evalZ r c) 0 then evalZ r b else evalZ r a
  | EUnknown => -1
  end.
Local Close Scope Z_scope.

(* for (int v = <init>; v < <bound>; v++) *)
Record loopf := mkLoop { l_init : iexp; l_bound : iexp; l_lt_postinc : bool }.

Record imgfacts := mkImg {
  im_nest_ok : bool;        (* for y { in = (COMP_T* )&pixel[row]; for x { for c { out[o] = in[i]; } } fwrite(out, cnt, sizeof(COMP_T), file); } *)
  im_loop_y : loopf;
  im_loop_x : loopf;
  im_loop_c : loopf;
  im_row : iexp;            (* index into pixel[] of the row start *)
  im_in_index : iexp;       (* in[...]  *)
  im_out_index : iexp;      (* out[...] *)
  im_fwrite_count : iexp;   (* elements of sizeof(COMP_T) written per row *)
  im_scratch_once : bool;   (* out = STACK_BUFFER(COMP_T, <count>) = (COMP_T* )alloca(sizeof(COMP_T) * <count>) ONCE, before the row loop,
                               and no other alloca in the function: alloca memory is released only at return *)
  im_scratch_count : iexp;  (* <count>: elements of the row scratch buffer *)
  im_header_wh : bool;      (* fprintf(file, header, sizeX, sizeY) before the loops *)
  im_trailer_newline : bool (* fprintf(file, "\n") after them *)
}.

Definition loopf_eqb (a b : loopf) : bool :=
  iexp_eqb (l_init a) (l_init b) && iexp_eqb (l_bound a) (l_bound b) && Bool.eqb (l_lt_postinc a) (l_lt_postinc b).

(* the expressions Model.v was written from *)
Definition m_row : iexp := EMul (ECond (EVar VFlip) (ESub (ESub (EVar VSizeY) (EInt 1)) (EVar VY)) (EVar VY)) (EVar VSizeX).
Definition m_in_index : iexp :=
  EAdd (EMul (EVar VPixComp) (EVar VX))
       (ECond (EEq (EVar VNComp) (EInt 1)) (ESub (EVar VPixComp) (EInt 1)) (EVar VC)).
Definition m_out_index : iexp := EAdd (EMul (EVar VNComp) (EVar VX)) (EVar VC).
Definition m_count : iexp := EMul (EVar VNComp) (EVar VSizeX).
Definition m_loop (bound : ivar) : loopf := mkLoop (EInt 0) (EVar bound) true.

Definition img_check (g : imgfacts) : bool :=
  im_nest_ok g && loopf_eqb (im_loop_y g) (m_loop VSizeY) && loopf_eqb (im_loop_x g) (m_loop VSizeX)
  && loopf_eqb (im_loop_c g) (m_loop VNComp)
  && iexp_eqb (im_row g) m_row && iexp_eqb (im_in_index g) m_in_index && iexp_eqb (im_out_index g) m_out_index
  && iexp_eqb (im_fwrite_count g) m_count && im_scratch_once g && iexp_eqb (im_scratch_count g) m_count
  && im_header_wh g && im_trailer_newline g.

Definition env_of (f : fmt) (w h y x c : N) : ienv :=
  mkEnv (Z.of_N x) (Z.of_N y) (Z.of_N c) (Z.of_N w) (Z.of_N h) (Z.of_N (f_ncomp f)) (Z.of_N (f_pixcomp f)) (f_flip f).

(* in = (COMP_T* )&pixel[row] with sizeof(PIXEL_T) = PIXEL_COMP * sizeof(COMP_T): the element of the
   component array read is row * PIXEL_COMP + index.  For the model's expressions this is
   Model.read_index, for every instantiation, size and loop position inside the bounds. *)
Lemma model_index f w h y x c :
  y < h -> 0 < f_pixcomp f ->
  (evalZ (env_of f w h y x c) m_row * Z.of_N (f_pixcomp f) + evalZ (env_of f w h y x c) m_in_index)%Z
  = Z.of_N (read_index comp_sel f w h y x c).
Proof.
  intros Hy Hp. unfold read_index, comp_sel, src_row, m_row, m_in_index, env_of.
  cbn [evalZ v_x v_y v_c v_sx v_sy v_ncomp v_pixcomp v_flip].
  assert (Hr : Z.of_N (h - 1 - y) = (Z.of_N h - 1 - Z.of_N y)%Z) by lia.
  assert (Hq : Z.of_N (f_pixcomp f - 1) = (Z.of_N (f_pixcomp f) - 1)%Z) by lia.
  change (Z.of_N 1) with 1%Z.
  destruct (N.eqb_spec (f_ncomp f) 1) as [E|E].
  - rewrite E. change (Z.of_N 1 =? 1)%Z with true. cbn [Z.eqb].
    destruct (f_flip f); cbn [Z.eqb]; rewrite !N2Z.inj_add, !N2Z.inj_mul, ?Hr, Hq; ring.
  - destruct (Z.eqb_spec (Z.of_N (f_ncomp f)) 1); [lia|]. cbn [Z.eqb].
    destruct (f_flip f); cbn [Z.eqb]; rewrite !N2Z.inj_add, !N2Z.inj_mul, ?Hr; ring.
Qed.

Lemma img_check_index g f w h y x c :
  img_check g = true -> y < h -> 0 < f_pixcomp f ->
  (evalZ (env_of f w h y x c) (im_row g) * Z.of_N (f_pixcomp f) + evalZ (env_of f w h y x c) (im_in_index g))%Z
  = Z.of_N (read_index comp_sel f w h y x c).
Proof.
  unfold img_check. intros H Hy Hp.
  repeat match goal with H : _ && _ = true |- _ => apply andb_true_iff in H; destruct H end.
  match goal with H : iexp_eqb (im_row g) _ = true |- _ => rewrite (iexp_eqb_eq _ _ H) end.
  match goal with H : iexp_eqb (im_in_index g) _ = true |- _ => rewrite (iexp_eqb_eq _ _ H) end.
  apply model_index; assumption.
Qed.

(* the writer's extra stack is one row: the scratch buffer is allocated once and holds N_COMP * sizeX
   components, whatever the height *)
Lemma img_check_scratch g f w h y x c :
  img_check g = true ->
  im_scratch_once g = true /\ evalZ (env_of f w h y x c) (im_scratch_count g) = Z.of_N (f_ncomp f * w).
Proof.
  unfold img_check. intro H.
  repeat match goal with H : _ && _ = true |- _ => apply andb_true_iff in H; destruct H end.
  split; [assumption|].
  match goal with H : iexp_eqb (im_scratch_count g) _ = true |- _ => rewrite (iexp_eqb_eq _ _ H) end.
  unfold m_count, env_of. cbn [evalZ v_ncomp v_sx]. lia.
Qed.

(* the output slot of (x, c) is the position of its read in Model.row_reads *)
Lemma nth_upto n : forall s k, (k < n)%nat -> nth k (upto n s) 0 = s + N.of_nat k.
Proof.
  induction n as [|n IH]; intros s k Hk; [lia|]. cbn [upto]. destruct k as [|k]; cbn [nth]; [lia|].
  rewrite IH by lia. lia.
Qed.

(* ------------------------------------------------------------------ the wrappers *)
Definition fmt_eqb (a b : fmt) : bool :=
  str_eqb (f_magic a) (f_magic b) && str_eqb (f_scale a) (f_scale b) && Nat.eqb (f_csize a) (f_csize b)
  && N.eqb (f_ncomp a) (f_ncomp b) && N.eqb (f_pixcomp a) (f_pixcomp b) && Bool.eqb (f_flip a) (f_flip b).

Lemma fmt_eqb_eq a b : fmt_eqb a b = true -> a = b.
Proof.
  unfold fmt_eqb. intro H.
  repeat match goal with H : _ && _ = true |- _ => apply andb_true_iff in H; destruct H end.
  destruct a, b; cbn in *. f_equal.
  - apply str_eqb_eq; assumption.
  - apply str_eqb_eq; assumption.
  - apply Nat.eqb_eq; assumption.
  - apply N.eqb_eq; assumption.
  - apply N.eqb_eq; assumption.
  - apply Bool.eqb_prop; assumption.
Qed.

Definition fmts_check (g : fmtid -> fmt) : bool := forallb (fun i => fmt_eqb (g i) (fmt_of i)) all_fmtids.

Lemma fmts_check_eq g : fmts_check g = true -> forall i, g i = fmt_of i.
Proof.
  unfold fmts_check. intros H i. rewrite forallb_forall in H. apply fmt_eqb_eq. apply H.
  destruct i; cbn; tauto.
Qed.

(* ================================================================== tracing *)
Inductive cmpop := CGe | CGt | CEq | COther.
Inductive seekk := SeekIfPastOne   (* if (fout.tellp() > streampos(1)) fout.seekp(-1, cur); *)
                 | SeekAlways      (* fout.seekp(-1, cur);                                   *)
                 | SeekNone | SeekOther.
Inductive scopek := PerThread | PerChunk | ScopeOther.
Inductive strk := StrFindOrInsert   (* if (!str) return nullptr; fnd = stringCache.find(str);
                                        if (fnd == end) { en = make_shared<string>(str); stringCache[str] = en; return en->c_str(); }
                                        return fnd->second->c_str(); *)
                | StrOther.
Inductive regk := RegFindOrCreate   (* fnd = threadTrace.find(id); if (fnd == end) { l = make_shared; threadTrace[id] = l; return l; } return fnd->second; *)
                | RegStoreAlways    (* l = make_shared; threadTrace[id] = l; return l;   (whatever was stored under id is replaced) *)
                | RegOther.

Record trfacts := mkTr {
  tr_chunk : N;                 (* the constant compared with events.back().size()                    *)
  tr_cmp : cmpop;               (* events.back().size() <cmp> constant                                 *)
  tr_empty_or : bool;           (* events.empty() || ...                                               *)
  tr_reserve : N;               (* events.back().reserve(<constant>) right after the push_back         *)
  tr_returns_back : bool;       (* return events.back();                                               *)
  tr_record_via_current : bool; (* begin/end/marker/counter: getCurrentEventList().push_back(TraceEvent(KIND, ...)) *)
  tr_open_first : bool;         (* the first thing streamed to fout is "["                             *)
  tr_objects : N;               (* number of places an object is opened with "{"                       *)
  tr_objects_comma : N;         (* number of places an object is closed with "}," (or "}},")           *)
  tr_bare_close : N;            (* closers "}" at object level not followed by a comma                 *)
  tr_seek : seekk;
  tr_close_last : bool;         (* the last thing streamed is "]"                                      *)
  tr_stack_scope : scopek;      (* where std::stack<const TraceEvent*> beginEvents is declared         *)
  tr_push_begin : bool;         (* BEGIN: beginEvents.push(&evt)                                       *)
  tr_stray_end_break : bool;    (* END with empty stack: break out of the loop over the chunk, before any output *)
  tr_end_top_pop : bool;        (* END: begin = beginEvents.top(); ... beginEvents.pop()               *)
  tr_long_threshold : N;        (* END && duration > <constant> && begin                               *)
  tr_tid_counter : bool;        (* int nextTid = 0; printed as "tid"; ++nextTid per thread             *)
  tr_registry : regk;           (* getThreadTraceList                                                  *)
  tr_reg_lock_first : bool;     (* its first statement takes threadTraceMutex (lock_guard)             *)
  tr_save_readonly : bool;      (* saveLog: first statement lock_guard on threadTraceMutex; threadTrace appears only as the range of
                                   `for (const auto &trace : threadTrace)`: the map is neither moved, swapped, cleared nor assigned *)
  tr_strcache : strk;           (* getCachedString                                                     *)
  tr_tel_fields : bool;         (* ThreadEventList's data members are exactly events, threadName, stringCache: no other state *)
  tr_names_via_cache : bool;    (* every name / category stored in an event went through getCachedString *)
  tr_tls_cache : bool           (* static thread_local threadEventList, filled once by initThreadEventList via
                                   getThreadTraceList(this_thread::get_id()); the recording entry points call it first *)
}.

Definition cmpop_eqb a b := match a, b with CGe, CGe | CGt, CGt | CEq, CEq => true | _, _ => false end.
Definition seekk_eqb a b := match a, b with SeekIfPastOne, SeekIfPastOne | SeekAlways, SeekAlways | SeekNone, SeekNone => true | _, _ => false end.
Definition scopek_eqb a b := match a, b with PerThread, PerThread | PerChunk, PerChunk => true | _, _ => false end.
Definition strk_eqb a b := match a, b with StrFindOrInsert, StrFindOrInsert => true | _, _ => false end.
Definition regk_eqb a b := match a, b with RegFindOrCreate, RegFindOrCreate | RegStoreAlways, RegStoreAlways => true | _, _ => false end.

(* the facts Model.v was written from *)
Definition model_tr : trfacts :=
  mkTr 8192 CGe true 8192 true true true 4 4 0 SeekIfPastOne true PerThread true true true 100 true
       RegFindOrCreate true true StrFindOrInsert true true true.

Definition tr_eqb (a b : trfacts) : bool :=
  N.eqb (tr_chunk a) (tr_chunk b) && cmpop_eqb (tr_cmp a) (tr_cmp b) && Bool.eqb (tr_empty_or a) (tr_empty_or b)
  && N.eqb (tr_reserve a) (tr_reserve b) && Bool.eqb (tr_returns_back a) (tr_returns_back b)
  && Bool.eqb (tr_record_via_current a) (tr_record_via_current b) && Bool.eqb (tr_open_first a) (tr_open_first b)
  && N.eqb (tr_objects a) (tr_objects b) && N.eqb (tr_objects_comma a) (tr_objects_comma b)
  && N.eqb (tr_bare_close a) (tr_bare_close b)
  && seekk_eqb (tr_seek a) (tr_seek b) && Bool.eqb (tr_close_last a) (tr_close_last b)
  && scopek_eqb (tr_stack_scope a) (tr_stack_scope b) && Bool.eqb (tr_push_begin a) (tr_push_begin b)
  && Bool.eqb (tr_stray_end_break a) (tr_stray_end_break b) && Bool.eqb (tr_end_top_pop a) (tr_end_top_pop b)
  && N.eqb (tr_long_threshold a) (tr_long_threshold b) && Bool.eqb (tr_tid_counter a) (tr_tid_counter b)
  && regk_eqb (tr_registry a) (tr_registry b) && Bool.eqb (tr_reg_lock_first a) (tr_reg_lock_first b)
  && Bool.eqb (tr_save_readonly a) (tr_save_readonly b) && strk_eqb (tr_strcache a) (tr_strcache b) && Bool.eqb (tr_tel_fields a) (tr_tel_fields b)
  && Bool.eqb (tr_names_via_cache a) (tr_names_via_cache b)
  && Bool.eqb (tr_tls_cache a) (tr_tls_cache b).

(* the parts of the model that depend on these facts, with the facts as a parameter *)
Definition cmp_test (c : cmpop) (size k : N) : bool :=
  match c with CGe => k <=? size | CGt => k <? size | CEq => size =? k | COther => false end.

Definition get_current_of (f : trfacts) (l : tlist) : tlist :=
  match rev l with
  | [] => if tr_empty_or f then l ++ [[]] else l
  | c :: _ => if cmp_test (tr_cmp f) (N.of_nat (length c)) (tr_chunk f) then l ++ [[]] else l
  end.

Definition seek_of (f : trfacts) (s : str) : str :=
  match tr_seek f with
  | SeekIfPastOne => if (1 <? N.of_nat (length s)) then removelast s ++ [93] else s ++ [93]
  | SeekAlways => removelast s ++ [93]
  | _ => s ++ [93]
  end.

Fixpoint emit_chunks_of (f : trfacts) (pid tid : N) (chunks : tlist) (stack : list tev) : list jobj :=
  match chunks with
  | [] => []
  | c :: cs =>
      let (o, s) := emit_chunk pid tid c stack in
      o ++ emit_chunks_of f pid tid cs (match tr_stack_scope f with PerThread => s | _ => [] end)
  end.

(* getThreadTraceList as the facts describe it *)
Definition reg_attach_of (f : trfacts) (r : reg) (id : N) : reg :=
  match tr_registry f with
  | RegFindOrCreate => reg_attach r id
  | _ => match reg_find r id with
         | Some _ => reg_upd r id (fun _ => mkRe id None [])      (* the stored list is replaced by a fresh one *)
         | None => r ++ [mkRe id None []]
         end
  end.

(* getCachedString as the facts describe it (only the find-or-insert shape has a meaning) *)
Definition sc_lookup_of (f : trfacts) (c : scache) (p : N) (text : str) : option (str * scache) :=
  match tr_strcache f with
  | StrFindOrInsert => if tr_tel_fields f then Some (sc_lookup c p text) else None
  | StrOther => None
  end.

(* the recorder after a saveLog call, as the facts describe it *)
Definition save_state_of (f : trfacts) (r : reg) : reg := if tr_save_readonly f then r else [].
Definition hist_step_of (f : trfacts) (r : reg) (x : hop) : reg :=
  match x with HRec o => reg_step r o | HSave => save_state_of f r end.

Definition reg_step_of (f : trfacts) (r : reg) (o : rop) : reg :=
  match o with
  | RAttach id => reg_attach_of f r id
  | _ => reg_step r o
  end.

Definition is_long_of (f : trfacts) (b e : tev) : bool := tr_long_threshold f <? (e_time e - e_time b) / 1000.

Lemma model_get_current l : get_current_of model_tr l = get_current l.
Proof. unfold get_current_of, get_current. destruct (rev l); reflexivity. Qed.

Lemma model_seek s : seek_of model_tr s = seek_overwrite s.
Proof.
  destruct s as [|a [|b s]]; try reflexivity.
  unfold seek_of. cbn [tr_seek model_tr].
  destruct (N.ltb_spec 1 (N.of_nat (length (a :: b :: s)))) as [H|H]; [reflexivity|].
  cbn [length] in H. lia.
Qed.

Lemma model_emit pid tid cs : forall st, emit_chunks_of model_tr pid tid cs st = emit_chunks pid tid cs st.
Proof.
  induction cs as [|c cs IH]; intro st; cbn [emit_chunks_of emit_chunks]; [reflexivity|].
  destruct (emit_chunk pid tid c st) as [o s]. cbn. rewrite IH. reflexivity.
Qed.

Lemma model_is_long b e : is_long_of model_tr b e = is_long b e.
Proof. reflexivity. Qed.

Lemma model_attach r id : reg_attach_of model_tr r id = reg_attach r id.
Proof. reflexivity. Qed.

(* why the find-or-create shape matters: with an unconditional store a thread that receives the id
   of a finished thread makes the recorder forget the finished thread's events *)
Lemma store_always_loses :
  let f := mkTr 8192 CGe true 8192 true true true 4 4 0 SeekIfPastOne true PerThread true true true 100 true RegStoreAlways true true StrFindOrInsert true true true in
  let e1 := mkEv KMarker [97] None 0 1 [] in
  let e2 := mkEv KMarker [98] None 0 2 [] in
  let ops := [RAttach 7; RRec 7 e1; RAttach 7; RRec 7 e2] in
  concat (reg_get (fold_left (reg_step_of f) ops []) 7) = [e2] /\ concat (reg_get (reg_run ops) 7) = [e1; e2].
Proof. vm_compute. split; reflexivity. Qed.

Lemma model_chunk : tr_chunk model_tr = chunk_size /\ tr_reserve model_tr = chunk_size.
Proof. split; reflexivity. Qed.

(* only these fields enter the parametric functions *)
Lemma tr_eqb_fields a b :
  tr_eqb a b = true ->
  tr_chunk a = tr_chunk b /\ tr_cmp a = tr_cmp b /\ tr_empty_or a = tr_empty_or b /\ tr_reserve a = tr_reserve b /\
  tr_seek a = tr_seek b /\ tr_stack_scope a = tr_stack_scope b /\ tr_long_threshold a = tr_long_threshold b /\
  tr_registry a = tr_registry b /\ tr_strcache a = tr_strcache b /\ tr_tel_fields a = tr_tel_fields b /\
  tr_save_readonly a = tr_save_readonly b.
Proof.
  unfold tr_eqb. intro H.
  repeat match goal with H : _ && _ = true |- _ => apply andb_true_iff in H; destruct H end.
  repeat match goal with
         | H : N.eqb _ _ = true |- _ => apply N.eqb_eq in H
         | H : Bool.eqb _ _ = true |- _ => apply Bool.eqb_prop in H
         end.
  repeat split; try assumption.
  - destruct (tr_cmp a), (tr_cmp b); try discriminate; reflexivity.
  - destruct (tr_seek a), (tr_seek b); try discriminate; reflexivity.
  - destruct (tr_stack_scope a), (tr_stack_scope b); try discriminate; reflexivity.
  - destruct (tr_registry a), (tr_registry b); try discriminate; reflexivity.
  - destruct (tr_strcache a), (tr_strcache b); try discriminate; reflexivity.
Qed.

Lemma tr_match_sound g :
  tr_eqb g model_tr = true ->
  (forall l, get_current_of g l = get_current l) /\
  (forall s, seek_of g s = seek_overwrite s) /\
  (forall pid tid cs st, emit_chunks_of g pid tid cs st = emit_chunks pid tid cs st) /\
  (forall b e, is_long_of g b e = is_long b e) /\
  tr_chunk g = chunk_size /\ tr_reserve g = chunk_size /\
  (forall r id, reg_attach_of g r id = reg_attach r id) /\
  (forall c p text, sc_lookup_of g c p text = Some (sc_lookup c p text)) /\
  (forall r x, hist_step_of g r x = hist_step r x).
Proof.
  intro H. destruct (tr_eqb_fields _ _ H) as [H1 [H2 [H3 [H4 [H5 [H6 [H7 [H8 [H9 [H10 H11]]]]]]]]]].
  split; [|split; [|split; [|split; [|split; [|split; [|split; [|split]]]]]]].
  - intro l. rewrite <- model_get_current. unfold get_current_of. rewrite H1, H2, H3. reflexivity.
  - intro s. rewrite <- model_seek. unfold seek_of. rewrite H5. reflexivity.
  - intros pid tid cs. rewrite <- (fun st => model_emit pid tid cs st) || idtac.
    induction cs as [|c cs IH]; intro st; cbn [emit_chunks_of emit_chunks]; [reflexivity|].
    destruct (emit_chunk pid tid c st) as [o s]. rewrite H6. cbn. rewrite IH. reflexivity.
  - intros b e. unfold is_long_of. rewrite H7. reflexivity.
  - rewrite H1. reflexivity.
  - rewrite H4. reflexivity.
  - intros r id. unfold reg_attach_of. rewrite H8. reflexivity.
  - intros c p text. unfold sc_lookup_of. rewrite H9, H10. reflexivity.
  - intros r x. unfold hist_step_of, save_state_of. rewrite H11. destruct x; reflexivity.
Qed.
