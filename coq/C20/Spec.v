(* C20 — specification-side definitions (no proofs): an independent reader for the
   PPM/PGM/PFM files, and a small JSON recogniser (a pushdown automaton that consumes
   one character at a time; structural recursion over the text, no fuel). *)
From Common Require Import Prelude.
From C20 Require Import Model.
Local Open Scope N_scope.

(* ---------------------------------------------------------------- image reader *)
Definition is_digit (c : N) : bool := (48 <=? c) && (c <=? 57).

Fixpoint span_digits (s : str) : str * str :=
  match s with
  | [] => ([], [])
  | c :: r => if is_digit c then let (d, t) := span_digits r in (c :: d, t) else ([], s)
  end.

Definition digit_uint (c : N) (u : Decimal.uint) : Decimal.uint :=
  if c =? 48 then Decimal.D0 u else if c =? 49 then Decimal.D1 u else if c =? 50 then Decimal.D2 u
  else if c =? 51 then Decimal.D3 u else if c =? 52 then Decimal.D4 u else if c =? 53 then Decimal.D5 u
  else if c =? 54 then Decimal.D6 u else if c =? 55 then Decimal.D7 u else if c =? 56 then Decimal.D8 u
  else Decimal.D9 u.
Fixpoint chars_uint (s : str) : Decimal.uint :=
  match s with [] => Decimal.Nil | c :: r => digit_uint c (chars_uint r) end.

(* a maximal run of decimal digits (at least one) and its value *)
Definition parse_dec (s : str) : option (N * str) :=
  match span_digits s with
  | ([], _) => None
  | (ds, r) => Some (N.of_uint (chars_uint ds), r)
  end.

Fixpoint strip_prefix (p s : str) : option str :=
  match p, s with
  | [], _ => Some s
  | a :: p', b :: s' => if a =? b then strip_prefix p' s' else None
  | _ :: _, [] => None
  end.

(* "<magic>\n<w> <h>\n<scale>\n" *)
Definition parse_header (magic scale s : str) : option (N * N * str) :=
  match strip_prefix (magic ++ [10]) s with
  | None => None
  | Some r1 =>
    match parse_dec r1 with
    | None => None
    | Some (w, r2) =>
      match strip_prefix [32] r2 with
      | None => None
      | Some r3 =>
        match parse_dec r3 with
        | None => None
        | Some (h, r4) =>
          match strip_prefix ([10] ++ scale ++ [10]) r4 with
          | None => None
          | Some r5 => Some (w, h, r5)
          end
        end
      end
    end
  end.

Fixpoint le_val (bs : str) : N :=
  match bs with [] => 0 | b :: r => b + 256 * le_val r end.

(* n components of csize bytes each *)
Fixpoint take_comps (csize n : nat) (s : str) : option (list N * str) :=
  match n with
  | O => Some ([], s)
  | S k =>
      if Nat.ltb (length s) csize then None
      else match take_comps csize k (skipn csize s) with
           | Some (vs, r) => Some (le_val (firstn csize s) :: vs, r)
           | None => None
           end
  end.

(* reader for the file format [f]: header, then w*h*ncomp components, then "\n", then EOF *)
Definition read_image (f : fmt) (s : str) : option (N * N * list N) :=
  match parse_header (f_magic f) (f_scale f) s with
  | None => None
  | Some (w, h, r) =>
      match take_comps (f_csize f) (N.to_nat (w * h * f_ncomp f)) r with
      | Some (vs, [10]) => Some (w, h, vs)
      | _ => None
      end
  end.

(* the channels of the stored pixel each format writes, in file order *)
Definition selected (i : fmtid) : list N :=
  match i with
  | PPM => [0; 1; 2]        (* R G B of an RGBA8 pixel *)
  | PGM => [3]              (* the alpha byte          *)
  | PFM1 => [0]
  | PFM3 => [0; 1; 2]
  | PFM3a => [0; 1; 2]      (* the padding float is skipped *)
  | PFM4 => [0; 1; 2; 3]
  end.
(* rows bottom-up for PPM/PGM, as given for PFM *)
Definition bottom_up (i : fmtid) : bool :=
  match i with PPM | PGM => true | _ => false end.

(* component c of the pixel in row r, column x of the w-wide input (pixels stored row by row,
   f_pixcomp components each) *)
Definition pix (i : fmtid) (w : N) (inp : list N) (r x c : N) : N :=
  nth (N.to_nat ((r * w + x) * f_pixcomp (fmt_of i) + c)) inp 0.

(* what a correct file of format i for the w x h image inp decodes to: file row y is input row
   h-1-y for the bottom-up formats and row y otherwise; per pixel the selected channels *)
Definition expected (i : fmtid) (w h : N) (inp : list N) : list N :=
  flat_map (fun y =>
    flat_map (fun x => map (fun c => pix i w inp (if bottom_up i then h - 1 - y else y) x c) (selected i))
             (countN w))
    (countN h).

(* every component fits sizeof(COMP_T) bytes *)
Definition comps_fit (i : fmtid) (inp : list N) : Prop :=
  Forall (fun v => v < 256 ^ N.of_nat (f_csize (fmt_of i))) inp.

(* ------------------------------------------------------------- JSON recogniser *)
(* Recognises JSON texts built from objects, arrays, strings without escape sequences
   and numbers (leading zeros tolerated); true/false/null are not recognised.  Every
   accepted text is therefore valid JSON up to leading zeros in numbers, which [dec]
   never produces. *)
Inductive cont := CObj | CArr.
Inductive nst := NMinus | NInt | NDot | NFrac | NE | NESign | NExp.
Inductive mode :=
| MValue | MValueOrClose | MKeyOrClose | MKey | MColon | MAfter
| MStr (key : bool) | MNum (q : nst) | MDone.
Record pda := mkP { p_stack : list cont; p_mode : mode }.

Definition is_ws (c : N) : bool := (c =? 32) || (c =? 9) || (c =? 10) || (c =? 13).
(* characters that may appear unescaped inside a JSON string *)
Definition str_char_ok (c : N) : bool := (32 <=? c) && negb (c =? 34) && negb (c =? 92).
Definition is_e (c : N) : bool := (c =? 101) || (c =? 69).

Definition num_step (q : nst) (c : N) : option nst :=
  let d := is_digit c in
  match q with
  | NMinus => if d then Some NInt else None
  | NInt => if d then Some NInt else if c =? 46 then Some NDot else if is_e c then Some NE else None
  | NDot => if d then Some NFrac else None
  | NFrac => if d then Some NFrac else if is_e c then Some NE else None
  | NE => if d then Some NExp else if (c =? 43) || (c =? 45) then Some NESign else None
  | NESign => if d then Some NExp else None
  | NExp => if d then Some NExp else None
  end.
Definition num_final (q : nst) : bool :=
  match q with NInt | NFrac | NExp => true | _ => false end.

Definition after (stk : list cont) : mode := match stk with [] => MDone | _ => MAfter end.

Definition start_value (stk : list cont) (c : N) : option pda :=
  if c =? 34 then Some (mkP stk (MStr false))
  else if c =? 123 then Some (mkP (CObj :: stk) MKeyOrClose)
  else if c =? 91 then Some (mkP (CArr :: stk) MValueOrClose)
  else if c =? 45 then Some (mkP stk (MNum NMinus))
  else if is_digit c then Some (mkP stk (MNum NInt))
  else None.

Definition close (stk : list cont) (c : N) : option pda :=
  match stk with
  | CObj :: r => if c =? 125 then Some (mkP r (after r)) else None
  | CArr :: r => if c =? 93 then Some (mkP r (after r)) else None
  | [] => None
  end.

Definition after_step (stk : list cont) (c : N) : option pda :=
  if is_ws c then Some (mkP stk MAfter)
  else if c =? 44 then
    match stk with
    | CObj :: _ => Some (mkP stk MKey)
    | CArr :: _ => Some (mkP stk MValue)
    | [] => None
    end
  else close stk c.

Definition step (p : pda) (c : N) : option pda :=
  let stk := p_stack p in
  match p_mode p with
  | MValue => if is_ws c then Some p else start_value stk c
  | MValueOrClose => if is_ws c then Some p else if c =? 93 then close stk c else start_value stk c
  | MKeyOrClose => if is_ws c then Some p else if c =? 125 then close stk c
                   else if c =? 34 then Some (mkP stk (MStr true)) else None
  | MKey => if is_ws c then Some p else if c =? 34 then Some (mkP stk (MStr true)) else None
  | MColon => if is_ws c then Some p else if c =? 58 then Some (mkP stk MValue) else None
  | MAfter => after_step stk c
  | MStr k => if c =? 34 then Some (mkP stk (if k then MColon else after stk))
              else if str_char_ok c then Some p else None
  | MNum q => match num_step q c with
              | Some q' => Some (mkP stk (MNum q'))
              | None => if num_final q then after_step stk c else None
              end
  | MDone => if is_ws c then Some p else None
  end.

Fixpoint run (p : pda) (s : str) : option pda :=
  match s with
  | [] => Some p
  | c :: r => match step p c with Some p' => run p' r | None => None end
  end.

Definition accepted (o : option pda) : bool :=
  match o with
  | Some (mkP [] MDone) => true
  | _ => false
  end.

(* the whole text is one JSON array *)
Definition json_array (s : str) : bool :=
  match s with
  | 91 :: r => accepted (run (mkP [CArr] MValueOrClose) r)
  | _ => false
  end.
(* the whole text is one JSON object *)
Definition json_object (s : str) : bool :=
  match s with
  | 123 :: r => accepted (run (mkP [CObj] MKeyOrClose) r)
  | _ => false
  end.

Fixpoint num_run (q : nst) (s : str) : option nst :=
  match s with
  | [] => Some q
  | c :: r => match num_step q c with Some q' => num_run q' r | None => None end
  end.
(* the text is one JSON number *)
Definition is_number (s : str) : bool :=
  match s with
  | [] => false
  | c :: r =>
      match (if c =? 45 then Some NMinus else if is_digit c then Some NInt else None) with
      | Some q => match num_run q r with Some q' => num_final q' | None => false end
      | None => false
      end
  end.

Fixpoint intercalate (sep : str) (l : list str) : str :=
  match l with
  | [] => []
  | x :: r => match r with [] => x | _ => x ++ sep ++ intercalate sep r end
  end.

(* -------------------------------------------------------- nesting of begin/end *)
Definition is_begin (e : tev) : bool := match e_kind e with KBegin => true | _ => false end.
Definition is_end (e : tev) : bool := match e_kind e with KEnd => true | _ => false end.

(* properly nested sequences: every END closes a BEGIN of the same sequence and vice versa *)
Inductive balanced : list tev -> Prop :=
| bal_nil : balanced []
| bal_other e l : is_begin e = false -> is_end e = false -> balanced l -> balanced (e :: l)
| bal_pair b m e l : is_begin b = true -> is_end e = true -> balanced m -> balanced l ->
                     balanced (b :: m ++ e :: l).

(* no END without an open BEGIN: depth d never goes below zero *)
Fixpoint no_stray_end (d : nat) (l : list tev) : bool :=
  match l with
  | [] => true
  | e :: r =>
      match e_kind e with
      | KBegin => no_stray_end (S d) r
      | KEnd => match d with O => false | S d' => no_stray_end d' r end
      | _ => no_stray_end d r
      end
  end.

(* the events of thread number tid among the emitted objects *)
Definition events_of_tid (tid : N) (objs : list jobj) : list tev :=
  flat_map (fun o => match o with JEvent _ t e => if t =? tid then [e] else [] | _ => [] end) objs.

(* -------------------------------------------------------- what the theorems ask of the input *)
(* a text that can stand unescaped between quotes *)
Definition text_ok (s : str) : Prop := forallb str_char_ok s = true.

(* what the theorems ask of the recorded texts: no quote, backslash or control character in
   names / categories (saveLog does no escaping), and the printed cpuUtilization of an end
   event is a JSON number *)
Definition ev_ok (e : tev) : Prop :=
  text_ok (e_name e) /\
  (forall c, e_cat e = Some c -> text_ok c) /\
  (e_kind e = KEnd -> is_number (e_util e) = true).

Definition obj_ok (o : jobj) : Prop :=
  match o with
  | JProc _ p => text_ok p
  | JThread _ _ n => text_ok n
  | JEvent _ _ e => ev_ok e
  | JUtil _ _ _ u => is_number u = true
  end.

(* the builtin counter saveLog adds after the END e of an interval opened by b when it is long *)
Definition util_of pid tid (b e : tev) : list jobj :=
  if is_long b e then [JUtil pid tid (e_ts b) (e_util e)] else [].

Definition thread_ok (t : thread) : Prop := text_ok (t_name t) /\ Forall (Forall ev_ok) (t_events t).

(* no END without an open BEGIN in the thread's recording *)
Definition thread_nested (t : thread) : Prop := no_stray_end 0 (concat (t_events t)) = true.

(* threads as the recorder builds them: a name and the chunked recording of an event sequence *)
Definition threads_of (l : list (str * list tev)) : list thread :=
  map (fun p => mkThread (fst p) (record_all (snd p))) l.

(* what the theorems ask of a thread's name and recorded events *)
Definition input_ok (p : str * list tev) : Prop := text_ok (fst p) /\ Forall ev_ok (snd p).

(* -------------------------------------------------------- the recorder's map *)
(* the events recorded under thread id [id], in recording order *)
Definition recs_of (id : N) (ops : list rop) : list tev :=
  flat_map (fun o => match o with RRec i e => if i =? id then [e] else [] | _ => [] end) ops.
Definition rec_count (ops : list rop) : nat :=
  length (filter (fun o => match o with RRec _ _ => true | _ => false end) ops).
(* everything stored in the map *)
Definition reg_all (r : reg) : list tev := flat_map (fun en => concat (re_events en)) r.
Definition reg_evs (r : reg) (id : N) : list tev := concat (reg_get r id).
Definition op_id (o : rop) : N := match o with RAttach i | RName i _ | RRec i _ => i end.
