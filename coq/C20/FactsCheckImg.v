(* C20 — reflective checks of the generated writeImage / wrapper facts (gen/Facts.v). *)
From Common Require Import Prelude.
From C20 Require Export Model FactsDefs.
From C20.gen Require Export Facts.
Local Open Scope N_scope.

Lemma img_check_lemma : img_check gen_img = true.
Proof. vm_compute. reflexivity. Qed.

Lemma img_index_lemma : forall i w h y x c,
  y < h ->
  (evalZ (env_of (fmt_of i) w h y x c) (im_row gen_img) * Z.of_N (f_pixcomp (fmt_of i))
   + evalZ (env_of (fmt_of i) w h y x c) (im_in_index gen_img))%Z
  = Z.of_N (read_index comp_sel (fmt_of i) w h y x c).
Proof.
  intros i w h y x c Hy. apply img_check_index; [exact img_check_lemma | exact Hy|].
  destruct i; reflexivity.
Qed.

Lemma img_scratch_lemma : forall i w h y x c,
  im_scratch_once gen_img = true /\
  evalZ (env_of (fmt_of i) w h y x c) (im_scratch_count gen_img) = Z.of_N (f_ncomp (fmt_of i) * w).
Proof. intros. apply img_check_scratch. exact img_check_lemma. Qed.

Lemma fmts_check_lemma : fmts_check gen_fmt = true.
Proof. vm_compute. reflexivity. Qed.

Lemma fmts_lemma : forall i, gen_fmt i = fmt_of i.
Proof. apply fmts_check_eq. exact fmts_check_lemma. Qed.

