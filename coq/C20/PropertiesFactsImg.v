(* C20 — source-derived obligations.  gen/Facts.v is regenerated from the working tree on every
   run (props/C20/factgen.py over the clang AST of SaveImage.h and tracing/Tracing.cpp); these
   theorems tie it to Model.v.  Kept apart from Properties.v so that a change of the source
   breaks these and leaves the theorems about the model standing. *)
From Common Require Import Prelude.
From C20 Require Import Model FactsDefs FactsCheckImg.
Local Open Scope N_scope.

(* the loop nest of the writeImage template is
     fprintf(file, header, sizeX, sizeY);
     for (int y = 0; y < sizeY; y++) { in = (COMP_T* )&pixel[ROW];
       for (int x = 0; x < sizeX; x++) for (int c = 0; c < N_COMP; c++) out[OUT] = in[IN];
       fwrite(out, N_COMP * sizeX, sizeof(COMP_T), file); }
     fprintf(file, "\n");
   with ROW = (FLIP ? sizeY - 1 - y : y) * sizeX, IN = PIXEL_COMP * x + (N_COMP == 1 ? PIXEL_COMP - 1 : c),
   OUT = N_COMP * x + c — the expression trees Model.read_index / img_reads were written from *)
Theorem facts_image_loop_nest : img_check gen_img = true.
Proof. exact FactsCheckImg.img_check_lemma. Qed.
Print Assumptions facts_image_loop_nest.

(* evaluated as C integer expressions (over Z), the extracted row and index expressions give, for
   every instantiation, image size and loop position, exactly the component index Model.read_index *)
Theorem facts_image_index : forall i w h y x c,
  y < h ->
  (evalZ (env_of (fmt_of i) w h y x c) (im_row gen_img) * Z.of_N (f_pixcomp (fmt_of i))
   + evalZ (env_of (fmt_of i) w h y x c) (im_in_index gen_img))%Z
  = Z.of_N (read_index comp_sel (fmt_of i) w h y x c).
Proof. exact FactsCheckImg.img_index_lemma. Qed.
Print Assumptions facts_image_index.

(* the writer's extra stack is O(one row): the row scratch buffer is alloca'd ONCE before the row loop
   (alloca memory is released only when the function returns) and holds N_COMP * sizeX components,
   independent of the height *)
Theorem facts_image_stack_one_row : forall i w h y x c,
  im_scratch_once gen_img = true /\
  evalZ (env_of (fmt_of i) w h y x c) (im_scratch_count gen_img) = Z.of_N (f_ncomp (fmt_of i) * w).
Proof. exact FactsCheckImg.img_scratch_lemma. Qed.
Print Assumptions facts_image_stack_one_row.

(* each wrapper instantiates writeImage with the template arguments (sizeof COMP_T, N_COMP,
   PIXEL_COMP, FLIP) and passes the header format "<magic>\n%i %i\n<scale>\n" that Model.fmt_of says *)
Theorem facts_image_formats : forall i, gen_fmt i = fmt_of i.
Proof. exact FactsCheckImg.fmts_lemma. Qed.
Print Assumptions facts_image_formats.

