(* C20 — reflective checks of the generated tracing facts (gen/Facts.v). *)
From Common Require Import Prelude.
From C20 Require Export Model FactsDefs.
From C20.gen Require Export Facts.
Local Open Scope N_scope.

Lemma tr_match_lemma : tr_eqb gen_tr model_tr = true.
Proof. vm_compute. reflexivity. Qed.

Lemma tr_sound_lemma :
  (forall l, get_current_of gen_tr l = get_current l) /\
  (forall s, seek_of gen_tr s = seek_overwrite s) /\
  (forall pid tid cs st, emit_chunks_of gen_tr pid tid cs st = emit_chunks pid tid cs st) /\
  (forall b e, is_long_of gen_tr b e = is_long b e) /\
  tr_chunk gen_tr = chunk_size /\ tr_reserve gen_tr = chunk_size /\
  (forall r id, reg_attach_of gen_tr r id = reg_attach r id) /\
  (forall c p text, sc_lookup_of gen_tr c p text = Some (sc_lookup c p text)) /\
  (forall r x, hist_step_of gen_tr r x = hist_step r x).
Proof. apply tr_match_sound. exact tr_match_lemma. Qed.
