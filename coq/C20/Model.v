(* C20 — executable model (hand-written, Tie B) of
     rkcommon/utility/SaveImage.h   writeImage + writePPM/writePGM/writePFM<T>
     rkcommon/tracing/Tracing.cpp   ThreadEventList recording, TraceRecorder::saveLog
   Definitions only.  Bytes/characters are N codes (Common.Prelude.str).
   The model mirrors the REPAIRED code (handoff fix-1, fix-2); the behaviour of the
   unrepaired code is kept as comp_sel_old / seek_overwrite_old. *)
From Common Require Import Prelude.
Local Open Scope N_scope.

(* string literals as lists of character codes, computed once *)
Module Lit.
  Import Coq.Strings.String Coq.Strings.Ascii.
  Definition s (x : string) : list N := map N_of_ascii (list_ascii_of_string x).
  Definition P6 : list N := Eval vm_compute in s "P6".
  Definition P5 : list N := Eval vm_compute in s "P5".
  Definition Pf : list N := Eval vm_compute in s "Pf".
  Definition PF : list N := Eval vm_compute in s "PF".
  Definition PF4 : list N := Eval vm_compute in s "PF4".
  Definition s255 : list N := Eval vm_compute in s "255".
  Definition neg1 : list N := Eval vm_compute in s "-1.0".
  (* saveLog pieces *)
  Definition ph_open : list N := Eval vm_compute in s "{""ph"": """.
  Definition ph_M_pid : list N := Eval vm_compute in s "{""ph"": ""M"",""pid"":".
  Definition ph_C_pid : list N := Eval vm_compute in s "{""ph"": ""C"",""pid"":".
  Definition q_pid : list N := Eval vm_compute in s """,""pid"":".
  Definition c_tid : list N := Eval vm_compute in s ",""tid"":".
  Definition c_ts : list N := Eval vm_compute in s ",""ts"":".
  Definition c_name_q : list N := Eval vm_compute in s ",""name"":""".
  Definition c_cat_q : list N := Eval vm_compute in s ",""cat"":""".
  Definition q : list N := Eval vm_compute in s """".
  Definition args_util : list N := Eval vm_compute in s ",""args"":{""cpuUtilization"":".
  Definition args_value : list N := Eval vm_compute in s ",""args"":{""value"":".
  Definition close2 : list N := Eval vm_compute in s "}}".
  Definition close1 : list N := Eval vm_compute in s "}".
  Definition proc_name_args : list N := Eval vm_compute in s ",""name"":""process_name"",""args"":{""name"":""".
  Definition thread_name_args : list N := Eval vm_compute in s ",""name"":""thread_name"",""args"":{""name"":""".
  Definition q_close2 : list N := Eval vm_compute in s """}}".
  Definition util_name_cat_args : list N :=
    Eval vm_compute in s ",""name"":""cpuUtilization"",""cat"":""builtin"",""args"":{""value"":".
End Lit.

(* ------------------------------------------------- decimal printing of integers *)
(* what fprintf("%i") and ostream<< print for a non-negative integer *)
Fixpoint uint_chars (u : Decimal.uint) : str :=
  match u with
  | Decimal.Nil => []
  | Decimal.D0 r => 48 :: uint_chars r
  | Decimal.D1 r => 49 :: uint_chars r
  | Decimal.D2 r => 50 :: uint_chars r
  | Decimal.D3 r => 51 :: uint_chars r
  | Decimal.D4 r => 52 :: uint_chars r
  | Decimal.D5 r => 53 :: uint_chars r
  | Decimal.D6 r => 54 :: uint_chars r
  | Decimal.D7 r => 55 :: uint_chars r
  | Decimal.D8 r => 56 :: uint_chars r
  | Decimal.D9 r => 57 :: uint_chars r
  end.
Definition dec (n : N) : str := uint_chars (N.to_uint n).

(* ======================================================================= images *)
(* one instantiation writeImage<COMP_T, N_COMP, PIXEL_T, PIXEL_COMP, FLIP> + its header *)
Record fmt := mkFmt {
  f_magic : str;      (* "P6" ...                                     *)
  f_scale : str;      (* third header line: "255" or "-1.0"           *)
  f_csize : nat;      (* sizeof(COMP_T): 1 (unsigned char), 4 (float) *)
  f_ncomp : N;        (* N_COMP: components written per pixel         *)
  f_pixcomp : N;      (* PIXEL_COMP: components stored per pixel      *)
  f_flip : bool       (* FLIP: rows written bottom-up                 *)
}.

Inductive fmtid := PPM | PGM | PFM1 | PFM3 | PFM3a | PFM4.
Definition fmt_of (i : fmtid) : fmt :=
  match i with
  | PPM   => mkFmt Lit.P6  Lit.s255 1%nat 3 4 true    (* writePPM:          <unsigned char,3,uint32_t,4,true> *)
  | PGM   => mkFmt Lit.P5  Lit.s255 1%nat 1 4 true    (* writePGM:          <unsigned char,1,uint32_t,4,true> *)
  | PFM1  => mkFmt Lit.Pf  Lit.neg1 4%nat 1 1 false   (* writePFM<float>:   <float,1,float,1,false>  *)
  | PFM3  => mkFmt Lit.PF  Lit.neg1 4%nat 3 3 false   (* writePFM<vec3f>:   <float,3,vec3f,3,false>  *)
  | PFM3a => mkFmt Lit.PF  Lit.neg1 4%nat 3 4 false   (* writePFM<vec3fa>:  <float,3,vec3fa,4,false> *)
  | PFM4  => mkFmt Lit.PF4 Lit.neg1 4%nat 4 4 false   (* writePFM<vec4f>:   <float,4,vec4f,4,false>  *)
  end.
Definition all_fmtids := [PPM; PGM; PFM1; PFM3; PFM3a; PFM4].

(* fprintf(file, header, sizeX, sizeY) *)
Definition header (f : fmt) (w h : N) : str :=
  f_magic f ++ [10] ++ dec w ++ [32] ++ dec h ++ [10] ++ f_scale f ++ [10].

(* the component taken for output component c:   (N_COMP == 1 ? PIXEL_COMP - 1 : c)   repaired
                                                 (N_COMP == 1 ? 3 : c)                 before  *)
Definition comp_sel (f : fmt) (c : N) : N := if f_ncomp f =? 1 then f_pixcomp f - 1 else c.
Definition comp_sel_old (f : fmt) (c : N) : N := if f_ncomp f =? 1 then 3 else c.

(* FLIP ? sizeY - 1 - y : y *)
Definition src_row (f : fmt) (h y : N) : N := if f_flip f then h - 1 - y else y.

(* index, in units of COMP_T from the start of the pixel buffer, read for output
   component c of pixel x of output row y:
     in = pixel + row * sizeX, viewed as an array of COMP_T;   in[PIXEL_COMP * x + sel]  *)
Definition read_index (sel : fmt -> N -> N) (f : fmt) (w h y x c : N) : N :=
  src_row f h y * w * f_pixcomp f + (f_pixcomp f * x + sel f c).

Fixpoint upto (n : nat) (s : N) : list N :=
  match n with O => [] | S k => s :: upto k (N.succ s) end.
Definition countN (n : N) : list N := upto (N.to_nat n) 0.

(* for (x...) for (c...) : the reads of one output row, in order *)
Definition row_reads sel (f : fmt) (w h y : N) : list N :=
  flat_map (fun x => map (fun c => read_index sel f w h y x c) (countN (f_ncomp f))) (countN w).
(* for (y...) *)
Definition img_reads sel (f : fmt) (w h : N) : list N :=
  flat_map (row_reads sel f w h) (countN h).

(* a component value as sizeof(COMP_T) bytes, little endian (bit pattern for float) *)
Fixpoint le_bytes (n : nat) (v : N) : str :=
  match n with O => [] | S k => (v mod 256) :: le_bytes k (v / 256) end.

(* perform the reads; inr i = index i lies outside the pixel buffer (undefined behaviour) *)
Fixpoint read_all (inp : list N) (idx : list N) : list N + N :=
  match idx with
  | [] => inl []
  | i :: r =>
      match nth_error inp (N.to_nat i) with
      | None => inr i
      | Some v => match read_all inp r with inl vs => inl (v :: vs) | inr j => inr j end
      end
  end.

Inductive wres := WBytes (bytes : str) | WOob (index : N).

(* inp = the pixel buffer as a flat array of COMP_T values, length w*h*PIXEL_COMP *)
Definition writeImage_gen sel (f : fmt) (w h : N) (inp : list N) : wres :=
  match read_all inp (img_reads sel f w h) with
  | inl vs => WBytes (header f w h ++ flat_map (le_bytes (f_csize f)) vs ++ [10])
  | inr i => WOob i
  end.
Definition writeImage := writeImage_gen comp_sel.
Definition writeImage_old := writeImage_gen comp_sel_old.

(* ====================================================================== tracing *)
Inductive ekind := KBegin | KEnd | KMarker | KCounter.
(* a recorded TraceEvent.  e_time = steady_clock time of the event in clock ticks (ns);
   e_util = the text saveLog prints for cpuUtilization(begin, end) of an END event: an
   opaque input of the model (getrusage values, float formatting) *)
Record tev := mkEv {
  e_kind : ekind;
  e_name : str;            (* "" for end events (nullptr prints as "")  *)
  e_cat : option str;      (* category, may be null                     *)
  e_value : N;             (* counterValue                              *)
  e_time : N;
  e_util : str
}.
(* duration_cast<microseconds>(evt.time.time_since_epoch()).count() *)
Definition e_ts (e : tev) : N := e_time e / 1000.
(* duration_cast<microseconds>(evt.time - begin->time).count() > 100
   (steady_clock: the end is not earlier than its begin) *)
Definition is_long (b e : tev) : bool := 100 <? (e_time e - e_time b) / 1000.

Definition chunk_size : N := 8192.          (* THREAD_EVENT_CHUNK_SIZE *)
Definition tlist := list (list tev).        (* std::list<std::vector<TraceEvent>> events *)

(* getCurrentEventList(): open a new chunk when there is none or the last is full *)
Definition get_current (l : tlist) : tlist :=
  match rev l with
  | [] => l ++ [[]]
  | c :: _ => if chunk_size <=? N.of_nat (length c) then l ++ [[]] else l
  end.
(* getCurrentEventList().push_back(e) *)
Definition push_last (l : tlist) (e : tev) : tlist :=
  match rev l with
  | [] => l
  | c :: r => rev r ++ [c ++ [e]]
  end.
Definition record (l : tlist) (e : tev) : tlist := push_last (get_current l) e.
Definition record_all (evs : list tev) : tlist := fold_left record evs [].

(* what saveLog emits, object by object *)
Inductive jobj :=
| JProc (pid : N) (pname : str)                 (* process_name metadata *)
| JThread (pid tid : N) (tname : str)           (* thread_name metadata  *)
| JEvent (pid tid : N) (e : tev)
| JUtil (pid tid : N) (begin_ts : N) (util : str).   (* builtin cpuUtilization counter *)

Definition kind_char (k : ekind) : N :=
  match k with KBegin => 66 | KEnd => 69 | KMarker => 105 | KCounter => 67 end.

Definition render (o : jobj) : str :=
  match o with
  | JProc pid pname =>
      Lit.ph_M_pid ++ dec pid ++ Lit.c_tid ++ dec 0 ++ Lit.proc_name_args ++ pname ++ Lit.q_close2
  | JThread pid tid tname =>
      Lit.ph_M_pid ++ dec pid ++ Lit.c_tid ++ dec tid ++ Lit.thread_name_args ++ tname ++ Lit.q_close2
  | JEvent pid tid e =>
      Lit.ph_open ++ [kind_char (e_kind e)] ++ Lit.q_pid ++ dec pid ++ Lit.c_tid ++ dec tid
      ++ Lit.c_ts ++ dec (e_ts e) ++ Lit.c_name_q ++ e_name e ++ Lit.q
      ++ (match e_kind e, e_cat e with
          | KEnd, _ => []
          | _, Some c => Lit.c_cat_q ++ c ++ Lit.q
          | _, None => []
          end)
      ++ (match e_kind e with
          | KEnd => Lit.args_util ++ e_util e ++ Lit.close1
          | KCounter => Lit.args_value ++ dec (e_value e) ++ Lit.close1
          | _ => []
          end)
      ++ Lit.close1
  | JUtil pid tid bts util =>
      Lit.ph_C_pid ++ dec pid ++ Lit.c_tid ++ dec tid ++ Lit.c_ts ++ dec bts
      ++ Lit.util_name_cat_args ++ util ++ Lit.close2
  end.

(* the inner loop over one chunk with the stack of open begin events;
   an END with no open BEGIN leaves the loop over this chunk ("break") *)
Fixpoint emit_chunk (pid tid : N) (chunk : list tev) (stack : list tev) : list jobj * list tev :=
  match chunk with
  | [] => ([], stack)
  | e :: rest =>
      match e_kind e with
      | KBegin => let (o, s) := emit_chunk pid tid rest (e :: stack) in (JEvent pid tid e :: o, s)
      | KEnd =>
          match stack with
          | [] => ([], [])
          | b :: stack' =>
              let (o, s) := emit_chunk pid tid rest stack' in
              (JEvent pid tid e :: (if is_long b e then [JUtil pid tid (e_ts b) (e_util e)] else []) ++ o, s)
          end
      | _ => let (o, s) := emit_chunk pid tid rest stack in (JEvent pid tid e :: o, s)
      end
  end.

Fixpoint emit_chunks (pid tid : N) (chunks : tlist) (stack : list tev) : list jobj :=
  match chunks with
  | [] => []
  | c :: cs => let (o, s) := emit_chunk pid tid c stack in o ++ emit_chunks pid tid cs s
  end.

(* a registered thread, in the iteration order of the threadTrace map;
   t_name = threadName, or the printed thread id when that is empty *)
Record thread := mkThread { t_name : str; t_events : tlist }.

Fixpoint emit_threads (pid tid : N) (ths : list thread) : list jobj :=
  match ths with
  | [] => []
  | t :: r => JThread pid tid (t_name t) :: emit_chunks pid tid (t_events t) [] ++ emit_threads pid (tid + 1) r
  end.

Definition log_objs (pname : option str) (pid : N) (ths : list thread) : list jobj :=
  (match pname with Some p => [JProc pid p] | None => [] end) ++ emit_threads pid 0 ths.

(* fout << "[" << obj << "," << obj << "," ... *)
Definition log_body (objs : list jobj) : str :=
  [91] ++ flat_map (fun o => render o ++ [44]) objs.

(* fout.seekp(-1, cur); fout << "]"   — repaired: seek back only when something follows the "[" *)
Definition seek_overwrite (s : str) : str :=
  match s with
  | _ :: _ :: _ => removelast s ++ [93]
  | _ => s ++ [93]
  end.
Definition seek_overwrite_old (s : str) : str := removelast s ++ [93].

Definition saveLog (pname : option str) (pid : N) (ths : list thread) : str :=
  seek_overwrite (log_body (log_objs pname pid ths)).
Definition saveLog_old (pname : option str) (pid : N) (ths : list thread) : str :=
  seek_overwrite_old (log_body (log_objs pname pid ths)).

(* ------------------------------------------- the recorder's map  thread id -> event list
   TraceRecorder::threadTrace (std::unordered_map<std::thread::id, shared_ptr<ThreadEventList>>)
   as an association list.  Thread ids are numbers; the system may hand the id of a finished
   thread to a later one, which then finds and continues the existing list. *)
Record rentry := mkRe { re_id : N; re_name : option str; re_events : tlist }.
Definition reg := list rentry.

Inductive rop :=
| RAttach (id : N)               (* a thread's first tracing call: getThreadTraceList(get_id())   *)
| RName (id : N) (nm : str)      (* setThreadName(nm)                                              *)
| RRec (id : N) (e : tev).       (* beginEvent / endEvent / setMarker / setCounter                 *)

Fixpoint reg_find (r : reg) (id : N) : option rentry :=
  match r with
  | [] => None
  | en :: r' => if re_id en =? id then Some en else reg_find r' id
  end.

(* the entry of id (the first one) replaced by f of it *)
Fixpoint reg_upd (r : reg) (id : N) (f : rentry -> rentry) : reg :=
  match r with
  | [] => []
  | en :: r' => if re_id en =? id then f en :: r' else en :: reg_upd r' id f
  end.

(* getThreadTraceList: auto fnd = threadTrace.find(id); if (fnd == end) threadTrace[id] = make_shared<...>() *)
Definition reg_attach (r : reg) (id : N) : reg :=
  match reg_find r id with
  | Some _ => r
  | None => r ++ [mkRe id None []]
  end.

Definition reg_step (r : reg) (o : rop) : reg :=
  match o with
  | RAttach id => reg_attach r id
  | RName id nm => reg_upd (reg_attach r id) id (fun en => mkRe (re_id en) (Some nm) (re_events en))
  | RRec id e => reg_upd (reg_attach r id) id (fun en => mkRe (re_id en) (re_name en) (record (re_events en) e))
  end.

Definition reg_run (ops : list rop) : reg := fold_left reg_step ops [].

Definition reg_get (r : reg) (id : N) : tlist :=
  match reg_find r id with Some en => re_events en | None => [] end.

(* the threads saveLog iterates over; idtext = what `fout << tid` prints for an unnamed thread (opaque) *)
(* if (!threadName.empty()) fout << threadName; else fout << tid;   - the name is an attribute of the entry, not its key *)
Definition display_name (idtext : N -> str) (en : rentry) : str :=
  match re_name en with
  | Some (c :: n) => c :: n
  | _ => idtext (re_id en)
  end.
Definition reg_threads (idtext : N -> str) (r : reg) : list thread :=
  map (fun en => mkThread (display_name idtext en) (re_events en)) r.

(* ------------------------------------------- ThreadEventList::stringCache
   getCachedString(str): the cache is keyed by the POINTER; the text is copied when the pointer
   is first seen and that copy is what events refer to from then on.  Pointers are numbers; a
   lookup carries the text the pointer designates at that moment. *)
Definition scache := list (N * str).

Fixpoint sc_find (c : scache) (p : N) : option str :=
  match c with
  | [] => None
  | (q, t) :: c' => if q =? p then Some t else sc_find c' p
  end.

(* auto fnd = stringCache.find(str); if (fnd == end) { stringCache[str] = make_shared<string>(str); return it; } return fnd->second *)
Definition sc_lookup (c : scache) (p : N) (text : str) : str * scache :=
  match sc_find c p with
  | Some t => (t, c)
  | None => (text, c ++ [(p, text)])
  end.

(* a sequence of lookups: the strings returned, in order *)
Fixpoint sc_run (c : scache) (l : list (N * str)) : list str :=
  match l with
  | [] => []
  | (p, text) :: l' => let (t, c') := sc_lookup c p text in t :: sc_run c' l'
  end.

(* ------------------------------------------- histories with several saveLog calls
   saveLog iterates over threadTrace under the lock and changes nothing: neither the map nor any
   event list.  A history interleaves recorder operations with saves; every save sees the map as
   it is at that moment. *)
Inductive hop := HRec (o : rop) | HSave.

Definition hist_step (r : reg) (x : hop) : reg :=
  match x with HRec o => reg_step r o | HSave => r end.
Definition hist_final (r : reg) (h : list hop) : reg := fold_left hist_step h r.

(* the map each saveLog call iterates over, in call order *)
Fixpoint hist_saves (r : reg) (h : list hop) : list reg :=
  match h with
  | [] => []
  | HRec o :: h' => hist_saves (reg_step r o) h'
  | HSave :: h' => r :: hist_saves r h'
  end.

Definition ops_of (h : list hop) : list rop :=
  flat_map (fun x => match x with HRec o => [o] | HSave => [] end) h.
