From Coq Require Import Extraction ExtrOcamlBasic NArith List.
From C20 Require Import Model Spec.
Extraction "Model.ml" img_reads comp_sel header le_bytes writeImage writeImage_old fmt_of saveLog saveLog_old record_all sc_lookup reg_run reg_find reg_threads json_array read_image N.of_nat N.to_nat N.add N.mul.
