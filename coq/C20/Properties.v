From Common Require Import Prelude.
From C20 Require Import Model Spec ProofsImage ProofsTrace.
Local Open Scope N_scope.
Example pfm_float_old_example : writeImage_old (fmt_of PFM1) 2 2 [1;2;3;4] = WOob 4.
Proof. vm_compute. reflexivity. Qed.
