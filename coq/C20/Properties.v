(* C20 — property theorems only.  Each is closed by [exact] of a lemma of ProofsImage.v /
   ProofsTrace.v and followed by Print Assumptions; non-vacuity examples at the end.

   Vocabulary.  Model.v: fmt_of i = the template arguments of the instantiation i of writeImage
   (PPM, PGM, PFM1 = writePFM<float>, PFM3 = <vec3f>, PFM3a = <vec3fa>, PFM4 = <vec4f>);
   img_reads sel f w h = the indices (in units of COMP_T) the loop nest reads, in order;
   writeImage f w h inp = the file bytes, or WOob i when index i lies outside inp;
   record / record_all = ThreadEventList recording into chunks; emit_chunk(s) / log_objs = the
   objects saveLog prints; saveLog = its text (with the final "seek back, overwrite").
   Spec.v: read_image = an independent reader of the five file formats; expected = the selected
   channels of the input in file order; json_array / json_object = a JSON recogniser (pushdown
   automaton); balanced / no_stray_end = begin/end nesting; events_of_tid = the events of one
   thread among the printed objects; text_ok / ev_ok / input_ok = texts without quote, backslash
   or control characters, cpuUtilization printed as a number. *)
From Coq Require Import String.   (* first: only for the string literals of the examples; List's names win below *)
From Common Require Import Prelude.
From C20 Require Import Model Spec ProofsImage ProofsTrace.
Local Open Scope N_scope.

(* ================================================================== images *)

(* every index read is inside the w*h pixels, for every size and each of the six instantiations *)
Theorem image_reads_in_bounds : forall i w h idx,
  In idx (img_reads comp_sel (fmt_of i) w h) -> idx < w * h * f_pixcomp (fmt_of i).
Proof. exact ProofsImage.reads_in_bounds. Qed.
Print Assumptions image_reads_in_bounds.

(* so on a buffer of exactly w*h pixels the writer never reports an out-of-buffer read *)
Theorem image_never_leaves_buffer : forall i w h inp idx,
  length inp = N.to_nat (w * h * f_pixcomp (fmt_of i)) -> writeImage (fmt_of i) w h inp <> WOob idx.
Proof. exact ProofsImage.writeImage_no_oob. Qed.
Print Assumptions image_never_leaves_buffer.

(* the number of components written is w*h*N_COMP *)
Theorem image_read_count : forall sel f w h,
  length (img_reads sel f w h) = N.to_nat (w * h * f_ncomp f).
Proof. exact ProofsImage.length_img_reads. Qed.
Print Assumptions image_read_count.

(* for each format: the independent reader parses the header of the written file to (w, h)
   and decodes the payload to the selected channels of the input — file row y is input row
   h-1-y for PPM/PGM and row y for the PFM variants (definition of [expected]) *)
Theorem image_decode : forall i w h inp,
  length inp = N.to_nat (w * h * f_pixcomp (fmt_of i)) -> comps_fit i inp ->
  exists bytes,
    writeImage (fmt_of i) w h inp = WBytes bytes /\
    read_image (fmt_of i) bytes = Some (w, h, expected i w h inp).
Proof. exact ProofsImage.image_decode. Qed.
Print Assumptions image_decode.

(* the header alone: "<magic>\n<w> <h>\n<scale>\n" parses back to (w, h) for all w, h *)
Theorem image_header_roundtrip : forall f w h rest,
  parse_header (f_magic f) (f_scale f) (header f w h ++ rest) = Some (w, h, rest).
Proof. exact ProofsImage.parse_header_header. Qed.
Print Assumptions image_header_roundtrip.

(* the decoded content has one entry per pixel and selected channel *)
Theorem image_decoded_size : forall i w h inp,
  length (expected i w h inp) = N.to_nat (w * h * N.of_nat (length (selected i))).
Proof. exact ProofsImage.length_expected. Qed.
Print Assumptions image_decoded_size.

(* the index expression before the repair (N_COMP == 1 ? 3 : c) leaves the buffer of
   writePFM<float>: the finding, kept as a refutation *)
Theorem pfm_float_old_refuted :
  exists w h inp idx,
    length inp = N.to_nat (w * h * f_pixcomp (fmt_of PFM1)) /\
    In idx (img_reads comp_sel_old (fmt_of PFM1) w h) /\
    w * h * f_pixcomp (fmt_of PFM1) <= idx /\
    writeImage_old (fmt_of PFM1) w h inp = WOob idx.
Proof. exact ProofsImage.pfm_float_old_oob. Qed.
Print Assumptions pfm_float_old_refuted.

(* ================================================================== trace: chunks *)

(* the concatenation of the chunks is the recorded sequence; every chunk holds between 1 and
   8192 events; all chunks but the last are full *)
Theorem chunks_concat : forall evs,
  concat (record_all evs) = evs /\
  Forall (fun c => (1 <= length c)%nat /\ N.of_nat (length c) <= chunk_size) (record_all evs) /\
  Forall (fun c => N.of_nat (length c) = chunk_size) (removelast (record_all evs)).
Proof. exact ProofsTrace.chunks_concat. Qed.
Print Assumptions chunks_concat.

(* a recording step pushes onto a vector whose size is below the reserved capacity (or onto a
   fresh one) and leaves the other chunks alone: no chunk grows past 8192, events never move *)
Theorem chunks_never_reallocate : forall evs e,
  exists r c, record (record_all evs) e = r ++ [c ++ [e]] /\
              N.of_nat (length c) < chunk_size /\
              (record_all evs = r ++ [c] \/ (record_all evs = r /\ c = [])).
Proof. exact ProofsTrace.record_no_realloc. Qed.
Print Assumptions chunks_never_reallocate.

(* ================================================================== trace: saveLog text *)

(* the output is "[" ++ intercalate "," objs ++ "]", every obj is one JSON object and the whole
   is accepted by the JSON-array recogniser — any number of threads and events, the empty log
   included *)
Theorem savelog_wellformed : forall pname pid l,
  (forall p, pname = Some p -> text_ok p) -> Forall input_ok l ->
  let objs := log_objs pname pid (threads_of l) in
  saveLog pname pid (threads_of l) = [91] ++ intercalate [44] (map render objs) ++ [93] /\
  Forall (fun o => json_object (render o) = true) objs /\
  json_array (saveLog pname pid (threads_of l)) = true.
Proof. exact ProofsTrace.savelog_wellformed_recorded. Qed.
Print Assumptions savelog_wellformed.

(* OPEN FINDING C20-saveLog-texts-not-escaped: the hypothesis text_ok above cannot be dropped.  saveLog writes thread names, event
   names, categories and the process name verbatim; with a double quote in any one of them (character codes 97 34 98: a, double quote, b) the output is rejected
   by the JSON recogniser, while the same log with plain texts is accepted *)
Theorem savelog_unescaped_text_refuted :
  let q := [97; 34; 98] in
  let ev := mkEv KMarker [111; 107] None 0 1000 [] in
  json_array (saveLog None 1 (threads_of [(q, [ev])])) = false /\
  json_array (saveLog None 1 (threads_of [([116], [mkEv KMarker q None 0 1000 []])])) = false /\
  json_array (saveLog (Some q) 1 (threads_of [([116], [ev])])) = false /\
  json_array (saveLog None 1 (threads_of [([116], [mkEv KMarker [111; 107] (Some q) 0 1000 []])])) = false /\
  json_array (saveLog None 1 (threads_of [([116], [ev])])) = true.
Proof. exact ProofsTrace.savelog_unescaped_text_witness. Qed.
Print Assumptions savelog_unescaped_text_refuted.

(* the same for arbitrary chunk lists (not only those the recorder builds) *)
Theorem savelog_wellformed_any_chunks : forall pname pid ths,
  (forall p, pname = Some p -> text_ok p) -> Forall thread_ok ths ->
  let objs := log_objs pname pid ths in
  saveLog pname pid ths = [91] ++ intercalate [44] (map render objs) ++ [93] /\
  Forall (fun o => json_object (render o) = true) objs /\
  json_array (saveLog pname pid ths) = true.
Proof. exact ProofsTrace.savelog_wellformed. Qed.
Print Assumptions savelog_wellformed_any_chunks.

(* the shape alone needs no hypothesis *)
Theorem savelog_shape : forall pname pid ths,
  saveLog pname pid ths = [91] ++ intercalate [44] (map render (log_objs pname pid ths)) ++ [93].
Proof. exact ProofsTrace.saveLog_shape. Qed.
Print Assumptions savelog_shape.

(* the writer before the repair (unconditional seek back) on the empty log: the file is "]" *)
Theorem savelog_empty_old_refuted : forall pid,
  saveLog_old None pid [] = [93] /\ json_array (saveLog_old None pid []) = false.
Proof. exact ProofsTrace.saveLog_old_empty. Qed.
Print Assumptions savelog_empty_old_refuted.

(* ================================================================== trace: content *)

(* for every recording thread (the k-th registered one is printed with tid k) the begin, end,
   marker and counter events in the file are exactly the recorded ones, in recording order —
   provided no thread recorded an END without an open BEGIN *)
Theorem savelog_complete : forall pname pid (l : list (str * list tev)) k nm evs,
  Forall (fun p => no_stray_end 0 (snd p) = true) l ->
  nth_error l k = Some (nm, evs) ->
  events_of_tid (N.of_nat k) (log_objs pname pid (threads_of l)) = evs.
Proof. exact ProofsTrace.savelog_complete. Qed.
Print Assumptions savelog_complete.

(* each END is matched with the innermost open BEGIN: if only properly nested events lie
   between the BEGIN b and the END e, then e is processed against b (the builtin utilisation
   counter of a long interval carries b's time stamp), across chunk boundaries, and what was
   open before b stays open for the events after e *)
Theorem savelog_nesting : forall pid tid pre b m e rest,
  is_begin b = true -> is_end e = true -> balanced m ->
  no_stray_end 0 (pre ++ b :: m ++ e :: rest) = true ->
  emit_chunks pid tid (record_all (pre ++ b :: m ++ e :: rest)) [] =
    fst (emit_chunk pid tid pre []) ++
    JEvent pid tid b :: fst (emit_chunk pid tid m []) ++ JEvent pid tid e :: util_of pid tid b e ++
    fst (emit_chunk pid tid rest (snd (emit_chunk pid tid pre []))).
Proof. exact ProofsTrace.savelog_nesting. Qed.
Print Assumptions savelog_nesting.

(* the same inside one chunk with an arbitrary stack of open begins *)
Theorem nesting_innermost : forall pid tid b m e rest st,
  is_begin b = true -> is_end e = true -> balanced m ->
  fst (emit_chunk pid tid (b :: m ++ e :: rest) st) =
    JEvent pid tid b :: fst (emit_chunk pid tid m []) ++ JEvent pid tid e :: util_of pid tid b e
    ++ fst (emit_chunk pid tid rest st) /\
  snd (emit_chunk pid tid (b :: m ++ e :: rest) st) = snd (emit_chunk pid tid rest st).
Proof. exact ProofsTrace.nesting_pair. Qed.
Print Assumptions nesting_innermost.

(* a properly nested recording has no stray END and leaves no BEGIN open *)
Theorem balanced_thread_closed : forall pid tid evs,
  balanced evs -> no_stray_end 0 evs = true /\ snd (emit_chunk pid tid evs []) = [].
Proof. exact ProofsTrace.balanced_closed. Qed.
Print Assumptions balanced_thread_closed.

(* with no stray END the chunk boundaries are invisible in the printed objects *)
Theorem chunk_boundaries_invisible : forall pid tid cs st,
  no_stray_end (length st) (concat cs) = true ->
  emit_chunks pid tid cs st = fst (emit_chunk pid tid (concat cs) st).
Proof. exact ProofsTrace.emit_chunks_flat. Qed.
Print Assumptions chunk_boundaries_invisible.

(* ================================================================== trace: the recorder's map *)

(* no recorded event is ever dropped or moved: for every sequence of attach (a thread's first
   tracing call) / setThreadName / record operations over thread ids — ids may repeat, a later
   thread may get the id of a finished one — the list kept under an id holds exactly the events
   recorded under that id, in recording order *)
Theorem registry_keeps_every_event : forall ops id, reg_evs (reg_run ops) id = recs_of id ops.
Proof. exact ProofsTrace.reg_events_of. Qed.
Print Assumptions registry_keeps_every_event.

(* and the map holds nothing else: as many events as were recorded *)
Theorem registry_holds_nothing_else : forall ops, length (reg_all (reg_run ops)) = rec_count ops.
Proof. exact ProofsTrace.reg_total. Qed.
Print Assumptions registry_holds_nothing_else.

(* one entry per thread id *)
Theorem registry_one_entry_per_id : forall ops, NoDup (map re_id (reg_run ops)).
Proof. exact ProofsTrace.reg_keys_nodup. Qed.
Print Assumptions registry_one_entry_per_id.

(* saveLog over the map: the k-th entry is printed with tid k and the file holds, for it, exactly
   the events recorded under its id (by however many successive threads), in recording order *)
Theorem savelog_complete_registry : forall pname pid idtext ops k en,
  (forall id, no_stray_end 0 (recs_of id ops) = true) ->
  nth_error (reg_run ops) k = Some en ->
  events_of_tid (N.of_nat k) (log_objs pname pid (reg_threads idtext (reg_run ops))) = recs_of (re_id en) ops.
Proof. exact ProofsTrace.savelog_complete_registry. Qed.
Print Assumptions savelog_complete_registry.

(* thread names are attributes of the map's entries, not keys: whatever names the threads give
   themselves (all the same, some shared, empty) every thread id keeps exactly its own events *)
Theorem names_never_merge : forall ops names id,
  reg_evs (reg_run (ops ++ map (fun p => RName (fst p) (snd p)) names)) id = recs_of id ops.
Proof. exact ProofsTrace.names_never_merge. Qed.
Print Assumptions names_never_merge.

(* ================================================================== trace: several saveLog calls *)

(* saveLog changes nothing in the recorder: after any history of recording operations and saves
   the map is what the same history without the saves gives *)
Theorem save_is_read_only : forall h, hist_final [] h = reg_run (ops_of h).
Proof. exact ProofsTrace.save_is_read_only. Qed.
Print Assumptions save_is_read_only.

(* every save sees, under every thread id, exactly the events recorded before it - whether or
   not earlier saves happened, on threads that recorded before an earlier save and on new ones *)
Theorem save_sees_everything_so_far : forall h1 h2 id,
  reg_evs (nth (length (hist_saves [] h1)) (hist_saves [] (h1 ++ HSave :: h2)) []) id = recs_of id (ops_of h1).
Proof. exact ProofsTrace.save_sees_everything_so_far. Qed.
Print Assumptions save_sees_everything_so_far.

(* a later save contains everything an earlier one contained (as a prefix, per thread id) plus
   what was recorded in between *)
Theorem later_save_contains_earlier_events : forall h1 h2 h3 id,
  let all := h1 ++ HSave :: h2 ++ HSave :: h3 in
  let first := nth (length (hist_saves [] h1)) (hist_saves [] all) [] in
  let second := nth (length (hist_saves [] (h1 ++ HSave :: h2))) (hist_saves [] all) [] in
  reg_evs second id = reg_evs first id ++ recs_of id (ops_of h2).
Proof. exact ProofsTrace.later_save_contains_earlier_events. Qed.
Print Assumptions later_save_contains_earlier_events.

(* ================================================================== trace: the string cache *)

(* the string logged for an event is the string its pointer designates: for ANY sequence of
   getCachedString lookups (first-seen and cached ones interleaved, a pointer used for names and
   for categories, loops over a few literals) every lookup returns the text of its own pointer *)
Theorem string_cache_faithful : forall txt l,
  sc_run [] (map (fun p => (p, txt p)) l) = map txt l.
Proof. exact ProofsTrace.sc_run_faithful_empty. Qed.
Print Assumptions string_cache_faithful.

(* a hit returns the text stored when the pointer was first seen and changes nothing *)
Theorem string_cache_hit : forall c p text t, sc_find c p = Some t -> sc_lookup c p text = (t, c).
Proof. exact ProofsTrace.sc_lookup_hit. Qed.
Print Assumptions string_cache_hit.

(* a miss stores and returns the text designated now *)
Theorem string_cache_miss : forall c p text,
  sc_find c p = None -> sc_lookup c p text = (text, c ++ [(p, text)]) /\ sc_find (c ++ [(p, text)]) p = Some text.
Proof. exact ProofsTrace.sc_lookup_miss. Qed.
Print Assumptions string_cache_miss.

(* ================================================================== non-vacuity *)
Definition S_ (x : String.string) : str := Lit.s x.
Arguments S_ x%string_scope.

(* a 2x2 RGBA image: PPM takes R,G,B bottom-up, PGM the alpha byte bottom-up *)
Definition img22 : list N := [10;11;12;13; 20;21;22;23; 30;31;32;33; 40;41;42;43].

Example ex_ppm :
  exists bytes, writeImage (fmt_of PPM) 2 2 img22 = WBytes bytes /\
    read_image (fmt_of PPM) bytes = Some (2, 2, [30;31;32; 40;41;42; 10;11;12; 20;21;22]) /\
    expected PPM 2 2 img22 = [30;31;32; 40;41;42; 10;11;12; 20;21;22] /\
    firstn 11 bytes = S_ "P6" ++ [10] ++ S_ "2 2" ++ [10] ++ S_ "255" ++ [10].
Proof. eexists. vm_compute. repeat split; reflexivity. Qed.

Example ex_pgm :
  exists bytes, writeImage (fmt_of PGM) 2 2 img22 = WBytes bytes /\
    read_image (fmt_of PGM) bytes = Some (2, 2, [33; 43; 13; 23]).
Proof. eexists. vm_compute. split; reflexivity. Qed.

(* writePFM<float> 3x2 with 32-bit patterns: rows as given, four little-endian bytes each *)
Example ex_pfm1 :
  let inp := [1065353216; 1073741824; 1077936128; 1082130432; 1084227584; 1086324736] in
  length inp = N.to_nat (3 * 2 * f_pixcomp (fmt_of PFM1)) /\ comps_fit PFM1 inp /\
  exists bytes, writeImage (fmt_of PFM1) 3 2 inp = WBytes bytes /\
    read_image (fmt_of PFM1) bytes = Some (3, 2, inp) /\ length bytes = 37%nat.
Proof.
  cbv zeta. split; [reflexivity|]. split.
  - unfold comps_fit. repeat constructor.
  - eexists. vm_compute. repeat split; reflexivity.
Qed.

(* vec3fa: the fourth (padding) component of each pixel is skipped; a one-column image *)
Example ex_pfm3a :
  exists bytes, writeImage (fmt_of PFM3a) 1 2 [1;2;3;99; 4;5;6;99] = WBytes bytes /\
    read_image (fmt_of PFM3a) bytes = Some (1, 2, [1;2;3;4;5;6]).
Proof. eexists. vm_compute. split; reflexivity. Qed.

(* the reader is not a constant: a truncated file and a wrong magic are rejected *)
Example ex_reader_rejects :
  read_image (fmt_of PGM) (S_ "P5" ++ [10] ++ S_ "2 2" ++ [10] ++ S_ "255" ++ [10; 1; 2; 3; 10]) = None /\
  read_image (fmt_of PGM) (S_ "P6" ++ [10] ++ S_ "1 1" ++ [10] ++ S_ "255" ++ [10; 1; 10]) = None /\
  read_image (fmt_of PGM) (S_ "P5" ++ [10] ++ S_ "1 1" ++ [10] ++ S_ "255" ++ [10; 7; 10]) = Some (1, 1, [7]).
Proof. vm_compute. repeat split; reflexivity. Qed.

(* the out-of-buffer outcome exists: a buffer one component short *)
Example ex_oob_detected : writeImage (fmt_of PFM1) 2 2 [1; 2; 3] = WOob 3.
Proof. vm_compute. reflexivity. Qed.

(* events *)
Definition evB (n : String.string) (t : N) : tev := mkEv KBegin (S_ n) (Some (S_ "cat")) 0 t [].
Definition evE (t : N) : tev := mkEv KEnd [] None 0 t (S_ "0.5").
Definition evM (n : String.string) (t : N) : tev := mkEv KMarker (S_ n) None 0 t [].
Definition evC (n : String.string) (v t : N) : tev := mkEv KCounter (S_ n) None v t [].
Arguments evB n%string_scope t%N_scope.
Arguments evM n%string_scope t%N_scope.
Arguments evC n%string_scope v%N_scope t%N_scope.

(* exactly one chunk, and one event more *)
Example ex_chunk_boundary :
  map (fun c => N.of_nat (length c)) (record_all (repeat (evM "m" 5) (N.to_nat 8192))) = [8192] /\
  map (fun c => N.of_nat (length c)) (record_all (repeat (evM "m" 5) (N.to_nat 8193))) = [8192; 1] /\
  record_all [] = [].
Proof. vm_compute. repeat split; reflexivity. Qed.

(* a log with a process name and two threads: nested intervals (the inner one long), a marker,
   a counter; and a thread that recorded nothing *)
Definition thr0 : list tev :=
  [evB "outer" 1000000; evM "mark" 1001000; evB "inner" 1002000; evE 1500000; evC "n" 42 1600000; evE 1700000].
Definition log0 := [(S_ "main", thr0); (S_ "idle", []); (S_ "w1", [evM "x" 7000])].

Example ex_inputs_ok : Forall input_ok log0 /\ Forall (fun p => no_stray_end 0 (snd p) = true) log0.
Proof.
  split.
  - unfold log0, thr0, input_ok. repeat constructor; try (intros c E; inversion E; reflexivity); discriminate.
  - repeat constructor.
Qed.

Example ex_savelog :
  json_array (saveLog (Some (S_ "app")) 77 (threads_of log0)) = true /\
  events_of_tid 0 (log_objs (Some (S_ "app")) 77 (threads_of log0)) = thr0 /\
  events_of_tid 2 (log_objs (Some (S_ "app")) 77 (threads_of log0)) = [evM "x" 7000] /\
  length (log_objs (Some (S_ "app")) 77 (threads_of log0)) = 13%nat.
Proof. vm_compute. repeat split; reflexivity. Qed.

(* innermost matching, visibly: the inner interval (498 us) gets a utilisation counter stamped with
   the time of "inner" (1002 us), the outer one (700 us) one stamped with the time of "outer" (1000 us) *)
Example ex_nesting :
  emit_chunks 77 0 (record_all thr0) [] =
  [JEvent 77 0 (evB "outer" 1000000); JEvent 77 0 (evM "mark" 1001000); JEvent 77 0 (evB "inner" 1002000);
   JEvent 77 0 (evE 1500000); JUtil 77 0 1002 (S_ "0.5");
   JEvent 77 0 (evC "n" 42 1600000);
   JEvent 77 0 (evE 1700000); JUtil 77 0 1000 (S_ "0.5")].
Proof. vm_compute. reflexivity. Qed.

Example ex_balanced : balanced thr0.
Proof.
  unfold thr0.
  apply (bal_pair (evB "outer" 1000000)
                  [evM "mark" 1001000; evB "inner" 1002000; evE 1500000; evC "n" 42 1600000]
                  (evE 1700000) []); try reflexivity; [|constructor].
  apply bal_other; try reflexivity.
  apply (bal_pair (evB "inner" 1002000) [] (evE 1500000) [evC "n" 42 1600000]); try reflexivity; [constructor|].
  apply bal_other; try reflexivity. constructor.
Qed.

(* the empty log and a log of threads without events *)
Example ex_empty_logs :
  saveLog None 1 [] = S_ "[]" /\ json_array (saveLog None 1 []) = true /\
  json_array (saveLog (Some (S_ "p")) 1 (threads_of [(S_ "t", [])])) = true.
Proof. vm_compute. repeat split; reflexivity. Qed.

(* the recogniser is not constantly true *)
Example ex_recogniser_rejects :
  json_array (S_ "]") = false /\ json_array (S_ "[{""a"":1},]") = false /\
  json_array (S_ "[{""a"":1}{""b"":2}]") = false /\ json_array (S_ "[{""a"":1 ""b"":2}]") = false /\
  json_array (S_ "[{""a"":1},{""b"":{""c"":-2.5e3}}]") = true /\
  json_array (S_ "[{""a"":""x""y""}]") = false.
Proof. vm_compute. repeat split; reflexivity. Qed.

(* a stray END makes saveLog drop the rest of the chunk: why completeness asks for no_stray_end *)
Example ex_stray_end :
  let evs := [evM "a" 1; evE 2; evM "dropped" 3] in
  no_stray_end 0 evs = false /\
  events_of_tid 0 (log_objs None 1 (threads_of [(S_ "t", evs)])) = [evM "a" 1].
Proof. vm_compute. split; reflexivity. Qed.

(* thread id 7 is used by two successive threads (the second attaches again and finds the list), id 9 by one *)
Example ex_registry_id_reuse :
  let ops := [RAttach 7; RName 7 (S_ "first"); RRec 7 (evM "a" 1); RRec 7 (evM "b" 2);
              RAttach 9; RRec 9 (evM "x" 3);
              RAttach 7; RRec 7 (evM "c" 4)] in
  reg_evs (reg_run ops) 7 = [evM "a" 1; evM "b" 2; evM "c" 4] /\ reg_evs (reg_run ops) 9 = [evM "x" 3] /\
  map re_id (reg_run ops) = [7; 9] /\ rec_count ops = 4%nat /\
  events_of_tid 0 (log_objs None 1 (reg_threads (fun _ => S_ "TID") (reg_run ops))) = [evM "a" 1; evM "b" 2; evM "c" 4].
Proof. vm_compute. repeat split; reflexivity. Qed.

(* a render loop: three iterations over the literals "app"(1) "frame"(2) "swapBuffers"(3), pointer 1 also used as category *)
Example ex_string_cache_loop :
  let txt := fun p : N => if p =? 1 then S_ "app" else if p =? 2 then S_ "frame" else S_ "swapBuffers" in
  let loop := [1; 1; 2; 1; 3; 1] in
  sc_run [] (map (fun p => (p, txt p)) (loop ++ loop ++ loop)) = map txt (loop ++ loop ++ loop) /\
  nth 10 (sc_run [] (map (fun p => (p, txt p)) (loop ++ loop ++ loop))) [] = S_ "swapBuffers".
Proof. vm_compute. split; reflexivity. Qed.

(* record, save, record more on the same thread and on a new one, save again *)
Example ex_two_saves :
  let h := [HRec (RAttach 7); HRec (RRec 7 (evM "a" 1)); HSave; HRec (RRec 7 (evM "b" 2)); HRec (RAttach 9);
            HRec (RRec 9 (evM "x" 3)); HSave; HRec (RRec 7 (evM "c" 4))] in
  map (fun r => (reg_evs r 7, reg_evs r 9)) (hist_saves [] h) =
    [([evM "a" 1], []); ([evM "a" 1; evM "b" 2], [evM "x" 3])] /\
  reg_evs (hist_final [] h) 7 = [evM "a" 1; evM "b" 2; evM "c" 4].
Proof. vm_compute. split; reflexivity. Qed.

(* two threads that both call themselves "worker", and one with an empty name: three lists in the log, each with its own events *)
Example ex_same_names :
  let ops := [RName 7 (S_ "worker"); RRec 7 (evM "a" 1); RName 9 (S_ "worker"); RRec 9 (evM "b" 2); RName 5 []; RRec 5 (evM "c" 3)] in
  let ths := reg_threads (fun _ => S_ "TID") (reg_run ops) in
  map t_name ths = [S_ "worker"; S_ "worker"; S_ "TID"] /\
  events_of_tid 0 (log_objs None 1 ths) = [evM "a" 1] /\ events_of_tid 1 (log_objs None 1 ths) = [evM "b" 2] /\
  events_of_tid 2 (log_objs None 1 ths) = [evM "c" 3].
Proof. vm_compute. repeat split; reflexivity. Qed.
