(* C04: hand model (Tie B) of arg_max (vec.h): the only vec.h function with a loop, outside the translator's subset.
     size_t maxIdx = 0; for (size_t i = 1; i < N; i++) if (v[i] > v[maxIdx]) maxIdx = i; return maxIdx;
   modelled over the list of components with an abstract strict comparison [gt]. *)
From Coq Require Import List Bool Arith.
Import ListNotations.

Section ArgMaxModel.
  Context {A : Type} (gt : A -> A -> bool).

  (* loop state: index of the current maximum, its value, index of the next element *)
  Fixpoint arg_max_loop (best : nat) (bv : A) (i : nat) (l : list A) : nat :=
    match l with
    | [] => best
    | x :: r => if gt x bv then arg_max_loop i x (Datatypes.S i) r else arg_max_loop best bv (Datatypes.S i) r
    end.

  Definition arg_max_list (l : list A) : nat :=
    match l with
    | [] => 0
    | x :: r => arg_max_loop 0 x 1 r
    end.
End ArgMaxModel.
