(* C04: algebraic reading of the regenerated dot / cross / reduce_add / reduce_mul over ANY commutative ring
   (Section hypotheses: a ring_theory; instantiated by Z and by R in ProofsInst.v as non-vacuity).
   IRing interprets + - * and unary - by the ring operations; conversions are the identity (one carrier). *)
From Coq Require Import ZArith List Bool Ring.
From Common Require Import CxxSem.
From C04 Require Import GenVec ProofsLift.
Import ListNotations.

Section RingReading.
  Variable R : Type.
  Variables (rO rI : R) (radd rmul rsub : R -> R -> R) (ropp : R -> R).
  Hypothesis Rth : ring_theory rO rI radd rmul rsub ropp (@eq R).
  Add Ring Rring : Rth.

  Definition IRing : interp := {|
    S := R;
    bop := fun o _ a b => match o with Add => radd a b | Sub => rsub a b | Mul => rmul a b | _ => rO end;
    uop := fun o _ a => match o with Neg => ropp a | _ => a end;
    cmp := fun _ _ _ _ => false;
    cast := fun _ _ x => x;
    ilit := fun _ _ => rO;
    flit := fun _ _ _ => rO;
    lib := fun _ _ _ => rO;
    ofbool := fun _ b => if b then rI else rO;
    tobool := fun _ _ => false;
  |}.

  (* textbook definitions over the component lists *)
  Definition rsum (l : list R) : R := fold_right radd rO l.
  Definition rprod (l : list R) : R := fold_right rmul rI l.
  Definition rdot (a b : list R) : R := rsum (map (fun p => rmul (fst p) (snd p)) (combine a b)).

  (* the left-to-right forms the source text has, against the textbook folds *)
  Lemma dot2_ring x1 y1 x2 y2 :
    radd (rmul x1 x2) (rmul y1 y2) = radd (rmul x1 x2) (radd (rmul y1 y2) rO).
  Proof. ring. Qed.
  Lemma dot3_ring x1 y1 z1 x2 y2 z2 :
    radd (radd (rmul x1 x2) (rmul y1 y2)) (rmul z1 z2) = radd (rmul x1 x2) (radd (rmul y1 y2) (radd (rmul z1 z2) rO)).
  Proof. ring. Qed.
  Lemma dot4_ring x1 y1 z1 w1 x2 y2 z2 w2 :
    radd (radd (radd (rmul x1 x2) (rmul y1 y2)) (rmul z1 z2)) (rmul w1 w2)
    = radd (rmul x1 x2) (radd (rmul y1 y2) (radd (rmul z1 z2) (radd (rmul w1 w2) rO))).
  Proof. ring. Qed.
  Lemma sum2_ring x y : radd x y = radd x (radd y rO). Proof. ring. Qed.
  Lemma sum3_ring x y z : radd (radd x y) z = radd x (radd y (radd z rO)). Proof. ring. Qed.
  Lemma sum4_ring x y z w : radd (radd (radd x y) z) w = radd x (radd y (radd z (radd w rO))). Proof. ring. Qed.
  Lemma prod2_ring x y : rmul x y = rmul x (rmul y rI). Proof. ring. Qed.
  Lemma prod3_ring x y z : rmul (rmul x y) z = rmul x (rmul y (rmul z rI)). Proof. ring. Qed.
  Lemma prod4_ring x y z w : rmul (rmul (rmul x y) z) w = rmul x (rmul y (rmul z (rmul w rI))). Proof. ring. Qed.
  (* a . (a x b) = 0 and b . (a x b) = 0, in the evaluation order of dot and cross *)
  Lemma cross_orth_a ax ay az bx by_ bz :
    radd (radd (rmul ax (rsub (rmul ay bz) (rmul az by_))) (rmul ay (rsub (rmul az bx) (rmul ax bz))))
         (rmul az (rsub (rmul ax by_) (rmul ay bx))) = rO.
  Proof. ring. Qed.
  Lemma cross_orth_b ax ay az bx by_ bz :
    radd (radd (rmul bx (rsub (rmul ay bz) (rmul az by_))) (rmul by_ (rsub (rmul az bx) (rmul ax bz))))
         (rmul bz (rsub (rmul ax by_) (rmul ay bx))) = rO.
  Proof. ring. Qed.
  (* |v|^2 = v.v is a sum of squares *)
End RingReading.

(* component lists *)
Definition l2 {I} (v : vec2 I) : list (S I) := [vec2_x v; vec2_y v].
Definition l3 {I} (v : vec3 I) : list (S I) := [vec3_x v; vec3_y v; vec3_z v].
Definition l3a {I} (v : vec3a I) : list (S I) := [vec3a_x v; vec3a_y v; vec3a_z v].
Definition l4 {I} (v : vec4 I) : list (S I) := [vec4_x v; vec4_y v; vec4_z v; vec4_w v].

(* open the records, compute both sides down to the ring operations (variables), close with the ring identity L *)
Ltac solve_alg L := intros; destruct_vecs; cbv; eapply L; eassumption.
