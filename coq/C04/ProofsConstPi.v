(* C04 (constants): the tactic for the pi-family rows.  The value of the regenerated conversion operator is computed exactly
   (vm_compute in ConstSem.IC: the dyadic literal of the AST, rounded where the source converts to float), then the distance to
   the real constant is bounded by coq-interval (PI is Coq's real number; 120 bits of working precision). *)
From Coq Require Import ZArith QArith Reals Qreals.
From Interval Require Import Tactic.
From Common Require Import CxxSem.
From C04 Require Import GenConst ConstSem.
Local Open Scope R_scope.

Ltac solve_pi :=
  match goal with
  | |- context [q_of ?t] =>
    let q := eval vm_compute in (q_of t) in
    replace (q_of t) with q by (vm_compute; reflexivity)
  end;
  unfold Q2R; cbn [Qnum Qden];
  interval with (i_prec 120).
