(* C04: instances of the ring / order readings (non-vacuity of their hypotheses) and the link with the ideal-Z and
   machine-Z interpretations of Common.CxxSem. *)
From Coq Require Import ZArith List Bool Ring Lia Reals.
From Common Require Import CxxSem.
From C04 Require Import GenVec ProofsLift ProofsRing ProofsOrd ArgMax ProofsArgMax.
Import ListNotations.
Local Open Scope Z_scope.

Lemma Z_ring : ring_theory 0 1 Z.add Z.mul Z.sub Z.opp (@eq Z).
Proof. exact Zth. Qed.
Lemma R_ring : ring_theory 0%R 1%R Rplus Rmult Rminus Ropp (@eq R).
Proof. exact RTheory. Qed.

(* the generated ring theorems instantiated at the reals: the cross product is orthogonal to both operands *)
Lemma cross_orthogonal_R (a b : vec3 (IRing R 0%R 1%R Rplus Rmult Rminus Ropp)) :
  dot__v3f_v3f _ a (cross__v3f_v3f _ a b) = 0%R /\ dot__v3f_v3f _ b (cross__v3f_v3f _ a b) = 0%R.
Proof.
  destruct a, b. cbv -[Rplus Rmult Rminus Ropp]. split; ring.
Qed.

Lemma Z_order :
  (forall a b, Z.eqb a b = true <-> a = b) /\ (forall a, Z.ltb a a = false) /\
  (forall a b c, Z.ltb a b = true -> Z.ltb b c = true -> Z.ltb a c = true) /\
  (forall a b, Z.ltb a b = false -> Z.ltb b a = false -> a = b).
Proof.
  repeat split.
  - apply Z.eqb_eq.
  - intro H. apply Z.eqb_eq. exact H.
  - intro a. apply Z.ltb_irrefl.
  - intros a b c H1 H2. apply Z.ltb_lt in H1. apply Z.ltb_lt in H2. apply Z.ltb_lt. lia.
  - intros a b H1 H2. apply Z.ltb_ge in H1. apply Z.ltb_ge in H2. lia.
Qed.

(* the ideal-Z interpretation of Common.CxxSem reads dot / cross as the textbook definitions *)
Lemma dot3_IZ (a b : vec3 IZ) : dot__v3i_v3i IZ a b = rdot Z 0 Z.add Z.mul (l3 a) (l3 b).
Proof. destruct a, b. cbv -[Z.add Z.mul Z.sub]. ring. Qed.
Lemma dot4_IZ (a b : vec4 IZ) : dot__v4i_v4i IZ a b = rdot Z 0 Z.add Z.mul (l4 a) (l4 b).
Proof. destruct a, b. cbv -[Z.add Z.mul Z.sub]. ring. Qed.
Lemma cross_orthogonal_IZ (a b : vec3 IZ) :
  dot__v3i_v3i IZ a (cross__v3i_v3i IZ a b) = 0 /\ dot__v3i_v3i IZ b (cross__v3i_v3i IZ a b) = 0.
Proof.
  destruct a, b.
  cbv -[Z.add Z.mul Z.sub]. split; ring.
Qed.

(* machine reading: with components bounded by 2^14 the 32-bit dot product does not wrap *)
Lemma dot3_machine_no_overflow (a b : vec3 MZ) :
  (forall c, In c (l3 a ++ l3 b) -> - 2 ^ 14 <= c <= 2 ^ 14) ->
  dot__v3i_v3i MZ a b = rdot Z 0 Z.add Z.mul (l3 a) (l3 b).
Proof.
  destruct a as [ax ay az], b as [bx by_ bz]. intro H.
  assert (Hax := H ax ltac:(cbn; tauto)). assert (Hay := H ay ltac:(cbn; tauto)). assert (Haz := H az ltac:(cbn; tauto)).
  assert (Hbx := H bx ltac:(cbn; tauto)). assert (Hby := H by_ ltac:(cbn; tauto)). assert (Hbz := H bz ltac:(cbn; tauto)).
  clear H.
  change (2 ^ 14) with 16384 in *.
  assert (P : forall x y, - 16384 <= x <= 16384 -> - 16384 <= y <= 16384 -> - 268435456 <= x * y <= 268435456).
  { intros x y Hx Hy.
    pose proof (Z.mul_nonneg_nonneg (16384 - x) (16384 - y) ltac:(lia) ltac:(lia)).
    pose proof (Z.mul_nonneg_nonneg (16384 + x) (16384 + y) ltac:(lia) ltac:(lia)).
    pose proof (Z.mul_nonneg_nonneg (16384 - x) (16384 + y) ltac:(lia) ltac:(lia)).
    pose proof (Z.mul_nonneg_nonneg (16384 + x) (16384 - y) ltac:(lia) ltac:(lia)).
    lia. }
  pose proof (P ax bx Hax Hbx). pose proof (P ay by_ Hay Hby). pose proof (P az bz Haz Hbz).
  cbv -[Z.add Z.mul Z.sub wrap].
  assert (W : forall z, - 2147483648 <= z <= 2147483647 -> wrap I32 z = z).
  { intros z Hz. apply wrap_fits; [reflexivity|discriminate|]. unfold fits, tmin, tmax. cbn. lia. }
  rewrite (W (ax * bx)), (W (ay * by_)), (W (az * bz)) by lia.
  rewrite (W (ax * bx + ay * by_)) by lia.
  rewrite W by lia.
  ring.
Qed.

(* arg_max over Z: the first index of a maximal component *)
Lemma arg_max_Z (l : list Z) : l <> [] -> first_max Z.gtb 0 l (arg_max_list Z.gtb l).
Proof.
  apply arg_max_first.
  - intro a. rewrite Z.gtb_ltb. apply Z.ltb_irrefl.
  - intros a b c. rewrite !Z.gtb_ltb, !Z.ltb_lt. lia.
  - intros a b c. rewrite !Z.gtb_ltb, !Z.ltb_ge. lia.
Qed.
