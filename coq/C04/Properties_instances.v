(* C04 -- hand-written part of the property statements: instances and non-vacuity of the hypotheses used by the
   GENERATED Properties_algebra.v / Properties_order.v, the link with the ideal-Z and machine-Z readings of
   Common.CxxSem, and arg_max (hand model, the only loop of vec.h).  Proofs: ProofsInst.v, ProofsArgMax.v, ProofsOrd.v. *)
From Coq Require Import ZArith List Bool Ring.
From Common Require Import CxxSem.
From C04 Require Import GenVec ProofsLift ProofsRing ProofsOrd ArgMax ProofsArgMax ProofsInst Properties_order Properties_algebra.
Import ListNotations.
Local Open Scope Z_scope.

(* ---- non-vacuity: the ring hypotheses hold for Z and for R, the order hypotheses for Z *)
Example ring_hypotheses_Z : ring_theory 0 1 Z.add Z.mul Z.sub Z.opp (@eq Z).
Proof. exact ProofsInst.Z_ring. Qed.
Print Assumptions ring_hypotheses_Z.
(* the R instance (ring_theory of the reals, cross_orthogonal over R) is ProofsInst.R_ring / ProofsInst.cross_orthogonal_R: compiled on every
   run, not listed as an obligation here because Print Assumptions through the Reals library takes about a minute per theorem *)
Example order_hypotheses_Z :
  (forall a b, Z.eqb a b = true <-> a = b) /\ (forall a, Z.ltb a a = false) /\
  (forall a b c, Z.ltb a b = true -> Z.ltb b c = true -> Z.ltb a c = true) /\
  (forall a b, Z.ltb a b = false -> Z.ltb b a = false -> a = b).
Proof. exact ProofsInst.Z_order. Qed.
Print Assumptions order_hypotheses_Z.

(* ---- ideal-Z reading of Common.CxxSem: textbook dot product, orthogonality of cross *)
Theorem dot3_ideal_Z : forall a b : vec3 IZ, dot__v3i_v3i IZ a b = rdot Z 0 Z.add Z.mul (l3 a) (l3 b).
Proof. exact ProofsInst.dot3_IZ. Qed.
Print Assumptions dot3_ideal_Z.
Theorem dot4_ideal_Z : forall a b : vec4 IZ, dot__v4i_v4i IZ a b = rdot Z 0 Z.add Z.mul (l4 a) (l4 b).
Proof. exact ProofsInst.dot4_IZ. Qed.
Print Assumptions dot4_ideal_Z.
Theorem cross_orthogonal_ideal_Z : forall a b : vec3 IZ,
  dot__v3i_v3i IZ a (cross__v3i_v3i IZ a b) = 0 /\ dot__v3i_v3i IZ b (cross__v3i_v3i IZ a b) = 0.
Proof. exact ProofsInst.cross_orthogonal_IZ. Qed.
Print Assumptions cross_orthogonal_ideal_Z.

(* ---- machine reading (32-bit wrap-around): with components bounded by 2^14 the int dot product equals the exact one
        ("exactly for integers" under "extremes that do not overflow signed types") *)
Theorem dot3_machine_no_overflow : forall a b : vec3 MZ,
  (forall c, In c (l3 a ++ l3 b) -> - 2 ^ 14 <= c <= 2 ^ 14) ->
  dot__v3i_v3i MZ a b = rdot Z 0 Z.add Z.mul (l3 a) (l3 b).
Proof. exact ProofsInst.dot3_machine_no_overflow. Qed.
Print Assumptions dot3_machine_no_overflow.
(* unsigned wrap-around is part of the lifting: uint8_t + uint8_t is computed in int and converted back *)
Example uint8_wraps :
  let r := op_add__v2uc_v2uc MZ (mk_vec2 MZ 200 100) (mk_vec2 MZ 100 101) in vec2_x r = 44 /\ vec2_y r = 201.
Proof. vm_compute. split; reflexivity. Qed.
Print Assumptions uint8_wraps.
Example dot_example : dot__v3i_v3i MZ (mk_vec3 MZ 1 2 3) (mk_vec3 MZ 4 5 6) = 32.
Proof. vm_compute. reflexivity. Qed.
Print Assumptions dot_example.

(* ---- std::less over Z is a strict weak order (instance of the generated theorem), with concrete values *)
Theorem less_strict_weak_order_Z :
  let less := less_op_call__v3i_v3i (IOrd Z Z.ltb Z.eqb 0) tt in
  (forall a, less a a = false) /\
  (forall a b c, less a b = true -> less b c = true -> less a c = true) /\
  (forall a b c, less a b = false -> less b a = false -> less b c = false -> less c b = false -> less a c = false /\ less c a = false).
Proof.
  destruct ProofsInst.Z_order as (H1 & H2 & H3 & H4).
  exact (less_strict_weak_order__v3i Z Z.ltb Z.eqb 0 H1 H2 H3 H4).
Qed.
Print Assumptions less_strict_weak_order_Z.
Example less_example :
  less_op_call__v3i_v3i IZ tt (mk_vec3 IZ 1 2 3) (mk_vec3 IZ 1 2 4) = true /\
  less_op_call__v3i_v3i IZ tt (mk_vec3 IZ 1 3 0) (mk_vec3 IZ 1 2 4) = false /\
  less_op_call__v3i_v3i IZ tt (mk_vec3 IZ 0 9 9) (mk_vec3 IZ 1 2 4) = true.
Proof. vm_compute. repeat split. Qed.
Print Assumptions less_example.

(* ---- arg_max: the hand model returns the first index of a maximal component, for every strict weak order *)
Theorem arg_max_first_maximum :
  forall (A : Type) (gt : A -> A -> bool) (d : A),
  (forall a, gt a a = false) ->
  (forall a b c, gt a b = true -> gt b c = true -> gt a c = true) ->
  (forall a b c, gt a b = false -> gt b c = false -> gt a c = false) ->
  forall l, l <> [] ->
  let i := arg_max_list gt l in
  (i < length l)%nat /\
  (forall j, (j < length l)%nat -> gt (nth j l d) (nth i l d) = false) /\
  (forall j, (j < i)%nat -> gt (nth i l d) (nth j l d) = true).
Proof. exact (@ProofsArgMax.arg_max_first). Qed.
Print Assumptions arg_max_first_maximum.
Example arg_max_example : arg_max_list Z.gtb [1; 3; 3; 2] = 1%nat /\ arg_max_list Z.gtb [5; 3] = 0%nat.
Proof. vm_compute. split; reflexivity. Qed.
Print Assumptions arg_max_example.
