(* C04: arg_max (hand model ArgMax.v) returns the FIRST index of a maximal component, for every strict weak order [gt]
   (irreflexive, transitive, negatively transitive: floats without NaN, integers). *)
From Coq Require Import List Bool Arith Lia.
From C04 Require Import ArgMax.
Import ListNotations.

Section ArgMaxProofs.
  Context {A : Type} (gt : A -> A -> bool) (d : A).
  Hypothesis gt_irrefl : forall a, gt a a = false.
  Hypothesis gt_trans : forall a b c, gt a b = true -> gt b c = true -> gt a c = true.
  Hypothesis gt_negtrans : forall a b c, gt a b = false -> gt b c = false -> gt a c = false.

  (* i is the first index of a maximal element of p *)
  Definition first_max (p : list A) (i : nat) : Prop :=
    i < length p /\
    (forall j, j < length p -> gt (nth j p d) (nth i p d) = false) /\
    (forall j, j < i -> gt (nth i p d) (nth j p d) = true).

  Lemma loop_spec : forall l pre best,
    first_max pre best ->
    first_max (pre ++ l) (arg_max_loop gt best (nth best pre d) (length pre) l).
  Proof.
    induction l as [|x l IH]; intros pre best Hinv.
    - cbn. rewrite app_nil_r. exact Hinv.
    - cbn [arg_max_loop].
      destruct Hinv as (Hlt & Hmax & Hfirst).
      replace (pre ++ x :: l) with ((pre ++ [x]) ++ l) by (rewrite <- app_assoc; reflexivity).
      assert (Hlen : length (pre ++ [x]) = Datatypes.S (length pre)) by (rewrite app_length; cbn; lia).
      destruct (gt x (nth best pre d)) eqn:E.
      + (* new maximum at index length pre *)
        assert (Hx : nth (length pre) (pre ++ [x]) d = x).
        { rewrite app_nth2 by lia. rewrite Nat.sub_diag. reflexivity. }
        specialize (IH (pre ++ [x]) (length pre)).
        rewrite Hx, Hlen in IH. apply IH.
        split; [lia|split].
        * intros j Hj. rewrite Hx.
          destruct (Nat.eq_dec j (length pre)) as [->|Hne].
          -- rewrite Hx. apply gt_irrefl.
          -- rewrite app_nth1 by lia.
             destruct (gt (nth j pre d) x) eqn:E2; [|reflexivity].
             pose proof (gt_trans _ _ _ E2 E) as C. rewrite Hmax in C by lia. discriminate.
        * intros j Hj. rewrite Hx. rewrite app_nth1 by lia.
          destruct (gt x (nth j pre d)) eqn:E2; [reflexivity|].
          assert (gt x (nth best pre d) = false) as C by (eapply gt_negtrans; [exact E2|apply Hmax; lia]).
          congruence.
      + (* maximum unchanged *)
        specialize (IH (pre ++ [x]) best).
        assert (Hb : nth best (pre ++ [x]) d = nth best pre d) by (rewrite app_nth1 by lia; reflexivity).
        rewrite Hb, Hlen in IH. apply IH.
        split; [lia|split].
        * intros j Hj. rewrite Hb.
          destruct (Nat.eq_dec j (length pre)) as [->|Hne].
          -- rewrite app_nth2 by lia. rewrite Nat.sub_diag. exact E.
          -- rewrite app_nth1 by lia. apply Hmax. lia.
        * intros j Hj. rewrite Hb. rewrite app_nth1 by lia. apply Hfirst. exact Hj.
  Qed.

  Theorem arg_max_first : forall l, l <> [] -> first_max l (arg_max_list gt l).
  Proof.
    intros [|x l] Hne; [congruence|].
    unfold arg_max_list.
    change (x :: l) with ([x] ++ l).
    change x with (nth 0 [x] d) at 2.
    change 1 with (length [x]).
    apply loop_spec.
    split; [cbn; lia|split].
    - intros j Hj. cbn in Hj. assert (j = 0) as -> by lia. cbn. apply gt_irrefl.
    - intros j Hj. lia.
  Qed.
End ArgMaxProofs.
