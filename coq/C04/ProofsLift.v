(* C04: the generic tactic that discharges every generated lifting equation (Properties_<family>.v).
   The regenerated definition and the inventory's component-wise term are convertible once the operand
   records are opened; nothing else is used: a copy-paste slip in the source (b.y for b.z, a missing
   component, swapped arguments, another conversion) makes [reflexivity] fail. *)
From Coq Require Import ZArith List Bool.
From Common Require Import CxxSem.
From C04 Require Import GenVec.

Ltac destruct_vecs :=
  repeat match goal with
         | v : vec2 _ |- _ => destruct v
         | v : vec3 _ |- _ => destruct v
         | v : vec3a _ |- _ => destruct v
         | v : vec4 _ |- _ => destruct v
         end.

Ltac solve_lift := intros; destruct_vecs; reflexivity.
