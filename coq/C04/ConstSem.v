(* C04 (constants): an exact executable reading of the regenerated constants.h conversion operators.
   Carrier: machine integers (wrapped to the C type, LP64 widths of Common.CxxSem), finite binary floating-point values as
   exact rationals, +-infinity and NaN.  Every floating operation / conversion is the exact rational result rounded to
   nearest-even at the C type it is performed at (binary32: 24 bits, exponents of the unit in the last place -149..104;
   binary64: 53 bits, -1074..971); overflow gives an infinity.  There is no signed zero in this reading (not needed for the
   constants).  numeric_limits<T>::infinity/max/min/lowest/epsilon/quiet_NaN (LOther 0..5) are interpreted per type:
   min() is the least value for integer types and the smallest positive NORMAL value for floating types, as in C++. *)
From Coq Require Import ZArith QArith Qabs List Bool.
From Common Require Import CxxSem.
Import ListNotations.
Local Open Scope Z_scope.

Inductive cv := VZ (z : Z) | VQ (q : Q) | VInf (neg : bool) | VNaN.

Definition prec_of (t : ctype) : Z := match t with F32 => 24 | _ => 53 end.
Definition emin_of (t : ctype) : Z := match t with F32 => -149 | _ => -1074 end.
Definition emax_of (t : ctype) : Z := match t with F32 => 128 | _ => 1024 end.

(* a >= d * 2^e for positive a d *)
Definition ge_pow (a d e : Z) : bool := if 0 <=? e then d * 2 ^ e <=? a else d <=? a * 2 ^ (- e).
Definition qpow2 (m e : Z) : Q := if 0 <=? e then inject_Z (m * 2 ^ e) else Qred (m # Z.to_pos (2 ^ (- e))).

Definition rnd (t : ctype) (q : Q) : cv :=
  let n := Qnum q in
  let d := Zpos (Qden q) in
  if n =? 0 then VQ 0 else
  let a := Z.abs n in
  let e0 := Z.log2 a - Z.log2 d in
  let e := if ge_pow a d e0 then e0 else e0 - 1 in          (* 2^e <= |q| < 2^(e+1) *)
  let ex := Z.max (e - prec_of t + 1) (emin_of t) in         (* exponent of the unit in the last place *)
  let num := if 0 <=? ex then a else a * 2 ^ (- ex) in
  let den := if 0 <=? ex then d * 2 ^ ex else d in
  let m := num / den in
  let r := num mod den in
  let m' := if 2 * r <? den then m else if den <? 2 * r then m + 1 else m + m mod 2 in   (* nearest, ties to even *)
  if ge_pow m' 1 (emax_of t - ex) then VInf (n <? 0)
  else VQ (qpow2 (if n <? 0 then - m' else m') ex).

Definition ext_lt (a b : cv) : bool :=       (* a < b on the extended line; false when a NaN is involved *)
  match a, b with
  | VNaN, _ | _, VNaN => false
  | VInf true, VInf true => false | VInf true, _ => true | _, VInf true => false
  | VInf false, _ => false | _, VInf false => true
  | VZ x, VZ y => x <? y
  | VZ x, VQ y => negb (Qle_bool y (inject_Z x)) | VQ x, VZ y => negb (Qle_bool (inject_Z y) x)
  | VQ x, VQ y => negb (Qle_bool y x)
  end.
Definition ext_eq (a b : cv) : bool :=
  match a, b with
  | VNaN, _ | _, VNaN => false
  | VInf s, VInf s' => Bool.eqb s s'
  | VZ x, VZ y => x =? y | VQ x, VQ y => Qeq_bool x y
  | VZ x, VQ y | VQ y, VZ x => Qeq_bool (inject_Z x) y
  | _, _ => false
  end.
Definition q_of (v : cv) : Q := match v with VZ z => inject_Z z | VQ q => q | _ => 0%Q end.
Definition z_of (v : cv) : Z := match v with VZ z => z | VQ q => Z.quot (Qnum q) (Zpos (Qden q)) | _ => 0 end.
Definition is_zero (v : cv) : bool := match v with VZ z => z =? 0 | VQ q => Qnum q =? 0 | _ => false end.
Definition is_neg (v : cv) : bool := match v with VZ z => z <? 0 | VQ q => Qnum q <? 0 | VInf s => s | VNaN => false end.

Definition f_bop (o : binop) (t : ctype) (a b : cv) : cv :=
  match a, b with
  | VNaN, _ | _, VNaN => VNaN
  | VInf s, VInf s' =>
    match o with Add => if Bool.eqb s s' then VInf s else VNaN | Sub => if Bool.eqb s s' then VNaN else VInf s
            | Mul => VInf (xorb s s') | _ => VNaN end
  | VInf s, x => match o with Add | Sub => VInf s | Mul => if is_zero x then VNaN else VInf (xorb s (is_neg x))
                         | Div => VInf (xorb s (is_neg x)) | _ => VNaN end
  | x, VInf s => match o with Add => VInf s | Sub => VInf (negb s) | Mul => if is_zero x then VNaN else VInf (xorb s (is_neg x))
                         | Div => VQ 0 | _ => VNaN end
  | x, y =>
    let p := q_of x in let q := q_of y in
    match o with
    | Add => rnd t (p + q) | Sub => rnd t (p - q) | Mul => rnd t (p * q)
    | Div => if is_zero y then (if is_zero x then VNaN else VInf (is_neg x)) else rnd t (p / q)
    | _ => VNaN
    end
  end.

Definition c_min (a b : cv) : cv := if ext_lt b a then b else a.
Definition c_max (a b : cv) : cv := if ext_lt a b then b else a.

Definition c_limits (k : nat) (t : ctype) : cv :=
  if isfloat t then
    match k with
    | 0%nat => VInf false
    | 1%nat => VQ (qpow2 (2 ^ prec_of t - 1) (emax_of t - prec_of t))
    | 2%nat => VQ (qpow2 1 (emin_of t + prec_of t - 1))
    | 3%nat => VQ (qpow2 (- (2 ^ prec_of t - 1)) (emax_of t - prec_of t))
    | 4%nat => VQ (qpow2 1 (1 - prec_of t))
    | _ => VNaN
    end
  else
    match k with
    | 0%nat => VZ 0 | 1%nat => VZ (tmax t) | 2%nat => VZ (tmin t) | 3%nat => VZ (tmin t) | _ => VZ 0
    end.

Definition IC : interp := {|
  S := cv;
  bop := fun o t a b => if isfloat t then f_bop o t a b else VZ (wrap t (z_bop o (z_of a) (z_of b)));
  uop := fun o t a =>
    if isfloat t then match o, a with
                      | Neg, VQ q => VQ (- q) | Neg, VInf s => VInf (negb s) | Neg, VZ z => VQ (inject_Z (- z)) | _, x => x end
    else VZ (wrap t (z_uop o (z_of a)));
  cmp := fun o _ a b =>
    match o with Lt => ext_lt a b | Gt => ext_lt b a | Le => orb (ext_lt a b) (ext_eq a b) | Ge => orb (ext_lt b a) (ext_eq a b)
            | Eq => ext_eq a b | Ne => negb (ext_eq a b) end;
  cast := fun _ t a =>
    if isfloat t then match a with VZ z => rnd t (inject_Z z) | VQ q => rnd t q | x => x end
    else VZ (wrap t (z_of a));
  ilit := fun t z => if isfloat t then rnd t (inject_Z z) else VZ (wrap t z);
  flit := fun t n d => match d with Zpos p => rnd t (n # p) | _ => VNaN end;
  lib := fun f t l =>
    match f, l with
    | LMin, [a; b] => c_min a b
    | LMax, [a; b] => c_max a b
    | LAbs, [a] => match a with VZ z => VZ (wrap t (Z.abs z)) | VQ q => VQ (Qabs q) | VInf _ => VInf false | VNaN => VNaN end
    | LOther k, [] => c_limits k t
    | _, _ => VNaN
    end;
  ofbool := fun t b => if isfloat t then VQ (if b then 1 else 0) else VZ (if b then 1 else 0);
  tobool := fun _ a => negb (is_zero a);
|}.

Ltac solve_const := intros; vm_compute; reflexivity.
Ltac solve_const_vec := intros; vm_compute; repeat split; reflexivity.
