#!/bin/bash
# regenerate gen/GenVec.v from the current repo sources (Tie A) and the generated Properties_*.v / Extract.v / driver / tv_gen.inc
# from the inventory (props/C04/inventory.py); props/C04/check.py does the same on every run.
# RKCOMMON_NO_SIMD selects the portable scalar definitions rcp(x) = 1.f/x, rsqrt(x) = 1.f/sqrt(x).
# --filter2 std::less adds the std::less<vec_t<..>> specialisations (namespace std is not reached by the filter 'rkcommon').
cd "$(dirname "$0")"
mkdir -p gen ../../build/include/rkcommon ../../build/C04
python3 ../../lib/mkversion.py >/dev/null 2>&1
python3 ../../tools/cxx2coq/cxx2coq.py ../../tools/cxx2coq/inst/vec.cpp gen/GenVec.v.new --repo "${VERIF_REPO:-/repo}" -D RKCOMMON_NO_SIMD \
  --retloc --filter2 std::less --json ../../build/C04/vec.json \
  --only '^(op_(add|sub|mul|div|rem|eq|ne)|abs__|rcp|rsqrt__|sin__|cos__|madd__|anyLessThan__|dot__|length__|cross__|normalize__|safe_normalize__|interpolate_uv__|min__|max__|divRoundUp__|reduce_|lerp__|clamp__v|arg_max__|less_op_call__v|v[234]a?(f|i|d|uc)_)' \
  && { cmp -s gen/GenVec.v.new gen/GenVec.v || mv gen/GenVec.v.new gen/GenVec.v; rm -f gen/GenVec.v.new ../../build/C04/vec.json ../../build/C04/vec.json.2; }
python3 ../../tools/cxx2coq/cxx2coq.py ../../tools/cxx2coq/inst/const.cpp gen/GenConst.v.new --repo "${VERIF_REPO:-/repo}" -D RKCOMMON_NO_SIMD --exact-literals \
  --only '^(\w+Ty_conv_|c04_)' \
  && { cmp -s gen/GenConst.v.new gen/GenConst.v || mv gen/GenConst.v.new gen/GenConst.v; rm -f gen/GenConst.v.new; }
python3 ../../props/C04/mkprops.py >/dev/null
true
