(* C04: order reading of std::less, reduce_min / reduce_max, min / max over ANY decidable strict total order
   (Section hypotheses; instantiated by Z in ProofsInst.v as non-vacuity).  IOrd interprets < and == by the order's
   boolean tests and std::min / std::max by their definitions ((b < a) ? b : a and (a < b) ? b : a). *)
From Coq Require Import ZArith List Bool.
From Common Require Import CxxSem.
From C04 Require Import GenVec ProofsLift.
Import ListNotations.

Section OrdReading.
  Variable T : Type.
  Variable ltb eqb : T -> T -> bool.
  Variable dflt : T.

  Definition min2 (a b : T) : T := if ltb b a then b else a.
  Definition max2 (a b : T) : T := if ltb a b then b else a.

  Definition IOrd : interp := {|
    S := T;
    bop := fun _ _ a _ => a;
    uop := fun _ _ a => a;
    cmp := fun o _ a b => match o with Lt => ltb a b | Gt => ltb b a | Le => negb (ltb b a) | Ge => negb (ltb a b)
                                  | Eq => eqb a b | Ne => negb (eqb a b) end;
    cast := fun _ _ x => x;
    ilit := fun _ _ => dflt;
    flit := fun _ _ _ => dflt;
    lib := fun f _ l => match f, l with LMin, [a; b] => min2 a b | LMax, [a; b] => max2 a b | _, x :: _ => x | _, [] => dflt end;
    ofbool := fun _ _ => dflt;
    tobool := fun _ _ => false;
  |}.

  (* the lexicographic strict order on component lists *)
  Fixpoint lexb (a b : list T) : bool :=
    match a, b with
    | x :: a', y :: b' => orb (ltb x y) (andb (eqb x y) (lexb a' b'))
    | _, _ => false
    end.

  Hypothesis eqb_eq : forall a b, eqb a b = true <-> a = b.
  Hypothesis ltb_irrefl : forall a, ltb a a = false.
  Hypothesis ltb_trans : forall a b c, ltb a b = true -> ltb b c = true -> ltb a c = true.
  Hypothesis ltb_total : forall a b, ltb a b = false -> ltb b a = false -> a = b.

  Lemma eqb_refl a : eqb a a = true.
  Proof. apply eqb_eq. reflexivity. Qed.

  Lemma lexb_irrefl : forall a, lexb a a = false.
  Proof.
    induction a as [|x a IH]; cbn; [reflexivity|].
    rewrite ltb_irrefl, eqb_refl, IH. reflexivity.
  Qed.

  Lemma lexb_trans : forall a b c, lexb a b = true -> lexb b c = true -> lexb a c = true.
  Proof.
    induction a as [|x a IH]; intros [|y b] [|z c]; cbn; try discriminate.
    intros Hab Hbc.
    apply orb_true_iff in Hab. apply orb_true_iff in Hbc. apply orb_true_iff.
    destruct Hab as [Hxy|Hab]; destruct Hbc as [Hyz|Hbc].
    - left. eapply ltb_trans; eassumption.
    - apply andb_true_iff in Hbc. destruct Hbc as [Heq _]. apply eqb_eq in Heq. subst z. left. exact Hxy.
    - apply andb_true_iff in Hab. destruct Hab as [Heq _]. apply eqb_eq in Heq. subst y. left. exact Hyz.
    - apply andb_true_iff in Hab. apply andb_true_iff in Hbc.
      destruct Hab as [Hxy Hab]. destruct Hbc as [Hyz Hbc].
      apply eqb_eq in Hxy. apply eqb_eq in Hyz. subst y. subst z.
      right. rewrite eqb_refl. cbn. eapply IH; eassumption.
  Qed.

  (* trichotomy on lists of equal length: incomparable vectors are equal, so "equivalence" is equality and the
     order is a strict total order, in particular a strict weak order *)
  Lemma lexb_total : forall a b, length a = length b -> lexb a b = false -> lexb b a = false -> a = b.
  Proof.
    induction a as [|x a IH]; intros [|y b]; cbn; try discriminate; [reflexivity|].
    intros Hlen Hab Hba. injection Hlen as Hlen.
    apply orb_false_iff in Hab. apply orb_false_iff in Hba.
    destruct Hab as [Hxy Hab]. destruct Hba as [Hyx Hba].
    assert (x = y) as -> by (apply ltb_total; assumption).
    rewrite eqb_refl in Hab, Hba. cbn in Hab, Hba.
    f_equal. apply IH; assumption.
  Qed.

  Lemma lexb_asym a b : lexb a b = true -> lexb b a = false.
  Proof.
    intro H. destruct (lexb b a) eqn:E; [|reflexivity].
    pose proof (lexb_trans _ _ _ H E) as C. rewrite lexb_irrefl in C. discriminate.
  Qed.

  (* incomparability is transitive (third axiom of a strict weak order) *)
  Lemma lexb_incomp_trans a b c :
    length a = length b -> length b = length c ->
    lexb a b = false -> lexb b a = false -> lexb b c = false -> lexb c b = false ->
    lexb a c = false /\ lexb c a = false.
  Proof.
    intros L1 L2 H1 H2 H3 H4.
    assert (a = b) as -> by (apply lexb_total; assumption).
    split; assumption.
  Qed.

  (* std::min / std::max pick a least / greatest operand *)
  Lemma ltb_asym a b : ltb a b = true -> ltb b a = false.
  Proof.
    intro H. destruct (ltb b a) eqn:E; [|reflexivity].
    pose proof (ltb_trans _ _ _ H E) as C. rewrite ltb_irrefl in C. discriminate.
  Qed.
  Lemma ltb_false_trans a b c : ltb b a = false -> ltb c b = false -> ltb c a = false.
  Proof.
    intros H1 H2. destruct (ltb c a) eqn:E; [|reflexivity].
    destruct (ltb a b) eqn:E2.
    - pose proof (ltb_trans _ _ _ E E2) as C. congruence.
    - assert (a = b) by (apply ltb_total; assumption). subst. congruence.
  Qed.

  Definition is_least (m : T) (l : list T) : Prop := In m l /\ forall c, In c l -> ltb c m = false.
  Definition is_greatest (m : T) (l : list T) : Prop := In m l /\ forall c, In c l -> ltb m c = false.

  Lemma min2_least a b : is_least (min2 a b) [a; b].
  Proof.
    unfold min2, is_least. destruct (ltb b a) eqn:E; cbn; split; auto.
    - intros c [<-|[<-|[]]]; [apply ltb_asym; exact E|apply ltb_irrefl].
    - intros c [<-|[<-|[]]]; [apply ltb_irrefl|exact E].
  Qed.
  Lemma max2_greatest a b : is_greatest (max2 a b) [a; b].
  Proof.
    unfold max2, is_greatest. destruct (ltb a b) eqn:E; cbn; split; auto.
    - intros c [<-|[<-|[]]]; [apply ltb_asym; exact E|apply ltb_irrefl].
    - intros c [<-|[<-|[]]]; [apply ltb_irrefl|exact E].
  Qed.

  Lemma least_app m1 l1 m2 l2 : is_least m1 l1 -> is_least m2 l2 -> is_least (min2 m1 m2) (l1 ++ l2).
  Proof.
    intros [I1 B1] [I2 B2]. destruct (min2_least m1 m2) as [Im Bm]. split.
    - apply in_app_iff. destruct Im as [<-|[<-|[]]]; auto.
    - intros c Hc. apply in_app_iff in Hc. destruct Hc as [Hc|Hc].
      + eapply ltb_false_trans; [apply Bm; left; reflexivity|apply B1; exact Hc].
      + eapply ltb_false_trans; [apply Bm; right; left; reflexivity|apply B2; exact Hc].
  Qed.
  Lemma greatest_app m1 l1 m2 l2 : is_greatest m1 l1 -> is_greatest m2 l2 -> is_greatest (max2 m1 m2) (l1 ++ l2).
  Proof.
    intros [I1 B1] [I2 B2]. destruct (max2_greatest m1 m2) as [Im Bm]. split.
    - apply in_app_iff. destruct Im as [<-|[<-|[]]]; auto.
    - intros c Hc. apply in_app_iff in Hc.
      assert (forall a b c, ltb a b = false -> ltb b c = false -> ltb a c = false) as FT.
      { intros a b c0 H1 H2. eapply ltb_false_trans; eassumption. }
      destruct Hc as [Hc|Hc].
      + eapply FT; [apply Bm; left; reflexivity|apply B1; exact Hc].
      + eapply FT; [apply Bm; right; left; reflexivity|apply B2; exact Hc].
  Qed.
  Lemma least_one x : is_least x [x].
  Proof. split; [left; reflexivity|]. intros c [<-|[]]. apply ltb_irrefl. Qed.
  Lemma greatest_one x : is_greatest x [x].
  Proof. split; [left; reflexivity|]. intros c [<-|[]]. apply ltb_irrefl. Qed.

  Lemma min_2 x y : is_least (min2 x y) [x; y].
  Proof. exact (least_app _ [x] _ [y] (least_one x) (least_one y)). Qed.
  Lemma min_3 x y z : is_least (min2 (min2 x y) z) [x; y; z].
  Proof. exact (least_app _ [x; y] _ [z] (min_2 x y) (least_one z)). Qed.
  Lemma min_4 x y z w : is_least (min2 (min2 x y) (min2 z w)) [x; y; z; w].
  Proof. exact (least_app _ [x; y] _ [z; w] (min_2 x y) (min_2 z w)). Qed.
  Lemma max_2 x y : is_greatest (max2 x y) [x; y].
  Proof. exact (greatest_app _ [x] _ [y] (greatest_one x) (greatest_one y)). Qed.
  Lemma max_3 x y z : is_greatest (max2 (max2 x y) z) [x; y; z].
  Proof. exact (greatest_app _ [x; y] _ [z] (max_2 x y) (greatest_one z)). Qed.
  Lemma max_4 x y z w : is_greatest (max2 (max2 x y) (max2 z w)) [x; y; z; w].
  Proof. exact (greatest_app _ [x; y] _ [z; w] (max_2 x y) (max_2 z w)). Qed.
End OrdReading.

(* std::less against lexb: open the records, compute to the boolean tests (variables), decide by cases *)
Ltac solve_bool :=
  intros; destruct_vecs; cbv;
  repeat match goal with |- context [if ?c then _ else _] => destruct c end; reflexivity.
(* reduce_min / reduce_max: open the records and apply the order lemma L (hypotheses of the order from the context) *)
Ltac solve_ord L := intros; destruct_vecs; eapply L; eassumption.

(* a boolean relation that is the lexicographic order of fixed-length component lists is a strict weak order *)
Section SWO.
  Variable T : Type.
  Variable ltb eqb : T -> T -> bool.
  Hypothesis eqb_eq : forall a b, eqb a b = true <-> a = b.
  Hypothesis ltb_irrefl : forall a, ltb a a = false.
  Hypothesis ltb_trans : forall a b c, ltb a b = true -> ltb b c = true -> ltb a c = true.
  Hypothesis ltb_total : forall a b, ltb a b = false -> ltb b a = false -> a = b.
  Variable A : Type.
  Variable less : A -> A -> bool.
  Variable l : A -> list T.
  Hypothesis Hf : forall a b, less a b = lexb T ltb eqb (l a) (l b).
  Hypothesis Hlen : forall a b, length (l a) = length (l b).

  Lemma swo_of_lex :
    (forall a, less a a = false) /\
    (forall a b c, less a b = true -> less b c = true -> less a c = true) /\
    (forall a b c, less a b = false -> less b a = false -> less b c = false -> less c b = false ->
                   less a c = false /\ less c a = false).
  Proof.
    split; [|split].
    - intro a. rewrite Hf. apply lexb_irrefl; assumption.
    - intros a b c. rewrite !Hf. apply lexb_trans; assumption.
    - intros a b c. rewrite !Hf. apply lexb_incomp_trans; auto.
  Qed.
End SWO.

Definition cl2 {I} (v : vec2 I) : list (S I) := [vec2_x v; vec2_y v].
Definition cl3 {I} (v : vec3 I) : list (S I) := [vec3_x v; vec3_y v; vec3_z v].
Definition cl3a {I} (v : vec3a I) : list (S I) := [vec3a_x v; vec3a_y v; vec3a_z v].
Definition cl4 {I} (v : vec4 I) : list (S I) := [vec4_x v; vec4_y v; vec4_z v; vec4_w v].
Ltac swo_close := first [ eassumption | (intros; destruct_vecs; reflexivity) | solve_bool ].
Ltac solve_swo2 := intros; eapply swo_of_lex with (l := cl2); swo_close.
Ltac solve_swo3 := intros; eapply swo_of_lex with (l := cl3); swo_close.
Ltac solve_swo3a := intros; eapply swo_of_lex with (l := cl3a); swo_close.
Ltac solve_swo4 := intros; eapply swo_of_lex with (l := cl4); swo_close.
