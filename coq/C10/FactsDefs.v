(* C10 — vocabulary of the source-derived fact tables (gen/Facts.v, regenerated from the working
   tree on every run by props/C10/factgen.py) and its meaning on the states of Model.v.

   factgen.py reads the clang AST of FlatMap.h and ParameterizedObject.{h,cpp} and writes, per
   member function, the list of statements it recognises; whatever it does not recognise
   becomes an ...Unknown node.  Here every node gets a meaning: a member function body is run
   on the model's state (list (key * value) / list of params); iterators are positions,
   Param* are positions in the parameter list (or null), calls of other members run the
   callee's extracted body.  Undefined behaviour (dereferencing end(), erase(end()), an
   invalidated iterator) and Unknown nodes are stuck (None).

   FactsProofs.v proves once that running the table the model was written from (fm_expected,
   po_expected) gives exactly Model.fm_step / Model.po_step for every state and argument, and
   that the Coq-side normaliser norm_* preserves the meaning of every table.  The per-run
   theorems (FactsCheck*.v, PropertiesFacts*.v) ask that the generated tables normalise to the
   expected ones. *)
From Common Require Import Prelude.
From C10 Require Import Model.
Local Open Scope N_scope.

(* ------------------------------------------------------------ shared: predicates, algorithms *)
Inductive operand := OElemKey     (* item.first  /  p->name  of the element the lambda is applied to *)
                   | OArgKey      (* the key / name parameter of the member function (captured)       *)
                   | OOther.
Inductive pred := PEq (a b : operand) | PNe (a b : operand) | PNot (p : pred) | PUnknown.
Inductive alg := AFindIf | AStablePartition | APartition | ARemoveIf | AOtherAlg.

Definition ofun (o : operand) : option (N -> N -> N) :=
  match o with
  | OElemKey => Some (fun _ e => e)
  | OArgKey => Some (fun k _ => k)
  | OOther => None
  end.

(* meaning of a lambda body: key argument -> key of the element -> bool *)
Fixpoint pfun (p : pred) : option (N -> N -> bool) :=
  match p with
  | PEq a b => match ofun a, ofun b with
               | Some f, Some g => Some (fun k e => N.eqb (f k e) (g k e))
               | _, _ => None
               end
  | PNe a b => match ofun a, ofun b with
               | Some f, Some g => Some (fun k e => negb (N.eqb (f k e) (g k e)))
               | _, _ => None
               end
  | PNot q => match pfun q with Some f => Some (fun k e => negb (f k e)) | None => None end
  | PUnknown => None
  end.

Section Algorithms.
  Context {E : Type}.
  (* position of the first element satisfying q, length l if there is none (std::find_if) *)
  Fixpoint find_pos (q : E -> bool) (l : list E) : nat :=
    match l with
    | [] => O
    | x :: r => if q x then O else S (find_pos q r)
    end.

  (* only the algorithms whose result is specified element by element have a meaning:
     std::partition leaves the order inside the two groups unspecified and std::remove_if leaves
     the tail unspecified, so a body using them is stuck *)
  Definition run_alg (a : alg) (q : E -> bool) (l : list E) : option (list E * nat) :=
    match a with
    | AFindIf => Some (l, find_pos q l)
    | AStablePartition => Some (filter q l ++ filter (fun x => negb (q x)) l, length (filter q l))
    | _ => None
    end.

  Definition remove_nth (i : nat) (l : list E) : list E := firstn i l ++ skipn (S i) l.

  Fixpoint upd_nth (i : nat) (f : E -> E) (l : list E) : list E :=
    match l, i with
    | [], _ => []
    | x :: r, O => f x :: r
    | x :: r, S j => x :: upd_nth j f r
    end.
End Algorithms.

(* ================================================================== FlatMap *)
Inductive fmeth :=
| MAt | MAtC | MIndex | MAtIndex | MAtIndexC | MSize | MEmpty | MContains | MErase | MClear | MReserve
| MBegin | MBeginC | MCBegin | MEnd | MEndC | MCEnd
| MRBegin | MRBeginC | MCRBegin | MREnd | MREndC | MCREnd
| MLookup | MLookupC.

Inductive fiter :=                   (* iterator-valued expressions *)
| FIAlg (a : alg) (p : pred)         (* std::a(values.begin(), values.end(), [&](item){ return p; }) *)
| FICall (m : fmeth)                 (* lookup(key) / cbegin() ... : another member of the table      *)
| FILocal                            (* the local iterator variable                                   *)
| FIBegin | FIEnd | FIRBegin | FIREnd   (* values.begin()/cbegin() ...                               *)
| FIUnknown.

Inductive fcond := FCEq (a b : fiter) | FCNe (a b : fiter) | FCNot (c : fcond) | FCUnknown.

Inductive fsimple :=
| FLet (e : fiter)                   (* auto itr = e;                                        *)
| FThrowOutOfRange                   (* throw std::out_of_range(..);                         *)
| FPushKeyDefault                    (* values.push_back(std::make_pair(key, VALUE()));      *)
| FRetSecondOf (e : fiter)           (* return e->second;                                    *)
| FRetBackSecond                     (* return values.back().second;                        *)
| FRetIter (e : fiter)               (* return e;                                            *)
| FRetAt                             (* return values.at(index);                             *)
| FRetSize | FRetEmpty               (* return values.size(); / values.empty();              *)
| FRetCond (c : fcond)               (* return c;                                            *)
| FResizeDistance (e : fiter)        (* values.resize(std::distance(values.begin(), e));     *)
| FEraseRange (a b : fiter)          (* values.erase(a, b);                                  *)
| FEraseOne (a : fiter)              (* values.erase(a);   -- one element, UB at end()       *)
| FClearAll                          (* values.clear();                                      *)
| FReserveArg                        (* values.reserve(size);                                *)
| FRetCall (m : fmeth)               (* return <member m of this object>(key);  -- a forwarding body,
                                        e.g. return ( *const_cast<FlatMap *>(this))[key]; the callee's identity is the fact *)
| FSUnknown.

Inductive fstmt := FS (s : fsimple) | FIf (c : fcond) (body : list fsimple).   (* if without else *)

Definition ftable := fmeth -> list fstmt.

Record ffacts := mkFF {
  ff_values_vector_of_pairs : bool;  (* `values` is a std::vector<std::pair<KEY,VALUE>>, no initialiser *)
  ff_ctor_defaulted : bool;          (* FlatMap() = default: a new map is the empty vector              *)
  ff_const_index_uninstantiable : bool  (* `c[k]` on a const FlatMap does not compile (push_back on a const
                                           vector): the reason operator[] const is on the exclusion list     *)
}.
Definition ffacts_ok (f : ffacts) : bool :=
  ff_values_vector_of_pairs f && ff_ctor_defaulted f && ff_const_index_uninstantiable f.

(* iterator values: forward / reverse position *)
Inductive itv := Fw (i : nat) | Rv (j : nat).

Inductive fret :=
| RRefSecond (i : nat)    (* reference to values[i].second *)
| RRefItem (i : nat)      (* reference to values[i]        *)
| RIter (v : itv)
| RNum (n : N) | RBool (b : bool) | RThrow | RVoid.

Record fctx := mkF {
  fc_m : fm;
  fc_key : N;                (* the key / index / size parameter *)
  fc_it : option itv;        (* the local iterator               *)
  fc_ret : option fret       (* Some r once the body returned r  *)
}.

Definition fcallee := fmeth -> fm -> N -> option (fm * fret).

(* a structural change of the vector invalidates the local iterator *)
Definition f_set_m (c : fctx) (m : fm) : fctx := mkF m (fc_key c) None (fc_ret c).
(* an algorithm permutes the elements in place: iterators stay valid *)
Definition f_perm_m (c : fctx) (m : fm) : fctx := mkF m (fc_key c) (fc_it c) (fc_ret c).
Definition f_set_it (c : fctx) (v : itv) : fctx := mkF (fc_m c) (fc_key c) (Some v) (fc_ret c).
Definition f_set_ret (c : fctx) (r : fret) : fctx := mkF (fc_m c) (fc_key c) (fc_it c) (Some r).

Definition feval (cal : fcallee) (c : fctx) (e : fiter) : option (fctx * itv) :=
  match e with
  | FIAlg a p =>
      match pfun p with
      | Some f =>
          match run_alg a (fun kv : N * N => f (fc_key c) (fst kv)) (fc_m c) with
          | Some (m', i) => Some (f_perm_m c m', Fw i)
          | None => None
          end
      | None => None
      end
  | FICall m =>
      match cal m (fc_m c) (fc_key c) with
      | Some (m', RIter v) => Some (f_perm_m c m', v)
      | _ => None
      end
  | FILocal => match fc_it c with Some v => Some (c, v) | None => None end
  | FIBegin => Some (c, Fw O)
  | FIEnd => Some (c, Fw (length (fc_m c)))
  | FIRBegin => Some (c, Rv O)
  | FIREnd => Some (c, Rv (length (fc_m c)))
  | FIUnknown => None
  end.

Definition itv_eqb (a b : itv) : option bool :=
  match a, b with
  | Fw i, Fw j => Some (Nat.eqb i j)
  | Rv i, Rv j => Some (Nat.eqb i j)
  | _, _ => None
  end.

Definition fcmp (cal : fcallee) (c : fctx) (a b : fiter) : option (fctx * bool) :=
  match feval cal c a with
  | Some (c1, va) =>
      match feval cal c1 b with
      | Some (c2, vb) => match itv_eqb va vb with Some r => Some (c2, r) | None => None end
      | None => None
      end
  | None => None
  end.

Fixpoint fcond_eval (cal : fcallee) (c : fctx) (k : fcond) : option (fctx * bool) :=
  match k with
  | FCEq a b => fcmp cal c a b
  | FCNe a b => match fcmp cal c a b with Some (c', r) => Some (c', negb r) | None => None end
  | FCNot k' => match fcond_eval cal c k' with Some (c', r) => Some (c', negb r) | None => None end
  | FCUnknown => None
  end.

Definition fsimple_exec (cal : fcallee) (c : fctx) (s : fsimple) : option fctx :=
  match s with
  | FLet e => match feval cal c e with Some (c', v) => Some (f_set_it c' v) | None => None end
  | FThrowOutOfRange => Some (f_set_ret c RThrow)
  | FPushKeyDefault => Some (f_set_m c (fc_m c ++ [(fc_key c, 0)]))
  | FRetSecondOf e =>
      match feval cal c e with
      | Some (c', Fw i) => if Nat.ltb i (length (fc_m c')) then Some (f_set_ret c' (RRefSecond i)) else None
      | _ => None
      end
  | FRetBackSecond =>                                            (* back() of an empty vector: UB *)
      if Nat.eqb (length (fc_m c)) O then None else Some (f_set_ret c (RRefSecond (Nat.pred (length (fc_m c)))))
  | FRetIter e => match feval cal c e with Some (c', v) => Some (f_set_ret c' (RIter v)) | None => None end
  | FRetAt =>                                                   (* vector::at throws std::out_of_range *)
      Some (f_set_ret c (if Nat.ltb (N.to_nat (fc_key c)) (length (fc_m c))
                         then RRefItem (N.to_nat (fc_key c)) else RThrow))
  | FRetSize => Some (f_set_ret c (RNum (N.of_nat (length (fc_m c)))))
  | FRetEmpty => Some (f_set_ret c (RBool (match fc_m c with [] => true | _ => false end)))
  | FRetCond k => match fcond_eval cal c k with Some (c', r) => Some (f_set_ret c' (RBool r)) | None => None end
  | FResizeDistance e =>
      match feval cal c e with
      | Some (c', Fw i) => if Nat.leb i (length (fc_m c')) then Some (f_set_m c' (firstn i (fc_m c'))) else None
      | _ => None
      end
  | FEraseRange a b =>
      match feval cal c a with
      | Some (c1, Fw i) =>
          match feval cal c1 b with
          | Some (c2, Fw j) =>
              if Nat.leb i j && Nat.leb j (length (fc_m c2))
              then Some (f_set_m c2 (firstn i (fc_m c2) ++ skipn j (fc_m c2))) else None
          | _ => None
          end
      | _ => None
      end
  | FEraseOne a =>
      match feval cal c a with
      | Some (c', Fw i) => if Nat.ltb i (length (fc_m c')) then Some (f_set_m c' (remove_nth i (fc_m c'))) else None
      | _ => None
      end
  | FClearAll => Some (f_set_m c [])
  | FReserveArg => Some c
  | FRetCall m =>
      match cal m (fc_m c) (fc_key c) with
      | Some (m', r) => Some (f_set_ret (f_set_m c m') r)
      | None => None
      end
  | FSUnknown => None
  end.

Fixpoint fsimples (cal : fcallee) (c : fctx) (l : list fsimple) : option fctx :=
  match l with
  | [] => Some c
  | s :: r =>
      match fc_ret c with
      | Some _ => Some c
      | None => match fsimple_exec cal c s with Some c' => fsimples cal c' r | None => None end
      end
  end.

Definition fstmt_exec (cal : fcallee) (c : fctx) (s : fstmt) : option fctx :=
  match s with
  | FS x => fsimple_exec cal c x
  | FIf k body =>
      match fcond_eval cal c k with
      | Some (c', true) => fsimples cal c' body
      | Some (c', false) => Some c'
      | None => None
      end
  end.

Fixpoint fstmts (cal : fcallee) (c : fctx) (l : list fstmt) : option fctx :=
  match l with
  | [] => Some c
  | s :: r =>
      match fc_ret c with
      | Some _ => Some c
      | None => match fstmt_exec cal c s with Some c' => fstmts cal c' r | None => None end
      end
  end.

Definition fbody (cal : fcallee) (body : list fstmt) (m : fm) (key : N) : option (fm * fret) :=
  match fstmts cal (mkF m key None None) body with
  | Some c => Some (fc_m c, match fc_ret c with Some r => r | None => RVoid end)
  | None => None
  end.

(* members call members at most three deep (a forwarding overload -> at -> lookup -> std::find_if) *)
Definition fcal0 : fcallee := fun _ _ _ => None.
Definition fcal1 (t : ftable) : fcallee := fun m s k => fbody fcal0 (t m) s k.
Definition fcal2 (t : ftable) : fcallee := fun m s k => fbody (fcal1 t) (t m) s k.
Definition fcall (t : ftable) (m : fmeth) (s : fm) (k : N) : option (fm * fret) := fbody (fcal2 t) (t m) s k.

Fixpoint set_second (m : fm) (i : nat) (v : N) : fm :=
  match m, i with
  | [], _ => []
  | (k, _) :: r, O => (k, v) :: r
  | kv :: r, S j => kv :: set_second r j v
  end.

(* what the caller of the public API observes (the operations of Model.fm_op) *)
Definition fexec (t : ftable) (m : fm) (o : fm_op) : option (fm * fm_out) :=
  match o with
  | FAt k =>
      match fcall t MAt m k with
      | Some (m', RRefSecond i) => match nth_error m' i with Some kv => Some (m', OVal (snd kv)) | None => None end
      | Some (m', RThrow) => Some (m', OThrow)
      | _ => None
      end
  | FIndex k =>
      match fcall t MIndex m k with
      | Some (m', RRefSecond i) => match nth_error m' i with Some kv => Some (m', OVal (snd kv)) | None => None end
      | _ => None
      end
  | FSet k v =>
      match fcall t MIndex m k with
      | Some (m', RRefSecond i) => if Nat.ltb i (length m') then Some (set_second m' i v, OUnit) else None
      | _ => None
      end
  | FAtIndex i =>
      match fcall t MAtIndex m i with
      | Some (m', RRefItem j) => match nth_error m' j with Some kv => Some (m', OItem (fst kv) (snd kv)) | None => None end
      | Some (m', RThrow) => Some (m', OThrow)
      | _ => None
      end
  | FSize => match fcall t MSize m 0 with Some (m', RNum n) => Some (m', ONum n) | _ => None end
  | FEmpty => match fcall t MEmpty m 0 with Some (m', RBool b) => Some (m', OBool b) | _ => None end
  | FContains k => match fcall t MContains m k with Some (m', RBool b) => Some (m', OBool b) | _ => None end
  | FErase k => match fcall t MErase m k with Some (m', RVoid) => Some (m', OUnit) | _ => None end
  | FClear => match fcall t MClear m 0 with Some (m', RVoid) => Some (m', OUnit) | _ => None end
  | FAtC k =>                                   (* the const overloads, reached through a const FlatMap & *)
      match fcall t MAtC m k with
      | Some (m', RRefSecond i) => match nth_error m' i with Some kv => Some (m', OVal (snd kv)) | None => None end
      | Some (m', RThrow) => Some (m', OThrow)
      | _ => None
      end
  | FCopy => Some (m, OUnit)      (* implicit members have no body to extract: std::vector's copy is a value copy *)
  | FAtIndexC i =>
      match fcall t MAtIndexC m i with
      | Some (m', RRefItem j) => match nth_error m' j with Some kv => Some (m', OItem (fst kv) (snd kv)) | None => None end
      | Some (m', RThrow) => Some (m', OThrow)
      | _ => None
      end
  end.

(* the elements visited by  for (it = b(); it != e(); ++it)  *)
Definition frange (t : ftable) (b e : fmeth) (m : fm) : option (list (N * N)) :=
  match fcall t b m 0, fcall t e m 0 with
  | Some (m1, RIter (Fw i)), Some (m2, RIter (Fw j)) => Some (skipn i (firstn j m))
  | Some (m1, RIter (Rv i)), Some (m2, RIter (Rv j)) => Some (skipn i (firstn j (rev m)))
  | _, _ => None
  end.

(* the table Model.fm_step was written from *)
Definition keyeq := PEq OElemKey OArgKey.
Definition keyne := PNe OElemKey OArgKey.
Definition fm_at_body (lk : fmeth) : list fstmt :=
  [FS (FLet (FICall lk)); FIf (FCEq FILocal FIEnd) [FThrowOutOfRange]; FS (FRetSecondOf FILocal)].

Definition fm_expected (m : fmeth) : list fstmt :=
  match m with
  | MAt => fm_at_body MLookup
  | MAtC => fm_at_body MLookupC
  | MIndex => [FS (FLet (FICall MLookup)); FIf (FCEq FILocal FIEnd) [FPushKeyDefault; FRetBackSecond];
               FS (FRetSecondOf FILocal)]
  | MAtIndex | MAtIndexC => [FS FRetAt]
  | MSize => [FS FRetSize]
  | MEmpty => [FS FRetEmpty]
  | MContains => [FS (FRetCond (FCNe (FICall MLookupC) FIEnd))]
  | MErase => [FS (FLet (FIAlg AStablePartition keyne)); FS (FResizeDistance FILocal)]
  | MClear => [FS FClearAll]
  | MReserve => [FS FReserveArg]
  | MBegin | MCBegin => [FS (FRetIter FIBegin)]
  | MBeginC => [FS (FRetIter (FICall MCBegin))]
  | MEnd | MCEnd => [FS (FRetIter FIEnd)]
  | MEndC => [FS (FRetIter (FICall MCEnd))]
  | MRBegin | MCRBegin => [FS (FRetIter FIRBegin)]
  | MRBeginC => [FS (FRetIter (FICall MCRBegin))]
  | MREnd | MCREnd => [FS (FRetIter FIREnd)]
  | MREndC => [FS (FRetIter (FICall MCREnd))]
  | MLookup | MLookupC => [FS (FRetIter (FIAlg AFindIf keyeq))]
  end.

(* ---- normaliser (kernel-checked: FactsProofs.fcall_norm): removes negations, orients == *)
Definition norm_operands (a b : operand) : operand * operand :=
  match a, b with
  | OArgKey, OElemKey => (OElemKey, OArgKey)
  | _, _ => (a, b)
  end.

Fixpoint norm_pred_neg (neg : bool) (p : pred) : pred :=
  match p with
  | PEq a b => let '(x, y) := norm_operands a b in if neg then PNe x y else PEq x y
  | PNe a b => let '(x, y) := norm_operands a b in if neg then PEq x y else PNe x y
  | PNot q => norm_pred_neg (negb neg) q
  | PUnknown => PUnknown
  end.
Definition norm_pred := norm_pred_neg false.

Definition norm_fiter (e : fiter) : fiter :=
  match e with
  | FIAlg a p => FIAlg a (norm_pred p)
  | _ => e
  end.

Fixpoint norm_fcond_neg (neg : bool) (k : fcond) : fcond :=
  match k with
  | FCEq a b => if neg then FCNe (norm_fiter a) (norm_fiter b) else FCEq (norm_fiter a) (norm_fiter b)
  | FCNe a b => if neg then FCEq (norm_fiter a) (norm_fiter b) else FCNe (norm_fiter a) (norm_fiter b)
  | FCNot k' => norm_fcond_neg (negb neg) k'
  | FCUnknown => FCUnknown
  end.
Definition norm_fcond := norm_fcond_neg false.

Definition norm_fsimple (s : fsimple) : fsimple :=
  match s with
  | FLet e => FLet (norm_fiter e)
  | FRetSecondOf e => FRetSecondOf (norm_fiter e)
  | FRetIter e => FRetIter (norm_fiter e)
  | FRetCond k => FRetCond (norm_fcond k)
  | FResizeDistance e => FResizeDistance (norm_fiter e)
  | FEraseRange a b => FEraseRange (norm_fiter a) (norm_fiter b)
  | FEraseOne a => FEraseOne (norm_fiter a)
  | _ => s
  end.

Definition norm_fstmt (s : fstmt) : fstmt :=
  match s with
  | FS x => FS (norm_fsimple x)
  | FIf k body => FIf (norm_fcond k) (map norm_fsimple body)
  end.

Definition norm_ftable (t : ftable) : ftable := fun m => map norm_fstmt (t m).

(* ================================================================== ParameterizedObject *)
Inductive pmeth := MParamSet | MHas | MSetParam | MGetParam | MRemove | MReset | MFind | MParamsBegin | MParamsEnd.

Inductive piter :=
| PIAlg (a : alg) (p : pred)       (* std::a(paramList.begin(), paramList.end(), [&](p){ return ..; }) *)
| PILocal                          (* the local iterator / the loop variable                           *)
| PIBegin | PIEnd                  (* paramList.begin() / end()                                        *)
| PICall (m : pmeth)               (* params_begin() / params_end()                                    *)
| PIUnknown.

Inductive pptr :=                  (* Param* valued *)
| PPGetOf (e : piter)              (* e->get()  /  ( *e ).operator->()                                 *)
| PPLastElem                       (* paramList[paramList.size() - 1].get()                            *)
| PPNull
| PPLocal                          (* the local Param* variable                                        *)
| PPFind (add : bool)              (* findParam(name, add)  (default argument resolved)                *)
| PPUnknown.

Inductive pcond :=
| PCIterEq (a b : piter) | PCIterNe (a b : piter)
| PCNot (c : pcond)
| PCPtrNull (p : pptr)             (* p == nullptr                    *)
| PCPtrNonNull (p : pptr)          (* p  /  p != nullptr              *)
| PCAddFlag                        (* addIfNotExist                   *)
| PCDataIs (p : pptr)              (* p->data.is<T>()                 *)
| PCUnknown.

Inductive pval :=                  (* T valued *)
| PVDefault                        (* valIfNotFound                   *)
| PVDataGet (p : pptr)             (* p->data.get<T>()                *)
| PVCond (c : pcond) (a b : pval)  (* c ? a : b                       *)
| PVUnknown.

Inductive psimple :=
| PLetIter (e : piter)             (* auto foundParam = e;                                  *)
| PLetPtr (p : pptr)               (* Param *param = p;                                     *)
| PRetPtr (p : pptr) | PRetVal (v : pval) | PRetCond (c : pcond) | PRetIter (e : piter)
| PPushNew                         (* paramList.push_back(std::make_shared<Param>(name));   *)
| PEraseOne (e : piter)            (* paramList.erase(e);                                   *)
| PSetQuery (p : pptr) (b : bool)  (* p->query = b;                                         *)
| PCallSet (p : pptr)              (* p->set(t);                                            *)
| PAssignData                      (* data = v;      (Param::set, on this)                  *)
| PSUnknown.

Inductive pstmt :=
| PS (s : psimple)
| PIf (c : pcond) (body : list psimple)
| PFor (first last : piter) (body : list psimple).   (* for (auto p = first; p != last; ++p) body *)

Definition ptable := pmeth -> list pstmt.

Record pfacts := mkPF {
  pf_name_from_arg : bool;          (* Param(const std::string &n) : name(n)                       *)
  pf_data_default_empty : bool;     (* Param::data is an Any, default-constructed (empty)          *)
  pf_query_default_false : bool;    (* bool query = false, not set by the constructor              *)
  pf_ctor_body_empty : bool;
  pf_list_vector_shared_ptr : bool; (* paramList is a std::vector<std::shared_ptr<Param>>          *)
  pf_find_default_add_false : bool  (* findParam(name, bool addIfNotExist = false)                 *)
}.
Definition pfacts_ok (f : pfacts) : bool :=
  pf_name_from_arg f && pf_data_default_empty f && pf_query_default_false f && pf_ctor_body_empty f &&
  pf_list_vector_shared_ptr f && pf_find_default_add_false f.

Record pargs := mkA {
  a_name : N;                (* name                              *)
  a_add : bool;              (* addIfNotExist                     *)
  a_tag : N;                 (* the template argument T (getParam) / the form of the argument (setParam) *)
  a_val : N;                 (* t / valIfNotFound / v             *)
  a_this : option nat        (* the Param a Param:: member runs on *)
}.

Inductive pret := QPtr (p : option nat) | QVal (v : N) | QBool (b : bool) | QIter (i : nat) | QVoid.

Record pctx := mkP {
  pc_s : po;
  pc_a : pargs;
  pc_it : option nat;            (* local iterator                                   *)
  pc_ptr : option (option nat);  (* local Param*: Some None = nullptr                *)
  pc_ret : option pret
}.

Definition pcallee := pmeth -> po -> pargs -> option (po * pret).

(* growing / shrinking the vector invalidates its iterators; erasing also the positions we use as Param* *)
Definition p_push (c : pctx) (s : po) : pctx := mkP s (pc_a c) None (pc_ptr c) (pc_ret c).
Definition p_erase (c : pctx) (s : po) : pctx := mkP s (pc_a c) None None (pc_ret c).
Definition p_upd (c : pctx) (s : po) : pctx := mkP s (pc_a c) (pc_it c) (pc_ptr c) (pc_ret c).
Definition p_set_it (c : pctx) (i : nat) : pctx := mkP (pc_s c) (pc_a c) (Some i) (pc_ptr c) (pc_ret c).
Definition p_set_ptr (c : pctx) (p : option nat) : pctx := mkP (pc_s c) (pc_a c) (pc_it c) (Some p) (pc_ret c).
Definition p_set_ret (c : pctx) (r : pret) : pctx := mkP (pc_s c) (pc_a c) (pc_it c) (pc_ptr c) (Some r).

Definition with_add (a : pargs) (b : bool) : pargs := mkA (a_name a) b (a_tag a) (a_val a) (a_this a).
Definition with_this (a : pargs) (i : nat) : pargs := mkA (a_name a) (a_add a) (a_tag a) (a_val a) (Some i).

Definition pieval (cal : pcallee) (c : pctx) (e : piter) : option (pctx * nat) :=
  match e with
  | PIAlg a p =>
      match pfun p with
      | Some f =>
          match run_alg a (fun x : param => f (a_name (pc_a c)) (p_name x)) (pc_s c) with
          | Some (s', i) => Some (p_upd c s', i)
          | None => None
          end
      | None => None
      end
  | PILocal => match pc_it c with Some i => Some (c, i) | None => None end
  | PIBegin => Some (c, O)
  | PIEnd => Some (c, length (pc_s c))
  | PICall m =>
      match cal m (pc_s c) (pc_a c) with
      | Some (s', QIter i) => Some (p_upd c s', i)
      | _ => None
      end
  | PIUnknown => None
  end.

Definition ppeval (cal : pcallee) (c : pctx) (p : pptr) : option (pctx * option nat) :=
  match p with
  | PPGetOf e =>
      match pieval cal c e with
      | Some (c', i) => if Nat.ltb i (length (pc_s c')) then Some (c', Some i) else None
      | None => None
      end
  | PPLastElem => if Nat.eqb (length (pc_s c)) O then None else Some (c, Some (Nat.pred (length (pc_s c))))
  | PPNull => Some (c, None)
  | PPLocal => match pc_ptr c with Some p => Some (c, p) | None => None end
  | PPFind add =>
      match cal MFind (pc_s c) (with_add (pc_a c) add) with
      | Some (s', QPtr p) =>
          (* findParam may push_back: iterators die, Param objects (shared_ptr) stay where they are *)
          Some (if Nat.eqb (length s') (length (pc_s c)) then p_upd c s' else p_push c s', p)
      | _ => None
      end
  | PPUnknown => None
  end.

Definition data_is (p : param) (tag : N) : bool :=
  match p_data p with Some (t, _) => N.eqb t tag | None => false end.

Definition picmp (cal : pcallee) (c : pctx) (a b : piter) : option (pctx * bool) :=
  match pieval cal c a with
  | Some (c1, i) =>
      match pieval cal c1 b with
      | Some (c2, j) => Some (c2, Nat.eqb i j)
      | None => None
      end
  | None => None
  end.

Fixpoint pceval (cal : pcallee) (c : pctx) (k : pcond) : option (pctx * bool) :=
  match k with
  | PCIterEq a b => picmp cal c a b
  | PCIterNe a b => match picmp cal c a b with Some (c', r) => Some (c', negb r) | None => None end
  | PCNot k' => match pceval cal c k' with Some (c', r) => Some (c', negb r) | None => None end
  | PCPtrNull p => match ppeval cal c p with Some (c', Some _) => Some (c', false) | Some (c', None) => Some (c', true) | None => None end
  | PCPtrNonNull p => match ppeval cal c p with Some (c', Some _) => Some (c', true) | Some (c', None) => Some (c', false) | None => None end
  | PCAddFlag => Some (c, a_add (pc_a c))
  | PCDataIs p =>
      match ppeval cal c p with
      | Some (c', Some i) => match nth_error (pc_s c') i with Some x => Some (c', data_is x (a_tag (pc_a c'))) | None => None end
      | _ => None                                      (* null pointer dereference *)
      end
  | PCUnknown => None
  end.

Fixpoint pveval (cal : pcallee) (c : pctx) (v : pval) : option (pctx * N) :=
  match v with
  | PVDefault => Some (c, a_val (pc_a c))
  | PVDataGet p =>
      match ppeval cal c p with
      | Some (c', Some i) =>
          match nth_error (pc_s c') i with
          | Some x => match p_data x with
                      | Some (t, w) => if N.eqb t (a_tag (pc_a c')) then Some (c', w) else None   (* Any::get<T> of another type *)
                      | None => None
                      end
          | None => None
          end
      | _ => None
      end
  | PVCond k a b =>
      match pceval cal c k with
      | Some (c', true) => pveval cal c' a
      | Some (c', false) => pveval cal c' b
      | None => None
      end
  | PVUnknown => None
  end.

Definition set_query (b : bool) (p : param) : param := {| p_name := p_name p; p_data := p_data p; p_query := b |}.
Definition set_data (d : option (N * N)) (p : param) : param := {| p_name := p_name p; p_data := d; p_query := p_query p |}.
Definition new_param (n : N) : param := {| p_name := n; p_data := None; p_query := false |}.

Definition psimple_exec (cal : pcallee) (c : pctx) (s : psimple) : option pctx :=
  match s with
  | PLetIter e => match pieval cal c e with Some (c', i) => Some (p_set_it c' i) | None => None end
  | PLetPtr p => match ppeval cal c p with Some (c', q) => Some (p_set_ptr c' q) | None => None end
  | PRetPtr p => match ppeval cal c p with Some (c', q) => Some (p_set_ret c' (QPtr q)) | None => None end
  | PRetVal v => match pveval cal c v with Some (c', w) => Some (p_set_ret c' (QVal w)) | None => None end
  | PRetCond k => match pceval cal c k with Some (c', r) => Some (p_set_ret c' (QBool r)) | None => None end
  | PRetIter e => match pieval cal c e with Some (c', i) => Some (p_set_ret c' (QIter i)) | None => None end
  | PPushNew => Some (p_push c (pc_s c ++ [new_param (a_name (pc_a c))]))
  | PEraseOne e =>
      match pieval cal c e with
      | Some (c', i) => if Nat.ltb i (length (pc_s c')) then Some (p_erase c' (remove_nth i (pc_s c'))) else None
      | None => None
      end
  | PSetQuery p b =>
      match ppeval cal c p with
      | Some (c', Some i) => Some (p_upd c' (upd_nth i (set_query b) (pc_s c')))
      | _ => None
      end
  | PCallSet p =>
      match ppeval cal c p with
      | Some (c', Some i) =>
          match cal MParamSet (pc_s c') (with_this (pc_a c') i) with
          | Some (s', _) => Some (p_upd c' s')
          | None => None
          end
      | _ => None
      end
  | PAssignData =>
      match a_this (pc_a c) with
      (* what the Any holds after `data = v` depends on the form of v: Model.store_of (decay, Any payload) *)
      | Some i => Some (p_upd c (upd_nth i (set_data (store_of (a_tag (pc_a c)) (a_val (pc_a c)))) (pc_s c)))
      | None => None
      end
  | PSUnknown => None
  end.

Fixpoint psimples (cal : pcallee) (c : pctx) (l : list psimple) : option pctx :=
  match l with
  | [] => Some c
  | s :: r =>
      match pc_ret c with
      | Some _ => Some c
      | None => match psimple_exec cal c s with Some c' => psimples cal c' r | None => None end
      end
  end.

(* n iterations starting at position i; the loop variable is the local iterator *)
Fixpoint ploop (cal : pcallee) (c : pctx) (body : list psimple) (i n : nat) : option pctx :=
  match n with
  | O => Some c
  | S n' =>
      match pc_ret c with
      | Some _ => Some c
      | None =>
          match psimples cal (p_set_it c i) body with
          | Some c' => ploop cal c' body (S i) n'
          | None => None
          end
      end
  end.

Definition pstmt_exec (cal : pcallee) (c : pctx) (s : pstmt) : option pctx :=
  match s with
  | PS x => psimple_exec cal c x
  | PIf k body =>
      match pceval cal c k with
      | Some (c', true) => psimples cal c' body
      | Some (c', false) => Some c'
      | None => None
      end
  | PFor first last body =>
      (* the bodies in the vocabulary cannot change the length of the list, so `last` is read once *)
      match pieval cal c first with
      | Some (c1, i) =>
          match pieval cal c1 last with
          | Some (c2, j) => if Nat.leb i j then ploop cal c2 body i (j - i) else None
          | None => None
          end
      | None => None
      end
  end.

Fixpoint pstmts (cal : pcallee) (c : pctx) (l : list pstmt) : option pctx :=
  match l with
  | [] => Some c
  | s :: r =>
      match pc_ret c with
      | Some _ => Some c
      | None => match pstmt_exec cal c s with Some c' => pstmts cal c' r | None => None end
      end
  end.

Definition pbody (cal : pcallee) (body : list pstmt) (s : po) (a : pargs) : option (po * pret) :=
  match pstmts cal (mkP s a None None None) body with
  | Some c => Some (pc_s c, match pc_ret c with Some r => r | None => QVoid end)
  | None => None
  end.

Definition pcal0 : pcallee := fun _ _ _ => None.
Definition pcal1 (t : ptable) : pcallee := fun m s a => pbody pcal0 (t m) s a.
Definition pcall (t : ptable) (m : pmeth) (s : po) (a : pargs) : option (po * pret) := pbody (pcal1 t) (t m) s a.

Definition pexec (t : ptable) (s : po) (o : po_op) : option (po * fm_out) :=
  match o with
  | PHas n => match pcall t MHas s (mkA n false 0 0 None) with Some (s', QBool b) => Some (s', OBool b) | _ => None end
  | PSet n tag v => match pcall t MSetParam s (mkA n false tag v None) with Some (s', QVoid) => Some (s', OUnit) | _ => None end
  | PGet n tag d => match pcall t MGetParam s (mkA n false tag d None) with Some (s', QVal v) => Some (s', OVal v) | _ => None end
  | PRemove n => match pcall t MRemove s (mkA n false 0 0 None) with Some (s', QVoid) => Some (s', OUnit) | _ => None end
  | PReset => match pcall t MReset s (mkA 0 false 0 0 None) with Some (s', QVoid) => Some (s', OUnit) | _ => None end
  | PFindAdd n => match pcall t MFind s (mkA n true 0 0 None) with Some (s', QPtr _) => Some (s', OUnit) | _ => None end
  end.

(* params_begin() .. params_end() *)
Definition prange (t : ptable) (s : po) : option po :=
  match pcall t MParamsBegin s (mkA 0 false 0 0 None), pcall t MParamsEnd s (mkA 0 false 0 0 None) with
  | Some (_, QIter i), Some (_, QIter j) => Some (skipn i (firstn j s))
  | _, _ => None
  end.

Definition po_find_stmt : pstmt := PS (PLetIter (PIAlg AFindIf keyeq)).

Definition po_expected (m : pmeth) : list pstmt :=
  match m with
  | MParamSet => [PS PAssignData]
  | MHas => [PS (PRetCond (PCPtrNonNull (PPFind false)))]
  | MSetParam => [PS (PCallSet (PPFind true))]
  | MGetParam => [PS (PLetPtr (PPFind false));
                  PIf (PCPtrNull PPLocal) [PRetVal PVDefault];
                  PIf (PCNot (PCDataIs PPLocal)) [PRetVal PVDefault];
                  PS (PSetQuery PPLocal true);
                  PS (PRetVal (PVDataGet PPLocal))]
  | MRemove => [po_find_stmt; PIf (PCIterNe PILocal PIEnd) [PEraseOne PILocal]]
  | MReset => [PFor (PICall MParamsBegin) (PICall MParamsEnd) [PSetQuery (PPGetOf PILocal) false]]
  | MFind => [po_find_stmt;
              PIf (PCIterNe PILocal PIEnd) [PRetPtr (PPGetOf PILocal)];
              PIf PCAddFlag [PPushNew; PRetPtr PPLastElem];
              PS (PRetPtr PPNull)]
  | MParamsBegin => [PS (PRetIter PIBegin)]
  | MParamsEnd => [PS (PRetIter PIEnd)]
  end.

(* ---- normaliser *)
Definition norm_piter (e : piter) : piter :=
  match e with
  | PIAlg a p => PIAlg a (norm_pred p)
  | _ => e
  end.

Definition norm_pptr (p : pptr) : pptr :=
  match p with
  | PPGetOf e => PPGetOf (norm_piter e)
  | _ => p
  end.

(* negations are pushed into the comparisons; is<T>() has no dual, its negation stays *)
Fixpoint norm_pcond_neg (neg : bool) (k : pcond) : pcond :=
  match k with
  | PCIterEq a b => if neg then PCIterNe (norm_piter a) (norm_piter b) else PCIterEq (norm_piter a) (norm_piter b)
  | PCIterNe a b => if neg then PCIterEq (norm_piter a) (norm_piter b) else PCIterNe (norm_piter a) (norm_piter b)
  | PCNot k' => norm_pcond_neg (negb neg) k'
  | PCPtrNull p => if neg then PCPtrNonNull (norm_pptr p) else PCPtrNull (norm_pptr p)
  | PCPtrNonNull p => if neg then PCPtrNull (norm_pptr p) else PCPtrNonNull (norm_pptr p)
  | PCAddFlag => if neg then PCNot PCAddFlag else PCAddFlag
  | PCDataIs p => if neg then PCNot (PCDataIs (norm_pptr p)) else PCDataIs (norm_pptr p)
  | PCUnknown => PCUnknown
  end.
Definition norm_pcond := norm_pcond_neg false.

Fixpoint norm_pval (v : pval) : pval :=
  match v with
  | PVDataGet p => PVDataGet (norm_pptr p)
  | PVCond k a b => PVCond (norm_pcond k) (norm_pval a) (norm_pval b)
  | _ => v
  end.

Definition norm_psimple (s : psimple) : psimple :=
  match s with
  | PLetIter e => PLetIter (norm_piter e)
  | PLetPtr p => PLetPtr (norm_pptr p)
  | PRetPtr p => PRetPtr (norm_pptr p)
  | PRetVal v => PRetVal (norm_pval v)
  | PRetCond k => PRetCond (norm_pcond k)
  | PRetIter e => PRetIter (norm_piter e)
  | PEraseOne e => PEraseOne (norm_piter e)
  | PSetQuery p b => PSetQuery (norm_pptr p) b
  | PCallSet p => PCallSet (norm_pptr p)
  | _ => s
  end.

Definition norm_pstmt (s : pstmt) : pstmt :=
  match s with
  | PS x => PS (norm_psimple x)
  | PIf k body => PIf (norm_pcond k) (map norm_psimple body)
  | PFor a b body => PFor (norm_piter a) (norm_piter b) (map norm_psimple body)
  end.

Definition norm_ptable (t : ptable) : ptable := fun m => map norm_pstmt (t m).
