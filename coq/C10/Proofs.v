(* C10 — the abstract specification (an insertion-ordered unique-key map given as
   key order + total lookup function) and the refinement proofs. *)
From Common Require Import Prelude.
From C10 Require Import Model.
Local Open Scope N_scope.

(* ------------------------------------------------------------------ spec *)
Record smap (V : Type) := { s_order : list N; s_val : N -> option V }.
Arguments s_order {V}. Arguments s_val {V}.

Definition s_empty {V} : smap V := {| s_order := []; s_val := fun _ => None |}.
Definition s_put {V} (s : smap V) (k : N) (v : V) : smap V :=
  {| s_order := match s_val s k with Some _ => s_order s | None => s_order s ++ [k] end;
     s_val := fun k' => if N.eqb k' k then Some v else s_val s k' |}.
Definition s_del {V} (s : smap V) (k : N) : smap V :=
  {| s_order := filter (fun k' => negb (N.eqb k' k)) (s_order s);
     s_val := fun k' => if N.eqb k' k then None else s_val s k' |}.
Definition s_equiv {V} (a b : smap V) : Prop :=
  s_order a = s_order b /\ forall k, s_val a k = s_val b k.
Definition s_wf {V} (s : smap V) : Prop :=
  NoDup (s_order s) /\ forall k, In k (s_order s) <-> s_val s k <> None.

(* what every FlatMap operation must do, said on the abstract map *)
Definition s_step (s : smap N) (o : fm_op) : smap N * fm_out :=
  match o with
  | FAt k => (s, match s_val s k with Some v => OVal v | None => OThrow end)
  | FIndex k => match s_val s k with
                | Some v => (s, OVal v)
                | None => (s_put s k 0, OVal 0)
                end
  | FSet k v => (s_put s k v, OUnit)
  | FAtIndex i => (s, match nth_error (s_order s) (N.to_nat i) with
                      | Some k => match s_val s k with Some v => OItem k v | None => OThrow end
                      | None => OThrow end)
  | FSize => (s, ONum (N.of_nat (length (s_order s))))
  | FEmpty => (s, OBool (match s_order s with [] => true | _ => false end))
  | FContains k => (s, OBool (match s_val s k with Some _ => true | None => false end))
  | FErase k => (s_del s k, OUnit)
  | FClear => (s_empty, OUnit)
  | FAtC k => (s, match s_val s k with Some v => OVal v | None => OThrow end)
  | FAtIndexC i => (s, match nth_error (s_order s) (N.to_nat i) with
                       | Some k => match s_val s k with Some v => OItem k v | None => OThrow end
                       | None => OThrow end)
  | FCopy => (s, OUnit)
  end.

Definition abs (m : fm) : smap N := {| s_order := map fst m; s_val := fm_lookup m |}.

(* ------------------------------------------------------------ list lemmas *)
Lemma lookup_none_notin m k : fm_lookup m k = None <-> ~ In k (map fst m).
Proof.
  induction m as [|[k' v] m IH]; simpl; [tauto|].
  destruct (N.eqb_spec k' k) as [->|Hne].
  - split; [discriminate | intro H; exfalso; apply H; now left].
  - rewrite IH. split; intro H; [intros [E|I]; [congruence|tauto] | tauto].
Qed.

Lemma lookup_some_in m k v : fm_lookup m k = Some v -> In (k, v) m.
Proof.
  induction m as [|[k' v'] m IH]; simpl; [discriminate|].
  destruct (N.eqb_spec k' k) as [->|Hne]; intro H.
  - inversion H; subst. now left.
  - right. auto.
Qed.

Lemma in_nodup_lookup m k v : NoDup (map fst m) -> In (k, v) m -> fm_lookup m k = Some v.
Proof.
  induction m as [|[k' v'] m IH]; simpl; intros ND I; [contradiction|].
  inversion ND as [|? ? Hn ND']; subst.
  destruct I as [E|I].
  - inversion E; subst. now rewrite N.eqb_refl.
  - destruct (N.eqb_spec k' k) as [->|Hne]; [|auto].
    exfalso. apply Hn. change k with (fst (k, v)). now apply in_map.
Qed.

Lemma lookup_app m1 m2 k :
  fm_lookup (m1 ++ m2) k = match fm_lookup m1 k with Some v => Some v | None => fm_lookup m2 k end.
Proof.
  induction m1 as [|[k' v'] m1 IH]; simpl; [reflexivity|].
  destruct (N.eqb k' k); auto.
Qed.

Lemma update_keys m k v : map fst (fm_update m k v) = map fst m.
Proof.
  induction m as [|[k' v'] m IH]; simpl; [reflexivity|].
  destruct (N.eqb k' k); simpl; congruence.
Qed.

Lemma lookup_update m k v k0 :
  fm_lookup m k <> None ->
  fm_lookup (fm_update m k v) k0 = if N.eqb k0 k then Some v else fm_lookup m k0.
Proof.
  induction m as [|[k' v'] m IH]; simpl; [congruence|].
  destruct (N.eqb_spec k' k) as [->|Hne]; simpl; intro H.
  - destruct (N.eqb_spec k k0) as [E0|H0]; [subst|]; [now rewrite N.eqb_refl|].
    destruct (N.eqb_spec k0 k); [congruence|reflexivity].
  - destruct (N.eqb_spec k' k0) as [E0|H0]; [subst|].
    + destruct (N.eqb_spec k0 k); [congruence|reflexivity].
    + auto.
Qed.

Lemma erase_keys m k : map fst (fm_erase m k) = filter (fun k' => negb (N.eqb k' k)) (map fst m).
Proof.
  unfold fm_erase. induction m as [|[k' v'] m IH]; simpl; [reflexivity|].
  destruct (N.eqb k' k); simpl; congruence.
Qed.

Lemma lookup_erase m k k0 :
  fm_lookup (fm_erase m k) k0 = if N.eqb k0 k then None else fm_lookup m k0.
Proof.
  unfold fm_erase. induction m as [|[k' v'] m IH]; simpl.
  - now destruct (N.eqb k0 k).
  - destruct (N.eqb_spec k' k) as [->|Hne]; simpl.
    + rewrite IH. destruct (N.eqb_spec k0 k) as [E0|H0]; [subst|]; [reflexivity|].
      destruct (N.eqb_spec k k0); [congruence|reflexivity].
    + destruct (N.eqb_spec k' k0) as [E0|H0]; [subst|].
      * destruct (N.eqb_spec k0 k); [congruence|reflexivity].
      * apply IH.
Qed.

Lemma nodup_filter {A} (f : A -> bool) l : NoDup l -> NoDup (filter f l).
Proof.
  induction 1 as [|x l Hn ND IH]; simpl; [constructor|].
  destruct (f x); [constructor; [rewrite filter_In; tauto | exact IH] | exact IH].
Qed.

Lemma nodup_snoc {A} (l : list A) x : NoDup l -> ~ In x l -> NoDup (l ++ [x]).
Proof.
  induction 1 as [|y l Hn ND IH]; simpl; intro H.
  - constructor; [auto|constructor].
  - constructor.
    + rewrite in_app_iff. simpl. intuition.
    + apply IH. tauto.
Qed.

(* ---------------------------------------------------------------- FlatMap *)
Definition fm_inv (m : fm) : Prop := NoDup (map fst m).

Lemma fm_step_inv m o : fm_inv m -> fm_inv (fst (fm_step m o)).
Proof.
  unfold fm_inv. intro ND. destruct o; simpl; try exact ND.
  - destruct (fm_lookup m k) eqn:E; simpl; [exact ND|].
    rewrite map_app. simpl. apply nodup_snoc; [exact ND|]. now apply lookup_none_notin.
  - destruct (fm_lookup m k) eqn:E; simpl.
    + now rewrite update_keys.
    + rewrite map_app. simpl. apply nodup_snoc; [exact ND|]. now apply lookup_none_notin.
  - rewrite erase_keys. now apply nodup_filter.
  - constructor.
Qed.

Lemma fold_inv {S O X} (step : S -> O -> S * X) (I : S -> Prop) :
  (forall s o, I s -> I (fst (step s o))) ->
  forall ops s acc, I s ->
    I (fst (fold_left (fun '(m, acc) o => let '(m', out) := step m o in (m', acc ++ [(out, m')]))
                      ops (s, acc))).
Proof.
  intros Hs ops. induction ops as [|o ops IH]; intros s acc Hi; simpl; [exact Hi|].
  specialize (Hs s o Hi). destruct (step s o) as [s' out]. apply IH. exact Hs.
Qed.

Lemma fm_run_inv ops : fm_inv (fst (fm_run ops)).
Proof. unfold fm_run. apply fold_inv; [apply fm_step_inv | constructor]. Qed.

Lemma abs_wf m : fm_inv m -> s_wf (abs m).
Proof.
  intro ND. split; [exact ND|]. intro k. simpl.
  destruct (fm_lookup m k) eqn:E.
  - split; [congruence|]. intros _. apply lookup_some_in in E.
    change k with (fst (k, n)). now apply in_map.
  - apply lookup_none_notin in E. tauto.
Qed.

Lemma fm_refines_step m o :
  fm_inv m ->
  snd (fm_step m o) = snd (s_step (abs m) o) /\
  s_equiv (abs (fst (fm_step m o))) (fst (s_step (abs m) o)).
Proof.
  intro ND. unfold s_equiv. destruct o; simpl.
  - auto.
  - destruct (fm_lookup m k) eqn:E; simpl; [auto|]. split; [reflexivity|]. split.
    + rewrite ?E. now rewrite map_app.
    + intro k0. rewrite lookup_app. simpl.
      destruct (N.eqb_spec k0 k) as [->|Hne].
      * now rewrite E, ?N.eqb_refl.
      * destruct (fm_lookup m k0); [reflexivity|].
        destruct (N.eqb_spec k k0); [congruence|reflexivity].
  - destruct (fm_lookup m k) eqn:E; simpl; (split; [reflexivity|]); split.
    + rewrite ?E. apply update_keys.
    + intro k0. apply lookup_update. congruence.
    + rewrite ?E. now rewrite map_app.
    + intro k0. rewrite lookup_app. simpl.
      destruct (N.eqb_spec k0 k) as [->|Hne].
      * now rewrite E, N.eqb_refl.
      * destruct (fm_lookup m k0); [reflexivity|].
        destruct (N.eqb_spec k k0); [congruence|reflexivity].
  - split; [|auto]. rewrite nth_error_map.
    destruct (nth_error m (N.to_nat i)) as [[k v]|] eqn:E; simpl; [|reflexivity].
    apply nth_error_In in E. now rewrite (in_nodup_lookup m k v ND E).
  - split; [|auto]. now rewrite map_length.
  - split; [|auto]. now destruct m.
  - auto.
  - split; [reflexivity|]. split; [apply erase_keys | apply lookup_erase].
  - auto.
  - auto.
  - split; [|auto]. rewrite nth_error_map.
    destruct (nth_error m (N.to_nat i)) as [[k v]|] eqn:E; simpl; [|reflexivity].
    apply nth_error_In in E. now rewrite (in_nodup_lookup m k v ND E).
  - auto.
Qed.

(* every operation through a const member leaves the map as it was *)
Lemma fm_const_unchanged m o : fm_is_const o = true -> fst (fm_step m o) = m.
Proof. destruct o; simpl; intro H; try discriminate; reflexivity. Qed.

(* ... and the const overloads of at / at_index answer what the non-const ones answer *)
Lemma fm_const_same_answer m k i :
  fm_step m (FAtC k) = fm_step m (FAt k) /\ fm_step m (FAtIndexC i) = fm_step m (FAtIndex i).
Proof. split; reflexivity. Qed.

(* iteration (begin..end) is exactly the abstract map read in key order *)
Lemma fm_iteration m :
  fm_inv m ->
  map Some m = map (fun k => option_map (fun v => (k, v)) (fm_lookup m k)) (map fst m).
Proof.
  intro ND. rewrite map_map. apply map_ext_in. intros [k v] I. simpl.
  now rewrite (in_nodup_lookup m k v ND I).
Qed.

(* history-level reading of the property: presence / last value written *)
Fixpoint h_val (ops : list fm_op) (k : N) (cur : option N) : option N :=
  match ops with
  | [] => cur
  | o :: ops' =>
      h_val ops' k
        (match o with
         | FIndex k' => if N.eqb k k' then (match cur with Some v => Some v | None => Some 0 end) else cur
         | FSet k' v => if N.eqb k k' then Some v else cur
         | FErase k' => if N.eqb k k' then None else cur
         | FClear => None
         | _ => cur
         end)
  end.

Lemma fm_step_lookup m o k :
  fm_inv m ->
  fm_lookup (fst (fm_step m o)) k =
  h_val [o] k (fm_lookup m k).
Proof.
  intro ND. destruct (fm_refines_step m o ND) as [_ [_ Hv]]. simpl in Hv. rewrite Hv.
  destruct o; simpl; try reflexivity.
  - destruct (N.eqb_spec k k0) as [->|Hne].
    + destruct (fm_lookup m k0) eqn:E; simpl; [exact E| now rewrite N.eqb_refl].
    + destruct (fm_lookup m k0) eqn:E; simpl; [reflexivity|].
      destruct (N.eqb_spec k k0); [congruence|reflexivity].
Qed.

Lemma h_val_app a b k cur : h_val (a ++ b) k cur = h_val b k (h_val a k cur).
Proof. revert cur; induction a as [|o a IH]; intro cur; simpl; [reflexivity|apply IH]. Qed.

Definition fm_exec (ops : list fm_op) : fm := fold_left (fun m o => fst (fm_step m o)) ops [].

Lemma fm_exec_inv_from ops m : fm_inv m -> fm_inv (fold_left (fun m o => fst (fm_step m o)) ops m).
Proof.
  revert m; induction ops as [|o ops IH]; intros m H; simpl; [exact H|].
  apply IH, fm_step_inv, H.
Qed.

Lemma fm_history_from ops m k :
  fm_inv m ->
  fm_lookup (fold_left (fun m o => fst (fm_step m o)) ops m) k = h_val ops k (fm_lookup m k).
Proof.
  revert m; induction ops as [|o ops IH]; intros m H; [reflexivity|].
  cbn [fold_left]. rewrite IH by (apply fm_step_inv, H).
  rewrite (fm_step_lookup m o k H). reflexivity.
Qed.

Lemma fm_run_exec ops : fst (fm_run ops) = fm_exec ops.
Proof.
  unfold fm_run, fm_exec.
  assert (G : forall ops m acc,
             fst (fold_left (fun '(m, acc) o => let '(m', out) := fm_step m o in (m', acc ++ [(out, m')]))
                            ops (m, acc)) = fold_left (fun m o => fst (fm_step m o)) ops m).
  { clear ops. induction ops as [|o ops IH]; intros m acc; simpl; [reflexivity|].
    destruct (fm_step m o) as [m' out] eqn:E. simpl. apply IH. }
  apply G.
Qed.

(* ---------------------------------------------------- ParameterizedObject *)
Definition po_inv (s : po) : Prop := NoDup (map p_name s).

Lemma po_find_none s n : po_find s n = None <-> ~ In n (map p_name s).
Proof.
  induction s as [|p s IH]; simpl; [tauto|].
  destruct (N.eqb_spec (p_name p) n) as [E|Hne].
  - split; [discriminate| intro H; exfalso; apply H; now left].
  - rewrite IH. tauto.
Qed.

Lemma po_find_some s n p : po_find s n = Some p -> In p s /\ p_name p = n.
Proof.
  induction s as [|q s IH]; simpl; [discriminate|].
  destruct (N.eqb_spec (p_name q) n) as [E|Hne]; intro H.
  - inversion H; subst. auto.
  - destruct (IH H). auto.
Qed.

Lemma po_modify_names s n f : (forall p, p_name (f p) = p_name p) -> map p_name (po_modify s n f) = map p_name s.
Proof.
  intro Hf. induction s as [|p s IH]; simpl; [reflexivity|].
  destruct (N.eqb (p_name p) n); simpl; [now rewrite Hf | congruence].
Qed.

Lemma po_find_modify s n f k :
  (forall p, p_name (f p) = p_name p) ->
  po_find (po_modify s n f) k = if N.eqb k n then option_map f (po_find s n) else po_find s k.
Proof.
  intro Hf. induction s as [|p s IH]; simpl.
  - now destruct (N.eqb k n).
  - destruct (N.eqb_spec (p_name p) n) as [E|Hne]; simpl.
    + rewrite Hf, E. destruct (N.eqb_spec n k) as [E0|H0]; [subst|].
      * now rewrite N.eqb_refl.
      * destruct (N.eqb_spec k n); [congruence|reflexivity].
    + destruct (N.eqb_spec (p_name p) k) as [E|H0].
      * destruct (N.eqb_spec k n); [congruence|reflexivity].
      * apply IH.
Qed.

Lemma po_remove_names s n :
  po_inv s -> map p_name (po_remove s n) = filter (fun k => negb (N.eqb k n)) (map p_name s).
Proof.
  unfold po_inv. induction s as [|p s IH]; simpl; intro ND; [reflexivity|].
  inversion ND as [|? ? Hn ND']; subst.
  destruct (N.eqb_spec (p_name p) n) as [E|Hne]; simpl.
  - symmetry. rewrite <- E in *. clear IH ND ND' E.
    induction (map p_name s) as [|a l IHl]; simpl; [reflexivity|].
    destruct (N.eqb_spec a (p_name p)) as [->|H]; simpl.
    + exfalso. apply Hn. now left.
    + f_equal. apply IHl. intro I. apply Hn. now right.
  - f_equal. auto.
Qed.

Lemma po_find_remove s n k :
  po_inv s -> po_find (po_remove s n) k = if N.eqb k n then None else po_find s k.
Proof.
  unfold po_inv. induction s as [|p s IH]; simpl; intro ND.
  - now destruct (N.eqb k n).
  - inversion ND as [|? ? Hn ND']; subst.
    destruct (N.eqb_spec (p_name p) n) as [E|Hne]; simpl.
    + destruct (N.eqb_spec k n) as [E0|H0]; [subst|].
      * apply po_find_none. exact Hn.
      * destruct (N.eqb_spec (p_name p) k); [congruence|reflexivity].
    + destruct (N.eqb_spec (p_name p) k) as [E|H0].
      * destruct (N.eqb_spec k n); [congruence|reflexivity].
      * auto.
Qed.

Lemma po_ensure_names s n :
  map p_name (po_ensure s n) = match po_find s n with Some _ => map p_name s | None => map p_name s ++ [n] end.
Proof. unfold po_ensure. destruct (po_find s n); [reflexivity|]. now rewrite map_app. Qed.

Lemma po_find_app s1 s2 k :
  po_find (s1 ++ s2) k = match po_find s1 k with Some p => Some p | None => po_find s2 k end.
Proof.
  induction s1 as [|p s1 IH]; simpl; [reflexivity|]. destruct (N.eqb (p_name p) k); auto.
Qed.

Lemma po_ensure_inv s n : po_inv s -> po_inv (po_ensure s n).
Proof.
  unfold po_inv. intro ND. rewrite po_ensure_names. destruct (po_find s n) eqn:E; [exact ND|].
  apply nodup_snoc; [exact ND|]. now apply po_find_none.
Qed.

Lemma po_step_inv s o : po_inv s -> po_inv (fst (po_step s o)).
Proof.
  intro ND. destruct o; simpl; try exact ND.
  - unfold po_inv. rewrite po_modify_names by reflexivity. now apply po_ensure_inv.
  - destruct (po_find s n) as [p|] eqn:E; [|exact ND].
    destruct (p_data p) as [[t v]|]; [|exact ND].
    destruct (N.eqb t tag); [|exact ND]. simpl.
    unfold po_inv. now rewrite po_modify_names by reflexivity.
  - unfold po_inv. rewrite po_remove_names by exact ND. now apply nodup_filter.
  - unfold po_inv. rewrite map_map. simpl. exact ND.
  - now apply po_ensure_inv.
Qed.

Lemma po_run_inv ops : po_inv (fst (po_run ops)).
Proof. unfold po_run. apply fold_inv; [apply po_step_inv | constructor]. Qed.

(* abstract view of a parameter set: name order + per-name (data, queried) *)
Definition pabs (s : po) : smap (option (N * N) * bool) :=
  {| s_order := map p_name s;
     s_val := fun n => option_map (fun p => (p_data p, p_query p)) (po_find s n) |}.

Definition ps_step (s : smap (option (N * N) * bool)) (o : po_op)
  : smap (option (N * N) * bool) * fm_out :=
  match o with
  | PHas n => (s, OBool (match s_val s n with Some _ => true | None => false end))
  | PSet n tag v =>
      (s_put s n (store_of tag v, match s_val s n with Some (_, q) => q | None => false end), OUnit)
  | PGet n tag dflt =>
      match s_val s n with
      | Some (Some (t, v), q) =>
          if N.eqb t tag then (s_put s n (Some (t, v), true), OVal v) else (s, OVal dflt)
      | _ => (s, OVal dflt)
      end
  | PRemove n => (s_del s n, OUnit)
  | PReset => ({| s_order := s_order s;
                  s_val := fun n => option_map (fun '(d, _) => (d, false)) (s_val s n) |}, OUnit)
  | PFindAdd n => (match s_val s n with Some _ => s | None => s_put s n (None, false) end, OUnit)
  end.

Lemma po_find_map_reset s n :
  po_find (map (fun p => {| p_name := p_name p; p_data := p_data p; p_query := false |}) s) n
  = option_map (fun p => {| p_name := p_name p; p_data := p_data p; p_query := false |}) (po_find s n).
Proof.
  induction s as [|p s IH]; simpl; [reflexivity|].
  destruct (N.eqb (p_name p) n); [reflexivity|apply IH].
Qed.

Lemma po_refines_step s o :
  po_inv s ->
  snd (po_step s o) = snd (ps_step (pabs s) o) /\
  s_equiv (pabs (fst (po_step s o))) (fst (ps_step (pabs s) o)).
Proof.
  intro ND. unfold s_equiv. destruct o; simpl.
  - split; [|auto]. now destruct (po_find s n).
  - split; [reflexivity|]. split.
    + rewrite po_modify_names by reflexivity. rewrite po_ensure_names.
      now destruct (po_find s n).
    + intro k. rewrite po_find_modify by reflexivity.
      unfold po_ensure. destruct (po_find s n) as [p|] eqn:E; simpl.
      * rewrite E. simpl. destruct (N.eqb k n); reflexivity.
      * rewrite !po_find_app, E. simpl. rewrite N.eqb_refl. simpl.
        destruct (N.eqb_spec k n) as [->|Hne]; [reflexivity|].
        destruct (po_find s k); [reflexivity|].
        destruct (N.eqb_spec n k); [congruence|reflexivity].
  - destruct (po_find s n) as [p|] eqn:E; simpl; [|auto].
    destruct (p_data p) as [[t v]|] eqn:D; simpl; [|auto].
    destruct (N.eqb t tag); simpl; [|auto].
    split; [reflexivity|]. split.
    + rewrite po_modify_names by reflexivity. now rewrite E.
    + intro k. rewrite po_find_modify by reflexivity. rewrite E. simpl.
      destruct (N.eqb k n); [now rewrite D|reflexivity].
  - split; [reflexivity|]. split.
    + now apply po_remove_names.
    + intro k. rewrite po_find_remove by exact ND. now destruct (N.eqb k n).
  - split; [reflexivity|]. split.
    + now rewrite map_map.
    + intro k. rewrite po_find_map_reset. now destruct (po_find s k).
  - split; [reflexivity|]. unfold po_ensure. destruct (po_find s n) eqn:E; simpl; [auto|].
    split.
    + rewrite E. now rewrite map_app.
    + intro k. rewrite po_find_app. simpl.
      destruct (N.eqb_spec k n) as [->|Hne].
      * now rewrite E, N.eqb_refl.
      * destruct (po_find s k); [reflexivity|].
        destruct (N.eqb_spec n k); [congruence|reflexivity].
Qed.

(* the two sentences of the property about typed reads, stated directly *)
Lemma po_get_mismatch s n tag dflt :
  (forall p, po_find s n = Some p -> forall t v, p_data p = Some (t, v) -> t <> tag) ->
  po_step s (PGet n tag dflt) = (s, OVal dflt).
Proof.
  intro H. simpl. destruct (po_find s n) as [p|] eqn:E; [|reflexivity].
  destruct (p_data p) as [[t v]|] eqn:D; [|reflexivity].
  destruct (N.eqb_spec t tag) as [->|Hne]; [|reflexivity].
  exfalso. exact (H p eq_refl tag v D eq_refl).
Qed.

Lemma po_get_match s n tag dflt p v :
  po_find s n = Some p -> p_data p = Some (tag, v) ->
  snd (po_step s (PGet n tag dflt)) = OVal v /\
  option_map p_query (po_find (fst (po_step s (PGet n tag dflt))) n) = Some true.
Proof.
  intros E D. simpl. rewrite E, D, N.eqb_refl. simpl. split; [reflexivity|].
  rewrite po_find_modify by reflexivity. now rewrite N.eqb_refl, E.
Qed.

(* query stays set by every operation except reset / remove *)
Lemma po_find_ensure s n k :
  po_find (po_ensure s n) k =
  match po_find s k with
  | Some p => Some p
  | None => match po_find s n with
            | Some _ => None
            | None => if N.eqb n k then Some {| p_name := n; p_data := None; p_query := false |} else None
            end
  end.
Proof.
  unfold po_ensure. destruct (po_find s n) eqn:E.
  - now destruct (po_find s k).
  - rewrite po_find_app. simpl. reflexivity.
Qed.

Lemma po_query_sticky s o n :
  po_inv s ->
  option_map p_query (po_find s n) = Some true ->
  match o with PReset => False | PRemove n' => n' <> n | _ => True end ->
  option_map p_query (po_find (fst (po_step s o)) n) = Some true.
Proof.
  intros ND Hq Ho. destruct (po_find s n) as [p|] eqn:E; simpl in Hq; [|discriminate].
  destruct o; simpl; rewrite ?E; simpl; try exact Hq.
  - rewrite po_find_modify by reflexivity.
    destruct (N.eqb_spec n n0) as [E0|Hne].
    + subst n0. rewrite po_find_ensure, E. simpl. exact Hq.
    + rewrite po_find_ensure, E. simpl. exact Hq.
  - destruct (po_find s n0) as [p0|] eqn:E0; simpl; rewrite ?E; simpl; try exact Hq.
    destruct (p_data p0) as [[t v]|]; simpl; rewrite ?E; simpl; try exact Hq.
    destruct (N.eqb t tag); simpl; rewrite ?E; simpl; try exact Hq.
    rewrite po_find_modify by reflexivity.
    destruct (N.eqb_spec n n0) as [E1|Hne].
    + subst n0. rewrite E0. reflexivity.
    + rewrite E. exact Hq.
  - rewrite po_find_remove by exact ND.
    destruct (N.eqb_spec n n0) as [E1|Hne]; [congruence|]. rewrite E. exact Hq.
  - contradiction.
  - rewrite po_find_ensure, E. exact Hq.
Qed.

(* wide arguments: only the converted key matters, and the converted history is an ordinary history *)
Lemma fm_conv_same_key t m a b v :
  conv t a = conv t b ->
  fm_step_conv t m (FAt a) = fm_step_conv t m (FAt b) /\
  fm_step_conv t m (FIndex a) = fm_step_conv t m (FIndex b) /\
  fm_step_conv t m (FSet a v) = fm_step_conv t m (FSet b v) /\
  fm_step_conv t m (FContains a) = fm_step_conv t m (FContains b) /\
  fm_step_conv t m (FErase a) = fm_step_conv t m (FErase b) /\
  fm_step_conv t m (FAtC a) = fm_step_conv t m (FAtC b).
Proof. intro H. unfold fm_step_conv. cbn [fm_op_conv]. rewrite H. repeat split. Qed.

Lemma fm_conv_run_nodup t ops : NoDup (map fst (fst (fm_run (map (fm_op_conv t) ops)))).
Proof. apply fm_run_inv. Qed.

(* after `m[a] = v` every argument converting to the same key finds v, contains() it, and erase(b) removes it *)
Lemma fm_conv_set_then_find t m a b v :
  fm_inv m -> conv t a = conv t b ->
  let m' := fst (fm_step_conv t m (FSet a v)) in
  snd (fm_step_conv t m' (FAt b)) = OVal v /\ snd (fm_step_conv t m' (FContains b)) = OBool true /\
  fm_lookup (fst (fm_step_conv t m' (FErase b))) (conv t a) = None.
Proof.
  intros ND H m'. subst m'. unfold fm_step_conv. cbn [fm_op_conv]. rewrite <- H.
  set (k := conv t a).
  assert (L : fm_lookup (fst (fm_step m (FSet k v))) k = Some v).
  { rewrite (fm_step_lookup m (FSet k v) k ND). cbn. rewrite N.eqb_refl. reflexivity. }
  cbn [fm_step snd fst] in *. rewrite L. repeat split.
  rewrite lookup_erase. rewrite N.eqb_refl. reflexivity.
Qed.


(* setParam with any argument form, then getParam: the type that matters is the STORED one (store_of) *)
Lemma po_find_after_set s n form v :
  exists p, po_find (fst (po_step s (PSet n form v))) n = Some p /\ p_data p = store_of form v.
Proof.
  cbn [po_step fst]. rewrite po_find_modify by reflexivity. rewrite N.eqb_refl, po_find_ensure.
  destruct (po_find s n) as [p|] eqn:E; cbn.
  - eexists. split; reflexivity.
  - rewrite N.eqb_refl. cbn. eexists. split; reflexivity.
Qed.

Lemma po_set_get_stored s n form v t w d :
  store_of form v = Some (t, w) ->
  let s' := fst (po_step s (PSet n form v)) in
  snd (po_step s' (PGet n t d)) = OVal w /\
  option_map p_query (po_find (fst (po_step s' (PGet n t d))) n) = Some true /\
  (forall t', t' <> t -> po_step s' (PGet n t' d) = (s', OVal d)).
Proof.
  intros H s'. destruct (po_find_after_set s n form v) as [p [Hf Hd]]. fold s' in Hf. rewrite H in Hd.
  destruct (po_get_match s' n t d p w Hf Hd) as [A B]. repeat split; auto.
  intros t' Hne. apply po_get_mismatch. intros p' Hp' t0 v0 Hd0. rewrite Hf in Hp'. injection Hp' as <-.
  rewrite Hd in Hd0. injection Hd0 as <- <-. congruence.
Qed.

Lemma po_set_empty_any s n v tag d :
  let s' := fst (po_step s (PSet n 10 v)) in po_step s' (PGet n tag d) = (s', OVal d).
Proof.
  intro s'. destruct (po_find_after_set s n 10 v) as [p [Hf Hd]]. fold s' in Hf. cbn in Hd.
  apply po_get_mismatch. intros p' Hp' t0 v0 Hd0. rewrite Hf in Hp'. injection Hp' as <-. congruence.
Qed.

(* an overwrite stores exactly the value written - its identity, not a value merely == to it - whatever was
   stored before (in particular when the old value is ==-equal to the new one and differs from it) *)
Lemma po_set_exact s n form v :
  option_map p_data (po_find (fst (po_step s (PSet n form v))) n) = Some (store_of form v).
Proof. destruct (po_find_after_set s n form v) as [p [Hf Hd]]. rewrite Hf. cbn. rewrite Hd. reflexivity. Qed.

Lemma po_set_exact_over_equal s n form old v t :
  val_eq old v = true -> old <> v -> store_of form v = Some (t, v) ->
  let s1 := fst (po_step s (PSet n form old)) in
  option_map p_data (po_find (fst (po_step s1 (PSet n form v))) n) = Some (Some (t, v)) /\
  option_map p_data (po_find (fst (po_step s1 (PSet n form v))) n) <> option_map p_data (po_find s1 n).
Proof.
  intros _ Hne Hs s1. rewrite po_set_exact, Hs. split; [reflexivity|].
  unfold s1. rewrite po_set_exact. intro E. injection E as E.
  destruct form as [|q]; cbn in Hs, E; [congruence|].
  repeat (destruct q as [q|q|]; cbn in Hs, E; try congruence).
Qed.

Lemma fm_set_exact m k v : fm_inv m -> fm_lookup (fst (fm_step m (FSet k v))) k = Some v.
Proof. intro ND. rewrite (fm_step_lookup m (FSet k v) k ND). cbn. rewrite N.eqb_refl. reflexivity. Qed.

Lemma fm_set_then_read m k v :
  fm_inv m ->
  let m' := fst (fm_step m (FSet k v)) in
  snd (fm_step m' (FAt k)) = OVal v /\ snd (fm_step m' (FIndex k)) = OVal v /\ snd (fm_step m' (FAtC k)) = OVal v.
Proof.
  intros ND m'. pose proof (fm_set_exact m k v ND) as L. fold m' in L. cbn [fm_step snd]. rewrite L. auto.
Qed.

(* ---- two objects after a copy *)
Lemma h_upd_nth h : forall i f p, nth_error h i = Some p -> nth_error (h_upd h i f) i = Some (f p).
Proof. induction h as [|x r IH]; intros [|i] f p H; cbn in *; try discriminate; [congruence|auto]. Qed.

Lemma find_ix_some h l n i : find_ix h l n = Some i -> exists p, nth_error h i = Some p /\ p_name p = n.
Proof.
  induction l as [|j r IH]; cbn; [discriminate|].
  destruct (nth_error h j) as [p|] eqn:E; [|exact IH].
  destruct (N.eqb_spec (p_name p) n) as [En|En]; [|exact IH].
  intro H. injection H as <-. eauto.
Qed.

(* a copy SHARES the parameters it was made from: setParam through one object on a name that existed at the
   time of the copy is seen through the other (same Param object, found at the same place of its own list) *)
Lemma obj_set_existing h l n form v i :
  find_ix h l n = Some i ->
  let '(h', l', _) := obj_step h l (PSet n form v) in
  l' = l /\ option_map p_data (nth_error h' i) = Some (store_of form v).
Proof.
  intro H. cbn [obj_step]. rewrite H. split; [reflexivity|].
  destruct (find_ix_some h l n i H) as [p [Hp _]]. rewrite (h_upd_nth h i _ p Hp). reflexivity.
Qed.

Lemma po2_copy_shares s n form v i :
  find_ix (p2_h s) (p2_a s) n = Some i ->
  let s1 := fst (po2_step s QCopyAB) in
  let s2 := fst (po2_step s1 (QB (PSet n form v))) in
  p2_a s2 = p2_a s /\ option_map p_data (nth_error (p2_h s2) i) = Some (store_of form v).
Proof.
  intros H s1 s2. subst s1 s2. cbn [po2_step fst p2_h p2_a p2_b].
  pose proof (obj_set_existing (p2_h s) (p2_a s) n form v i H) as L.
  destruct (obj_step (p2_h s) (p2_a s) (PSet n form v)) as [[h' l'] out]. cbn. destruct L as [_ L]. auto.
Qed.

(* ... but its list of parameters is its own: nothing done through b adds, removes or reorders a's parameters *)
Lemma po2_lists_independent s o : p2_a (fst (po2_step s (QB o))) = p2_a s /\ p2_b (fst (po2_step s (QA o))) = p2_b s.
Proof.
  cbn [po2_step]. destruct (obj_step (p2_h s) (p2_b s) o) as [[h l] out]. destruct (obj_step (p2_h s) (p2_a s) o) as [[h2 l2] out2].
  split; reflexivity.
Qed.
