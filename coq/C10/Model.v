(* C10 — executable model of rkcommon::containers::FlatMap and
   rkcommon::utility::ParameterizedObject (hand-written, Tie B).
   Keys, values, names and type tags are N codes; the harness maps them to
   int / std::string / std::vector<int> keys and values.  Value 0 stands for
   the value-initialised VALUE() that operator[] inserts. *)
From Common Require Import Prelude.
Local Open Scope N_scope.

(* Values are codes with an IDENTITY (the code itself: the bit pattern / all fields) and an equality class
   under the value type's operator== (val_class).  Distinct codes may be ==-equal: +0.0f / -0.0f, the
   {key, shadow} struct with key-only == (codes v and v + 50), and a NaN is not even == to itself.  The
   containers store and return IDENTITIES; no member of FlatMap / ParameterizedObject consults == on values.
   val_class is the harness's encoding of the struct domain (key = v mod 50, shadow = v / 50). *)
Definition val_class (v : N) : N := v mod 50.
Definition val_eq (a b : N) : bool := N.eqb (val_class a) (val_class b).

(* ---------------------------------------------------------------- FlatMap *)
Definition fm := list (N * N).          (* std::vector<std::pair<KEY,VALUE>> *)

Inductive fm_op :=
| FAt (k : N)             (* m.at(k)                    *)
| FIndex (k : N)          (* m[k]  (read of the reference returned) *)
| FSet (k v : N)          (* m[k] = v                   *)
| FAtIndex (i : N)        (* m.at_index(i)              *)
| FSize | FEmpty
| FContains (k : N)
| FErase (k : N)
| FClear
| FAtC (k : N)            (* cm.at(k)        through a const FlatMap & of the same map *)
| FAtIndexC (i : N)       (* cm.at_index(i)  through a const FlatMap &                 *)
| FCopy.                  (* FlatMap c(m); <mutate m>; FlatMap c2(std::move(c)); m = c2;  - the implicit copy
                             constructor / assignment copy the vector (value semantics), there is no move *)

Inductive fm_out :=
| OVal (v : N) | OThrow | OItem (k v : N) | ONum (n : N) | OBool (b : bool) | OUnit.

(* std::find_if from the front *)
Fixpoint fm_lookup (m : fm) (k : N) : option N :=
  match m with
  | [] => None
  | (k', v) :: m' => if N.eqb k' k then Some v else fm_lookup m' k
  end.

(* assignment through the reference returned by lookup: first match only *)
Fixpoint fm_update (m : fm) (k v : N) : fm :=
  match m with
  | [] => []
  | (k', v') :: m' => if N.eqb k' k then (k', v) :: m' else (k', v') :: fm_update m' k v
  end.

(* stable_partition(first != key) + resize *)
Definition fm_erase (m : fm) (k : N) : fm :=
  filter (fun kv => negb (N.eqb (fst kv) k)) m.

Definition fm_step (m : fm) (o : fm_op) : fm * fm_out :=
  match o with
  | FAt k => (m, match fm_lookup m k with Some v => OVal v | None => OThrow end)
  | FIndex k => match fm_lookup m k with
                | Some v => (m, OVal v)
                | None => (m ++ [(k, 0)], OVal 0)
                end
  | FSet k v => match fm_lookup m k with
                | Some _ => (fm_update m k v, OUnit)
                | None => (m ++ [(k, v)], OUnit)
                end
  | FAtIndex i => (m, match nth_error m (N.to_nat i) with
                      | Some (k, v) => OItem k v
                      | None => OThrow end)
  | FSize => (m, ONum (N.of_nat (length m)))
  | FEmpty => (m, OBool (match m with [] => true | _ => false end))
  | FContains k => (m, OBool (match fm_lookup m k with Some _ => true | None => false end))
  | FErase k => (fm_erase m k, OUnit)
  | FClear => ([], OUnit)
  | FAtC k => (m, match fm_lookup m k with Some v => OVal v | None => OThrow end)
  | FAtIndexC i => (m, match nth_error m (N.to_nat i) with
                       | Some (k, v) => OItem k v
                       | None => OThrow end)
  | FCopy => (m, OUnit)
  end.

(* the operations that go through a const member function (size, empty, contains have only a
   const version; at / at_index have a const overload; operator[] const cannot be instantiated) *)
Definition fm_is_const (o : fm_op) : bool :=
  match o with
  | FAtC _ | FAtIndexC _ | FSize | FEmpty | FContains _ => true
  | _ => false
  end.

(* Call sites may pass an argument of another type than KEY (a double to a FlatMap<float,_>, an int
   outside the range of a short / unsigned char key, a const char* to a std::string key): every keyed
   member takes `const KEY &`, so the argument is converted to KEY at the call, before the member runs.
   The conversion is data (argument code -> code of the converted key; identity when not listed): the
   harness computes it with the real static_cast at start-up, no float arithmetic here. *)
Definition conv_tbl := list (N * N).
Definition conv (t : conv_tbl) (a : N) : N :=
  match fm_lookup t a with Some k => k | None => a end.

Definition fm_op_conv (t : conv_tbl) (o : fm_op) : fm_op :=
  match o with
  | FAt a => FAt (conv t a)
  | FIndex a => FIndex (conv t a)
  | FSet a v => FSet (conv t a) v
  | FContains a => FContains (conv t a)
  | FErase a => FErase (conv t a)
  | FAtC a => FAtC (conv t a)
  | FAtIndex _ | FAtIndexC _ | FSize | FEmpty | FClear | FCopy => o
  end.

Definition fm_step_conv (t : conv_tbl) (m : fm) (o : fm_op) : fm * fm_out := fm_step m (fm_op_conv t o).

Definition fm_run (ops : list fm_op) : fm * list (fm_out * fm) :=
  fold_left (fun '(m, acc) o => let '(m', out) := fm_step m o in (m', acc ++ [(out, m')]))
            ops ([], []).

(* ---------------------------------------------------- ParameterizedObject *)
(* A Param: name, data (an Any: None = empty, Some (type tag, value)), query *)
Record param := { p_name : N; p_data : option (N * N); p_query : bool }.
Definition po := list param.            (* std::vector<std::shared_ptr<Param>> *)

Inductive po_op :=
| PHas (n : N)                    (* hasParam(n)                      *)
| PSet (n form v : N)             (* setParam(n, <argument of form `form` carrying v>), see store_of *)
| PGet (n tag dflt : N)           (* getParam<T_tag>(n, dflt)         *)
| PRemove (n : N)                 (* removeParam(n)                   *)
| PReset                          (* resetAllParamQueryStatus()       *)
| PFindAdd (n : N).               (* findParam(n, true) (protected)   *)

(* What `data = v` (Param::set) leaves in the Any, as a function of the FORM of setParam's argument -
   a fixed table of C++/Any semantics, not measured: Any's by-value template assignment stores the DECAYED
   type, its copy assignment stores the payload of the Any it is given (nothing for an empty one), and
   nothing is promoted.  Stored-type tags (the T of getParam<T>): 0 int, 1 float, 2 std::string, 3 vec3f,
   4 const char*, 5 short, 6 an enum, 7 the {key, shadow} struct. *)
Definition store_of (form v : N) : option (N * N) :=
  match form with
  | 4 => Some (4, v)        (* string literal, static type const char[N] (several N)  -> const char*  *)
  | 5 => Some (4, v)        (* char array variable, static type char[N]               -> const char*  *)
  | 6 => Some (4, v)        (* const char* variable                                   -> const char*  *)
  | 7 => Some (0, v)        (* utility::Any holding an int                            -> int          *)
  | 8 => Some (1, v)        (* utility::Any holding a float                           -> float        *)
  | 9 => Some (2, v)        (* utility::Any holding a std::string                     -> std::string  *)
  | 10 => None              (* empty utility::Any                                     -> data emptied *)
  | 11 => Some (5, v)       (* short: stays short (no promotion to int)                               *)
  | 12 => Some (6, v)       (* enum: stays that enum                                                  *)
  | 13 => Some (7, v)       (* a {key, shadow} struct whose operator== looks at key only: stored as itself *)
  | _ => Some (form, v)     (* 0 int, 1 float, 2 std::string, 3 vec3f: stored as themselves           *)
  end.

Fixpoint po_find (s : po) (n : N) : option param :=
  match s with
  | [] => None
  | p :: s' => if N.eqb (p_name p) n then Some p else po_find s' n
  end.

(* apply f to the first param named n *)
Fixpoint po_modify (s : po) (n : N) (f : param -> param) : po :=
  match s with
  | [] => []
  | p :: s' => if N.eqb (p_name p) n then f p :: s' else p :: po_modify s' n f
  end.

(* vector::erase of the first match *)
Fixpoint po_remove (s : po) (n : N) : po :=
  match s with
  | [] => []
  | p :: s' => if N.eqb (p_name p) n then s' else p :: po_remove s' n
  end.

Definition po_ensure (s : po) (n : N) : po :=
  match po_find s n with
  | Some _ => s
  | None => s ++ [{| p_name := n; p_data := None; p_query := false |}]
  end.

Definition po_step (s : po) (o : po_op) : po * fm_out :=
  match o with
  | PHas n => (s, OBool (match po_find s n with Some _ => true | None => false end))
  | PSet n form v =>
      (po_modify (po_ensure s n) n
                 (fun p => {| p_name := p_name p; p_data := store_of form v; p_query := p_query p |}),
       OUnit)
  | PGet n tag dflt =>
      match po_find s n with
      | None => (s, OVal dflt)
      | Some p =>
          match p_data p with
          | Some (t, v) =>
              if N.eqb t tag
              then (po_modify s n (fun p => {| p_name := p_name p; p_data := p_data p; p_query := true |}),
                    OVal v)
              else (s, OVal dflt)
          | None => (s, OVal dflt)
          end
      end
  | PRemove n => (po_remove s n, OUnit)
  | PReset => (map (fun p => {| p_name := p_name p; p_data := p_data p; p_query := false |}) s, OUnit)
  | PFindAdd n => (po_ensure s n, OUnit)
  end.

Definition po_run (ops : list po_op) : po * list (fm_out * po) :=
  fold_left (fun '(s, acc) o => let '(s', out) := po_step s o in (s', acc ++ [(out, s')]))
            ops ([], []).

(* ------------------------------------------- two ParameterizedObjects after a copy *)
(* The implicit copy constructor / assignment of ParameterizedObject copies the vector of shared_ptr<Param>:
   the copy has its OWN list (keys, order) but SHARES the Param objects that existed at the time of the copy
   (the source says so: "Use std::shared_ptr because copy/move of a ParameterizedObject would end up copying
   parameters").  Heap of Params + one list of heap indices per object. *)
Definition heap := list param.

Fixpoint find_ix (h : heap) (l : list nat) (n : N) : option nat :=
  match l with
  | [] => None
  | i :: r => match nth_error h i with
              | Some p => if N.eqb (p_name p) n then Some i else find_ix h r n
              | None => find_ix h r n
              end
  end.

Fixpoint h_upd (h : heap) (i : nat) (f : param -> param) : heap :=
  match h, i with
  | [], _ => []
  | p :: r, O => f p :: r
  | p :: r, S j => p :: h_upd r j f
  end.

Fixpoint remove_ix (l : list nat) (i : nat) : list nat :=
  match l with
  | [] => []
  | j :: r => if Nat.eqb j i then r else j :: remove_ix r i
  end.

Definition obj_step (h : heap) (l : list nat) (o : po_op) : heap * list nat * fm_out :=
  match o with
  | PHas n => (h, l, OBool (match find_ix h l n with Some _ => true | None => false end))
  | PSet n form v =>
      match find_ix h l n with
      | Some i => (h_upd h i (fun p => {| p_name := p_name p; p_data := store_of form v; p_query := p_query p |}), l, OUnit)
      | None => (h ++ [{| p_name := n; p_data := store_of form v; p_query := false |}], l ++ [length h], OUnit)
      end
  | PGet n tag dflt =>
      match find_ix h l n with
      | None => (h, l, OVal dflt)
      | Some i =>
          match nth_error h i with
          | Some p =>
              match p_data p with
              | Some (t, v) =>
                  if N.eqb t tag
                  then (h_upd h i (fun p => {| p_name := p_name p; p_data := p_data p; p_query := true |}), l, OVal v)
                  else (h, l, OVal dflt)
              | None => (h, l, OVal dflt)
              end
          | None => (h, l, OVal dflt)
          end
      end
  | PRemove n => (h, match find_ix h l n with Some i => remove_ix l i | None => l end, OUnit)
  | PReset =>
      (fold_left (fun h' i => h_upd h' i (fun p => {| p_name := p_name p; p_data := p_data p; p_query := false |})) l h, l, OUnit)
  | PFindAdd n =>
      match find_ix h l n with
      | Some _ => (h, l, OUnit)
      | None => (h ++ [{| p_name := n; p_data := None; p_query := false |}], l ++ [length h], OUnit)
      end
  end.

Record po2 := mkPo2 { p2_h : heap; p2_a : list nat; p2_b : list nat }.

Inductive po2_op :=
| QA (o : po_op)          (* an operation on object a                   *)
| QB (o : po_op)          (* an operation on object b                   *)
| QCopyAB                 (* b = a  (copy assignment / construction)    *)
| QCopyBA.                (* a = b                                      *)

Definition po2_step (s : po2) (q : po2_op) : po2 * fm_out :=
  match q with
  | QA o => let '(h, l, out) := obj_step (p2_h s) (p2_a s) o in (mkPo2 h l (p2_b s), out)
  | QB o => let '(h, l, out) := obj_step (p2_h s) (p2_b s) o in (mkPo2 h (p2_a s) l, out)
  | QCopyAB => (mkPo2 (p2_h s) (p2_a s) (p2_a s), OUnit)
  | QCopyBA => (mkPo2 (p2_h s) (p2_b s) (p2_b s), OUnit)
  end.

(* what an object's list of parameters looks like (the dump) *)
Definition p2_view (h : heap) (l : list nat) : po :=
  flat_map (fun i => match nth_error h i with Some p => [p] | None => [] end) l.
