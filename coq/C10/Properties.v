(* C10 — property theorems only.  Each is closed by [exact] of a lemma from
   Proofs.v and followed by Print Assumptions. *)
From Common Require Import Prelude.
From C10 Require Import Model Proofs.
Local Open Scope N_scope.

(* every reachable FlatMap state stores each key once *)
Theorem fm_nodup : forall ops, NoDup (map fst (fst (fm_run ops))).
Proof. exact fm_run_inv. Qed.
Print Assumptions fm_nodup.

(* each operation returns what the insertion-ordered unique-key map returns and
   commutes with the abstraction (key order + lookup function) *)
Theorem fm_refines : forall m o,
  NoDup (map fst m) ->
  snd (fm_step m o) = snd (s_step (abs m) o) /\
  s_equiv (abs (fst (fm_step m o))) (fst (s_step (abs m) o)).
Proof. exact fm_refines_step. Qed.
Print Assumptions fm_refines.

(* the abstraction of a reachable state is a well-formed ordered map:
   the key order has no duplicates and lists exactly the keys with a value *)
Theorem fm_abs_wf : forall ops, s_wf (abs (fst (fm_run ops))).
Proof. intro ops. apply abs_wf. exact (fm_run_inv ops). Qed.
Print Assumptions fm_abs_wf.

(* iteration / at_index order = first-insertion order of the abstract map *)
Theorem fm_iteration_order : forall ops,
  let m := fst (fm_run ops) in
  map Some m = map (fun k => option_map (fun v => (k, v)) (fm_lookup m k)) (map fst m).
Proof. intro ops. apply fm_iteration. exact (fm_run_inv ops). Qed.
Print Assumptions fm_iteration_order.

(* history reading: after any history the value found for k is the last value
   written and not since removed (h_val folds the history for key k) *)
Theorem fm_last_write : forall ops k,
  fm_lookup (fst (fm_run ops)) k = h_val ops k None.
Proof.
  intros ops k. rewrite fm_run_exec. unfold fm_exec.
  rewrite fm_history_from by constructor. reflexivity.
Qed.
Print Assumptions fm_last_write.

(* every operation that goes through a const member function (size, empty, contains, and the const
   overloads of at / at_index reached through a const FlatMap &) leaves the map unchanged, for all
   maps and keys - in particular at() of an absent key throws and does NOT make the key present *)
Theorem const_ops_do_not_modify : forall m o, fm_is_const o = true -> fst (fm_step m o) = m.
Proof. exact fm_const_unchanged. Qed.
Print Assumptions const_ops_do_not_modify.

Theorem const_overloads_same_answer : forall m k i,
  fm_step m (FAtC k) = fm_step m (FAt k) /\ fm_step m (FAtIndexC i) = fm_step m (FAtIndex i).
Proof. exact fm_const_same_answer. Qed.
Print Assumptions const_overloads_same_answer.

(* call sites passing an argument of another type than KEY (double for a float key, out-of-range or negative int
   for a short / unsigned char key, const char* for std::string): the argument is converted to KEY at the call, so
   two arguments with the same converted key ARE the same key for every keyed member ... *)
Theorem converted_args_same_key : forall t m a b v,
  conv t a = conv t b ->
  fm_step_conv t m (FAt a) = fm_step_conv t m (FAt b) /\
  fm_step_conv t m (FIndex a) = fm_step_conv t m (FIndex b) /\
  fm_step_conv t m (FSet a v) = fm_step_conv t m (FSet b v) /\
  fm_step_conv t m (FContains a) = fm_step_conv t m (FContains b) /\
  fm_step_conv t m (FErase a) = fm_step_conv t m (FErase b) /\
  fm_step_conv t m (FAtC a) = fm_step_conv t m (FAtC b).
Proof. exact fm_conv_same_key. Qed.
Print Assumptions converted_args_same_key.

(* ... the converted key is stored once whatever mixture of argument spellings the history uses ... *)
Theorem converted_keys_stored_once : forall t ops, NoDup (map fst (fst (fm_run (map (fm_op_conv t) ops)))).
Proof. exact fm_conv_run_nodup. Qed.
Print Assumptions converted_keys_stored_once.

(* ... and what was written through one spelling is found, contained and erased through any other *)
Theorem converted_set_then_find : forall t m a b v,
  NoDup (map fst m) -> conv t a = conv t b ->
  let m' := fst (fm_step_conv t m (FSet a v)) in
  snd (fm_step_conv t m' (FAt b)) = OVal v /\ snd (fm_step_conv t m' (FContains b)) = OBool true /\
  fm_lookup (fst (fm_step_conv t m' (FErase b))) (conv t a) = None.
Proof. exact fm_conv_set_then_find. Qed.
Print Assumptions converted_set_then_find.

Example converted_example :
  fold_left (fun m o => fst (fm_step_conv [(3, 1); (4, 2)] m o)) [FSet 1 10; FSet 3 11; FSet 4 7; FErase 2] []
  = [(1, 11)].
Proof. vm_compute. reflexivity. Qed.

(* the implicit copy of a FlatMap (no move exists: std::move copies) is a value copy: the model's FCopy - copy,
   mutate the original, move-construct from the copy, assign back - leaves contents and order as they were *)
Theorem fm_copy_is_value_copy : forall m, fm_step m FCopy = (m, OUnit).
Proof. reflexivity. Qed.
Print Assumptions fm_copy_is_value_copy.

(* ParameterizedObject: names unique in every reachable state *)
Theorem po_nodup : forall ops, NoDup (map p_name (fst (po_run ops))).
Proof. exact po_run_inv. Qed.
Print Assumptions po_nodup.

Theorem po_refines : forall s o,
  NoDup (map p_name s) ->
  snd (po_step s o) = snd (ps_step (pabs s) o) /\
  s_equiv (pabs (fst (po_step s o))) (fst (ps_step (pabs s) o)).
Proof. exact po_refines_step. Qed.
Print Assumptions po_refines.

(* reading with a type other than the stored one: caller's default, state (and so
   the query flag) unchanged *)
Theorem po_type_mismatch : forall s n tag dflt,
  (forall p, po_find s n = Some p -> forall t v, p_data p = Some (t, v) -> t <> tag) ->
  po_step s (PGet n tag dflt) = (s, OVal dflt).
Proof. exact po_get_mismatch. Qed.
Print Assumptions po_type_mismatch.

(* setParam with ANY argument form (value, string literal, char array, const char*, an Any carrying a value, short,
   enum): what counts for the later read is the type the Any actually STORES (Model.store_of: arrays decay to const
   char*, an Any argument contributes its payload type, nothing is promoted) - reading with that type returns the
   value and marks the parameter queried, reading with any other type (the STATIC type of the argument included,
   when it differs) yields the default and changes nothing *)
Theorem po_set_then_get_stored_type : forall s n form v t w d,
  store_of form v = Some (t, w) ->
  let s' := fst (po_step s (PSet n form v)) in
  snd (po_step s' (PGet n t d)) = OVal w /\
  option_map p_query (po_find (fst (po_step s' (PGet n t d))) n) = Some true /\
  (forall t', t' <> t -> po_step s' (PGet n t' d) = (s', OVal d)).
Proof. exact po_set_get_stored. Qed.
Print Assumptions po_set_then_get_stored_type.

(* "lookups return the last value WRITTEN", not a value equal to it: after setParam(n, v) the parameter holds exactly
   v's identity (bit pattern / every field), whatever was stored before ... *)
Theorem po_set_overwrites_exactly : forall s n form v,
  option_map p_data (po_find (fst (po_step s (PSet n form v))) n) = Some (store_of form v).
Proof. exact po_set_exact. Qed.
Print Assumptions po_set_overwrites_exactly.

(* ... in particular when the stored value is ==-equal to the new one but distinguishable from it (+0.0f / -0.0f,
   a struct whose operator== ignores a field): the overwrite is not dropped *)
Theorem po_set_overwrites_equal_value : forall s n form old v t,
  val_eq old v = true -> old <> v -> store_of form v = Some (t, v) ->
  let s1 := fst (po_step s (PSet n form old)) in
  option_map p_data (po_find (fst (po_step s1 (PSet n form v))) n) = Some (Some (t, v)) /\
  option_map p_data (po_find (fst (po_step s1 (PSet n form v))) n) <> option_map p_data (po_find s1 n).
Proof. exact po_set_exact_over_equal. Qed.
Print Assumptions po_set_overwrites_equal_value.

(* the same for FlatMap: m[k] = v stores exactly v, and at / operator[] / at const return exactly v *)
Theorem fm_set_overwrites_exactly : forall m k v,
  NoDup (map fst m) ->
  let m' := fst (fm_step m (FSet k v)) in
  fm_lookup m' k = Some v /\
  snd (fm_step m' (FAt k)) = OVal v /\ snd (fm_step m' (FIndex k)) = OVal v /\ snd (fm_step m' (FAtC k)) = OVal v.
Proof. intros m k v ND m'. split; [exact (fm_set_exact m k v ND) | exact (fm_set_then_read m k v ND)]. Qed.
Print Assumptions fm_set_overwrites_exactly.

Example overwrite_equal_example :
  val_eq 7 57 = true /\
  map (fun '(o, _) => o) (snd (po_run [PSet 1 13 7; PSet 1 13 57; PGet 1 7 99])) = [OUnit; OUnit; OVal 57] /\
  fst (fm_run [FSet 1 7; FSet 1 57]) = [(1, 57)].
Proof. vm_compute. auto. Qed.

(* an empty Any passed to setParam empties the parameter: every typed read gives the default *)
Theorem po_set_empty_any_reads_default : forall s n v tag d,
  let s' := fst (po_step s (PSet n 10 v)) in po_step s' (PGet n tag d) = (s', OVal d).
Proof. exact po_set_empty_any. Qed.
Print Assumptions po_set_empty_any_reads_default.

Example po_forms_example :
  map (fun '(o, _) => o)
      (snd (po_run [PSet 1 4 7; PGet 1 4 99; PSet 1 7 5; PGet 1 4 98; PGet 1 0 97; PSet 1 11 3; PGet 1 0 96; PGet 1 5 95]))
  = [OUnit; OVal 7; OUnit; OVal 98; OVal 5; OUnit; OVal 96; OVal 3].
Proof. vm_compute. reflexivity. Qed.

(* a successful read returns the stored value and marks the parameter queried *)
Theorem po_query_set : forall s n tag dflt p v,
  po_find s n = Some p -> p_data p = Some (tag, v) ->
  snd (po_step s (PGet n tag dflt)) = OVal v /\
  option_map p_query (po_find (fst (po_step s (PGet n tag dflt))) n) = Some true.
Proof. exact po_get_match. Qed.
Print Assumptions po_query_set.

(* ... and it stays queried until reset (or removal of that parameter) *)
Theorem po_query_until_reset : forall s o n,
  NoDup (map p_name s) ->
  option_map p_query (po_find s n) = Some true ->
  match o with PReset => False | PRemove n' => n' <> n | _ => True end ->
  option_map p_query (po_find (fst (po_step s o)) n) = Some true.
Proof. exact po_query_sticky. Qed.
Print Assumptions po_query_until_reset.

(* non-vacuity: a concrete history exercising collision, re-insertion after
   removal and removal of the first element *)
Example fm_example :
  fst (fm_run [FSet 1 10; FSet 2 20; FIndex 3; FSet 1 11; FErase 1; FSet 1 12; FAt 7])
  = [(2, 20); (3, 0); (1, 12)].
Proof. vm_compute. reflexivity. Qed.

Example po_example :
  map (fun '(o, _) => o)
      (snd (po_run [PSet 1 0 5; PGet 1 1 99; PGet 1 0 99; PSet 1 1 6; PReset; PGet 1 1 99]))
  = [OUnit; OVal 99; OVal 5; OUnit; OUnit; OVal 6].
Proof. vm_compute. reflexivity. Qed.

(* Copies of a ParameterizedObject (implicit copy constructor / assignment; there is no move): the copy SHARES every
   Param that existed when it was made - a setParam through the copy on such a name is seen through the original
   (value and type; likewise the query flag set by getParam) ... *)
Theorem po_copy_shares_params : forall s n form v i,
  find_ix (p2_h s) (p2_a s) n = Some i ->
  let s1 := fst (po2_step s QCopyAB) in
  let s2 := fst (po2_step s1 (QB (PSet n form v))) in
  p2_a s2 = p2_a s /\ option_map p_data (nth_error (p2_h s2) i) = Some (store_of form v).
Proof. exact po2_copy_shares. Qed.
Print Assumptions po_copy_shares_params.

(* ... while the LIST (which names, in which order) is per object: nothing done through one object adds, removes
   or reorders the other's parameters *)
Theorem po_copy_lists_independent : forall s o,
  p2_a (fst (po2_step s (QB o))) = p2_a s /\ p2_b (fst (po2_step s (QA o))) = p2_b s.
Proof. exact po2_lists_independent. Qed.
Print Assumptions po_copy_lists_independent.

Example po_copy_example :
  let run := fold_left (fun s q => fst (po2_step s q)) in
  let s := run [QA (PSet 1 0 5); QCopyAB; QB (PSet 1 0 6); QB (PSet 2 0 7); QB (PRemove 1)] (mkPo2 [] [] []) in
  map (fun p => (p_name p, p_data p)) (p2_view (p2_h s) (p2_a s)) = [(1, Some (0, 6))] /\
  map (fun p => (p_name p, p_data p)) (p2_view (p2_h s) (p2_b s)) = [(2, Some (0, 7))].
Proof. vm_compute. auto. Qed.
