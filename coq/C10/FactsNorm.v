(* C10 — the Coq-side normaliser of FactsDefs.v (negations pushed into the comparisons,
   `key == item.first` written `item.first == key`) preserves the meaning of every table:
   calling any member of the normalised table gives what the original table gives. *)
From Common Require Import Prelude.
From C10 Require Import Model FactsDefs FactsProofs.
Local Open Scope N_scope.

Definition pneg (f : option (N -> N -> bool)) : option (N -> N -> bool) :=
  match f with Some f => Some (fun k e => negb (f k e)) | None => None end.
Definition pfun_equiv (f g : option (N -> N -> bool)) : Prop :=
  match f, g with
  | Some f, Some g => forall k e, f k e = g k e
  | None, None => True
  | _, _ => False
  end.

Lemma norm_pred_neg_ok p : forall neg, pfun_equiv (pfun (norm_pred_neg neg p)) (if neg then pneg (pfun p) else pfun p).
Proof.
  induction p as [a b|a b|q IH|]; intros neg.
  - destruct a, b, neg; cbn; auto; intros; try reflexivity; rewrite N.eqb_sym; reflexivity.
  - destruct a, b, neg; cbn; auto; intros; rewrite ?negb_involutive; try reflexivity; rewrite N.eqb_sym; reflexivity.
  - cbn [norm_pred_neg pfun]. specialize (IH (negb neg)).
    destruct neg; cbn [negb] in IH; destruct (pfun (norm_pred_neg _ q)), (pfun q); cbn in *; auto;
      intros; rewrite IH, ?negb_involutive; reflexivity.
  - destruct neg; cbn; auto.
Qed.

Lemma find_pos_ext {E} (q q' : E -> bool) l : (forall x, q x = q' x) -> find_pos q l = find_pos q' l.
Proof. intro H. induction l as [|x r IH]; cbn; [reflexivity|]. rewrite H, IH. reflexivity. Qed.

Lemma run_alg_ext {E} a (q q' : E -> bool) l : (forall x, q x = q' x) -> run_alg a q l = run_alg a q' l.
Proof.
  intro H. destruct a; cbn; try reflexivity.
  - rewrite (find_pos_ext q q') by exact H. reflexivity.
  - rewrite (filter_ext q q') by exact H.
    rewrite (filter_ext (fun x => negb (q x)) (fun x => negb (q' x))) by (intro x; rewrite H; reflexivity).
    reflexivity.
Qed.

(* ------------------------------------------------------------------ FlatMap *)
Lemma feval_norm cal c e : feval cal c (norm_fiter e) = feval cal c e.
Proof.
  destruct e; try reflexivity. cbn [norm_fiter feval]. unfold norm_pred.
  pose proof (norm_pred_neg_ok p false) as H. cbn in H.
  destruct (pfun (norm_pred_neg false p)) as [f|], (pfun p) as [g|]; cbn in H; try contradiction; [|reflexivity].
  rewrite (run_alg_ext a _ (fun kv : N * N => g (fc_key c) (fst kv))); [reflexivity|]. intro x. apply H.
Qed.

Lemma fcmp_norm cal c a b : fcmp cal c (norm_fiter a) (norm_fiter b) = fcmp cal c a b.
Proof. unfold fcmp. rewrite feval_norm. destruct (feval cal c a) as [[c1 va]|]; [|reflexivity]. rewrite feval_norm. reflexivity. Qed.

Lemma fcond_norm cal k : forall c neg,
  fcond_eval cal c (norm_fcond_neg neg k) =
  match fcond_eval cal c k with Some (c', r) => Some (c', if neg then negb r else r) | None => None end.
Proof.
  induction k as [a b|a b|k IH|]; intros c neg; cbn [norm_fcond_neg].
  - destruct neg; cbn [fcond_eval]; rewrite fcmp_norm; destruct (fcmp cal c a b) as [[c' r]|]; reflexivity.
  - destruct neg; cbn [fcond_eval]; rewrite fcmp_norm; destruct (fcmp cal c a b) as [[c' r]|]; rewrite ?negb_involutive; reflexivity.
  - rewrite IH. cbn [fcond_eval]. destruct (fcond_eval cal c k) as [[c' r]|]; [|reflexivity].
    destruct neg; cbn; rewrite ?negb_involutive; reflexivity.
  - destruct neg; reflexivity.
Qed.

Lemma fsimple_norm cal c s : fsimple_exec cal c (norm_fsimple s) = fsimple_exec cal c s.
Proof.
  destruct s; cbn [norm_fsimple fsimple_exec]; rewrite ?feval_norm; try reflexivity.
  - unfold norm_fcond. rewrite fcond_norm. destruct (fcond_eval cal c c0) as [[c' r]|]; reflexivity.
  - destruct (feval cal c a) as [[c1 [i|j]]|]; try reflexivity. rewrite feval_norm. reflexivity.
Qed.

Lemma fsimples_norm cal l : forall c, fsimples cal c (map norm_fsimple l) = fsimples cal c l.
Proof.
  induction l as [|s r IH]; intro c; cbn; [reflexivity|]. destruct (fc_ret c); [reflexivity|].
  rewrite fsimple_norm. destruct (fsimple_exec cal c s); [apply IH|reflexivity].
Qed.

Lemma fstmt_norm cal c s : fstmt_exec cal c (norm_fstmt s) = fstmt_exec cal c s.
Proof.
  destruct s as [x|k body]; cbn [norm_fstmt fstmt_exec]; [apply fsimple_norm|].
  unfold norm_fcond. rewrite fcond_norm. destruct (fcond_eval cal c k) as [[c' [|]]|]; try reflexivity. apply fsimples_norm.
Qed.

Lemma fstmts_norm cal l : forall c, fstmts cal c (map norm_fstmt l) = fstmts cal c l.
Proof.
  induction l as [|s r IH]; intro c; cbn; [reflexivity|]. destruct (fc_ret c); [reflexivity|].
  rewrite fstmt_norm. destruct (fstmt_exec cal c s); [apply IH|reflexivity].
Qed.

Section FExt.
  Variables cal cal' : fcallee.
  Hypothesis H : forall m s k, cal m s k = cal' m s k.

  Lemma feval_ext c e : feval cal c e = feval cal' c e.
  Proof. destruct e; cbn; rewrite ?H; reflexivity. Qed.
  Lemma fcmp_ext c a b : fcmp cal c a b = fcmp cal' c a b.
  Proof. unfold fcmp. rewrite feval_ext. destruct (feval cal' c a) as [[c1 va]|]; [|reflexivity]. rewrite feval_ext. reflexivity. Qed.
  Lemma fcond_ext k : forall c, fcond_eval cal c k = fcond_eval cal' c k.
  Proof. induction k as [a b|a b|k IH|]; intro c; cbn; rewrite ?fcmp_ext, ?IH; reflexivity. Qed.
  Lemma fsimple_ext c s : fsimple_exec cal c s = fsimple_exec cal' c s.
  Proof.
    destruct s; cbn [fsimple_exec]; rewrite ?feval_ext, ?fcond_ext, ?H; try reflexivity.
    destruct (feval cal' c a) as [[c1 [i|j]]|]; try reflexivity. rewrite feval_ext. reflexivity.
  Qed.
  Lemma fsimples_ext l : forall c, fsimples cal c l = fsimples cal' c l.
  Proof.
    induction l as [|s r IH]; intro c; cbn; [reflexivity|]. destruct (fc_ret c); [reflexivity|].
    rewrite fsimple_ext. destruct (fsimple_exec cal' c s); [apply IH|reflexivity].
  Qed.
  Lemma fstmt_ext c s : fstmt_exec cal c s = fstmt_exec cal' c s.
  Proof.
    destruct s as [x|k body]; cbn [fstmt_exec]; [apply fsimple_ext|].
    rewrite fcond_ext. destruct (fcond_eval cal' c k) as [[c' [|]]|]; try reflexivity. apply fsimples_ext.
  Qed.
  Lemma fstmts_ext l : forall c, fstmts cal c l = fstmts cal' c l.
  Proof.
    induction l as [|s r IH]; intro c; cbn; [reflexivity|]. destruct (fc_ret c); [reflexivity|].
    rewrite fstmt_ext. destruct (fstmt_exec cal' c s); [apply IH|reflexivity].
  Qed.
End FExt.

Lemma fcal1_norm t m s k : fcal1 (norm_ftable t) m s k = fcal1 t m s k.
Proof. unfold fcal1, norm_ftable, fbody. rewrite fstmts_norm. reflexivity. Qed.

Lemma fcal2_norm t m s k : fcal2 (norm_ftable t) m s k = fcal2 t m s k.
Proof.
  unfold fcal2, fbody. unfold norm_ftable at 2. rewrite fstmts_norm.
  rewrite (fstmts_ext (fcal1 (norm_ftable t)) (fcal1 t)); [reflexivity|]. apply fcal1_norm.
Qed.

Theorem fcall_norm t m s k : fcall (norm_ftable t) m s k = fcall t m s k.
Proof.
  unfold fcall, fbody. unfold norm_ftable at 2. rewrite fstmts_norm.
  rewrite (fstmts_ext (fcal2 (norm_ftable t)) (fcal2 t)); [reflexivity|]. apply fcal2_norm.
Qed.

Theorem fexec_norm t m o : fexec (norm_ftable t) m o = fexec t m o.
Proof. unfold fexec. destruct o; rewrite ?fcall_norm; reflexivity. Qed.

Theorem frange_norm t b e m : frange (norm_ftable t) b e m = frange t b e m.
Proof. unfold frange. rewrite !fcall_norm. reflexivity. Qed.

Lemma fcall_tbl_ext t t' : (forall m, t m = t' m) -> forall m s k, fcall t m s k = fcall t' m s k.
Proof.
  intros H m s k. unfold fcall, fbody. rewrite H.
  rewrite (fstmts_ext (fcal2 t) (fcal2 t')); [reflexivity|].
  intros m0 s0 k0. unfold fcal2, fbody. rewrite H.
  rewrite (fstmts_ext (fcal1 t) (fcal1 t')); [reflexivity|].
  intros m1 s1 k1. unfold fcal1. rewrite H. reflexivity.
Qed.

(* a table that normalises to the expected one behaves, on every state and for every operation, as Model.fm_step *)
Theorem fexec_of_table t : (forall m, norm_ftable t m = fm_expected m) ->
  forall m o, fexec t m o = Some (fm_step m o).
Proof.
  intros H m o. rewrite <- fexec_norm, <- fexec_expected.
  unfold fexec. destruct o; rewrite ?(fcall_tbl_ext _ _ H); reflexivity.
Qed.

Theorem frange_of_table t : (forall m, norm_ftable t m = fm_expected m) ->
  forall b e m, frange t b e m = frange fm_expected b e m.
Proof. intros H b e m. rewrite <- frange_norm. unfold frange. rewrite !(fcall_tbl_ext _ _ H). reflexivity. Qed.

Theorem fcall_of_table t : (forall m, norm_ftable t m = fm_expected m) ->
  forall m s k, fcall t m s k = fcall fm_expected m s k.
Proof. intros H m s k. rewrite <- fcall_norm. apply fcall_tbl_ext. exact H. Qed.

(* ------------------------------------------------------------------ ParameterizedObject *)
Lemma pieval_norm cal c e : pieval cal c (norm_piter e) = pieval cal c e.
Proof.
  destruct e; try reflexivity. cbn [norm_piter pieval]. unfold norm_pred.
  pose proof (norm_pred_neg_ok p false) as H. cbn in H.
  destruct (pfun (norm_pred_neg false p)) as [f|], (pfun p) as [g|]; cbn in H; try contradiction; [|reflexivity].
  rewrite (run_alg_ext a _ (fun x : param => g (a_name (pc_a c)) (p_name x))); [reflexivity|]. intro x. apply H.
Qed.

Lemma ppeval_norm cal c p : ppeval cal c (norm_pptr p) = ppeval cal c p.
Proof. destruct p; try reflexivity. cbn [norm_pptr ppeval]. rewrite pieval_norm. reflexivity. Qed.

Lemma picmp_norm cal c a b : picmp cal c (norm_piter a) (norm_piter b) = picmp cal c a b.
Proof. unfold picmp. rewrite pieval_norm. destruct (pieval cal c a) as [[c1 i]|]; [|reflexivity]. rewrite pieval_norm. reflexivity. Qed.

Lemma pcond_norm cal k : forall c neg,
  pceval cal c (norm_pcond_neg neg k) =
  match pceval cal c k with Some (c', r) => Some (c', if neg then negb r else r) | None => None end.
Proof.
  induction k as [a b|a b|k IH|p|p| |p|]; intros c neg; cbn [norm_pcond_neg].
  - destruct neg; cbn [pceval]; rewrite picmp_norm; destruct (picmp cal c a b) as [[c' r]|]; reflexivity.
  - destruct neg; cbn [pceval]; rewrite picmp_norm; destruct (picmp cal c a b) as [[c' r]|]; rewrite ?negb_involutive; reflexivity.
  - rewrite IH. cbn [pceval]. destruct (pceval cal c k) as [[c' r]|]; [|reflexivity].
    destruct neg; cbn; rewrite ?negb_involutive; reflexivity.
  - destruct neg; cbn [pceval]; rewrite ppeval_norm; destruct (ppeval cal c p) as [[c' [i|]]|]; reflexivity.
  - destruct neg; cbn [pceval]; rewrite ppeval_norm; destruct (ppeval cal c p) as [[c' [i|]]|]; reflexivity.
  - destruct neg; reflexivity.
  - destruct neg; cbn [pceval]; rewrite ppeval_norm; destruct (ppeval cal c p) as [[c' [i|]]|]; try reflexivity;
      destruct (nth_error (pc_s c') i); reflexivity.
  - destruct neg; reflexivity.
Qed.

Lemma pval_norm cal v : forall c, pveval cal c (norm_pval v) = pveval cal c v.
Proof.
  induction v as [|p|k a IHa b IHb|]; intro c; cbn [norm_pval pveval]; try reflexivity.
  - rewrite ppeval_norm. reflexivity.
  - unfold norm_pcond. rewrite pcond_norm. destruct (pceval cal c k) as [[c' [|]]|]; auto.
Qed.

Lemma psimple_norm cal c s : psimple_exec cal c (norm_psimple s) = psimple_exec cal c s.
Proof.
  destruct s; cbn [norm_psimple psimple_exec]; rewrite ?pieval_norm, ?ppeval_norm, ?pval_norm; try reflexivity.
  unfold norm_pcond. rewrite pcond_norm. destruct (pceval cal c c0) as [[c' r]|]; reflexivity.
Qed.

Lemma psimples_norm cal l : forall c, psimples cal c (map norm_psimple l) = psimples cal c l.
Proof.
  induction l as [|s r IH]; intro c; cbn; [reflexivity|]. destruct (pc_ret c); [reflexivity|].
  rewrite psimple_norm. destruct (psimple_exec cal c s); [apply IH|reflexivity].
Qed.

Lemma ploop_norm cal body n : forall c i, ploop cal c (map norm_psimple body) i n = ploop cal c body i n.
Proof.
  induction n as [|n IH]; intros c i; cbn; [reflexivity|]. destruct (pc_ret c); [reflexivity|].
  rewrite psimples_norm. destruct (psimples cal (p_set_it c i) body); [apply IH|reflexivity].
Qed.

Lemma pstmt_norm cal c s : pstmt_exec cal c (norm_pstmt s) = pstmt_exec cal c s.
Proof.
  destruct s as [x|k body|a b body]; cbn [norm_pstmt pstmt_exec]; [apply psimple_norm| |].
  - unfold norm_pcond. rewrite pcond_norm. destruct (pceval cal c k) as [[c' [|]]|]; try reflexivity. apply psimples_norm.
  - rewrite pieval_norm. destruct (pieval cal c a) as [[c1 i]|]; [|reflexivity]. rewrite pieval_norm.
    destruct (pieval cal c1 b) as [[c2 j]|]; [|reflexivity]. destruct (Nat.leb i j); [apply ploop_norm|reflexivity].
Qed.

Lemma pstmts_norm cal l : forall c, pstmts cal c (map norm_pstmt l) = pstmts cal c l.
Proof.
  induction l as [|s r IH]; intro c; cbn; [reflexivity|]. destruct (pc_ret c); [reflexivity|].
  rewrite pstmt_norm. destruct (pstmt_exec cal c s); [apply IH|reflexivity].
Qed.

Section PExt.
  Variables cal cal' : pcallee.
  Hypothesis H : forall m s a, cal m s a = cal' m s a.

  Lemma pieval_ext c e : pieval cal c e = pieval cal' c e.
  Proof. destruct e; cbn; rewrite ?H; reflexivity. Qed.
  Lemma ppeval_ext c p : ppeval cal c p = ppeval cal' c p.
  Proof. destruct p; cbn; rewrite ?pieval_ext, ?H; reflexivity. Qed.
  Lemma picmp_ext c a b : picmp cal c a b = picmp cal' c a b.
  Proof. unfold picmp. rewrite pieval_ext. destruct (pieval cal' c a) as [[c1 i]|]; [|reflexivity]. rewrite pieval_ext. reflexivity. Qed.
  Lemma pcond_ext k : forall c, pceval cal c k = pceval cal' c k.
  Proof. induction k; intro c; cbn; rewrite ?picmp_ext, ?ppeval_ext, ?IHk; reflexivity. Qed.
  Lemma pval_ext v : forall c, pveval cal c v = pveval cal' c v.
  Proof.
    induction v as [|p|k a IHa b IHb|]; intro c; cbn; rewrite ?ppeval_ext, ?pcond_ext; try reflexivity.
    destruct (pceval cal' c k) as [[c' [|]]|]; auto.
  Qed.
  Lemma psimple_ext c s : psimple_exec cal c s = psimple_exec cal' c s.
  Proof.
    destruct s; cbn [psimple_exec]; rewrite ?pieval_ext, ?ppeval_ext, ?pval_ext, ?pcond_ext; try reflexivity.
    destruct (ppeval cal' c p) as [[c' [i|]]|]; try reflexivity. rewrite H. reflexivity.
  Qed.
  Lemma psimples_ext l : forall c, psimples cal c l = psimples cal' c l.
  Proof.
    induction l as [|s r IH]; intro c; cbn; [reflexivity|]. destruct (pc_ret c); [reflexivity|].
    rewrite psimple_ext. destruct (psimple_exec cal' c s); [apply IH|reflexivity].
  Qed.
  Lemma ploop_ext body n : forall c i, ploop cal c body i n = ploop cal' c body i n.
  Proof.
    induction n as [|n IH]; intros c i; cbn; [reflexivity|]. destruct (pc_ret c); [reflexivity|].
    rewrite psimples_ext. destruct (psimples cal' (p_set_it c i) body); [apply IH|reflexivity].
  Qed.
  Lemma pstmt_ext c s : pstmt_exec cal c s = pstmt_exec cal' c s.
  Proof.
    destruct s as [x|k body|a b body]; cbn [pstmt_exec]; [apply psimple_ext| |].
    - rewrite pcond_ext. destruct (pceval cal' c k) as [[c' [|]]|]; try reflexivity. apply psimples_ext.
    - rewrite pieval_ext. destruct (pieval cal' c a) as [[c1 i]|]; [|reflexivity]. rewrite pieval_ext.
      destruct (pieval cal' c1 b) as [[c2 j]|]; [|reflexivity]. destruct (Nat.leb i j); [apply ploop_ext|reflexivity].
  Qed.
  Lemma pstmts_ext l : forall c, pstmts cal c l = pstmts cal' c l.
  Proof.
    induction l as [|s r IH]; intro c; cbn; [reflexivity|]. destruct (pc_ret c); [reflexivity|].
    rewrite pstmt_ext. destruct (pstmt_exec cal' c s); [apply IH|reflexivity].
  Qed.
End PExt.

Theorem pcall_norm t m s a : pcall (norm_ptable t) m s a = pcall t m s a.
Proof.
  unfold pcall, norm_ptable, pbody. rewrite pstmts_norm.
  rewrite (pstmts_ext (pcal1 (fun m0 => map norm_pstmt (t m0))) (pcal1 t)); [reflexivity|].
  intros m0 s0 a0. unfold pcal1, pbody. rewrite pstmts_norm. reflexivity.
Qed.

Theorem pexec_norm t s o : pexec (norm_ptable t) s o = pexec t s o.
Proof. unfold pexec. destruct o; rewrite !pcall_norm; reflexivity. Qed.

Theorem prange_norm t s : prange (norm_ptable t) s = prange t s.
Proof. unfold prange. rewrite !pcall_norm. reflexivity. Qed.

Lemma pcall_tbl_ext t t' : (forall m, t m = t' m) -> forall m s a, pcall t m s a = pcall t' m s a.
Proof.
  intros H m s a. unfold pcall, pbody. rewrite H.
  rewrite (pstmts_ext (pcal1 t) (pcal1 t')); [reflexivity|].
  intros m0 s0 a0. unfold pcal1. rewrite H. reflexivity.
Qed.

Theorem pexec_of_table t : (forall m, norm_ptable t m = po_expected m) ->
  forall s o, pexec t s o = Some (po_step s o).
Proof.
  intros H s o. rewrite <- pexec_norm, <- pexec_expected.
  unfold pexec. destruct o; rewrite !(pcall_tbl_ext _ _ H); reflexivity.
Qed.

Theorem prange_of_table t : (forall m, norm_ptable t m = po_expected m) -> forall s, prange t s = Some s.
Proof. intros H s. rewrite <- prange_norm, <- prange_expected. unfold prange. rewrite !(pcall_tbl_ext _ _ H). reflexivity. Qed.
