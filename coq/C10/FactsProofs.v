(* C10 — proved once: (1) running the expected statement tables of FactsDefs.v on the model's
   state gives exactly Model.fm_step / Model.po_step for every state and operation, and the
   iterator members enumerate the vector forwards / backwards; (2) the normaliser norm_* of
   FactsDefs.v preserves the meaning of every table (so a generated table that normalises to
   the expected one has the expected meaning). *)
From Common Require Import Prelude.
From C10 Require Import Model FactsDefs.
Local Open Scope N_scope.

Lemma find_pos_le {E} (q : E -> bool) l : (find_pos q l <= length l)%nat.
Proof. induction l as [|x r IH]; cbn; [lia|]. destruct (q x); lia. Qed.

Lemma lookup_nth m k :
  fm_lookup m k = option_map snd (nth_error m (find_pos (fun kv : N * N => N.eqb (fst kv) k) m)).
Proof.
  induction m as [|[k' v] r IH]; cbn; [reflexivity|].
  destruct (N.eqb k' k); cbn; [reflexivity|exact IH].
Qed.

Lemma update_nth m k v :
  fm_update m k v = set_second m (find_pos (fun kv : N * N => N.eqb (fst kv) k) m) v.
Proof.
  induction m as [|[k' v'] r IH]; cbn; [reflexivity|].
  destruct (N.eqb k' k); cbn; [reflexivity|]. rewrite IH. reflexivity.
Qed.

Lemma nth_error_len {E} (l : list E) : nth_error l (length l) = None.
Proof. apply nth_error_None. lia. Qed.

Lemma nth_error_snoc {E} (l : list E) x : nth_error (l ++ [x]) (length l) = Some x.
Proof. rewrite nth_error_app2 by lia. rewrite Nat.sub_diag. reflexivity. Qed.

Lemma set_second_snoc m k v w : set_second (m ++ [(k, v)]) (length m) w = m ++ [(k, w)].
Proof. induction m as [|[a b] r IH]; cbn; [reflexivity|]. rewrite IH. reflexivity. Qed.

Lemma firstn_filter_app {E} (q : E -> bool) l r : firstn (length (filter q l)) (filter q l ++ r) = filter q l.
Proof. rewrite firstn_app, Nat.sub_diag, firstn_all. cbn. apply app_nil_r. Qed.

Ltac fm_run := unfold fexec, fcall, fbody; cbn -[Nat.ltb Nat.leb Nat.eqb nth_error firstn].

Theorem fexec_expected m o : fexec fm_expected m o = Some (fm_step m o).
Proof.
  destruct o as [k|k|k v|i| | |k|k| |k|i| ].
  - (* at *)
    fm_run. rewrite lookup_nth.
    set (i := find_pos _ m). pose proof (find_pos_le (fun kv : N * N => N.eqb (fst kv) k) m) as Hle. fold i in Hle.
    destruct (Nat.eqb_spec i (length m)) as [E|E]; cbn -[Nat.ltb nth_error].
    + rewrite E, nth_error_len. reflexivity.
    + assert (Hlt : (i < length m)%nat) by lia.
      apply Nat.ltb_lt in Hlt as Hb. rewrite Hb. cbn -[nth_error].
      destruct (nth_error m i) as [kv|] eqn:En; [reflexivity|]. apply nth_error_None in En. lia.
  - (* operator[] read *)
    fm_run. rewrite lookup_nth.
    set (i := find_pos _ m). pose proof (find_pos_le (fun kv : N * N => N.eqb (fst kv) k) m) as Hle. fold i in Hle.
    destruct (Nat.eqb_spec i (length m)) as [E|E]; cbn -[Nat.ltb Nat.eqb nth_error].
    + rewrite E, nth_error_len, app_length. cbn [length]. replace (length m + 1)%nat with (S (length m)) by lia.
      cbn -[nth_error]. rewrite nth_error_snoc. reflexivity.
    + assert (Hlt : (i < length m)%nat) by lia.
      apply Nat.ltb_lt in Hlt as Hb. rewrite Hb. cbn -[nth_error].
      destruct (nth_error m i) as [kv|] eqn:En; [reflexivity|]. apply nth_error_None in En. lia.
  - (* operator[] write *)
    fm_run. rewrite lookup_nth, update_nth.
    set (i := find_pos _ m). pose proof (find_pos_le (fun kv : N * N => N.eqb (fst kv) k) m) as Hle. fold i in Hle.
    destruct (Nat.eqb_spec i (length m)) as [E|E]; cbn -[Nat.ltb Nat.eqb nth_error].
    + rewrite E, nth_error_len, app_length. cbn [length]. replace (length m + 1)%nat with (S (length m)) by lia.
      cbn -[nth_error Nat.ltb set_second]. rewrite app_length. cbn [length].
      replace (length m <? length m + 1)%nat with true by (symmetry; apply Nat.ltb_lt; lia).
      rewrite set_second_snoc. reflexivity.
    + assert (Hlt : (i < length m)%nat) by lia.
      apply Nat.ltb_lt in Hlt as Hb. rewrite Hb. cbn -[nth_error Nat.ltb set_second]. rewrite Hb.
      destruct (nth_error m i) as [kv|] eqn:En; [reflexivity|]. apply nth_error_None in En. lia.
  - (* at_index *)
    fm_run.
    destruct (Nat.ltb_spec (N.to_nat i) (length m)) as [Hlt|Hge]; cbn -[nth_error].
    + destruct (nth_error m (N.to_nat i)) as [[a b]|] eqn:En; [reflexivity|]. apply nth_error_None in En. lia.
    + destruct (nth_error m (N.to_nat i)) as [[a b]|] eqn:En; [|reflexivity].
      assert (nth_error m (N.to_nat i) <> None) as Hn by congruence. apply nth_error_Some in Hn. lia.
  - reflexivity.
  - reflexivity.
  - (* contains *)
    fm_run. rewrite lookup_nth.
    set (i := find_pos _ m). pose proof (find_pos_le (fun kv : N * N => N.eqb (fst kv) k) m) as Hle. fold i in Hle.
    destruct (Nat.eqb_spec i (length m)) as [E|E]; cbn -[nth_error].
    + rewrite E, nth_error_len. reflexivity.
    + destruct (nth_error m i) as [kv|] eqn:En; [reflexivity|]. apply nth_error_None in En. lia.
  - (* erase *)
    fm_run. unfold fm_erase.
    set (q := fun kv : N * N => negb (N.eqb (fst kv) k)).
    rewrite app_length.
    match goal with |- context [Nat.leb ?a ?b] => replace (Nat.leb a b) with true by (symmetry; apply Nat.leb_le; lia) end.
    cbn -[firstn]. rewrite firstn_filter_app. reflexivity.
  - reflexivity.
  - (* at const *)
    fm_run. rewrite lookup_nth.
    set (i := find_pos _ m). pose proof (find_pos_le (fun kv : N * N => N.eqb (fst kv) k) m) as Hle. fold i in Hle.
    destruct (Nat.eqb_spec i (length m)) as [E|E]; cbn -[Nat.ltb nth_error].
    + rewrite E, nth_error_len. reflexivity.
    + assert (Hlt : (i < length m)%nat) by lia.
      apply Nat.ltb_lt in Hlt as Hb. rewrite Hb. cbn -[nth_error].
      destruct (nth_error m i) as [kv|] eqn:En; [reflexivity|]. apply nth_error_None in En. lia.
  - (* at_index const *)
    fm_run.
    destruct (Nat.ltb_spec (N.to_nat i) (length m)) as [Hlt|Hge]; cbn -[nth_error].
    + destruct (nth_error m (N.to_nat i)) as [[a b]|] eqn:En; [reflexivity|]. apply nth_error_None in En. lia.
    + destruct (nth_error m (N.to_nat i)) as [[a b]|] eqn:En; [|reflexivity].
      assert (nth_error m (N.to_nat i) <> None) as Hn by congruence. apply nth_error_Some in Hn. lia.
  - reflexivity.
Qed.

(* begin()..end(), the const and c-variants enumerate the vector in order; rbegin()..rend() backwards *)
Theorem frange_expected m :
  frange fm_expected MBegin MEnd m = Some m /\ frange fm_expected MBeginC MEndC m = Some m /\
  frange fm_expected MCBegin MCEnd m = Some m /\
  frange fm_expected MRBegin MREnd m = Some (rev m) /\ frange fm_expected MRBeginC MREndC m = Some (rev m) /\
  frange fm_expected MCRBegin MCREnd m = Some (rev m).
Proof.
  unfold frange, fcall, fbody. cbn -[firstn skipn].
  rewrite firstn_all. assert (firstn (length m) (rev m) = rev m) as -> by (rewrite <- (rev_length m); apply firstn_all).
  cbn. auto 10.
Qed.

(* reserve() changes nothing observable; the const overloads of at / at_index / lookup do what the others do *)
Theorem freserve_expected m n : fcall fm_expected MReserve m n = Some (m, RVoid).
Proof. reflexivity. Qed.

Theorem fconst_expected m k :
  fcall fm_expected MAtC m k = fcall fm_expected MAt m k /\
  fcall fm_expected MAtIndexC m k = fcall fm_expected MAtIndex m k /\
  fcall fm_expected MLookupC m k = fcall fm_expected MLookup m k.
Proof. repeat split; reflexivity. Qed.

(* what a forwarding const overload would do - the interpreter follows the call, so the callee matters:
   at() const forwarding to at() is at(); forwarding to operator[] appends the absent key instead of throwing *)
Definition fwd (callee : fmeth) (m : fmeth) : list fstmt :=
  match m with MAtC => [FS (FRetCall callee)] | _ => fm_expected m end.

Example forward_to_at_ok :
  fexec (fwd MAt) [(1, 10)] (FAtC 2) = Some (fm_step [(1, 10)] (FAtC 2)) /\
  fexec (fwd MAt) [(1, 10); (2, 7)] (FAtC 2) = Some (fm_step [(1, 10); (2, 7)] (FAtC 2)).
Proof. vm_compute. auto. Qed.

Theorem forward_to_index_refuted :
  fexec (fwd MIndex) [(1, 10)] (FAtC 2) = Some ([(1, 10); (2, 0)], OVal 0) /\
  fm_step [(1, 10)] (FAtC 2) = ([(1, 10)], OThrow).
Proof. vm_compute. auto. Qed.

(* ------------------------------------------------------------ ParameterizedObject *)


Definition nq (n : N) : param -> bool := fun x => N.eqb (p_name x) n.

Lemma po_find_nth s n : po_find s n = nth_error s (find_pos (nq n) s).
Proof. induction s as [|p r IH]; cbn; [reflexivity|]. unfold nq at 1. destruct (N.eqb (p_name p) n); [reflexivity|exact IH]. Qed.

Lemma po_modify_nth s n f : po_modify s n f = upd_nth (find_pos (nq n) s) f s.
Proof. induction s as [|p r IH]; cbn; [reflexivity|]. unfold nq at 1. destruct (N.eqb (p_name p) n); cbn; [reflexivity|]. rewrite IH. reflexivity. Qed.

Lemma po_remove_nth s n : po_remove s n = remove_nth (find_pos (nq n) s) s.
Proof.
  unfold remove_nth. induction s as [|p r IH]; cbn; [reflexivity|]. unfold nq at 1 3.
  destruct (N.eqb (p_name p) n); cbn; [reflexivity|]. rewrite IH. reflexivity.
Qed.

Lemma upd_nth_length {E} i (f : E -> E) l : length (upd_nth i f l) = length l.
Proof. revert i; induction l as [|x r IH]; intros [|i]; cbn; auto. Qed.

Lemma nth_error_upd_nth {E} (f : E -> E) l : forall i x, nth_error l i = Some x -> nth_error (upd_nth i f l) i = Some (f x).
Proof. induction l as [|y r IH]; intros [|i] x H; cbn in *; try discriminate; [congruence|auto]. Qed.

Lemma upd_nth_snoc {E} (f : E -> E) l x : upd_nth (length l) f (l ++ [x]) = l ++ [f x].
Proof. induction l as [|y r IH]; cbn; [reflexivity|]. rewrite IH. reflexivity. Qed.

Lemma upd_nth_app1 {E} (f : E -> E) l r i : (i < length l)%nat -> upd_nth i f (l ++ r) = upd_nth i f l ++ r.
Proof. revert i; induction l as [|y l IH]; intros [|i] H; cbn in *; try lia; [reflexivity|]. rewrite IH by lia. reflexivity. Qed.

Fixpoint upd_from {E} (f : E -> E) (i n : nat) (s : list E) : list E :=
  match n with O => s | S n' => upd_from f (S i) n' (upd_nth i f s) end.

Lemma upd_from_shift {E} (f : E -> E) n : forall i x r, upd_from f (S i) n (x :: r) = x :: upd_from f i n r.
Proof. induction n as [|n IH]; intros i x r; cbn; [reflexivity|]. rewrite IH. reflexivity. Qed.

Lemma upd_from_all {E} (f : E -> E) s : upd_from f O (length s) s = map f s.
Proof. induction s as [|x r IH]; cbn; [reflexivity|]. rewrite upd_from_shift, IH. reflexivity. Qed.

Ltac po_run := unfold pexec, pcall, pbody; cbn -[Nat.ltb Nat.leb Nat.eqb nth_error pcal1 upd_nth remove_nth].

Lemma find_call s a :
  pcal1 po_expected MFind s a =
  Some (if Nat.eqb (find_pos (nq (a_name a)) s) (length s)
        then (if a_add a then (s ++ [new_param (a_name a)], QPtr (Some (length s))) else (s, QPtr None))
        else (s, QPtr (Some (find_pos (nq (a_name a)) s)))).
Proof.
  unfold pcal1, pbody. cbn -[Nat.ltb Nat.leb Nat.eqb nth_error]. fold (nq (a_name a)).
  set (i := find_pos _ s). pose proof (find_pos_le (nq (a_name a)) s) as Hle. fold i in Hle.
  destruct (Nat.eqb_spec i (length s)) as [E|E]; cbn -[Nat.ltb Nat.eqb].
  - destruct (a_add a); cbn -[Nat.ltb Nat.eqb]; [|reflexivity].
    rewrite app_length. cbn [length]. replace (length s + 1)%nat with (S (length s)) by lia. reflexivity.
  - replace (i <? length s)%nat with true by (symmetry; apply Nat.ltb_lt; lia). reflexivity.
Qed.

Lemma ploop_reset cal n : forall c i,
  pc_ret c = None -> (i + n <= length (pc_s c))%nat ->
  exists c', ploop cal c [PSetQuery (PPGetOf PILocal) false] i n = Some c' /\
             pc_s c' = upd_from (set_query false) i n (pc_s c) /\ pc_ret c' = None.
Proof.
  induction n as [|n IH]; intros c i Hr Hn; cbn -[Nat.ltb].
  - exists c. auto.
  - rewrite Hr. cbn -[Nat.ltb].
    replace (i <? length (pc_s c))%nat with true by (symmetry; apply Nat.ltb_lt; lia).
    cbn -[Nat.ltb].
    destruct (IH (p_upd (p_set_it c i) (upd_nth i (set_query false) (pc_s c))) (S i)) as [c' [H1 [H2 H3]]].
    + exact Hr.
    + cbn. rewrite upd_nth_length. lia.
    + exists c'. auto.
Qed.

Theorem pexec_expected s o : pexec po_expected s o = Some (po_step s o).
Proof.
  destruct o as [n|n tag v|n tag d|n| |n].
  - (* hasParam *)
    po_run. rewrite find_call. cbn -[Nat.eqb]. rewrite po_find_nth.
    set (i := find_pos _ s). pose proof (find_pos_le (nq n) s) as Hle. fold i in Hle.
    destruct (Nat.eqb_spec i (length s)) as [E|E]; cbn -[Nat.eqb nth_error].
    + rewrite Nat.eqb_refl. cbn -[nth_error]. rewrite E, nth_error_len. reflexivity.
    + rewrite Nat.eqb_refl. cbn -[nth_error].
      destruct (nth_error s i) eqn:En; [reflexivity|]. apply nth_error_None in En. lia.
  - (* setParam *)
    po_run. rewrite find_call. cbn -[Nat.eqb pcal1 upd_nth]. unfold po_ensure. rewrite po_find_nth, po_modify_nth.
    set (i := find_pos _ s). pose proof (find_pos_le (nq n) s) as Hle. fold i in Hle.
    destruct (Nat.eqb_spec i (length s)) as [E|E]; cbn -[Nat.eqb nth_error pcal1 upd_nth].
    + rewrite app_length. cbn [length]. replace (length s + 1 =? length s)%nat with false by (symmetry; apply Nat.eqb_neq; lia).
      cbn -[upd_nth nth_error]. rewrite E, nth_error_len.
      assert (find_pos (nq n) (s ++ [{| p_name := n; p_data := None; p_query := false |}]) = length s) as ->.
      { clear - E. subst i. revert E. induction s as [|p r IH]; cbn; intro E.
        - unfold nq. cbn. rewrite N.eqb_refl. reflexivity.
        - destruct (nq n p); [discriminate|]. f_equal. apply IH. lia. }
      unfold new_param. rewrite !upd_nth_snoc. reflexivity.
    + rewrite Nat.eqb_refl. cbn -[upd_nth nth_error].
      destruct (nth_error s i) eqn:En; [reflexivity|]. apply nth_error_None in En. lia.
  - (* getParam *)
    po_run. rewrite find_call. cbn -[Nat.eqb pcal1 upd_nth nth_error]. rewrite po_find_nth, po_modify_nth.
    set (i := find_pos _ s). pose proof (find_pos_le (nq n) s) as Hle. fold i in Hle.
    destruct (Nat.eqb_spec i (length s)) as [E|E]; cbn -[Nat.eqb nth_error upd_nth].
    + rewrite Nat.eqb_refl. cbn -[nth_error]. rewrite E, nth_error_len. reflexivity.
    + rewrite Nat.eqb_refl. cbn -[nth_error upd_nth].
      destruct (nth_error s i) as [p|] eqn:En; [|apply nth_error_None in En; lia].
      unfold data_is. destruct (p_data p) as [[t w]|] eqn:Ed; cbn -[nth_error upd_nth]; [|reflexivity].
      destruct (N.eqb t tag) eqn:Et; cbn -[nth_error upd_nth]; [|reflexivity].
      rewrite (nth_error_upd_nth _ _ _ _ En).
      cbn. rewrite Ed, Et. reflexivity.
  - (* removeParam *)
    po_run. fold (nq n). rewrite po_remove_nth.
    set (i := find_pos _ s). pose proof (find_pos_le (nq n) s) as Hle. fold i in Hle.
    destruct (Nat.eqb_spec i (length s)) as [E|E]; cbn -[Nat.ltb remove_nth].
    + rewrite E. unfold remove_nth. rewrite firstn_all, skipn_all2 by lia. rewrite app_nil_r. reflexivity.
    + replace (i <? length s)%nat with true by (symmetry; apply Nat.ltb_lt; lia). reflexivity.
  - (* resetAllParamQueryStatus *)
    unfold pexec, pcall, pbody. cbn -[ploop Nat.sub].
    rewrite Nat.sub_0_r.
    destruct (ploop_reset (pcal1 po_expected) (length s)
                (p_upd (p_upd {| pc_s := s; pc_a := mkA 0 false 0 0 None; pc_it := None; pc_ptr := None; pc_ret := None |} s) s) O)
      as [c' [H1 [H2 H3]]]; [reflexivity|cbn; lia|].
    rewrite H1. cbn. rewrite H3, H2. cbn. rewrite upd_from_all. reflexivity.
  - (* findParam(name, true) *)
    unfold pexec, pcall. change (pbody (pcal1 po_expected) (po_expected MFind)) with (pbody (pcal1 po_expected) (po_expected MFind)).
    po_run. fold (nq n). unfold po_ensure. rewrite po_find_nth.
    set (i := find_pos _ s). pose proof (find_pos_le (nq n) s) as Hle. fold i in Hle.
    destruct (Nat.eqb_spec i (length s)) as [E|E]; cbn -[Nat.ltb Nat.eqb nth_error].
    + rewrite app_length. cbn [length]. replace (length s + 1)%nat with (S (length s)) by lia. cbn -[nth_error].
      rewrite E, nth_error_len. reflexivity.
    + replace (i <? length s)%nat with true by (symmetry; apply Nat.ltb_lt; lia). cbn -[nth_error].
      destruct (nth_error s i) eqn:En; [reflexivity|]. apply nth_error_None in En. lia.
Qed.

(* params_begin()..params_end() enumerate the parameters in list order *)
Theorem prange_expected s : prange po_expected s = Some s.
Proof. unfold prange, pcall, pbody. cbn -[firstn skipn]. rewrite firstn_all. reflexivity. Qed.
