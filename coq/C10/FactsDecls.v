(* C10 — the closed list of declared members of FlatMap, ParameterizedObject and
   ParameterizedObject::Param (as clang prints them: kind, name, type), each either covered by
   the statement tables / member facts of FactsDefs.v or excluded with a reason.  factgen.py
   re-lists the declarations on every run (gen_fm_declared, gen_po_declared); the lists must be
   EQUAL, so a member or field that is added, removed, re-typed or made const fails an obligation
   until it is covered here (and in the model) or excluded with a reason. *)
From Coq Require Import List String.
Import ListNotations.
Local Open Scope string_scope.

Definition fm_declared_expected : list string :=
  [ (* type aliases: only name the vector / iterator types; values's real type is fact ff_values_vector_of_pairs *)
    "type item_t : std::pair<KEY, VALUE>";
    "type storage_t : std::vector<item_t>";
    "type iterator_t : decltype(std::declval<rkcommon::containers::FlatMap::storage_t>().begin())";
    "type citerator_t : decltype(std::declval<rkcommon::containers::FlatMap::storage_t>().cbegin())";
    "type riterator_t : decltype(std::declval<rkcommon::containers::FlatMap::storage_t>().rbegin())";
    "type criterator_t : decltype(std::declval<rkcommon::containers::FlatMap::storage_t>().crbegin())";
    "ctor FlatMap<KEY, VALUE> : void () = default";              (* fact ff_ctor_defaulted *)
    "dtor ~FlatMap<KEY, VALUE> : void () = default";             (* defaulted: nothing to model *)
    "method at : VALUE &(const KEY &)";                          (* MAt        / op FAt *)
    "method at : const VALUE &(const KEY &) const";              (* MAtC       / op FAtC *)
    "method operator[] : VALUE &(const KEY &)";                  (* MIndex     / ops FIndex, FSet *)
    (* EXCLUDED: cannot be instantiated (push_back on a const vector) - fact ff_const_index_uninstantiable
       re-establishes that on every run *)
    "method operator[] : const VALUE &(const KEY &) const";
    "method at_index : rkcommon::containers::FlatMap::item_t &(size_t)";              (* MAtIndex  / FAtIndex  *)
    "method at_index : const rkcommon::containers::FlatMap::item_t &(size_t) const";  (* MAtIndexC / FAtIndexC *)
    "method size : size_t () const";                             (* MSize *)
    "method empty : size_t () const";                            (* MEmpty *)
    "method contains : bool (const KEY &) const";                (* MContains *)
    "method erase : void (const KEY &)";                         (* MErase *)
    "method clear : void ()";                                    (* MClear *)
    "method reserve : void (size_t)";                            (* MReserve *)
    "method begin : rkcommon::containers::FlatMap::iterator_t ()";              (* MBegin  *)
    "method begin : rkcommon::containers::FlatMap::citerator_t () const";       (* MBeginC *)
    "method cbegin : rkcommon::containers::FlatMap::citerator_t () const";      (* MCBegin *)
    "method end : rkcommon::containers::FlatMap::iterator_t ()";
    "method end : rkcommon::containers::FlatMap::citerator_t () const";
    "method cend : rkcommon::containers::FlatMap::citerator_t () const";
    "method rbegin : rkcommon::containers::FlatMap::riterator_t ()";
    "method rbegin : rkcommon::containers::FlatMap::criterator_t () const";
    "method crbegin : rkcommon::containers::FlatMap::criterator_t () const";
    "method rend : rkcommon::containers::FlatMap::riterator_t ()";
    "method rend : rkcommon::containers::FlatMap::criterator_t () const";
    "method crend : rkcommon::containers::FlatMap::criterator_t () const";
    "method lookup : rkcommon::containers::FlatMap::iterator_t (const KEY &)";          (* MLookup  *)
    "method lookup : rkcommon::containers::FlatMap::citerator_t (const KEY &) const";   (* MLookupC *)
    "field values : rkcommon::containers::FlatMap::storage_t" ].  (* the ONLY data member: the model's state *)

(* ParameterizedObject declares no const member function at all (hasParam, getParam, params_begin/end are
   non-const), so there is no const view to exercise; a const overload that appears changes this list. *)
Definition po_declared_expected : list string :=
  [ "ctor ParameterizedObject : void () = default";
    "dtor ~ParameterizedObject : void () noexcept = default";
    "struct Param";
    "Param::ctor Param : void (const std::string &)";            (* facts pf_name_from_arg, pf_ctor_body_empty *)
    "Param::dtor ~Param : void () noexcept = default";
    "Param::template set : void (const T &)";                    (* MParamSet *)
    "Param::field data : utility::Any";                          (* p_data *)
    "Param::field name : std::string";                           (* p_name *)
    "Param::field query : bool";                                 (* p_query *)
    "method hasParam : bool (const std::string &)";              (* MHas *)
    "template setParam : void (const std::string &, const T &)"; (* MSetParam *)
    "template getParam : T (const std::string &, T)";            (* MGetParam *)
    "method removeParam : void (const std::string &)";           (* MRemove *)
    "method resetAllParamQueryStatus : void ()";                 (* MReset *)
    "method findParam : rkcommon::utility::ParameterizedObject::Param *(const std::string &, bool)";  (* MFind *)
    "method params_begin : std::vector<std::shared_ptr<Param>>::iterator ()";   (* MParamsBegin *)
    "method params_end : std::vector<std::shared_ptr<Param>>::iterator ()";     (* MParamsEnd *)
    "field paramList : std::vector<std::shared_ptr<Param>>" ].   (* the ONLY data member: the model's state *)
