(* C10 — source-derived obligations, FlatMap.  gen/Facts.v is regenerated from the working tree
   on every run (props/C10/factgen.py over the clang AST of rkcommon/containers/FlatMap.h as
   instantiated for <int,int> and <std::string,std::string>); these theorems tie it to
   Model.fm_step.  Kept apart from Properties.v so that a change of the source breaks these and
   leaves the theorems about the model standing. *)
From Common Require Import Prelude.
From C10 Require Import Model FactsDefs FactsCheckFM.
Local Open Scope N_scope.

(* `values` is a std::vector<std::pair<KEY,VALUE>> without initialiser, FlatMap() = default, and `c[k]` on a
   const FlatMap still does not compile (the reason operator[] const is excluded) *)
Theorem facts_fm_members : ffacts_ok gen_ffacts = true.
Proof. exact FactsCheckFM.fm_members_lemma. Qed.
Print Assumptions facts_fm_members.

(* closed world: the members FlatMap declares are exactly the ones covered by the tables above/below or excluded
   with a reason in FactsDecls.v (operator[] const: cannot be instantiated, re-checked by facts_fm_members) *)
Theorem facts_fm_declared : gen_fm_declared = fm_declared_expected.
Proof. exact FactsCheckFM.fm_declared_lemma. Qed.
Print Assumptions facts_fm_declared.

(* lookup (both overloads) is  return std::find_if(values.begin(), values.end(), [&](item){ return item.first == key; }) *)
Theorem facts_fm_lookup : fm_agree [MLookup; MLookupC].
Proof. exact FactsCheckFM.fm_lookup_lemma. Qed.
Print Assumptions facts_fm_lookup.

(* at:  itr = lookup(key); if (itr == values.end()) throw std::out_of_range; return itr->second *)
Theorem facts_fm_at : fm_agree [MAt; MAtC].
Proof. exact FactsCheckFM.fm_at_lemma. Qed.
Print Assumptions facts_fm_at.

(* operator[]: appends (key, VALUE()) iff lookup(key) == end, returns the mapped value either way *)
Theorem facts_fm_index : fm_agree [MIndex].
Proof. exact FactsCheckFM.fm_index_lemma. Qed.
Print Assumptions facts_fm_index.

Theorem facts_fm_at_index : fm_agree [MAtIndex; MAtIndexC].
Proof. exact FactsCheckFM.fm_at_index_lemma. Qed.
Print Assumptions facts_fm_at_index.

Theorem facts_fm_size_empty_contains : fm_agree [MSize; MEmpty; MContains].
Proof. exact FactsCheckFM.fm_size_empty_contains_lemma. Qed.
Print Assumptions facts_fm_size_empty_contains.

(* erase:  itr = std::stable_partition(values.begin(), values.end(), [&](i){ return i.first != key; });
           values.resize(std::distance(values.begin(), itr))   -- the algorithm's NAME is part of the fact *)
Theorem facts_fm_erase : fm_agree [MErase].
Proof. exact FactsCheckFM.fm_erase_lemma. Qed.
Print Assumptions facts_fm_erase.

Theorem facts_fm_clear_reserve : fm_agree [MClear; MReserve].
Proof. exact FactsCheckFM.fm_clear_reserve_lemma. Qed.
Print Assumptions facts_fm_clear_reserve.

Theorem facts_fm_iterators :
  fm_agree [MBegin; MBeginC; MCBegin; MEnd; MEndC; MCEnd; MRBegin; MRBeginC; MCRBegin; MREnd; MREndC; MCREnd].
Proof. exact FactsCheckFM.fm_iterators_lemma. Qed.
Print Assumptions facts_fm_iterators.

(* hence: running the extracted member bodies on the model's state gives, for every state and
   every operation of the public API, exactly Model.fm_step (new contents and result / exception) *)
Theorem facts_fm_step : forall m o,
  fexec gen_fm_ii m o = Some (fm_step m o) /\ fexec gen_fm_ss m o = Some (fm_step m o).
Proof. exact FactsCheckFM.fm_step_lemma. Qed.
Print Assumptions facts_fm_step.

(* begin()..end() in all three spellings visit the stored pairs in vector order, rbegin()..rend() in reverse *)
Theorem facts_fm_iteration : forall m,
  frange gen_fm_ii MBegin MEnd m = Some m /\ frange gen_fm_ii MBeginC MEndC m = Some m /\
  frange gen_fm_ii MCBegin MCEnd m = Some m /\
  frange gen_fm_ii MRBegin MREnd m = Some (rev m) /\ frange gen_fm_ii MRBeginC MREndC m = Some (rev m) /\
  frange gen_fm_ii MCRBegin MCREnd m = Some (rev m).
Proof. exact FactsCheckFM.fm_iteration_lemma. Qed.
Print Assumptions facts_fm_iteration.

(* reserve() leaves the contents alone; the const overloads of at / at_index do what the others do *)
Theorem facts_fm_reserve_const : forall m k,
  fcall gen_fm_ii MReserve m k = Some (m, RVoid) /\
  fcall gen_fm_ii MAtC m k = fcall gen_fm_ii MAt m k /\
  fcall gen_fm_ii MAtIndexC m k = fcall gen_fm_ii MAtIndex m k.
Proof. exact FactsCheckFM.fm_reserve_const_lemma. Qed.
Print Assumptions facts_fm_reserve_const.

(* non-vacuity: the interpreter really runs the table (insert, overwrite, erase of the first of three) *)
Example facts_fm_example :
  fexec gen_fm_ii [(1, 10); (2, 20); (3, 30)] (FErase 1) = Some ([(2, 20); (3, 30)], OUnit) /\
  fexec gen_fm_ii [(1, 10)] (FSet 2 5) = Some ([(1, 10); (2, 5)], OUnit) /\
  fexec gen_fm_ii [(1, 10)] (FAt 7) = Some ([(1, 10)], OThrow).
Proof. vm_compute. auto. Qed.
