From Coq Require Import Extraction ExtrOcamlBasic NArith List.
From C10 Require Import Model.
Extraction "Model.ml" fm_step fm_step_conv po_step p_name p_data p_query N.of_nat N.to_nat.
