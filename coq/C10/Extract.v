From Coq Require Import Extraction ExtrOcamlBasic NArith List.
From C10 Require Import Model.
Extraction "Model.ml" fm_step fm_step_conv po_step po2_step p2_view p2_h p2_a p2_b p_name p_data p_query N.of_nat N.to_nat.
