(* C10 — per-run checks of the generated ParameterizedObject statement tables (gen/Facts.v):
   the members as instantiated for T = int and for a fresh struct type both normalise to the
   table Model.po_step was written from.  One lemma per member. *)
From Common Require Import Prelude.
From C10 Require Export Model FactsDefs FactsDecls FactsProofs FactsNorm.
From C10.gen Require Export Facts.
Local Open Scope N_scope.

Definition po_agree (ms : list pmeth) : Prop :=
  forall m, In m ms -> norm_ptable gen_po_int m = po_expected m /\ norm_ptable gen_po_T m = po_expected m.

Ltac agree := intros m H; cbn in H; repeat (destruct H as [<-|H]; [split; vm_compute; reflexivity|]); contradiction.

Lemma po_members_lemma : pfacts_ok gen_pfacts = true.
Proof. vm_compute. reflexivity. Qed.
Lemma po_declared_lemma : gen_po_declared = po_declared_expected.
Proof. vm_compute. reflexivity. Qed.
Lemma po_findParam_lemma : po_agree [MFind].
Proof. agree. Qed.
Lemma po_removeParam_lemma : po_agree [MRemove].
Proof. agree. Qed.
Lemma po_getParam_lemma : po_agree [MGetParam].
Proof. agree. Qed.
Lemma po_setParam_lemma : po_agree [MSetParam; MParamSet].
Proof. agree. Qed.
Lemma po_hasParam_lemma : po_agree [MHas].
Proof. agree. Qed.
Lemma po_reset_lemma : po_agree [MReset; MParamsBegin; MParamsEnd].
Proof. agree. Qed.

Lemma po_table_lemma : forall m, norm_ptable gen_po_int m = po_expected m /\ norm_ptable gen_po_T m = po_expected m.
Proof.
  intros m.
  destruct m;
    first [ apply po_findParam_lemma; cbn; tauto | apply po_removeParam_lemma; cbn; tauto | apply po_getParam_lemma; cbn; tauto
          | apply po_setParam_lemma; cbn; tauto | apply po_hasParam_lemma; cbn; tauto | apply po_reset_lemma; cbn; tauto ].
Qed.

Lemma po_step_lemma : forall s o,
  pexec gen_po_int s o = Some (po_step s o) /\ pexec gen_po_T s o = Some (po_step s o).
Proof. intros s o. split; apply pexec_of_table; intro x; apply po_table_lemma. Qed.

Lemma po_params_order_lemma : forall s, prange gen_po_int s = Some s.
Proof. intro s. apply prange_of_table. intro x. apply po_table_lemma. Qed.
