(* C10 — source-derived obligations, ParameterizedObject.  gen/Facts.v is regenerated from the
   working tree on every run (props/C10/factgen.py over the clang AST of
   rkcommon/utility/ParameterizedObject.{h,cpp}, templates instantiated at int and at a fresh
   struct type); these theorems tie it to Model.po_step. *)
From Common Require Import Prelude.
From C10 Require Import Model FactsDefs FactsCheckPO.
Local Open Scope N_scope.

(* Param(const std::string &n) : name(n) with an empty body, data a default-constructed Any, bool query = false,
   paramList a std::vector<std::shared_ptr<Param>>, findParam's addIfNotExist defaults to false *)
Theorem facts_po_members : pfacts_ok gen_pfacts = true.
Proof. exact FactsCheckPO.po_members_lemma. Qed.
Print Assumptions facts_po_members.

(* closed world: ParameterizedObject and Param declare exactly the members listed in FactsDecls.v (paramList is the
   only data member, Param has data / name / query; no const member functions) *)
Theorem facts_po_declared : gen_po_declared = po_declared_expected.
Proof. exact FactsCheckPO.po_declared_lemma. Qed.
Print Assumptions facts_po_declared.

(* findParam: find_if with  p->name == name  (whole-string equality); found -> that Param; else if
   addIfNotExist push_back(make_shared<Param>(name)) and return the new last one; else nullptr *)
Theorem facts_po_findParam : po_agree [MFind].
Proof. exact FactsCheckPO.po_findParam_lemma. Qed.
Print Assumptions facts_po_findParam.

(* removeParam: find_if with the same predicate, erase that ONE position iff it is not end() *)
Theorem facts_po_removeParam : po_agree [MRemove].
Proof. exact FactsCheckPO.po_removeParam_lemma. Qed.
Print Assumptions facts_po_removeParam.

(* getParam<T>: default if not found; default if !data.is<T>(); only then query = true and data.get<T>() *)
Theorem facts_po_getParam : po_agree [MGetParam].
Proof. exact FactsCheckPO.po_getParam_lemma. Qed.
Print Assumptions facts_po_getParam.

(* setParam<T>: findParam(name, true)->set(t), Param::set assigns data and nothing else *)
Theorem facts_po_setParam : po_agree [MSetParam; MParamSet].
Proof. exact FactsCheckPO.po_setParam_lemma. Qed.
Print Assumptions facts_po_setParam.

Theorem facts_po_hasParam : po_agree [MHas].
Proof. exact FactsCheckPO.po_hasParam_lemma. Qed.
Print Assumptions facts_po_hasParam.

(* resetAllParamQueryStatus: for every p in params_begin()..params_end(): ( *p )->query = false *)
Theorem facts_po_reset : po_agree [MReset; MParamsBegin; MParamsEnd].
Proof. exact FactsCheckPO.po_reset_lemma. Qed.
Print Assumptions facts_po_reset.

(* hence: running the extracted member bodies on the model's parameter list gives, for every
   state and operation, exactly Model.po_step (list, values, type tags, query flags, result) *)
Theorem facts_po_step : forall s o,
  pexec gen_po_int s o = Some (po_step s o) /\ pexec gen_po_T s o = Some (po_step s o).
Proof. exact FactsCheckPO.po_step_lemma. Qed.
Print Assumptions facts_po_step.

(* params_begin()..params_end() visit the parameters in list (= first insertion) order *)
Theorem facts_po_params_order : forall s, prange gen_po_int s = Some s.
Proof. exact FactsCheckPO.po_params_order_lemma. Qed.
Print Assumptions facts_po_params_order.

Example facts_po_example :
  pexec gen_po_int [{| p_name := 1; p_data := Some (0, 5); p_query := false |}] (PGet 1 1 99)
  = Some ([{| p_name := 1; p_data := Some (0, 5); p_query := false |}], OVal 99) /\
  pexec gen_po_int [{| p_name := 1; p_data := Some (0, 5); p_query := false |}] (PGet 1 0 99)
  = Some ([{| p_name := 1; p_data := Some (0, 5); p_query := true |}], OVal 5).
Proof. vm_compute. auto. Qed.
