(* C10 — per-run checks of the generated FlatMap statement tables (gen/Facts.v): member by
   member, the table extracted from FlatMap<int,int> and the one extracted from
   FlatMap<std::string,std::string> normalise to the table Model.fm_step was written from.
   One lemma per group of members, so that the first one that fails names the member. *)
From Common Require Import Prelude.
From C10 Require Export Model FactsDefs FactsDecls FactsProofs FactsNorm.
From C10.gen Require Export Facts.
Local Open Scope N_scope.

Definition fm_agree (ms : list fmeth) : Prop :=
  forall m, In m ms -> norm_ftable gen_fm_ii m = fm_expected m /\ norm_ftable gen_fm_ss m = fm_expected m.

Ltac agree := intros m H; cbn in H; repeat (destruct H as [<-|H]; [split; vm_compute; reflexivity|]); contradiction.

Lemma fm_lookup_lemma : fm_agree [MLookup; MLookupC].
Proof. agree. Qed.
Lemma fm_at_lemma : fm_agree [MAt; MAtC].
Proof. agree. Qed.
Lemma fm_index_lemma : fm_agree [MIndex].
Proof. agree. Qed.
Lemma fm_at_index_lemma : fm_agree [MAtIndex; MAtIndexC].
Proof. agree. Qed.
Lemma fm_size_empty_contains_lemma : fm_agree [MSize; MEmpty; MContains].
Proof. agree. Qed.
Lemma fm_erase_lemma : fm_agree [MErase].
Proof. agree. Qed.
Lemma fm_clear_reserve_lemma : fm_agree [MClear; MReserve].
Proof. agree. Qed.
Lemma fm_iterators_lemma :
  fm_agree [MBegin; MBeginC; MCBegin; MEnd; MEndC; MCEnd; MRBegin; MRBeginC; MCRBegin; MREnd; MREndC; MCREnd].
Proof. agree. Qed.

(* after the per-member lemmas, so that a changed body is named before the closed-world bookkeeping *)
Lemma fm_members_lemma : ffacts_ok gen_ffacts = true.
Proof. vm_compute. reflexivity. Qed.
Lemma fm_declared_lemma : gen_fm_declared = fm_declared_expected.
Proof. vm_compute. reflexivity. Qed.

Lemma fm_table_lemma : forall m, norm_ftable gen_fm_ii m = fm_expected m /\ norm_ftable gen_fm_ss m = fm_expected m.
Proof.
  intros m.
  destruct m;
    first [ apply fm_lookup_lemma; cbn; tauto | apply fm_at_lemma; cbn; tauto | apply fm_index_lemma; cbn; tauto
          | apply fm_at_index_lemma; cbn; tauto | apply fm_size_empty_contains_lemma; cbn; tauto
          | apply fm_erase_lemma; cbn; tauto | apply fm_clear_reserve_lemma; cbn; tauto
          | apply fm_iterators_lemma; cbn; tauto ].
Qed.

Lemma fm_step_lemma : forall m o,
  fexec gen_fm_ii m o = Some (fm_step m o) /\ fexec gen_fm_ss m o = Some (fm_step m o).
Proof. intros m o. split; apply fexec_of_table; intro x; apply fm_table_lemma. Qed.

Lemma fm_iteration_lemma : forall m,
  frange gen_fm_ii MBegin MEnd m = Some m /\ frange gen_fm_ii MBeginC MEndC m = Some m /\
  frange gen_fm_ii MCBegin MCEnd m = Some m /\
  frange gen_fm_ii MRBegin MREnd m = Some (rev m) /\ frange gen_fm_ii MRBeginC MREndC m = Some (rev m) /\
  frange gen_fm_ii MCRBegin MCREnd m = Some (rev m).
Proof.
  intro m. rewrite !(frange_of_table gen_fm_ii (fun x => proj1 (fm_table_lemma x))). apply frange_expected.
Qed.

Lemma fm_reserve_const_lemma : forall m k,
  fcall gen_fm_ii MReserve m k = Some (m, RVoid) /\
  fcall gen_fm_ii MAtC m k = fcall gen_fm_ii MAt m k /\
  fcall gen_fm_ii MAtIndexC m k = fcall gen_fm_ii MAtIndex m k.
Proof.
  intros m k. rewrite !(fcall_of_table gen_fm_ii (fun x => proj1 (fm_table_lemma x))).
  pose proof (fconst_expected m k) as [H1 [H2 _]]. repeat split; auto.
Qed.
