(* C09 — the member functions of Model.v ARE the interpretations of the programs in model_table
   (for every frame, not only the well-formed ones), and the token semantics of Any's members are
   the corresponding pieces of a_step. *)
From Common Require Import Prelude.
From C09 Require Import Model Env Micro.
Local Open Scope N_scope.

Ltac frames f :=
  destruct f as [[[|?] [|]] [[|?] [|]] [|] ?]; reflexivity.

Lemma link_reset z a f : run_member z model_table MReset a f = Some (m_reset f).
Proof. frames f. Qed.
Lemma link_dcsin z a f : run_member z model_table MDcsin a f = Some (m_default_construct_storage_if_needed f).
Proof. frames f. Qed.
Lemma link_emplace z v f : run_member z model_table MEmplace (vval v) f = Some (m_emplace v f).
Proof. frames f. Qed.
Lemma link_assign_value z v f : run_member z model_table MAssignValue (vval v) f = Some (m_assign_value v f).
Proof. frames f. Qed.
Lemma link_ctor_value z v f : run_member z model_table MCtorValue (vval v) f = Some (m_ctor_value v f).
Proof. frames f. Qed.
Lemma link_make_optional z v f : run_member z model_table MMakeOptional (vval v) f = Some (m_emplace v f).
Proof. frames f. Qed.
Lemma link_ctor_copy z a f : run_member z model_table MCtorCopy a f = Some (m_ctor_copy (fixed_cfg z) f).
Proof. frames f. Qed.
Lemma link_ctor_conv_copy z a f : run_member z model_table MCtorConvCopy a f = Some (m_ctor_copy (fixed_cfg z) f).
Proof. frames f. Qed.
Lemma link_ctor_move z a f : run_member z model_table MCtorMove a f = Some (m_ctor_move (fixed_cfg z) f).
Proof. frames f. Qed.
Lemma link_ctor_conv_move z a f : run_member z model_table MCtorConvMove a f = Some (m_ctor_move (fixed_cfg z) f).
Proof. frames f. Qed.
Lemma link_assign_copy z a f : run_member z model_table MAssignCopy a f = Some (m_assign_wrapper (fixed_cfg z) false f).
Proof. frames f. Qed.
Lemma link_assign_move z a f : run_member z model_table MAssignMove a f = Some (m_assign_wrapper (fixed_cfg z) true f).
Proof. frames f. Qed.
Lemma link_assign_conv_copy z a f : run_member z model_table MAssignConvCopy a f = Some (m_assign_wrapper (fixed_cfg z) false f).
Proof. frames f. Qed.
Lemma link_assign_conv_move z a f : run_member z model_table MAssignConvMove a f = Some (m_assign_wrapper (fixed_cfg z) false f).
Proof. frames f. Qed.
Lemma link_dtor z a f :
  bindO (run_member z model_table MDtor a) (fun _ => lift (release This)) f = Some (m_dtor f).
Proof. frames f. Qed.
Lemma link_def_ctor z a f : run_member z model_table MDefCtor a f = Some (ret tt f).
Proof. reflexivity. Qed.

Lemma link_cmp z o : cmp_sem (fixed_cfg z) model_cmp o = Some (m_cmp (fixed_cfg z) o).
Proof. destruct o; reflexivity. Qed.

Lemma link_any_eq x y : any_eq_sem (model_any AMEq) x y = Some (a_eq true x y).
Proof. reflexivity. Qed.
Lemma link_any_get w i x t :
  a_store w i = Some x ->
  any_get_sem (model_any AMGet) x t <> Some GNullDeref /\
  any_get_sem (model_any AMGetConst) x t <> Some GNullDeref /\
  a_step true w (AGet i t) =
    match any_get_sem (model_any AMGet) x t with
    | Some (GVal v) => AOk (AVal v) w
    | Some GThrow => AOk AThrow w
    | _ => ANullDeref
    end.
Proof.
  intro H. cbn [a_step]. rewrite H. destruct x as [h|]; cbn.
  - destruct (N.eqb (h_tag h) t); repeat split; discriminate.
  - repeat split; discriminate.
Qed.
Lemma link_any_str w i x :
  a_store w i = Some x ->
  a_step true w (AToString i) =
    match any_str_sem (model_any AMToString) x with
    | Some (Some t) => AOk (AStr t) w
    | _ => ANullDeref
    end.
Proof. intro H. cbn [a_step]. rewrite H. destruct x; reflexivity. Qed.
Lemma link_any_copy w x : any_copy_sem model_holder (model_any AMCopyCtor) w x = Some (a_clone w x).
Proof. reflexivity. Qed.

Lemma link_env atoi atof k str i : env_sem atoi atof (model_env k) k str i = Some (m_getenv atoi atof k str i).
Proof. destruct k; reflexivity. Qed.
(* a payload type without operator== (the model's tag 4) never compares equal, not even to itself *)
Lemma link_noeq h o : h_tag h = 4 -> is_same h o = false.
Proof.
  intro H. destruct o as [h'|]; [|reflexivity]. unfold is_same. rewrite H.
  change (has_eq 4) with false. rewrite andb_false_r. reflexivity.
Qed.

(* value operations whose argument is the payload of another (non-const) wrapper *)
Lemma link_assign_deref z rv f :
  run_member z model_table MAssignValue (vderef z rv) f = Some (m_assign_from (read_value z Other false) f).
Proof. destruct rv; frames f. Qed.
Lemma link_emplace_deref z rv f :
  run_member z model_table MEmplace (vderef z rv) f = Some (m_emplace_from (read_value z Other rv) f).
Proof. destruct rv; frames f. Qed.
