(* C09 — value operations with an OBSERVABLE argument: a named payload variable of the client, passed in each value
   category.  Definitions only.

   Every wrapper operation that takes a value (Optional(const T&), emplace(Args&&...), operator=(U&&),
   make_optional(Args&&...)) is called with a prvalue (a temporary copy of the variable), an xvalue
   (std::move(var)), a const lvalue and a NON-CONST lvalue; the variable is read afterwards and reused.
   What the code does with it: the const T& constructor and the value assignment (value() = rhs, rhs a named
   parameter) always COPY; emplace and make_optional forward, i.e. move from the variable exactly when it was
   passed as an xvalue.  (The payload of another wrapper as argument, *a, is Model.AssignDeref / EmplaceDeref.) *)
From Common Require Import Prelude.
From C09 Require Import Model.
Local Open Scope N_scope.

Inductive vcat := VPr | VX | VCL | VL.            (* prvalue, xvalue, const lvalue, non-const lvalue *)
Inductive vmember := VmCtor | VmEmplace | VmAssign | VmMake.
Definition varst := N -> option N.                 (* variable -> payload code; None = not created *)
Definition vars0 : varst := fun _ => None.
Inductive vop :=
| VOp (o : op)
| VSet (k v : N)                                   (* T var_k = v  (created or overwritten) *)
| VUse (m : vmember) (i : N) (ty : bool) (k : N) (c : vcat)
| VRead (k : N).

Definition forwards (m : vmember) : bool := match m with VmEmplace | VmMake => true | _ => false end.
Definition is_xvalue (c : vcat) : bool := match c with VX => true | _ => false end.
(* the only way a value operation changes its argument *)
Definition moves_from (m : vmember) (c : vcat) : bool := forwards m && is_xvalue c.
Definition use_op (m : vmember) (i : N) (ty : bool) (v : N) : op :=
  match m with
  | VmCtor => CtorValue i ty v
  | VmEmplace => Emplace i v
  | VmAssign => AssignValue i v
  | VmMake => MakeOptional i ty v
  end.
Definition vupd (vs : varst) (k : N) (x : option N) : varst := fun n => if N.eqb n k then x else vs n.
(* emplace / value assignment need an existing wrapper of the variable's payload type *)
Definition target_ok (s : store) (m : vmember) (i : N) (ty : bool) : bool :=
  match m, s i with
  | (VmEmplace | VmAssign), Some w => Bool.eqb (w_ty w) ty
  | (VmEmplace | VmAssign), None => false
  | _, _ => true
  end.

Inductive vres :=
| VOk (o : out) (s : store) (e : list ev) (vs : varst)
| VVal (v : option N)                              (* result of reading a variable *)
| VErr (e : lerr * N) (l : list ev)
| VIll.
Definition vstep (c : cfg) (s : store) (vs : varst) (x : vop) : vres :=
  match x with
  | VOp o => match step c s o with SOk o' s' e => VOk o' s' e vs | SErr e l => VErr e l | SIll => VIll end
  | VSet k v => VOk OUnit s [] (vupd vs k (Some v))
  | VRead k => VVal (vs k)
  | VUse m i ty k cat =>
      match vs k with
      | None => VIll
      | Some v =>
          if target_ok s m i ty then
            match step c s (use_op m i ty v) with
            | SOk o' s' e => VOk o' s' e (if moves_from m cat && mvz c then vupd vs k (Some 0) else vs)
            | SErr e l => VErr e l
            | SIll => VIll
            end
          else VIll
      end
  end.
