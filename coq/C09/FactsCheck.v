(* C09 — the source-derived tables (gen/Facts.v, regenerated from the working tree on every run)
   are, member by member, the tables of Micro.v whose interpretations are Model.v's functions. *)
From Common Require Import Prelude.
From C09 Require Export Model Env Micro.
From C09.gen Require Export Facts.

Lemma match_MDefCtor : gen_table MDefCtor = model_table MDefCtor. Proof. reflexivity. Qed.
Lemma match_MCtorValue : gen_table MCtorValue = model_table MCtorValue. Proof. reflexivity. Qed.
Lemma match_MCtorCopy : gen_table MCtorCopy = model_table MCtorCopy. Proof. reflexivity. Qed.
Lemma match_MCtorConvCopy : gen_table MCtorConvCopy = model_table MCtorConvCopy. Proof. reflexivity. Qed.
Lemma match_MCtorMove : gen_table MCtorMove = model_table MCtorMove. Proof. reflexivity. Qed.
Lemma match_MCtorConvMove : gen_table MCtorConvMove = model_table MCtorConvMove. Proof. reflexivity. Qed.
Lemma match_MMakeOptional : gen_table MMakeOptional = model_table MMakeOptional. Proof. reflexivity. Qed.
Lemma match_MDtor : gen_table MDtor = model_table MDtor. Proof. reflexivity. Qed.
Lemma match_MAssignCopy : gen_table MAssignCopy = model_table MAssignCopy. Proof. reflexivity. Qed.
Lemma match_MAssignMove : gen_table MAssignMove = model_table MAssignMove. Proof. reflexivity. Qed.
Lemma match_MAssignConvCopy : gen_table MAssignConvCopy = model_table MAssignConvCopy. Proof. reflexivity. Qed.
Lemma match_MAssignConvMove : gen_table MAssignConvMove = model_table MAssignConvMove. Proof. reflexivity. Qed.
Lemma match_MAssignValue : gen_table MAssignValue = model_table MAssignValue. Proof. reflexivity. Qed.
Lemma match_MEmplace : gen_table MEmplace = model_table MEmplace. Proof. reflexivity. Qed.
Lemma match_MReset : gen_table MReset = model_table MReset. Proof. reflexivity. Qed.
Lemma match_MDcsin : gen_table MDcsin = model_table MDcsin. Proof. reflexivity. Qed.

Lemma match_members : forall m, gen_table m = model_table m.
Proof.
  intros []; [ exact match_MDefCtor | exact match_MCtorValue | exact match_MCtorCopy | exact match_MCtorConvCopy
             | exact match_MCtorMove | exact match_MCtorConvMove | exact match_MMakeOptional | exact match_MDtor
             | exact match_MAssignCopy | exact match_MAssignMove | exact match_MAssignConvCopy
             | exact match_MAssignConvMove | exact match_MAssignValue | exact match_MEmplace | exact match_MReset
             | exact match_MDcsin ].
Qed.
Lemma match_cmp : forall o, gen_cmp o = model_cmp o.
Proof. intros []; reflexivity. Qed.
Lemma match_misc : gen_misc = model_misc.
Proof. reflexivity. Qed.
Lemma match_lay : gen_lay = model_lay.
Proof. reflexivity. Qed.
Lemma match_any : forall m, gen_any m = model_any m.
Proof. intros []; reflexivity. Qed.
Lemma match_holder : gen_holder = model_holder.
Proof. reflexivity. Qed.
Lemma match_env : forall k, gen_env k = model_env k.
Proof. intros []; reflexivity. Qed.
Lemma match_env_generic : gen_env_generic_empty = true.
Proof. reflexivity. Qed.
Lemma match_traits : gen_traits = model_traits.
Proof. reflexivity. Qed.
Lemma match_anyspecial : gen_anyspecial = model_anyspecial.
Proof. reflexivity. Qed.
