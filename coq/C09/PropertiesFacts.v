(* C09 — source-derived obligations, part 1: the micro-operation tables extracted from the clang
   AST of the working tree (gen/Facts.v, regenerated on every run by props/C09/factgen.py) are
   exactly the tables of Micro.v, whose interpretations are — for every frame — the member
   functions of Model.v that the theorems of Properties.v are about (the link lemmas of MicroProofs.v). *)
From Common Require Import Prelude.
From C09 Require Import Model Spec Env Micro MicroProofs Proofs2 FactsCheck.
Local Open Scope N_scope.

(* every Optional member performs the model's storage-lifetime micro-operations, in its order,
   under the same has_value() tests; constructors start from Optional() *)
Theorem facts_optional_members : forall m, gen_table m = model_table m.
Proof. exact FactsCheck.match_members. Qed.
Print Assumptions facts_optional_members.

(* the six comparisons test both operands before dereferencing either; != is !(==) *)
Theorem facts_optional_comparisons : forall o, gen_cmp o = model_cmp o.
Proof. exact FactsCheck.match_cmp. Qed.
Print Assumptions facts_optional_comparisons.

Theorem facts_optional_accessors : gen_misc = model_misc.
Proof. exact FactsCheck.match_misc. Qed.
Print Assumptions facts_optional_accessors.

(* alignas(T) on a byte array of extent sizeof(T); bool hasValue{false} *)
Theorem facts_optional_layout : gen_lay = model_lay.
Proof. exact FactsCheck.match_lay. Qed.
Print Assumptions facts_optional_layout.

Theorem facts_any_members : forall m, gen_any m = model_any m.
Proof. exact FactsCheck.match_any. Qed.
Print Assumptions facts_any_members.

Theorem facts_any_holder_unique : gen_holder = model_holder.
Proof. exact FactsCheck.match_holder. Qed.
Print Assumptions facts_any_holder_unique.

(* the model functions are the interpretations of those tables, on every frame *)
Theorem model_functions_are_table_programs : forall z v a f,
  run_member z model_table MReset a f = Some (m_reset f) /\
  run_member z model_table MDcsin a f = Some (m_default_construct_storage_if_needed f) /\
  run_member z model_table MEmplace (vval v) f = Some (m_emplace v f) /\
  run_member z model_table MAssignValue (vval v) f = Some (m_assign_value v f) /\
  run_member z model_table MCtorValue (vval v) f = Some (m_ctor_value v f) /\
  run_member z model_table MMakeOptional (vval v) f = Some (m_emplace v f) /\
  run_member z model_table MCtorCopy a f = Some (m_ctor_copy (fixed_cfg z) f) /\
  run_member z model_table MCtorConvCopy a f = Some (m_ctor_copy (fixed_cfg z) f) /\
  run_member z model_table MCtorMove a f = Some (m_ctor_move (fixed_cfg z) f) /\
  run_member z model_table MCtorConvMove a f = Some (m_ctor_move (fixed_cfg z) f) /\
  run_member z model_table MAssignCopy a f = Some (m_assign_wrapper (fixed_cfg z) false f) /\
  run_member z model_table MAssignMove a f = Some (m_assign_wrapper (fixed_cfg z) true f) /\
  run_member z model_table MAssignConvCopy a f = Some (m_assign_wrapper (fixed_cfg z) false f) /\
  run_member z model_table MAssignConvMove a f = Some (m_assign_wrapper (fixed_cfg z) false f) /\
  bindO (run_member z model_table MDtor a) (fun _ => lift (release This)) f = Some (m_dtor f).
Proof.
  intros z v a f.
  split; [apply link_reset|].
  split; [apply link_dcsin|].
  split; [apply link_emplace|].
  split; [apply link_assign_value|].
  split; [apply link_ctor_value|].
  split; [apply link_make_optional|].
  split; [apply link_ctor_copy|].
  split; [apply link_ctor_conv_copy|].
  split; [apply link_ctor_move|].
  split; [apply link_ctor_conv_move|].
  split; [apply link_assign_copy|].
  split; [apply link_assign_move|].
  split; [apply link_assign_conv_copy|].
  split; [apply link_assign_conv_move|].
  apply link_dtor.
Qed.
Print Assumptions model_functions_are_table_programs.

(* the alignment theorem instantiated with the attribute read from the source *)
Theorem optional_aligned_from_source : forall alignT sizeT,
  alignT <> 0 ->
  let '(al, sz, off) := layout (lf_alignas_payload gen_lay) alignT sizeT in
  al mod alignT = 0 /\ off mod alignT = 0 /\ sz mod al = 0 /\ sizeT + 1 <= sz.
Proof. rewrite FactsCheck.match_lay. exact Proofs2.layout_aligned. Qed.
Print Assumptions optional_aligned_from_source.

(* getEnvVar<int|float|std::string>: getenv, found = (str != nullptr), engaged-with-conversion or empty *)
Theorem facts_getenv_specialisations : forall k, gen_env k = model_env k.
Proof. exact FactsCheck.match_env. Qed.
Print Assumptions facts_getenv_specialisations.

Theorem facts_getenv_generic_empty : gen_env_generic_empty = true.
Proof. exact FactsCheck.match_env_generic. Qed.
Print Assumptions facts_getenv_generic_empty.

(* rktraits.h: which payloads count as having operator==, and the isSameImpl pair selected by it *)
Theorem facts_traits_operator_equals : gen_traits = model_traits.
Proof. exact FactsCheck.match_traits. Qed.
Print Assumptions facts_traits_operator_equals.

(* Any declares copy operations and a destructor and therefore has NO move constructor / move assignment:
   std::move(any) selects the copy operations (harness ops mc / ma are the model's ACtorCopy / AAssignCopy) *)
Theorem facts_any_no_move_members : gen_anyspecial = model_anyspecial.
Proof. exact FactsCheck.match_anyspecial. Qed.
Print Assumptions facts_any_no_move_members.
