(* C09 — micro-operation programs of Optional's members and token lists of Any's members, as DATA.
   Definitions only.

   props/C09/factgen.py reads the clang AST of the working tree and emits gen/Facts.v: for every
   member of Optional<T> the ordered list of storage-lifetime micro-operations it performs (tests of
   has_value()/hasValue, calls of reset()/default_construct_storage_if_needed()/emplace()/
   operator=(U&&), placement new, explicit destructor call, assignment through value(), stores to
   hasValue), the layout attributes of the storage member, and for Any the statement shapes of its
   members.  [model_table] etc. below are the programs the monadic functions of Model.v are equal
   to (MicroProofs.v); FactsCheck.v / PropertiesFacts.v prove gen = model. *)
From Common Require Import Prelude.
From C09 Require Import Model Env.
Local Open Scope N_scope.

(* ------------------------------------------------------------------ Optional: programs *)
Inductive src :=
| SVal                       (* the value / argument parameter used as a plain (l)value: the payload is copied from it *)
| SValFwd                    (* std::forward<U>(param): moved from iff the caller's argument was an rvalue *)
| SValMove                   (* std::move(param): moved from whenever it is not const, also when the caller passed an LVALUE *)
| SOther (mv : bool)         (* other.value(), mv: wrapped in std::move *)
| SThis.                     (* value() of the receiver *)
Inductive cnd := CHas (c : cell) | CNotHas (c : cell).
Inductive mop :=
| OIf (c : cnd) (t e : list mop)
| OReset                     (* reset() *)
| ODcsin                     (* default_construct_storage_if_needed() *)
| OEmplace (s : src)         (* emplace(s) *)
| OAssignValue (s : src)     (* *this = s   resolving to operator=(U&&) *)
| ONew (s : src)             (* new (storage) T(s) *)
| ONewDefault                (* new (storage) T() *)
| ODtor                      (* value().~T() *)
| OAssign (s : src)          (* value() = s *)
| OFlag (b : bool)           (* hasValue = b *)
| OUnknown.                  (* a statement the extractor does not recognise *)

Inductive meth :=
| MDefCtor | MCtorValue | MCtorCopy | MCtorConvCopy | MCtorMove | MCtorConvMove | MMakeOptional
| MDtor | MAssignCopy | MAssignMove | MAssignConvCopy | MAssignConvMove | MAssignValue
| MEmplace | MReset | MDcsin.
(* mf_fresh: the member starts from Optional() (delegating constructor / default member
   initialisers: storage untouched, hasValue{false}); false for non-constructors *)
Record mfact := { mf_fresh : bool; mf_prog : list mop }.

Definition MO (A : Type) := frame -> option (res A).
Definition lift {A} (m : M A) : MO A := fun f => Some (m f).
Definition bindO {A B} (m : MO A) (k : A -> MO B) : MO B :=
  fun f => match m f with
           | Some (ROk a f') => k a f'
           | Some (RErr e f') => Some (RErr e f')
           | None => None
           end.
(* the argument of a value operation: whether it may be moved from at all (not const), whether the caller passed
   an rvalue, and how it is read (copied: false / moved from: true) *)
Record varg := { va_movable : bool; va_rvalue : bool; va_read : bool -> M N }.
Definition vval (v : N) : varg := {| va_movable := false; va_rvalue := false; va_read := fun _ => ret v |}.
Definition vderef (z rv : bool) : varg :=          (* *other / std::move( *other ) of a non-const wrapper *)
  {| va_movable := true; va_rvalue := rv; va_read := fun m => read_value z Other m |}.
Definition eval_src (z : bool) (arg : varg) (s : src) : M N :=
  match s with
  | SVal => va_read arg false
  | SValFwd => va_read arg (va_rvalue arg && va_movable arg)
  | SValMove => va_read arg (va_movable arg)
  | SOther mv => read_value z Other mv
  | SThis => read_value z This false
  end.
(* the argument a member passes on when it calls emplace(s) / operator=(U&&)(s) *)
Definition sub_arg (z : bool) (arg : varg) (s : src) : varg :=
  match s with
  | SVal => {| va_movable := va_movable arg; va_rvalue := false; va_read := va_read arg |}
  | SValFwd => arg
  | SValMove => {| va_movable := va_movable arg; va_rvalue := true; va_read := va_read arg |}
  | SOther mv => {| va_movable := mv; va_rvalue := mv; va_read := fun m => read_value z Other m |}
  | SThis => {| va_movable := true; va_rvalue := false; va_read := fun m => read_value z This m |}
  end.
Definition eval_cnd (c : cnd) : M bool :=
  match c with
  | CHas x => has_value x
  | CNotHas x => b <- has_value x ;; ret (negb b)
  end.

(* n: nesting + call depth still allowed (8 suffices for every member); None = unknown statement
   or depth exhausted *)
Fixpoint interp (n : nat) (z : bool) (tbl : meth -> mfact) (arg : varg) (p : list mop) {struct n} : MO unit :=
  match n with
  | O => fun _ => None
  | S n' =>
      let op (o : mop) : MO unit :=
        match o with
        | OIf c t e => bindO (lift (eval_cnd c))
                             (fun b => if b then interp n' z tbl arg t else interp n' z tbl arg e)
        | OReset => interp n' z tbl arg (mf_prog (tbl MReset))
        | ODcsin => interp n' z tbl arg (mf_prog (tbl MDcsin))
        | OEmplace s => interp n' z tbl (sub_arg z arg s) (mf_prog (tbl MEmplace))
        | OAssignValue s => interp n' z tbl (sub_arg z arg s) (mf_prog (tbl MAssignValue))
        | ONew s => lift (v <- eval_src z arg s ;; placement_new This v false)
        | ONewDefault => lift (placement_new This 0 true)
        | ODtor => lift (dtor_call This)
        | OAssign s => lift (v <- eval_src z arg s ;; assign_to This v)
        | OFlag b => lift (set_flag This b)
        | OUnknown => fun _ => None
        end in
      (fix go (p : list mop) : MO unit :=
         match p with
         | [] => lift (ret tt)
         | o :: p' => bindO (op o) (fun _ => go p')
         end) p
  end.
Definition run_member (z : bool) (tbl : meth -> mfact) (m : meth) (arg : varg) : MO unit :=
  interp 8 z tbl arg (mf_prog (tbl m)).

Definition assign_body (mv : bool) : list mop :=
  [OIf (CHas Other) [ODcsin; OAssign (SOther mv); OFlag true] [OReset]].
Definition model_table (m : meth) : mfact :=
  match m with
  | MDefCtor => {| mf_fresh := true; mf_prog := [] |}
  | MCtorValue => {| mf_fresh := true; mf_prog := [OEmplace SVal] |}
  | MCtorCopy | MCtorConvCopy =>
      {| mf_fresh := true; mf_prog := [OIf (CHas Other) [OAssignValue (SOther false)] []] |}
  | MCtorMove | MCtorConvMove =>
      {| mf_fresh := true; mf_prog := [OIf (CHas Other) [OEmplace (SOther true)] []] |}
  | MMakeOptional => {| mf_fresh := true; mf_prog := [OEmplace SValFwd] |}        (* ret.emplace(std::forward<Args>(args)...) *)
  | MDtor => {| mf_fresh := false; mf_prog := [OReset] |}
  | MAssignCopy => {| mf_fresh := false; mf_prog := assign_body false |}
  | MAssignMove => {| mf_fresh := false; mf_prog := assign_body true |}
  | MAssignConvCopy => {| mf_fresh := false; mf_prog := assign_body false |}
  | MAssignConvMove => {| mf_fresh := false; mf_prog := assign_body false |}   (* copies the payload *)
  | MAssignValue => {| mf_fresh := false; mf_prog := [ODcsin; OAssign SVal; OFlag true] |}
  | MEmplace => {| mf_fresh := false; mf_prog := [OReset; ONew SValFwd; OFlag true] |}   (* new (storage) T(std::forward<Args>(args)...) *)
  | MReset => {| mf_fresh := false; mf_prog := [OIf (CHas This) [ODtor] []; OFlag false] |}
  | MDcsin => {| mf_fresh := false; mf_prog := [OIf (CNotHas This) [ONewDefault; OFlag true] []] |}
  end.

(* ------------------------------------------------------------------ Optional: comparisons etc. *)
Inductive cmpfact :=
| CmpGuarded (o : cmpop)     (* (lhs && rhs) && ( *lhs o *rhs ): both tests precede the dereferences *)
| CmpNotEq                   (* !(lhs == rhs) through Optional's operator== *)
| CmpUnknown.
Definition model_cmp (o : cmpop) : cmpfact :=
  match o with CNe => CmpNotEq | _ => CmpGuarded o end.
Definition cmp_sem (c : cfg) (tbl : cmpop -> cmpfact) (o : cmpop) : option (M bool) :=
  match tbl o with
  | CmpGuarded o' => Some (m_cmp_core c o')
  | CmpNotEq => match tbl CEq with
                | CmpGuarded o' => Some (r <- m_cmp_core c o' ;; ret (negb r))
                | _ => None
                end
  | CmpUnknown => None
  end.

Record optmisc := {
  om_value_or_guarded : bool;   (* value_or: has_value() ? value() : static_cast<T>(default) *)
  om_has_value_flag : bool;     (* has_value() returns hasValue *)
  om_bool_has_value : bool;     (* operator bool returns has_value() *)
  om_value_storage : bool;      (* both value() overloads reinterpret the storage member, nothing else *)
  om_deref_value : bool;        (* operator* / operator-> go through value() *)
  om_tostring_const : bool }.   (* toString() returns a string literal, touches no member *)
Definition model_misc : optmisc :=
  {| om_value_or_guarded := true; om_has_value_flag := true; om_bool_has_value := true;
     om_value_storage := true; om_deref_value := true; om_tostring_const := true |}.

(* layout of the storage member, read for the instantiation with a payload P of alignment 32 and
   size 64 (declared by the extractor's instantiation unit) *)
Record layfact := {
  lf_alignas_payload : bool;    (* storage carries alignas(<the payload type>) *)
  lf_align_value : N;           (* the evaluated alignment attribute *)
  lf_elem_bytes : N;            (* sizeof the array element type *)
  lf_extent : N;                (* number of elements *)
  lf_payload_align : N; lf_payload_size : N;
  lf_flag_default_false : bool }.  (* bool hasValue{false} *)
Definition model_lay : layfact :=
  {| lf_alignas_payload := true; lf_align_value := 32; lf_elem_bytes := 1; lf_extent := 64;
     lf_payload_align := 32; lf_payload_size := 64; lf_flag_default_false := true |}.

(* ------------------------------------------------------------------ Any *)
Inductive ameth :=
| AMCopyCtor | AMCopyAssign | AMValueCtor | AMValueAssign | AMEq | AMNe | AMGet | AMGetConst
| AMIs | AMValid | AMToString | AMDtor.
Inductive atok :=
| TInitCloneIfValid    (* currentValue(copy.valid() ? copy.currentValue->clone() : nullptr) *)
| TInitShare           (* currentValue(copy.currentValue): the holder is shared *)
| TInitNewHandle       (* currentValue(new handle<T>(value)) *)
| TTempCopy            (* Any temp(rhs); *)
| TMoveFromTemp        (* currentValue = std::move(temp.currentValue); *)
| TAssignShare         (* currentValue = rhs.currentValue; *)
| TAssignNewHandle     (* currentValue = <holder>(new handle<T>(rhs)); *)
| TGuardEitherInvalid  (* if (!valid() || !rhs.valid()) return valid() == rhs.valid(); *)
| TRetIsSame           (* return currentValue->isSame(rhs.currentValue.get()); *)
| TRetNotEq            (* return !( *this == rhs); *)
| TGuardInvalidThrow   (* if (!valid()) throw ...; *)
| TTypedRetElseThrow   (* if (is<T>()) return *static_cast<T*>(currentValue->data()); else { ...currentValue->... throw } *)
| TRetValidAndTypeEq   (* return valid() && (strcmp(typeid(T).name(), currentValue->valueTypeID().name()) == 0); *)
| TRetHolderNonNull    (* return currentValue.get() != nullptr;  (or the holder's operator bool) *)
| TPrintNameIfValid    (* every currentValue-> in toString is inside if (valid()) *)
| TPrintName           (* toString dereferences currentValue unconditionally *)
| TDefaulted           (* = default *)
| TUnknown.
Inductive holderkind := HUnique | HShared | HOther.

Definition model_any (m : ameth) : list atok :=
  match m with
  | AMCopyCtor => [TInitCloneIfValid]
  | AMCopyAssign => [TTempCopy; TMoveFromTemp]
  | AMValueCtor => [TInitNewHandle]
  | AMValueAssign => [TAssignNewHandle]
  | AMEq => [TGuardEitherInvalid; TRetIsSame]
  | AMNe => [TRetNotEq]
  | AMGet | AMGetConst => [TGuardInvalidThrow; TTypedRetElseThrow]
  | AMIs => [TRetValidAndTypeEq]
  | AMValid => [TRetHolderNonNull]
  | AMToString => [TPrintNameIfValid]
  | AMDtor => [TDefaulted]
  end.
Definition model_holder : holderkind := HUnique.

(* what the token lists mean, in the vocabulary of Model.v (None = the holder is dereferenced
   although it may be null, or the shape is not understood) *)
Definition any_eq_sem (l : list atok) (x y : anyw) : option (option bool) :=
  match l with
  | [TGuardEitherInvalid; TRetIsSame] => Some (a_eq true x y)
  | [TRetIsSame] => Some (a_eq false x y)
  | _ => None
  end.
Inductive getres := GVal (v : N) | GThrow | GNullDeref.
Definition any_get_sem (l : list atok) (x : anyw) (t : N) : option getres :=
  let typed := match x with
               | Some h => if N.eqb (h_tag h) t then GVal (h_val h) else GThrow
               | None => GNullDeref      (* is<T>() is false, the else branch builds its message from currentValue-> *)
               end in
  match l with
  | [TGuardInvalidThrow; TTypedRetElseThrow] => Some (match x with None => GThrow | Some _ => typed end)
  | [TTypedRetElseThrow] => Some typed
  | _ => None
  end.
Definition any_str_sem (l : list atok) (x : anyw) : option (option (option N)) :=
  match l with
  | [TPrintNameIfValid] => Some (Some (match x with Some h => Some (h_tag h) | None => None end))
  | [TPrintName] => Some (match x with Some h => Some (Some (h_tag h)) | None => None end)
  | _ => None
  end.
(* a copy owns a holder of its own (clone) or is empty when the source is *)
Definition any_copy_sem (hk : holderkind) (l : list atok) (w : aworld) (x : anyw) : option (anyw * aworld) :=
  match hk, l with
  | HUnique, [TInitCloneIfValid] => Some (a_clone w x)
  | _, _ => None
  end.

(* ------------------------------------------------------------------ getEnvVar.h *)
Inductive econv := CvAtoi | CvAtofFloat | CvString | CvOther.
Inductive etok :=
| EGetenv                               (* auto *str = getenv(var.c_str()); *)
| EFoundNonNull                         (* bool found = (str != nullptr); *)
| ERetFoundConvElseEmpty (c : econv)    (* return found ? Optional<K>(conv(str)) : Optional<K>(); *)
| EUnknown.
Definition conv_of (k : kind) : econv :=
  match k with KInt => CvAtoi | KFloat => CvAtofFloat | KStr => CvString end.
Definition model_env (k : kind) : list etok := [EGetenv; EFoundNonNull; ERetFoundConvElseEmpty (conv_of k)].
Definition econv_eqb (a b : econv) : bool :=
  match a, b with CvAtoi, CvAtoi | CvAtofFloat, CvAtofFloat | CvString, CvString => true | _, _ => false end.
(* what such a body does for the wrapper store, given what getenv returned *)
Definition env_sem (atoi atof : N -> N) (l : list etok) (k : kind) (str : option N) (i : N) : option op :=
  match l with
  | [EGetenv; EFoundNonNull; ERetFoundConvElseEmpty c] =>
      if econv_eqb c (conv_of k) then Some (m_getenv atoi atof k str i) else None
  | _ => None
  end.

(* ------------------------------------------------------------------ traits/rktraits.h *)
(* what Any's comparison path takes from the traits: HasOperatorEqualsT<T>::value evaluated by the
   compiler for representative payload types, and the two isSameImpl overloads it selects between *)
Record traitfacts := {
  tf_eq_int : bool; tf_eq_string : bool; tf_eq_payload : bool;   (* types WITH operator== *)
  tf_eq_noeq : bool;                                             (* a struct WITHOUT operator== *)
  tf_same_dispatch : bool;      (* handle<T>::isSame(other) returns isSameImpl<T>(other) *)
  tf_impl_eq_shape : bool;      (* HasOperatorEquals overload: dynamic_cast, null test, value == value *)
  tf_impl_noeq_false : bool }.  (* NoOperatorEquals overload: return false *)
Definition model_traits : traitfacts :=
  {| tf_eq_int := true; tf_eq_string := true; tf_eq_payload := true; tf_eq_noeq := false;
     tf_same_dispatch := true; tf_impl_eq_shape := true; tf_impl_noeq_false := true |}.

(* implicit special members of Any: the user-declared copy constructor, copy assignment and destructor
   suppress the implicit move constructor / move assignment, so an rvalue Any is COPIED (the source
   stays valid); the model therefore has no move operations for Any *)
Record anyspecial := { as_copy_ctor_user : bool; as_copy_assign_user : bool; as_move_ctor_exists : bool; as_move_assign_exists : bool }.
Definition model_anyspecial : anyspecial :=
  {| as_copy_ctor_user := true; as_copy_assign_user := true; as_move_ctor_exists := false; as_move_assign_exists := false |}.
