(* C09 — Any: every holder allocated during a history is freed exactly once. *)
From Common Require Import Prelude.
From C09 Require Import Model Spec ProofsAny.
Local Open Scope N_scope.

Definition holds (w : aworld) (k id : N) : Prop :=
  exists h, a_store w k = Some (Some h) /\ h_id h = id.
Lemma owned_holds w id : owned w id <-> exists k, holds w k id.
Proof. unfold owned, holds. split; intros (a & b & H); eauto. Qed.

Definition slot_old (w : aworld) (i : N) (old : anyw) : Prop :=
  a_store w i = Some old \/ (a_store w i = None /\ old = None).

Inductive shape (w w' : aworld) : Prop :=
| ShSame : w' = w -> shape w w'
| ShDrop i old c : slot_old w i old -> (c = None \/ c = Some None) ->
    w' = a_upd (a_free w old) i c -> shape w w'
| ShFresh i old t v : slot_old w i old ->
    w' = a_upd (a_free (snd (a_new w t v)) old) i (Some (Some (fst (a_new w t v)))) -> shape w w'
| ShSet i h h' : a_store w i = Some (Some h) -> h_id h' = h_id h ->
    w' = a_upd w i (Some (Some h')) -> shape w w'.

Lemma a_step_shape fixed w o x w' : a_step fixed w o = AOk x w' -> shape w w'.
Proof.
  intro H. destruct fixed, o; cbn [a_step a_eq a_new a_clone] in H; any_cases w; try discriminate;
    inversion H; subst; clear H;
    try (apply ShSame; reflexivity);
    try (eapply ShSet; [eassumption | | reflexivity]; reflexivity);
    match goal with
    | |- shape ?w (a_upd {| a_store := _; a_next := _; a_log := a_log ?w ++ [HNew _] |} ?i
                         (Some (Some {| h_id := _; h_tag := ?t; h_val := ?v |}))) =>
        apply (ShFresh w _ i None t v)
    | |- shape ?w (a_upd {| a_store := _; a_next := _; a_log := (a_log ?w ++ [HNew _]) ++ [HFree (h_id ?h)] |} ?i
                         (Some (Some {| h_id := _; h_tag := ?t; h_val := ?v |}))) =>
        apply (ShFresh w _ i (Some h) t v)
    | |- shape ?w (a_upd ?w ?i ?c) => apply (ShDrop w _ i None c)
    | |- shape ?w (a_upd {| a_store := _; a_next := _; a_log := a_log ?w ++ [HFree (h_id ?h)] |} ?i ?c) =>
        apply (ShDrop w _ i (Some h) c)
    end;
    try reflexivity; auto;
    first [ left; assumption | right; split; [assumption | reflexivity] ].
Qed.

Record inv (w : aworld) : Prop := {
  i_lt : forall id, owned w id -> id < a_next w;
  i_uniq : forall k k' id, holds w k id -> holds w k' id -> k = k';
  i_new : forall id, count_new id (a_log w) = if id <? a_next w then 1%nat else 0%nat;
  i_free : forall id, (owned w id -> count_free id (a_log w) = 0%nat) /\
                      (~ owned w id -> count_free id (a_log w) = count_new id (a_log w)) }.

Lemma inv_init : inv a_init.
Proof.
  split.
  - intros id (i & h & H & _). discriminate.
  - intros k k' id (h & H & _). discriminate.
  - intro id. cbn. destruct (id <? 0) eqn:E; [lia | reflexivity].
  - intro id. split; reflexivity.
Qed.

Lemma count_new_app id l e :
  count_new id (l ++ [e]) = (count_new id l + match e with HNew k => if N.eqb k id then 1 else 0 | _ => 0 end)%nat.
Proof. unfold count_new. rewrite filter_app, app_length. destruct e; cbn; [destruct (N.eqb id0 id)|]; reflexivity. Qed.
Lemma count_free_app id l e :
  count_free id (l ++ [e]) = (count_free id l + match e with HFree k => if N.eqb k id then 1 else 0 | _ => 0 end)%nat.
Proof. unfold count_free. rewrite filter_app, app_length. destruct e; cbn; [|destruct (N.eqb id0 id)]; reflexivity. Qed.

(* freeing the content [old] of slot i and overwriting the slot with a holder-free content *)
Lemma holds_drop w i old c k id :
  slot_old w i old -> (c = None \/ c = Some None) ->
  (holds (a_upd (a_free w old) i c) k id <-> holds w k id /\ k <> i).
Proof.
  intros Ho Hc. unfold holds.
  assert (Hst : a_store (a_upd (a_free w old) i c) k = if N.eqb k i then c else a_store w k).
  { destruct old; reflexivity. }
  rewrite Hst. destruct (N.eqb_spec k i) as [E|E].
  - split.
    + intros (h & H & _). destruct Hc; subst c; discriminate.
    + intros [_ F]. contradiction.
  - split; [intros H; split; [exact H | exact E] | intros [H _]; exact H].
Qed.

Lemma old_id w i old k id :
  inv w -> slot_old w i old -> holds w k id -> k <> i ->
  match old with Some h => h_id h <> id | None => True end.
Proof.
  intros Hi Ho Hk Hne. destruct old as [h|]; [|exact I].
  intro E. apply Hne. apply (i_uniq w Hi k i id Hk).
  destruct Ho as [Ho|[_ Ho]]; [|discriminate]. exists h. split; assumption.
Qed.

Lemma inv_drop w i old c :
  inv w -> slot_old w i old -> (c = None \/ c = Some None) -> inv (a_upd (a_free w old) i c).
Proof.
  intros Hi Ho Hc.
  set (w' := a_upd (a_free w old) i c).
  assert (Hn : a_next w' = a_next w) by (destruct old; reflexivity).
  assert (Hh : forall k id, holds w' k id <-> holds w k id /\ k <> i) by (intros; apply holds_drop; assumption).
  assert (Hown : forall id, owned w' id -> owned w id).
  { intros id Ho'. apply owned_holds in Ho'. destruct Ho' as (k & Hk). apply Hh in Hk. apply owned_holds. exists k. tauto. }
  split.
  - intros id Ho'. rewrite Hn. apply (i_lt w Hi). auto.
  - intros k k' id Hk Hk'. apply Hh in Hk. apply Hh in Hk'. apply (i_uniq w Hi k k' id); tauto.
  - intro id. rewrite Hn. rewrite <- (i_new w Hi id). destruct old as [h|]; [|reflexivity].
    cbn [w' a_upd a_free a_log]. rewrite count_new_app. lia.
  - intro id. destruct old as [h|].
    + assert (Hlog : a_log w' = a_log w ++ [HFree (h_id h)]) by reflexivity.
      rewrite Hlog, count_free_app, count_new_app.
      assert (Hhold : holds w i (h_id h)).
      { destruct Ho as [Ho|[_ Ho]]; [|discriminate]. exists h. split; [assumption|reflexivity]. }
      assert (Hold : owned w (h_id h)) by (apply owned_holds; exists i; exact Hhold).
      destruct (i_free w Hi id) as [F1 F2].
      destruct (N.eqb_spec (h_id h) id) as [E|E].
      * subst id. split.
        -- intro Ho'. apply owned_holds in Ho'. destruct Ho' as (k & Hk). apply Hh in Hk. destruct Hk as [Hk Hne].
           elim Hne. apply (i_uniq w Hi k i (h_id h)); assumption.
        -- intros _. rewrite (F1 Hold). rewrite (i_new w Hi). pose proof (i_lt w Hi _ Hold) as L.
           destruct (h_id h <? a_next w) eqn:EE; [reflexivity | lia].
      * split.
        -- intro Ho'. rewrite (F1 (Hown _ Ho')). reflexivity.
        -- intro Hno. rewrite Nat.add_0_r, Nat.add_0_r. apply F2. intro Hw. apply Hno.
           apply owned_holds in Hw. destruct Hw as (k & Hk). apply owned_holds. exists k. apply Hh. split; [exact Hk|].
           intro Eq. subst k. apply E. destruct Hhold as (h1 & H1 & H1'), Hk as (h2 & H2 & H2'). congruence.
    + assert (Hlog : a_log w' = a_log w) by reflexivity. rewrite Hlog.
      destruct (i_free w Hi id) as [F1 F2]. split.
      * intro Ho'. apply F1. auto.
      * intro Hno. apply F2. intro Hw. apply Hno.
        apply owned_holds in Hw. destruct Hw as (k & Hk). apply owned_holds. exists k. apply Hh. split; [exact Hk|].
        intro Eq. subst k. destruct Ho as [Ho|[Ho _]]; destruct Hk as (h2 & H2 & _); congruence.
Qed.

Lemma inv_equiv w w2 :
  inv w -> (forall k id, holds w2 k id <-> holds w k id) -> a_next w2 = a_next w ->
  (forall id, count_new id (a_log w2) = count_new id (a_log w)) ->
  (forall id, count_free id (a_log w2) = count_free id (a_log w)) -> inv w2.
Proof.
  intros Hi Hh Hn Hc Hf.
  assert (Ho : forall id, owned w2 id <-> owned w id).
  { intro id. rewrite !owned_holds. split; intros (k & Hk); exists k; apply Hh; exact Hk. }
  split.
  - intros id H. rewrite Hn. apply (i_lt w Hi). apply Ho. exact H.
  - intros k k' id H H'. apply (i_uniq w Hi k k' id); apply Hh; assumption.
  - intro id. rewrite Hc, Hn. apply (i_new w Hi).
  - intro id. rewrite Hc, Hf. destruct (i_free w Hi id) as [F1 F2]. split; intro H.
    + apply F1. apply Ho. exact H.
    + apply F2. intro H'. apply H. apply Ho. exact H'.
Qed.

Lemma inv_alloc w i t v :
  inv w -> (forall id, ~ holds w i id) ->
  inv (a_upd (snd (a_new w t v)) i (Some (Some (fst (a_new w t v))))).
Proof.
  intros Hi Hempty.
  set (w' := a_upd (snd (a_new w t v)) i (Some (Some (fst (a_new w t v))))).
  assert (Hn : a_next w' = a_next w + 1) by reflexivity.
  assert (Hlog : a_log w' = a_log w ++ [HNew (a_next w)]) by reflexivity.
  assert (Hh : forall k id, holds w' k id <-> (k = i /\ id = a_next w) \/ (k <> i /\ holds w k id)).
  { intros k id. unfold holds. cbn [w' a_upd a_store a_new fst snd].
    destruct (N.eqb_spec k i) as [E|E].
    - split.
      + intros (h & H & Hid). inversion H; subst. left. split; reflexivity.
      + intros [[_ Hid]|[F _]]; [|contradiction]. subst id. eexists. split; reflexivity.
    - split; [intro H; right; split; assumption | intros [[F _]|[_ H]]; [contradiction | exact H]]. }
  assert (Hfresh : ~ owned w (a_next w)) by (intro H; apply (i_lt w Hi) in H; lia).
  split.
  - intros id H. apply owned_holds in H. destruct H as (k & Hk). apply Hh in Hk. rewrite Hn.
    destruct Hk as [[_ E]|[_ Hk]]; [lia|].
    assert (L : id < a_next w) by (apply (i_lt w Hi); apply owned_holds; eauto). lia.
  - intros k k' id H H'. apply Hh in H. apply Hh in H'.
    destruct H as [[E1 E2]|[N1 H1]], H' as [[E1' E2']|[N1' H1']]; try congruence.
    + subst. elim Hfresh. apply owned_holds. eauto.
    + subst. elim Hfresh. apply owned_holds. eauto.
    + apply (i_uniq w Hi k k' id); assumption.
  - intro id. rewrite Hlog, count_new_app, Hn, (i_new w Hi id).
    destruct (N.eqb_spec (a_next w) id) as [E|E].
    + subst id. destruct (a_next w <? a_next w) eqn:E1; [lia|]. destruct (a_next w <? a_next w + 1) eqn:E2; [reflexivity | lia].
    + destruct (id <? a_next w) eqn:E1, (id <? a_next w + 1) eqn:E2; try reflexivity; lia.
  - intro id. rewrite Hlog, count_new_app, count_free_app, Nat.add_0_r.
    destruct (i_free w Hi id) as [F1 F2]. split.
    + intro H. apply owned_holds in H. destruct H as (k & Hk). apply Hh in Hk.
      destruct Hk as [[_ E]|[_ Hk]].
      * subst id. rewrite (F2 Hfresh), (i_new w Hi). destruct (a_next w <? a_next w) eqn:E1; [lia | reflexivity].
      * apply F1. apply owned_holds. eauto.
    + intro Hno.
      assert (Hne : a_next w <> id).
      { intro E. apply Hno. apply owned_holds. exists i. apply Hh. left. split; [reflexivity | symmetry; exact E]. }
      destruct (N.eqb_spec (a_next w) id) as [E|_]; [contradiction|]. rewrite Nat.add_0_r.
      apply F2. intro Hw. apply Hno. apply owned_holds in Hw. destruct Hw as (k & Hk).
      apply owned_holds. exists k. apply Hh. right. split; [|exact Hk].
      intro E. subst k. exact (Hempty id Hk).
Qed.

Lemma inv_shape w w' : inv w -> shape w w' -> inv w'.
Proof.
  intros Hi [E | i old c Ho Hc E | i old t v Ho E | i h h' Hs Hid E]; subst w'.
  - exact Hi.
  - apply inv_drop; assumption.
  - pose proof (inv_drop w i old None Hi Ho (or_introl eq_refl)) as Hd.
    set (wa := a_upd (a_free w old) i None) in *.
    assert (He : forall id, ~ holds wa i id).
    { intros id (hh & H & _). unfold wa in H. cbn in H. destruct old; cbn in H; rewrite N.eqb_refl in H; discriminate. }
    pose proof (inv_alloc wa i t v Hd He) as Ha.
    eapply inv_equiv; [exact Ha | | | | ].
    + intros k id. unfold holds. destruct old; cbn; destruct (N.eqb k i); reflexivity.
    + destruct old; reflexivity.
    + intro id. unfold wa. destruct old; cbn [a_log a_upd a_free a_new snd fst a_next]; rewrite ?count_new_app;
        repeat match goal with |- context [N.eqb ?a ?b] => destruct (N.eqb a b) end; lia.
    + intro id. unfold wa. destruct old; cbn [a_log a_upd a_free a_new snd fst a_next]; rewrite ?count_free_app;
        repeat match goal with |- context [N.eqb ?a ?b] => destruct (N.eqb a b) end; lia.
  - eapply inv_equiv; [exact Hi | | reflexivity | reflexivity | reflexivity].
    intros k id. unfold holds. cbn. destruct (N.eqb_spec k i) as [E|E]; [|reflexivity].
    subst k. rewrite Hs. split; intros (hh & H & Hh); inversion H; subst; eexists; split; try reflexivity; congruence.
Qed.

Lemma a_step_inv fixed w o x w' : inv w -> a_step fixed w o = AOk x w' -> inv w'.
Proof. intros Hi H. eapply inv_shape; [exact Hi | eapply a_step_shape; exact H]. Qed.

Lemma a_run_from_inv fixed h : forall r, inv (ar_world r) -> inv (ar_world (a_run_from fixed h r)).
Proof.
  induction h as [|o h IH]; intros r Hi; cbn [a_run_from]; [exact Hi|].
  destruct (ar_crash r); [exact Hi|].
  destruct (a_step fixed (ar_world r) o) eqn:Hs; try (apply IH; cbn [ar_world]); try exact Hi.
  eapply a_step_inv; eassumption.
Qed.

(* ------------------------------------------------------------------ closing *)
Lemma a_step_alive fixed w o x w' k :
  a_step fixed w o = AOk x w' -> a_store w' k <> None -> a_store w k <> None \/ In k (a_ctor_index o).
Proof.
  intros H Hk. destruct fixed, o; cbn [a_step a_ctor_index a_new a_clone In a_eq] in *; any_cases w;
    try discriminate; inversion H; subst; clear H; revert Hk; cbn;
    repeat match goal with |- context [N.eqb k ?i] => destruct (N.eqb_spec k i); subst end;
    intro Hk; auto; left; congruence.
Qed.

Lemma a_run_from_alive fixed h : forall r k,
  a_store (ar_world (a_run_from fixed h r)) k <> None ->
  a_store (ar_world r) k <> None \/ In k (flat_map a_ctor_index h).
Proof.
  induction h as [|o h IH]; intros r k Hk; cbn [a_run_from flat_map] in *; [left; exact Hk|].
  destruct (ar_crash r); [left; exact Hk|].
  destruct (a_step fixed (ar_world r) o) eqn:Hs.
  - apply IH in Hk. cbn [ar_world] in Hk. destruct Hk as [Hk|Hk].
    + destruct (a_step_alive _ _ _ _ _ _ Hs Hk) as [H|H]; [left; exact H | right; apply in_or_app; left; exact H].
    + right. apply in_or_app. right. exact Hk.
  - left. exact Hk.
  - apply IH in Hk. cbn [ar_world] in Hk. destruct Hk as [Hk|Hk]; [left; exact Hk | right; apply in_or_app; right; exact Hk].
Qed.

Lemma a_run_from_dtors fixed L : forall r k,
  ar_crash r = false -> In k L \/ a_store (ar_world r) k = None ->
  a_store (ar_world (a_run_from fixed (map ADtor L) r)) k = None.
Proof.
  induction L as [|i L IH]; intros r k Hc Hk; cbn [map a_run_from].
  - destruct Hk as [[]|Hk]. exact Hk.
  - rewrite Hc. cbn [a_step]. destruct (a_store (ar_world r) i) as [x|] eqn:Hi.
    + apply IH; [reflexivity|]. cbn [ar_world a_upd a_store].
      destruct (N.eqb_spec k i) as [E|E]; [right; reflexivity|].
      destruct Hk as [[Hk|Hk]|Hk]; [congruence | left; exact Hk | right].
      destruct x; exact Hk.
    + apply IH; [reflexivity|]. cbn [ar_world].
      destruct Hk as [[Hk|Hk]|Hk]; [right; congruence | left; exact Hk | right; exact Hk].
Qed.

Lemma any_closed_all_dead h k : a_store (ar_world (a_run_closed true h)) k = None.
Proof.
  unfold a_run_closed. set (r := a_run true h).
  apply a_run_from_dtors; [apply any_run_total|].
  destruct (a_store (ar_world r) k) as [x|] eqn:Hk; [left | right; reflexivity].
  unfold a_closing. apply filter_In. split.
  - apply nodup_In.
    pose proof (a_run_from_alive true h {| ar_world := a_init; ar_outs := []; ar_crash := false |} k) as H.
    fold (a_run true h) in H. fold r in H.
    destruct H as [H|H]; [congruence | elim H; reflexivity | exact H].
  - unfold a_alive. rewrite Hk. reflexivity.
Qed.

(* every holder allocated in a history is freed exactly once by the end; nothing else is freed *)
Lemma any_freed_exactly_once h id :
  let w := ar_world (a_run_closed true h) in
  count_free id (a_log w) = count_new id (a_log w) /\
  count_new id (a_log w) = if id <? a_next w then 1%nat else 0%nat.
Proof.
  intro w.
  assert (Hi : inv w).
  { unfold w, a_run_closed. apply a_run_from_inv. apply a_run_from_inv. exact inv_init. }
  split; [|apply (i_new w Hi)].
  apply (i_free w Hi id). intros (i & hh & H & _). unfold w in H. rewrite any_closed_all_dead in H. discriminate.
Qed.

(* during a history: allocated at most once, not freed while owned, freed exactly once when no longer owned *)
Lemma any_no_double_free h id :
  let w := ar_world (a_run true h) in
  (count_new id (a_log w) <= 1)%nat /\
  (owned w id -> count_new id (a_log w) = 1%nat /\ count_free id (a_log w) = 0%nat) /\
  (~ owned w id -> count_free id (a_log w) = count_new id (a_log w)).
Proof.
  intro w.
  assert (Hi : inv w) by (unfold w; apply a_run_from_inv; exact inv_init).
  pose proof (i_new w Hi id) as Hn. destruct (i_free w Hi id) as [F1 F2].
  repeat split.
  - rewrite Hn. destruct (id <? a_next w); lia.
  - rewrite Hn. apply (i_lt w Hi) in H. destruct (id <? a_next w) eqn:L; [reflexivity | lia].
  - apply F1. exact H.
  - exact F2.
Qed.

(* two living Any never share a holder *)
Lemma any_holders_unique h i j hi hj :
  let w := ar_world (a_run true h) in
  a_store w i = Some (Some hi) -> a_store w j = Some (Some hj) -> h_id hi = h_id hj -> i = j.
Proof.
  intros w Hi Hj E.
  assert (Hinv : inv w) by (unfold w; apply a_run_from_inv; exact inv_init).
  apply (i_uniq w Hinv i j (h_id hi)); [exists hi | exists hj]; split; auto.
Qed.
