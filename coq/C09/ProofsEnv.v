(* C09 — getEnvVar: engaged iff the variable is set, value = conversion of the string; the result is
   an ordinary Optional of the history. *)
From Common Require Import Prelude.
From C09 Require Import Model Spec Proofs Proofs2 Env.
Local Open Scope N_scope.

Section Oracle.
  Variables atoi atof : N -> N.
  Notation desugar_from := (desugar_from atoi atof).
  Notation desugar := (desugar atoi atof).
  Notation env_after := (env_after atoi atof).

  Lemma desugar_from_app e h t :
    desugar_from e (h ++ t) = desugar_from e h ++ desugar_from (env_after e h) t.
  Proof.
    revert e. induction h as [|x h IH]; intro e; [reflexivity|].
    cbn [app desugar_from Env.desugar_from env_after Env.env_after].
    destruct (estep atoi atof e x) as [e' l]. cbn [fst]. rewrite IH, app_assoc. reflexivity.
  Qed.

  (* has_value() of the Optional returned by getEnvVar<K>(name) <=> name is set at that moment
     (the empty string included); value() is the conversion of exactly that string *)
  Lemma getenv_engaged_iff_set z h i k n :
    fst (spec_run z aempty (desugar h)) i = None ->
    let str := env_after env0 h n in
    r_outs (run (fixed_cfg z) (desugar (h ++ [GetEnv i k n; EOp (HasValue i); EOp (Value i)]))) =
    r_outs (run (fixed_cfg z) (desugar h)) ++
      [Some OUnit; Some (OBool (is_some str)); Some (OVal (option_map (parse atoi atof k) str))].
  Proof.
    intros Hfree str. unfold Env.desugar. rewrite desugar_from_app.
    cbn [Env.desugar_from estep app]. fold str.
    destruct str as [sid|]; cbn [m_getenv].
    - eapply (last_op_gives z _ _ _ _ i (Some (parse atoi atof k sid))).
      + cbn [spec_step]. unfold Env.desugar in Hfree. rewrite Hfree. reflexivity.
      + reflexivity.
    - eapply (last_op_gives z _ _ _ _ i None).
      + cbn [spec_step]. unfold Env.desugar in Hfree. rewrite Hfree. reflexivity.
      + reflexivity.
  Qed.

  Lemma env_after_set h n sid : env_after env0 (h ++ [EnvSet n sid]) n = Some sid.
  Proof.
    generalize env0. induction h as [|x h IH]; intro e; cbn; [rewrite N.eqb_refl; reflexivity | apply IH].
  Qed.
  Lemma env_after_unset h n : env_after env0 (h ++ [EnvUnset n]) n = None.
  Proof.
    generalize env0. induction h as [|x h IH]; intro e; cbn; [rewrite N.eqb_refl; reflexivity | apply IH].
  Qed.

  (* a history with environment operations is an Optional history like any other *)
  Lemma getenv_histories_safe z h w :
    r_err (run_closed (fixed_cfg z) (desugar h)) = None /\
    lifecycle w (r_log (run_closed (fixed_cfg z) (desugar h))) = Some false /\
    r_outs (run (fixed_cfg z) (desugar h)) = snd (spec_run z aempty (desugar h)).
  Proof.
    split; [apply run_closed_facts|]. split; [apply destroyed_exactly_once|].
    apply (optional_history z (desugar h)).
  Qed.
End Oracle.

Lemma getenv_empty_string_engaged :
  let h := [EnvSet 0 0; GetEnv 0 KInt 0; GetEnv 1 KFloat 0; GetEnv 2 KStr 0; GetEnv 3 KStr 7;
            EOp (Value 0); EOp (Value 1); EOp (Value 2); EOp (HasValue 3)] in
  r_outs (run (fixed_cfg true) (desugar atoi_code atof_code h)) =
  [Some OUnit; Some OUnit; Some OUnit; Some OUnit;
   Some (OVal (Some 0)); Some (OVal (Some 0)); Some (OVal (Some 0)); Some (OBool false)].
Proof. vm_compute. reflexivity. Qed.
