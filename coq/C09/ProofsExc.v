From Common Require Import Prelude.
From C09 Require Import Model Micro Exc.
Local Open Scope N_scope.

Lemma exc_safe_model : exc_check flag_live model_table = true.
Proof. vm_compute. reflexivity. Qed.

(* emplace: reset() ran, the constructor threw, the flag was never set: disengaged over raw storage *)
Lemma exc_emplace_disengages z v x :
  runx z model_table MEmplace (vval v) 1
       {| f_this := match x with None => fresh | Some w => {| st := Live w; hv := true |} end; f_other := fresh; f_alias := false; f_log := [] |} =
  XThrow {| f_this := fresh; f_other := fresh; f_alias := false;
            f_log := match x with None => [] | Some _ => [(KDtor, This)] end |}.
Proof. destruct x; reflexivity. Qed.

(* an engaged target whose payload assignment throws stays engaged with its old payload *)
Lemma exc_assign_engaged_keeps z v w :
  runx z model_table MAssignValue (vval v) 1
       {| f_this := {| st := Live w; hv := true |}; f_other := fresh; f_alias := false; f_log := [] |} =
  XThrow {| f_this := {| st := Live w; hv := true |}; f_other := fresh; f_alias := false; f_log := [] |}.
Proof. reflexivity. Qed.

Lemma exc_flag_first_refuted : exc_check flag_live flag_first_table = false.
Proof. vm_compute. reflexivity. Qed.
Lemma exc_flag_first_witness z v :
  runx z flag_first_table MEmplace (vval v) 1 {| f_this := fresh; f_other := fresh; f_alias := false; f_log := [] |} =
  XThrow {| f_this := {| st := Raw; hv := true |}; f_other := fresh; f_alias := false; f_log := [] |}.
Proof. reflexivity. Qed.

(* FULL exception-safety invariant of the repaired machine: after any exit, normal or exceptional, flag <=> live payload
   (nothing is left alive that the destructor would not destroy) *)
Lemma exc_safe_iff_model : exc_check flag_iff_live model_table = true.
Proof. vm_compute. reflexivity. Qed.

(* a throwing payload assignment into an EMPTY target ends ENGAGED with the T() that the helper built *)
Lemma exc_assign_into_empty_engaged z v :
  runx z model_table MAssignValue (vval v) 2 {| f_this := fresh; f_other := fresh; f_alias := false; f_log := [] |} =
  XThrow {| f_this := {| st := Live 0; hv := true |}; f_other := fresh; f_alias := false; f_log := [(KDefault, This)] |}.
Proof. reflexivity. Qed.
Lemma exc_wrapper_assign_into_empty_engaged (z : bool) (w : N) (mv : bool) :
  runx z model_table (if mv then MAssignMove else MAssignCopy) (vval 0) 2
       {| f_this := fresh; f_other := {| st := Live w; hv := true |}; f_alias := false; f_log := [] |} =
  XThrow {| f_this := {| st := Live 0; hv := true |}; f_other := {| st := Live w; hv := true |}; f_alias := false;
            f_log := [(KDefault, This)] |}.
Proof. destruct mv; reflexivity. Qed.

(* before the repair: the T() stayed alive WITHOUT the flag - it could never be destroyed *)
Lemma exc_old_helper_refuted : exc_check flag_iff_live old_helper_table = false.
Proof. vm_compute. reflexivity. Qed.
Lemma exc_old_helper_leaks z v :
  runx z old_helper_table MAssignValue (vval v) 2 {| f_this := fresh; f_other := fresh; f_alias := false; f_log := [] |} =
  XThrow {| f_this := {| st := Live 0; hv := false |}; f_other := fresh; f_alias := false; f_log := [(KDefault, This)] |}.
Proof. reflexivity. Qed.
