(* C09 — Optional and Any behave as value types for every payload type and history.
   Statements only; proofs are in Proofs.v / Proofs2.v / ProofsAny.v.

   Model.v  : the storage-lifetime machine of Optional<T> (mirrors the repaired Optional.h member by
              member) and the holder model of Any; fixed_cfg z = repaired code, z = whether a move
              leaves payload code 0 behind.  Histories h : list op over any number of wrapper slots.
   Spec.v   : the value-type reference semantics (spec_step / spec_run : a wrapper is option N).
   All theorems quantify over ALL histories (no length bound) and both payload flavours z. *)
From Common Require Import Prelude.
From C09 Require Import Model Spec Env Values Micro Exc Proofs Proofs2 ProofsAny ProofsAny2 ProofsEnv ProofsValues ProofsExc.
Local Open Scope N_scope.

(* ---- 1. one step of the storage machine realises one step of the value semantics, never a
        lifetime error, and its payload events are a legal lifecycle continuation on every slot *)
Theorem optional_step_refines : forall z s a o,
  sim s a ->
  match spec_step z a o with
  | Some (x, a') =>
      exists e s', step (fixed_cfg z) s o = SOk x s' e /\ sim s' a' /\
                   (forall w, lifecycle_from (live_of s w) (proj w e) = Some (live_of s' w))
  | None => step (fixed_cfg z) s o = SIll
  end.
Proof. exact Proofs.step_refines. Qed.
Print Assumptions optional_step_refines.

(* ---- 2. history theorem: no payload operation on dead storage (r_err = None covers placement
        new over a live payload, destructor/assignment/read on raw storage, wrapper dying with a
        live payload), every wrapper's state and every returned value are those of the value
        semantics: has_value <=> the last operation on it gave a value, value() is that value *)
Theorem optional_history : forall z h,
  r_err (run (fixed_cfg z) h) = None /\
  sim (r_store (run (fixed_cfg z) h)) (fst (spec_run z aempty h)) /\
  r_outs (run (fixed_cfg z) h) = snd (spec_run z aempty h) /\
  (forall w, lifecycle w (r_log (run (fixed_cfg z) h)) = Some (live_of (r_store (run (fixed_cfg z) h)) w)).
Proof. exact Proofs.optional_history. Qed.
Print Assumptions optional_history.

(* ---- 3. the receiver of the last operation reports exactly what that operation gave it
        (a value v, the state of the source wrapper -- EMPTY included --, or nothing) *)
Theorem optional_last_op_gives : forall z h o x a' r g,
  spec_step z (fst (spec_run z aempty h)) o = Some (x, a') ->
  gives (fst (spec_run z aempty h)) o = Some (r, g) ->
  r_outs (run (fixed_cfg z) (h ++ [o; HasValue r; Value r])) =
  r_outs (run (fixed_cfg z) h) ++ [Some x; Some (OBool (is_some g)); Some (OVal g)].
Proof. exact Proofs2.last_op_gives. Qed.
Print Assumptions optional_last_op_gives.

Theorem optional_observers : forall z h i ty x d,
  fst (spec_run z aempty h) i = Some (ty, x) ->
  r_outs (run (fixed_cfg z) (h ++ [HasValue i; Value i; ValueOr i d])) =
  r_outs (run (fixed_cfg z) h) ++
    [Some (OBool (is_some x)); Some (OVal x); Some (OVal (Some (match x with Some v => v | None => d end)))].
Proof. exact Proofs2.observe. Qed.
Print Assumptions optional_observers.

(* ---- 4. copies are independent: a continuation h2 that never has wrapper k as receiver (nor as
        the source of a moving operation) leaves k exactly as it was -- so mutating a copy never
        changes its source and vice versa *)
Theorem optional_copies_independent : forall z h h2 k,
  (forall o, In o h2 -> ~ In k (writes o)) ->
  r_store (run (fixed_cfg z) (h ++ h2)) k = r_store (run (fixed_cfg z) h) k.
Proof. exact Proofs2.history_frame. Qed.
Print Assumptions optional_copies_independent.

(* ---- 5. every constructed payload is destroyed exactly once: after the closing destructors the
        construct/destroy events on every slot alternate strictly, starting with a construction and
        ending with a destruction, every assign/read/move lies between a construction and its
        destruction; no wrapper and no error is left *)
Theorem optional_destroyed_exactly_once : forall z h w,
  lifecycle w (r_log (run_closed (fixed_cfg z) h)) = Some false.
Proof. exact Proofs2.destroyed_exactly_once. Qed.
Print Assumptions optional_destroyed_exactly_once.

Theorem optional_constructs_eq_destroys : forall z h w,
  count_kind is_ctor w (r_log (run_closed (fixed_cfg z) h)) =
  count_kind is_dtor w (r_log (run_closed (fixed_cfg z) h)).
Proof. exact Proofs2.constructs_eq_destroys. Qed.
Print Assumptions optional_constructs_eq_destroys.

Theorem optional_closed_clean : forall z h,
  r_err (run_closed (fixed_cfg z) h) = None /\
  (forall k, r_store (run_closed (fixed_cfg z) h) k = None) /\
  (forall w, lifecycle w (r_log (run_closed (fixed_cfg z) h)) =
             Some (live_of (r_store (run_closed (fixed_cfg z) h)) w)).
Proof. exact Proofs2.run_closed_facts. Qed.
Print Assumptions optional_closed_clean.

(* ---- 6. storage holds a live payload exactly when hasValue is set, in every reachable state *)
Theorem optional_live_iff_flag : forall z h i w,
  r_store (run (fixed_cfg z) h) i = Some w ->
  hv (w_opt w) = match st (w_opt w) with Live _ => true | Raw => false end.
Proof. exact Proofs2.live_iff_flag. Qed.
Print Assumptions optional_live_iff_flag.

(* ---- 7. comparing / printing wrappers, engaged or empty, is always defined *)
Theorem optional_no_op_on_dead_storage : forall z h o e l,
  step (fixed_cfg z) (r_store (run (fixed_cfg z) h)) o <> SErr e l.
Proof. exact Proofs2.step_total. Qed.
Print Assumptions optional_no_op_on_dead_storage.

Theorem optional_compare_total : forall z h c i j ti x tj y,
  fst (spec_run z aempty h) i = Some (ti, x) ->
  fst (spec_run z aempty h) j = Some (tj, y) ->
  exists s' e, step (fixed_cfg z) (r_store (run (fixed_cfg z) h)) (Cmp c i j) = SOk (OBool (spec_cmp c x y)) s' e.
Proof. exact Proofs2.compare_defined. Qed.
Print Assumptions optional_compare_total.

Theorem optional_print_total : forall z h i w,
  fst (spec_run z aempty h) i = Some w ->
  exists s' e, step (fixed_cfg z) (r_store (run (fixed_cfg z) h)) (ToString i) = SOk OStr s' e.
Proof. exact Proofs2.tostring_defined. Qed.
Print Assumptions optional_print_total.

(* ---- 8. member-function contracts of the repaired paths *)
Theorem optional_assign_from_empty : forall z mv x,
  m_assign_wrapper (fixed_cfg z) mv (frame0 (conc x) fresh) =
  ROk tt {| f_this := fresh; f_other := fresh; f_alias := false;
            f_log := match x with Some _ => [(KDtor, This)] | None => [] end |}.
Proof. exact Proofs2.assign_from_empty_contract. Qed.
Print Assumptions optional_assign_from_empty.

Theorem optional_move_ctor_constructs : forall z v,
  m_ctor_move (fixed_cfg z) (frame0 fresh (conc (Some v))) =
  ROk tt {| f_this := conc (Some v); f_other := conc (moved z (Some v)); f_alias := false;
            f_log := [(KMove, Other); (KCtor, This)] |}.
Proof. exact Proofs2.move_ctor_contract. Qed.
Print Assumptions optional_move_ctor_constructs.

Theorem optional_self_assign : forall z x,
  m_assign_wrapper (fixed_cfg z) false
    {| f_this := conc x; f_other := conc x; f_alias := true; f_log := [] |} =
  ROk tt {| f_this := conc x; f_other := conc x; f_alias := true;
            f_log := match x with Some _ => [(KRead, This); (KAssign, This)] | None => [] end |}.
Proof. exact Proofs2.self_assign_contract. Qed.
Print Assumptions optional_self_assign.

(* ---- 9. alignment: with alignas(T) on the storage, Optional<T> and its payload address (also
        behind a leading char) are multiples of alignof(T); sizeof leaves room for the flag *)
Theorem optional_aligned : forall alignT sizeT,
  alignT <> 0 ->
  let '(al, sz, off) := layout true alignT sizeT in
  al mod alignT = 0 /\ off mod alignT = 0 /\ sz mod al = 0 /\ sizeT + 1 <= sz.
Proof. exact Proofs2.layout_aligned. Qed.
Print Assumptions optional_aligned.

(* ---- 10. the code before the repairs (old_cfg / fixed = false) violates the property *)
Theorem optional_assign_empty_refuted : exists z h, r_err (run (old_cfg z) h) <> None.
Proof. exact Proofs2.assign_empty_refuted. Qed.
Print Assumptions optional_assign_empty_refuted.

Theorem optional_move_ctor_refuted : exists z h, r_err (run (old_cfg z) h) <> None.
Proof. exact Proofs2.move_ctor_refuted. Qed.
Print Assumptions optional_move_ctor_refuted.

Theorem optional_alignment_refuted :
  fst (fst (layout false 8 8)) mod 8 <> 0 /\ snd (layout false 8 8) mod 8 <> 0.
Proof. exact Proofs2.layout_unaligned_old. Qed.
Print Assumptions optional_alignment_refuted.

Theorem any_eq_empty_refuted : exists h, ar_crash (a_run false h) = true.
Proof. exact ProofsAny.any_eq_empty_refuted. Qed.
Print Assumptions any_eq_empty_refuted.

(* ---- 11. Any *)
Theorem any_compare_print_total : forall h,
  ar_crash (a_run true h) = false /\ ar_crash (a_run_closed true h) = false.
Proof. exact ProofsAny.any_run_total. Qed.
Print Assumptions any_compare_print_total.

Theorem any_compare_total : forall w i j x y,
  a_store w i = Some x -> a_store w j = Some y ->
  a_step true w (AEq i j) = AOk (ABool (any_eq_spec (abs_any x) (abs_any y))) w /\
  a_step true w (ANe i j) = AOk (ABool (negb (any_eq_spec (abs_any x) (abs_any y)))) w.
Proof. exact ProofsAny.any_eq_total. Qed.
Print Assumptions any_compare_total.

Theorem any_print_total : forall w i x,
  a_store w i = Some x ->
  a_step true w (AToString i) = AOk (AStr (option_map fst (abs_any x))) w.
Proof. exact ProofsAny.any_tostring_total. Qed.
Print Assumptions any_print_total.

Theorem any_get_exact_type : forall fixed w i x t,
  a_store w i = Some x ->
  a_step fixed w (AGet i t) = AOk (get_spec (abs_any x) t) w /\
  a_step fixed w (AIs i t) = AOk (ABool (match abs_any x with Some (t', _) => N.eqb t' t | None => false end)) w /\
  a_step fixed w (AValid i) = AOk (ABool (match abs_any x with Some _ => true | None => false end)) w.
Proof. exact ProofsAny.any_get_exact. Qed.
Print Assumptions any_get_exact_type.

Theorem any_last_op_gives : forall fixed w o x w' r g,
  a_step fixed w o = AOk x w' -> agives w o = Some (r, g) ->
  exists y, a_store w' r = Some y /\ abs_any y = g.
Proof. exact ProofsAny.any_gives. Qed.
Print Assumptions any_last_op_gives.

Theorem any_copies_independent : forall fixed w o x w' k,
  a_step fixed w o = AOk x w' -> ~ In k (awrites o) -> a_store w' k = a_store w k.
Proof. exact ProofsAny.any_frame. Qed.
Print Assumptions any_copies_independent.

(* ---- 12. Any: every holder allocated in a history is freed exactly once by the time all wrappers
        are gone (ids below a_next were allocated once; nothing else is ever freed); during the
        history a holder is never freed while an Any owns it, and two living Any never share one *)
Theorem any_holder_freed_exactly_once : forall h id,
  let w := ar_world (a_run_closed true h) in
  count_free id (a_log w) = count_new id (a_log w) /\
  count_new id (a_log w) = if id <? a_next w then 1%nat else 0%nat.
Proof. exact ProofsAny2.any_freed_exactly_once. Qed.
Print Assumptions any_holder_freed_exactly_once.

Theorem any_closed_all_dead : forall h k, a_store (ar_world (a_run_closed true h)) k = None.
Proof. exact ProofsAny2.any_closed_all_dead. Qed.
Print Assumptions any_closed_all_dead.

Theorem any_no_double_free : forall h id,
  let w := ar_world (a_run true h) in
  (count_new id (a_log w) <= 1)%nat /\
  (owned w id -> count_new id (a_log w) = 1%nat /\ count_free id (a_log w) = 0%nat) /\
  (~ owned w id -> count_free id (a_log w) = count_new id (a_log w)).
Proof. exact ProofsAny2.any_no_double_free. Qed.
Print Assumptions any_no_double_free.

Theorem any_holders_unique : forall h i j hi hj,
  let w := ar_world (a_run true h) in
  a_store w i = Some (Some hi) -> a_store w j = Some (Some hj) -> h_id hi = h_id hj -> i = j.
Proof. exact ProofsAny2.any_holders_unique. Qed.
Print Assumptions any_holders_unique.

(* ---- 12b. Optional: the payload's comparison operators see only the key of a stored value
        (code = 4 * key + shadow), so == is coarser than identity; assignment nevertheless makes
        value() the source's stored value itself *)
Theorem optional_payload_eq_coarser_than_identity :
  cmp_payload CEq 4 6 = true /\ 4 <> 6 /\ cmp_payload CLt 4 6 = false /\ cmp_payload CGt 4 6 = false.
Proof. exact Proofs2.cmp_coarser. Qed.
Print Assumptions optional_payload_eq_coarser_than_identity.

Theorem optional_assign_copy_exact : forall z h i j t x y,
  fst (spec_run z aempty h) i = Some (t, x) ->
  fst (spec_run z aempty h) j = Some (t, y) ->
  r_outs (run (fixed_cfg z) (h ++ [AssignCopy i j; HasValue i; Value i])) =
  r_outs (run (fixed_cfg z) h) ++ [Some OUnit; Some (OBool (is_some y)); Some (OVal y)].
Proof. exact Proofs2.assign_copy_exact. Qed.
Print Assumptions optional_assign_copy_exact.

(* ---- 13. Any: the payload's operator== is only an equivalence (+0.0 == -0.0, {key, shadow} compared
        on key) and not reflexive (NaN); a copy nevertheless installs the source's stored state
        itself (Leibniz equal), so a "skip when already equal" shortcut is not a copy *)
Theorem any_copy_is_exact : forall fixed w i j y x w',
  a_store w j = Some y ->
  a_step fixed w (AAssignCopy i j) = AOk x w' \/ a_step fixed w (ACtorCopy i j) = AOk x w' ->
  exists y', a_store w' i = Some y' /\ abs_any y' = abs_any y /\ (i <> j -> a_store w' j = Some y).
Proof. exact ProofsAny.any_copy_exact. Qed.
Print Assumptions any_copy_is_exact.

Theorem any_payload_eq_coarser_than_identity :
  (peqv 6 0 1 = true /\ 0 <> 1) /\ (peqv 7 17 18 = true /\ 17 <> 18) /\ peqv 6 2 2 = false.
Proof. exact ProofsAny.peqv_coarser. Qed.
Print Assumptions any_payload_eq_coarser_than_identity.

Theorem any_skip_if_equal_refuted :
  exists w i j y w' y', a_store w j = Some y /\ assign_copy_skip_if_equal w i j = AOk AUnit w' /\
                        a_store w' i = Some y' /\ abs_any y' <> abs_any y.
Proof. exact ProofsAny.skip_if_equal_refuted. Qed.
Print Assumptions any_skip_if_equal_refuted.

(* ---- 14. getEnvVar.h: the Optional returned by getEnvVar<int|float|std::string>(name) is engaged
        exactly when name is set at that moment - set to the EMPTY string included - and holds the
        conversion of exactly that string (atoi / atof are oracle parameters; the std::string case
        is the string itself); histories with environment operations are ordinary Optional
        histories (desugar), so every theorem above applies to them *)
Theorem getenv_engaged_iff_set : forall (atoi atof : N -> N) z h i k n,
  fst (spec_run z aempty (desugar atoi atof h)) i = None ->
  let str := env_after atoi atof env0 h n in
  r_outs (run (fixed_cfg z) (desugar atoi atof (h ++ [GetEnv i k n; EOp (HasValue i); EOp (Value i)]))) =
  r_outs (run (fixed_cfg z) (desugar atoi atof h)) ++
    [Some OUnit; Some (OBool (is_some str)); Some (OVal (option_map (parse atoi atof k) str))].
Proof. exact ProofsEnv.getenv_engaged_iff_set. Qed.
Print Assumptions getenv_engaged_iff_set.

Theorem getenv_sees_last_set : forall (atoi atof : N -> N) h n sid,
  env_after atoi atof env0 (h ++ [EnvSet n sid]) n = Some sid /\
  env_after atoi atof env0 (h ++ [EnvUnset n]) n = None.
Proof. intros. split; [apply ProofsEnv.env_after_set | apply ProofsEnv.env_after_unset]. Qed.
Print Assumptions getenv_sees_last_set.

Theorem getenv_histories_are_optional_histories : forall (atoi atof : N -> N) z h w,
  r_err (run_closed (fixed_cfg z) (desugar atoi atof h)) = None /\
  lifecycle w (r_log (run_closed (fixed_cfg z) (desugar atoi atof h))) = Some false /\
  r_outs (run (fixed_cfg z) (desugar atoi atof h)) = snd (spec_run z aempty (desugar atoi atof h)).
Proof. exact ProofsEnv.getenv_histories_safe. Qed.
Print Assumptions getenv_histories_are_optional_histories.

(* ---- 15. payload kinds along the trait lattice.  The machine has ONE path for every payload type:
        a value enters a wrapper only through the payload's own copy/move constructor or assignment
        (never bytewise) - each transfer from an engaged source reads (or moves from) the source
        payload and constructs / assigns the target payload; these events are observable for every
        kind with user-provided copy operations (with or without a destructor).  Together with
        optional_copies_independent (which does not mention the kind at all) copies are independent
        for every payload kind. *)
Theorem optional_transfer_is_payload_copy : forall z s a o i j tj v x s' e,
  sim s a -> transfer_of o = Some (i, j) -> a j = Some (tj, Some v) ->
  step (fixed_cfg z) s o = SOk x s' e ->
  existsb (is_src_read j) e = true /\ existsb (is_dst_write i) e = true.
Proof. exact Proofs2.transfer_is_payload_copy. Qed.
Print Assumptions optional_transfer_is_payload_copy.

Theorem optional_transfer_observable_for_user_copy_kinds : forall pk e j i,
  ((pk = PkFull) \/ (pk = PkNoDtor)) ->
  existsb (is_src_read j) e = true /\ existsb (is_dst_write i) e = true ->
  existsb (is_src_read j) (observed pk e) = true /\ existsb (is_dst_write i) (observed pk e) = true.
Proof. exact Proofs2.transfer_visible. Qed.
Print Assumptions optional_transfer_observable_for_user_copy_kinds.

(* ---- 16. value categories of the argument of a value operation.  The argument is an observable object of
        the client (a named variable, Values.v; or the payload of another wrapper, AssignDeref / EmplaceDeref):
        an LVALUE argument (const or not) and a prvalue copy are never modified; the const T& constructor
        and the value assignment never modify their argument at all (value() = rhs copies even an xvalue);
        only emplace / make_optional, which forward, move from an argument passed as an xvalue.  For the
        wrapper store the operation is the plain value operation, so every history theorem applies. *)
Theorem value_lvalue_source_unchanged : forall c s vs m i ty k cat o s' e vs',
  vstep c s vs (VUse m i ty k cat) = VOk o s' e vs' ->
  (cat <> VX -> forall n, vs' n = vs n) /\
  (forall n, n <> k -> vs' n = vs n) /\
  (vs' k <> vs k -> cat = VX /\ forwards m = true /\ mvz c = true /\ vs' k = Some 0).
Proof. exact ProofsValues.lvalue_source_unchanged. Qed.
Print Assumptions value_lvalue_source_unchanged.

Theorem value_copying_members_never_move : forall c s vs m i ty k cat o s' e vs',
  forwards m = false -> vstep c s vs (VUse m i ty k cat) = VOk o s' e vs' -> forall n, vs' n = vs n.
Proof. exact ProofsValues.copying_members_never_move. Qed.
Print Assumptions value_copying_members_never_move.

Theorem value_use_is_plain_value_operation : forall c s vs m i ty k cat o s' e vs',
  vstep c s vs (VUse m i ty k cat) = VOk o s' e vs' ->
  exists v, vs k = Some v /\ step c s (use_op m i ty v) = SOk o s' e.
Proof. exact ProofsValues.use_is_plain_op. Qed.
Print Assumptions value_use_is_plain_value_operation.

Theorem value_deref_source_unchanged : forall z h i j mv,
  (r_store (run (fixed_cfg z) (h ++ [AssignDeref i j mv])) j = r_store (run (fixed_cfg z) h) j \/ i = j) /\
  (i <> j -> r_store (run (fixed_cfg z) (h ++ [EmplaceDeref i j false])) j = r_store (run (fixed_cfg z) h) j).
Proof. exact ProofsValues.deref_source. Qed.
Print Assumptions value_deref_source_unchanged.

(* ---- 17. EXCEPTIONS thrown by payload operations (Exc.v: the k-th payload construction / assignment of a member
        call throws before it has any effect; the member exits there).  Basic exception safety of the storage
        machine: for every member, every well-formed configuration, both payload flavours, value and *other
        arguments and the throw planted at the 1st..4th payload operation, the state after the (normal or
        exceptional) exit never has the flag set over raw storage - because every member stores the flag
        AFTER the payload operation.  emplace exits disengaged (reset() ran, the constructor failed, the flag
        was never set); an engaged target of a throwing assignment keeps its old payload.  The order of seeded
        change C09-17 (flag first) is refuted.  With the repaired helper (default_construct_storage_if_needed()
        raises the flag as soon as the T() exists, 4e05296) the FULL invariant holds: flag <=> live payload
        after every exit; a throwing assignment into an empty target ends engaged with T(); the helper before
        the repair is refuted. *)
Theorem optional_exception_flag_implies_live : exc_check flag_live model_table = true.
Proof. exact ProofsExc.exc_safe_model. Qed.
Print Assumptions optional_exception_flag_implies_live.

Theorem optional_exception_emplace_disengages : forall z v x,
  runx z model_table MEmplace (vval v) 1
       {| f_this := match x with None => fresh | Some w => {| st := Live w; hv := true |} end; f_other := fresh; f_alias := false; f_log := [] |} =
  XThrow {| f_this := fresh; f_other := fresh; f_alias := false;
            f_log := match x with None => [] | Some _ => [(KDtor, This)] end |}.
Proof. exact ProofsExc.exc_emplace_disengages. Qed.
Print Assumptions optional_exception_emplace_disengages.

Theorem optional_exception_assign_keeps_engaged : forall z v w,
  runx z model_table MAssignValue (vval v) 1
       {| f_this := {| st := Live w; hv := true |}; f_other := fresh; f_alias := false; f_log := [] |} =
  XThrow {| f_this := {| st := Live w; hv := true |}; f_other := fresh; f_alias := false; f_log := [] |}.
Proof. exact ProofsExc.exc_assign_engaged_keeps. Qed.
Print Assumptions optional_exception_assign_keeps_engaged.

Theorem optional_exception_flag_first_refuted :
  exc_check flag_live flag_first_table = false /\
  forall z v, runx z flag_first_table MEmplace (vval v) 1 {| f_this := fresh; f_other := fresh; f_alias := false; f_log := [] |} =
              XThrow {| f_this := {| st := Raw; hv := true |}; f_other := fresh; f_alias := false; f_log := [] |}.
Proof. split; [exact ProofsExc.exc_flag_first_refuted | exact ProofsExc.exc_flag_first_witness]. Qed.
Print Assumptions optional_exception_flag_first_refuted.

(* the full invariant of the repaired machine: flag <=> live payload after every exit, normal or exceptional *)
Theorem optional_exception_flag_iff_live : exc_check flag_iff_live model_table = true.
Proof. exact ProofsExc.exc_safe_iff_model. Qed.
Print Assumptions optional_exception_flag_iff_live.

(* what the repaired code does when a payload assignment into an EMPTY target throws: the target is ENGAGED with T() *)
Theorem optional_exception_assign_into_empty_engaged : forall z v,
  runx z model_table MAssignValue (vval v) 2 {| f_this := fresh; f_other := fresh; f_alias := false; f_log := [] |} =
  XThrow {| f_this := {| st := Live 0; hv := true |}; f_other := fresh; f_alias := false; f_log := [(KDefault, This)] |}.
Proof. exact ProofsExc.exc_assign_into_empty_engaged. Qed.
Print Assumptions optional_exception_assign_into_empty_engaged.

Theorem optional_exception_wrapper_assign_into_empty_engaged : forall (z : bool) (w : N) (mv : bool),
  runx z model_table (if mv then MAssignMove else MAssignCopy) (vval 0) 2
       {| f_this := fresh; f_other := {| st := Live w; hv := true |}; f_alias := false; f_log := [] |} =
  XThrow {| f_this := {| st := Live 0; hv := true |}; f_other := {| st := Live w; hv := true |}; f_alias := false;
            f_log := [(KDefault, This)] |}.
Proof. exact ProofsExc.exc_wrapper_assign_into_empty_engaged. Qed.
Print Assumptions optional_exception_wrapper_assign_into_empty_engaged.

(* the helper before repair 4e05296 left that T() alive without the flag: refuted with a witness *)
Theorem optional_exception_old_helper_refuted :
  exc_check flag_iff_live old_helper_table = false /\
  forall z v, runx z old_helper_table MAssignValue (vval v) 2 {| f_this := fresh; f_other := fresh; f_alias := false; f_log := [] |} =
              XThrow {| f_this := {| st := Live 0; hv := false |}; f_other := fresh; f_alias := false; f_log := [(KDefault, This)] |}.
Proof. split; [exact ProofsExc.exc_old_helper_refuted | exact ProofsExc.exc_old_helper_leaks]. Qed.
Print Assumptions optional_exception_old_helper_refuted.

(* ---- non-vacuity: concrete histories exercising the hypotheses / the interesting paths *)
Example ex_assign_from_empty :
  r_outs (run (fixed_cfg true) [CtorValue 0 false 5; CtorDefault 1 false; AssignCopy 0 1; HasValue 0; Value 0]) =
  [Some OUnit; Some OUnit; Some OUnit; Some (OBool false); Some (OVal None)].
Proof. vm_compute. reflexivity. Qed.

Example ex_move_ctor :
  let r := run_closed (fixed_cfg true) [CtorValue 0 false 5; CtorMove 1 0; Value 1; Value 0] in
  r_outs r = [Some OUnit; Some OUnit; Some (OVal (Some 5)); Some (OVal (Some 0)); Some OUnit; Some OUnit] /\
  r_log r = [(KCtor, 0); (KMove, 0); (KCtor, 1); (KRead, 1); (KRead, 0); (KDtor, 0); (KDtor, 1)] /\
  r_err r = None.
Proof. vm_compute. repeat split; reflexivity. Qed.

Example ex_gives_nonvacuous :
  let h := [CtorValue 0 false 5; CtorDefault 1 false] in
  spec_step true (fst (spec_run true aempty h)) (AssignCopy 0 1) <> None /\
  gives (fst (spec_run true aempty h)) (AssignCopy 0 1) = Some (0, None).
Proof. vm_compute. split; [discriminate | reflexivity]. Qed.

Example ex_independent :
  let h := [CtorValue 0 false 5; CtorCopy 1 0] in
  (forall o, In o [AssignValue 1 9; Reset 1] -> ~ In 0 (writes o)) /\
  r_outs (run (fixed_cfg true) (h ++ [AssignValue 1 9; Value 0; Value 1])) =
  [Some OUnit; Some OUnit; Some OUnit; Some (OVal (Some 5)); Some (OVal (Some 9))].
Proof.
  split.
  - intros o [H|[H|[]]]; subst; cbn; intros [E|[]]; discriminate.
  - vm_compute. reflexivity.
Qed.

Example ex_compare_empty :
  r_outs (run (fixed_cfg false) [CtorDefault 0 false; CtorValue 1 true 3; Cmp CEq 0 1; Cmp CNe 0 1; Cmp CLt 1 0; Cmp CGe 0 0; ToString 0]) =
  [Some OUnit; Some OUnit; Some (OBool false); Some (OBool true); Some (OBool false); Some (OBool false); Some OStr].
Proof. vm_compute. reflexivity. Qed.

Example ex_layout : layout true 8 8 = (8, 16, 8) /\ layout true 32 32 = (32, 64, 32) /\ layout true 4 4 = (4, 8, 4).
Proof. vm_compute. repeat split; reflexivity. Qed.

Example ex_any :
  ar_outs (a_run true [ACtorDefault 0; ACtorValue 1 0 7; AEq 0 1; AEq 0 0; AToString 0; ACtorCopy 2 1;
                       ASet 2 0 9; AGet 1 0; AGet 2 0; AGet 2 1; AAssignCopy 1 0; AValid 1]) =
  [Some AUnit; Some AUnit; Some (ABool false); Some (ABool true); Some (AStr None); Some AUnit;
   Some AUnit; Some (AVal 7); Some (AVal 9); Some AThrow; Some AUnit; Some (ABool false)].
Proof. vm_compute. reflexivity. Qed.

Example ex_any_freed :
  let w := ar_world (a_run_closed true [ACtorValue 0 0 7; ACtorCopy 1 0; AAssignValue 0 2 3; AAssignCopy 1 0; ADtor 0]) in
  a_next w = 4 /\ map (fun id => (count_new id (a_log w), count_free id (a_log w))) [0; 1; 2; 3; 4] =
  [(1, 1); (1, 1); (1, 1); (1, 1); (0, 0)]%nat.
Proof. vm_compute. split; reflexivity. Qed.

Example ex_any_signed_zero :
  ar_outs (a_run true [ACtorValue 0 6 0; ACtorValue 1 6 1; AEq 0 1; AAssignCopy 0 1; AGet 0 6; ACtorValue 2 6 2; AEq 2 2;
                       AAssignCopy 2 2; AGet 2 6; ACtorValue 3 7 17; AAssignValue 1 7 18; AEq 3 1; AAssignCopy 3 1; AGet 3 7]) =
  [Some AUnit; Some AUnit; Some (ABool true); Some AUnit; Some (AVal 1); Some AUnit; Some (ABool false);
   Some AUnit; Some (AVal 2); Some AUnit; Some AUnit; Some (ABool true); Some AUnit; Some (AVal 18)].
Proof. vm_compute. reflexivity. Qed.

Example ex_optional_shadow :
  r_outs (run (fixed_cfg false) [CtorValue 0 false 4; CtorValue 1 false 6; Cmp CEq 0 1; Cmp CNe 0 1; Cmp CLe 0 1;
                                 AssignCopy 0 1; Value 0; CtorValue 2 false 1; Emplace 0 0; Cmp CEq 0 2; AssignMove 0 2; Value 0]) =
  [Some OUnit; Some OUnit; Some (OBool true); Some (OBool false); Some (OBool true);
   Some OUnit; Some (OVal (Some 6)); Some OUnit; Some OUnit; Some (OBool true); Some OUnit; Some (OVal (Some 1))].
Proof. vm_compute. reflexivity. Qed.

Example ex_getenv_empty_string_engaged :
  let h := [EnvSet 0 0; GetEnv 0 KInt 0; GetEnv 1 KFloat 0; GetEnv 2 KStr 0; GetEnv 3 KStr 7;
            EOp (Value 0); EOp (Value 1); EOp (Value 2); EOp (HasValue 3)] in
  r_outs (run (fixed_cfg true) (desugar atoi_code atof_code h)) =
  [Some OUnit; Some OUnit; Some OUnit; Some OUnit;
   Some (OVal (Some 0)); Some (OVal (Some 0)); Some (OVal (Some 0)); Some (OBool false)].
Proof. exact ProofsEnv.getenv_empty_string_engaged. Qed.

Example ex_observed_kinds :
  let e := r_log (run_closed (fixed_cfg true) [CtorValue 0 false 4; CtorCopy 1 0; CtorDefault 2 false; AssignCopy 2 0; Reset 1]) in
  e = [(KCtor, 0); (KDefault, 1); (KRead, 0); (KAssign, 1); (KDefault, 2); (KRead, 0); (KAssign, 2); (KDtor, 1); (KDtor, 0); (KDtor, 2)] /\
  observed PkNoDtor e = [(KCtor, 0); (KDefault, 1); (KRead, 0); (KAssign, 1); (KDefault, 2); (KRead, 0); (KAssign, 2)] /\
  observed PkDtorOnly e = [(KDefault, 1); (KDefault, 2); (KDtor, 1); (KDtor, 0); (KDtor, 2)] /\
  observed PkTrivial e = [].
Proof. vm_compute. repeat split; reflexivity. Qed.

Example ex_value_categories :
  r_outs (run (fixed_cfg true) [CtorValue 0 false 20; CtorDefault 1 false; AssignDeref 1 0 false; Value 0; AssignDeref 1 0 true; Value 0;
                                CtorDefault 2 false; EmplaceDeref 2 0 false; Value 0; EmplaceDeref 2 0 true; Value 0; Value 2; Value 1]) =
  [Some OUnit; Some OUnit; Some OUnit; Some (OVal (Some 20)); Some OUnit; Some (OVal (Some 20));
   Some OUnit; Some OUnit; Some (OVal (Some 20)); Some OUnit; Some (OVal (Some 0)); Some (OVal (Some 20)); Some (OVal (Some 20))].
Proof. vm_compute. reflexivity. Qed.
