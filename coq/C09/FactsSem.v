(* C09 — what the source-derived programs DO, independently of whether they are textually the
   model's: interpreted on every well-formed configuration (receiver empty / engaged, argument
   empty / engaged / the receiver itself) each member ends, without a lifetime error, in the same
   wrapper states as the model function the refinement theorems are about. *)
From Common Require Import Prelude.
From C09 Require Import Model Spec Env Micro MicroProofs Exc.
From C09.gen Require Import Facts.
Local Open Scope N_scope.

Definition same_cells (r1 : option (res unit)) (r2 : res unit) : Prop :=
  match r1, r2 with
  | Some (ROk _ f1), ROk _ f2 => f_this f1 = f_this f2 /\ f_other f1 = f_other f2
  | _, _ => False
  end.
Definition wf2 (x y : aopt) : frame := {| f_this := conc x; f_other := conc y; f_alias := false; f_log := [] |}.
Definition wf1 (x : aopt) : frame := {| f_this := conc x; f_other := conc x; f_alias := true; f_log := [] |}.

Ltac sem2 x y := destruct x, y; cbv; split; reflexivity.
Ltac sem1 x := destruct x; cbv; split; reflexivity.

Lemma sem_reset z a x : same_cells (run_member z gen_table MReset a (wf1 x)) (m_reset (wf1 x)).
Proof. sem1 x. Qed.
Lemma sem_dcsin z a x : same_cells (run_member z gen_table MDcsin a (wf1 x)) (m_default_construct_storage_if_needed (wf1 x)).
Proof. sem1 x. Qed.
Lemma sem_emplace z v x : same_cells (run_member z gen_table MEmplace (vval v) (wf1 x)) (m_emplace v (wf1 x)).
Proof. sem1 x. Qed.
Lemma sem_assign_value z v x : same_cells (run_member z gen_table MAssignValue (vval v) (wf1 x)) (m_assign_value v (wf1 x)).
Proof. sem1 x. Qed.
Lemma sem_ctor_value z v : same_cells (run_member z gen_table MCtorValue (vval v) (wf1 None)) (m_ctor_value v (wf1 None)).
Proof. cbv; split; reflexivity. Qed.
Lemma sem_make_optional z v : same_cells (run_member z gen_table MMakeOptional (vval v) (wf1 None)) (m_emplace v (wf1 None)).
Proof. cbv; split; reflexivity. Qed.
Lemma sem_dtor z a x :
  same_cells (bindO (run_member z gen_table MDtor a) (fun _ => lift (release This)) (wf1 x)) (m_dtor (wf1 x)).
Proof. sem1 x. Qed.
Lemma sem_ctor_copy z a y : same_cells (run_member z gen_table MCtorCopy a (wf2 None y)) (m_ctor_copy (fixed_cfg z) (wf2 None y)).
Proof. destruct y; cbv; split; reflexivity. Qed.
Lemma sem_ctor_conv_copy z a y : same_cells (run_member z gen_table MCtorConvCopy a (wf2 None y)) (m_ctor_copy (fixed_cfg z) (wf2 None y)).
Proof. destruct y; cbv; split; reflexivity. Qed.
Lemma sem_ctor_move z a y : same_cells (run_member z gen_table MCtorMove a (wf2 None y)) (m_ctor_move (fixed_cfg z) (wf2 None y)).
Proof. destruct y; cbv; split; reflexivity. Qed.
Lemma sem_ctor_conv_move z a y : same_cells (run_member z gen_table MCtorConvMove a (wf2 None y)) (m_ctor_move (fixed_cfg z) (wf2 None y)).
Proof. destruct y; cbv; split; reflexivity. Qed.
Lemma sem_assign_copy z a x y :
  same_cells (run_member z gen_table MAssignCopy a (wf2 x y)) (m_assign_wrapper (fixed_cfg z) false (wf2 x y)) /\
  same_cells (run_member z gen_table MAssignCopy a (wf1 x)) (m_assign_wrapper (fixed_cfg z) false (wf1 x)).
Proof. split; [sem2 x y | sem1 x]. Qed.
Lemma sem_assign_move z a x y :
  same_cells (run_member z gen_table MAssignMove a (wf2 x y)) (m_assign_wrapper (fixed_cfg z) true (wf2 x y)).
Proof. sem2 x y. Qed.
Lemma sem_assign_conv_copy z a x y :
  same_cells (run_member z gen_table MAssignConvCopy a (wf2 x y)) (m_assign_wrapper (fixed_cfg z) false (wf2 x y)).
Proof. sem2 x y. Qed.
Lemma sem_assign_conv_move z a x y :
  same_cells (run_member z gen_table MAssignConvMove a (wf2 x y)) (m_assign_wrapper (fixed_cfg z) false (wf2 x y)).
Proof. sem2 x y. Qed.
Lemma sem_def_ctor : mf_fresh (gen_table MDefCtor) = true /\ mf_prog (gen_table MDefCtor) = [].
Proof. split; reflexivity. Qed.
Lemma sem_ctors_fresh :
  forallb (fun m => mf_fresh (gen_table m)) [MDefCtor; MCtorValue; MCtorCopy; MCtorConvCopy; MCtorMove; MCtorConvMove; MMakeOptional] = true.
Proof. reflexivity. Qed.

Lemma sem_cmp z o : exists m, cmp_sem (fixed_cfg z) gen_cmp o = Some m /\
  forall x y, match m (wf2 x y), m_cmp (fixed_cfg z) o (wf2 x y) with
              | ROk b1 _, ROk b2 _ => b1 = b2
              | _, _ => False
              end.
Proof. destruct o; eexists; (split; [reflexivity|]); intros [?|] [?|]; cbv -[pkey N.eqb N.ltb N.leb]; reflexivity. Qed.

Lemma sem_layout :
  lf_alignas_payload gen_lay = true /\ lf_flag_default_false gen_lay = true /\
  lf_align_value gen_lay mod lf_payload_align gen_lay = 0 /\
  lf_elem_bytes gen_lay * lf_extent gen_lay = lf_payload_size gen_lay.
Proof. repeat split; reflexivity. Qed.

(* Any: the validity tests are where the model's repaired a_step has them, a copy clones *)
Lemma sem_any_eq x y : exists b, any_eq_sem (gen_any AMEq) x y = Some (Some b).
Proof. destruct x, y; eexists; reflexivity. Qed.
Lemma sem_any_get x t :
  (exists r, any_get_sem (gen_any AMGet) x t = Some r /\ r <> GNullDeref) /\
  (exists r, any_get_sem (gen_any AMGetConst) x t = Some r /\ r <> GNullDeref).
Proof. split; destruct x as [h|]; cbn; try destruct (N.eqb (h_tag h) t); eexists; split; try reflexivity; discriminate. Qed.
Lemma sem_any_str x : exists t, any_str_sem (gen_any AMToString) x = Some (Some t).
Proof. destruct x; eexists; reflexivity. Qed.
Lemma sem_any_copy w x : any_copy_sem gen_holder (gen_any AMCopyCtor) w x = Some (a_clone w x).
Proof. reflexivity. Qed.
Lemma sem_any_copy_assign : gen_any AMCopyAssign = [TTempCopy; TMoveFromTemp] /\ gen_holder = HUnique.
Proof. split; reflexivity. Qed.

(* getEnvVar: engaged with the converted string iff getenv returned non-null *)
Lemma sem_env atoi atof k str i : env_sem atoi atof (gen_env k) k str i = Some (m_getenv atoi atof k str i).
Proof. destruct k; reflexivity. Qed.
Lemma sem_traits :
  tf_eq_noeq gen_traits = false /\ tf_impl_noeq_false gen_traits = true /\ tf_same_dispatch gen_traits = true /\
  tf_eq_int gen_traits = true /\ tf_eq_string gen_traits = true /\ tf_eq_payload gen_traits = true /\
  tf_impl_eq_shape gen_traits = true.
Proof. repeat split; reflexivity. Qed.

(* value categories: the value assignment never modifies its argument (not even an xvalue: value() = rhs copies);
   emplace moves from its argument exactly when the caller passed an rvalue *)
Lemma sem_assign_deref z rv x w :
  same_cells (run_member z gen_table MAssignValue (vderef z rv) (wf2 x (Some w)))
             (m_assign_from (read_value z Other false) (wf2 x (Some w))).
Proof. destruct rv, z, x; cbv; split; reflexivity. Qed.
Lemma sem_emplace_deref z rv x w :
  same_cells (run_member z gen_table MEmplace (vderef z rv) (wf2 x (Some w)))
             (m_emplace_from (read_value z Other rv) (wf2 x (Some w))).
Proof. destruct rv, z, x; cbv; split; reflexivity. Qed.

(* exceptions: in the extracted programs every flag store follows the payload operation it announces *)
Lemma sem_exc : exc_check flag_live gen_table = true.
Proof. vm_compute. reflexivity. Qed.
Lemma sem_exc_iff : exc_check flag_iff_live gen_table = true.
Proof. vm_compute. reflexivity. Qed.
