(* C09 — Optional: history-level consequences (exactly-once destruction, independence, observers,
   totality), member-function contracts, pre-repair witnesses, layout. *)
From Common Require Import Prelude.
From C09 Require Import Model Spec Proofs.
Local Open Scope N_scope.

(* ------------------------------------------------------------------ closing / exactly once *)
Lemma spec_run_alive z h : forall a k,
  fst (spec_run z a h) k <> None -> a k <> None \/ In k (flat_map ctor_index h).
Proof.
  induction h as [|o h IH]; intros a k Hk; cbn [spec_run flat_map] in *.
  - left. exact Hk.
  - destruct (spec_step z a o) as [[x a']|] eqn:Hst.
    + destruct (spec_run z a' h) as [af l] eqn:Hr. cbn [fst] in Hk.
      specialize (IH a' k). rewrite Hr in IH. destruct (IH Hk) as [H|H].
      * destruct (spec_step_alive z a o x a' k Hst H) as [H'|H']; [left; exact H'|].
        right. apply in_or_app. left. exact H'.
      * right. apply in_or_app. right. exact H.
    + destruct (spec_run z a h) as [af l] eqn:Hr. cbn [fst] in Hk.
      specialize (IH a k). rewrite Hr in IH. destruct (IH Hk) as [H|H]; [left; exact H|].
      right. apply in_or_app. right. exact H.
Qed.

Lemma spec_run_dtors z L : forall a k,
  In k L \/ a k = None -> fst (spec_run z a (map Dtor L)) k = None.
Proof.
  induction L as [|i L IH]; intros a k Hk; cbn [map spec_run spec_step].
  - destruct Hk as [[]|Hk]. exact Hk.
  - destruct (a i) as [wi|] eqn:Hai.
    + specialize (IH (aupd a i None) k).
      destruct (spec_run z (aupd a i None) (map Dtor L)) as [af l]. cbn [fst] in *.
      apply IH. unfold aupd. destruct (N.eqb_spec k i) as [E|E]; [right; reflexivity|].
      destruct Hk as [[Hk|Hk]|Hk]; [congruence | left; exact Hk | right; exact Hk].
    + specialize (IH a k).
      destruct (spec_run z a (map Dtor L)) as [af l]. cbn [fst] in *.
      apply IH. destruct Hk as [[Hk|Hk]|Hk]; [right; congruence | left; exact Hk | right; exact Hk].
Qed.

Lemma run_closed_facts z h :
  r_err (run_closed (fixed_cfg z) h) = None /\
  (forall k, r_store (run_closed (fixed_cfg z) h) k = None) /\
  linv (run_closed (fixed_cfg z) h).
Proof.
  unfold run_closed.
  destruct (optional_history z h) as (He & Hs & _ & Hl).
  set (r := run (fixed_cfg z) h) in *.
  set (a := fst (spec_run z aempty h)) in *.
  destruct (run_from_refines z (closing (r_store r) h) r a He Hs Hl) as (He' & Hs' & _ & Hl').
  repeat split; auto.
  intro k. rewrite (Hs' k).
  unfold closing. rewrite spec_run_dtors; [reflexivity|].
  destruct (a k) as [wk|] eqn:Hak; [left | right; reflexivity].
  apply filter_In. split.
  - apply nodup_In.
    destruct (spec_run_alive z h aempty k) as [H|H]; [fold a; congruence | elim H; reflexivity | exact H].
  - unfold alive. rewrite (Hs k), Hak. reflexivity.
Qed.

Lemma destroyed_exactly_once z h w :
  lifecycle w (r_log (run_closed (fixed_cfg z) h)) = Some false.
Proof.
  destruct (run_closed_facts z h) as (_ & Hd & Hl).
  rewrite (Hl w). unfold live_of. rewrite (Hd w). reflexivity.
Qed.

Lemma lifecycle_none l : fold_left lifecycle_step l None = None.
Proof. induction l as [|k l IH]; [reflexivity | exact IH]. Qed.

Definition b2n (b : bool) : nat := if b then 1%nat else 0%nat.
Lemma lifecycle_counts l : forall b b',
  lifecycle_from b l = Some b' ->
  (length (filter is_ctor l) + b2n b = length (filter is_dtor l) + b2n b')%nat.
Proof.
  unfold lifecycle_from.
  induction l as [|k l IH]; intros b b' H; cbn [fold_left filter] in *.
  - inversion H. reflexivity.
  - destruct b, k; cbn [lifecycle_step] in H; try (rewrite lifecycle_none in H; discriminate);
      apply IH in H; cbn [is_ctor is_dtor length b2n] in *; lia.
Qed.

Lemma constructs_eq_destroys z h w :
  count_kind is_ctor w (r_log (run_closed (fixed_cfg z) h)) =
  count_kind is_dtor w (r_log (run_closed (fixed_cfg z) h)).
Proof.
  pose proof (destroyed_exactly_once z h w) as H. unfold lifecycle in H.
  apply (lifecycle_counts _ false false) in H. unfold count_kind. cbn [b2n] in H. lia.
Qed.

(* at every point of every history the payload events of each slot are a legal lifecycle *)
Lemma lifecycle_legal z h w :
  lifecycle w (r_log (run (fixed_cfg z) h)) = Some (live_of (r_store (run (fixed_cfg z) h)) w).
Proof. destruct (optional_history z h) as (_ & _ & _ & Hl). apply Hl. Qed.

(* storage holds a live payload exactly when hasValue is set *)
Lemma live_iff_flag z h i w :
  r_store (run (fixed_cfg z) h) i = Some w ->
  hv (w_opt w) = match st (w_opt w) with Live _ => true | Raw => false end.
Proof.
  destruct (optional_history z h) as (_ & Hs & _ & _). rewrite (Hs i).
  destruct (fst (spec_run z aempty h) i) as [[ty [v|]]|]; cbn; intro H; inversion H; reflexivity.
Qed.

(* ------------------------------------------------------------------ independence *)
Lemma spec_run_frame z h : forall a k,
  (forall o, In o h -> ~ In k (writes o)) -> fst (spec_run z a h) k = a k.
Proof.
  induction h as [|o h IH]; intros a k Hk; cbn [spec_run]; [reflexivity|].
  assert (Hk' : forall o', In o' h -> ~ In k (writes o')) by (intros; apply Hk; right; assumption).
  destruct (spec_step z a o) as [[x a']|] eqn:Hst.
  - specialize (IH a' k Hk'). destruct (spec_run z a' h) as [af l]. cbn [fst] in *.
    rewrite IH. eapply spec_step_frame; [exact Hst | apply Hk; left; reflexivity].
  - specialize (IH a k Hk'). destruct (spec_run z a h) as [af l]. exact IH.
Qed.

Lemma history_frame z h h2 k :
  (forall o, In o h2 -> ~ In k (writes o)) ->
  r_store (run (fixed_cfg z) (h ++ h2)) k = r_store (run (fixed_cfg z) h) k.
Proof.
  intro Hk. unfold run. rewrite run_from_app. fold (run (fixed_cfg z) h).
  destruct (optional_history z h) as (He & Hs & _ & Hl).
  destruct (run_from_refines z h2 _ _ He Hs Hl) as (_ & Hs' & _ & _).
  rewrite (Hs' k), (Hs k), spec_run_frame; [reflexivity | exact Hk].
Qed.

(* ------------------------------------------------------------------ observers, last operation *)
Lemma outs_after z h h2 :
  r_outs (run (fixed_cfg z) (h ++ h2)) =
  r_outs (run (fixed_cfg z) h) ++ snd (spec_run z (fst (spec_run z aempty h)) h2).
Proof.
  unfold run. rewrite run_from_app. fold (run (fixed_cfg z) h).
  destruct (optional_history z h) as (He & Hs & _ & Hl).
  destruct (run_from_refines z h2 _ _ He Hs Hl) as (_ & _ & Ho & _). exact Ho.
Qed.

Lemma observe z h i ty x d :
  fst (spec_run z aempty h) i = Some (ty, x) ->
  r_outs (run (fixed_cfg z) (h ++ [HasValue i; Value i; ValueOr i d])) =
  r_outs (run (fixed_cfg z) h) ++
    [Some (OBool (is_some x)); Some (OVal x); Some (OVal (Some (match x with Some v => v | None => d end)))].
Proof.
  intro H. rewrite outs_after. cbn [spec_run spec_step]. repeat (rewrite H; cbn [spec_run spec_step fst snd]). reflexivity.
Qed.

Lemma last_op_gives z h o x a' r g :
  spec_step z (fst (spec_run z aempty h)) o = Some (x, a') ->
  gives (fst (spec_run z aempty h)) o = Some (r, g) ->
  r_outs (run (fixed_cfg z) (h ++ [o; HasValue r; Value r])) =
  r_outs (run (fixed_cfg z) h) ++ [Some x; Some (OBool (is_some g)); Some (OVal g)].
Proof.
  intros Hst Hg. rewrite outs_after.
  destruct (spec_step_gives _ _ _ _ _ _ _ Hst Hg) as [ty Hr].
  cbn [spec_run]. rewrite Hst. cbn [spec_run spec_step]. repeat (rewrite Hr; cbn [spec_run spec_step fst snd]). reflexivity.
Qed.

(* no operation on any reachable state reports a lifetime error: in particular the six
   comparisons and toString are defined on every pair of wrappers, engaged or empty *)
Lemma step_total z h o e l :
  step (fixed_cfg z) (r_store (run (fixed_cfg z) h)) o <> SErr e l.
Proof.
  destruct (optional_history z h) as (_ & Hs & _ & _).
  pose proof (step_refines z _ _ o Hs) as H.
  destruct (spec_step z (fst (spec_run z aempty h)) o) as [[x a']|].
  - destruct H as (e' & s' & H & _). rewrite H. discriminate.
  - rewrite H. discriminate.
Qed.

Lemma compare_defined z h c i j ti x tj y :
  fst (spec_run z aempty h) i = Some (ti, x) ->
  fst (spec_run z aempty h) j = Some (tj, y) ->
  exists s' e, step (fixed_cfg z) (r_store (run (fixed_cfg z) h)) (Cmp c i j) = SOk (OBool (spec_cmp c x y)) s' e.
Proof.
  intros Hi Hj. destruct (optional_history z h) as (_ & Hs & _ & _).
  pose proof (step_refines z _ _ (Cmp c i j) Hs) as H.
  cbn [spec_step] in H. rewrite Hi, Hj in H. destruct H as (e & s' & H & _). eauto.
Qed.

Lemma tostring_defined z h i w :
  fst (spec_run z aempty h) i = Some w ->
  exists s' e, step (fixed_cfg z) (r_store (run (fixed_cfg z) h)) (ToString i) = SOk OStr s' e.
Proof.
  intros Hi. destruct (optional_history z h) as (_ & Hs & _ & _).
  pose proof (step_refines z _ _ (ToString i) Hs) as H.
  cbn [spec_step] in H. rewrite Hi in H. destruct H as (e & s' & H & _). eauto.
Qed.

(* ------------------------------------------------------------------ member-function contracts *)
Definition frame0 (this other : opt) : frame :=
  {| f_this := this; f_other := other; f_alias := false; f_log := [] |}.

(* wrapper assignment from an EMPTY source: the target ends empty, its payload (if any) destroyed
   once, the source's dead storage is never read *)
Lemma assign_from_empty_contract z mv x :
  m_assign_wrapper (fixed_cfg z) mv (frame0 (conc x) fresh) =
  ROk tt {| f_this := fresh; f_other := fresh; f_alias := false;
            f_log := match x with Some _ => [(KDtor, This)] | None => [] end |}.
Proof. destruct x; reflexivity. Qed.

(* wrapper assignment from an engaged source: default-constructs first iff the target was empty *)
Lemma assign_from_engaged_contract z x v :
  m_assign_wrapper (fixed_cfg z) false (frame0 (conc x) (conc (Some v))) =
  ROk tt {| f_this := conc (Some v); f_other := conc (Some v); f_alias := false;
            f_log := match x with Some _ => [] | None => [(KDefault, This)] end ++ [(KRead, Other); (KAssign, This)] |}.
Proof. destruct x; reflexivity. Qed.

(* move construction: the payload is CONSTRUCTED in the fresh wrapper's raw storage *)
Lemma move_ctor_contract z v :
  m_ctor_move (fixed_cfg z) (frame0 fresh (conc (Some v))) =
  ROk tt {| f_this := conc (Some v); f_other := conc (moved z (Some v)); f_alias := false;
            f_log := [(KMove, Other); (KCtor, This)] |}.
Proof. reflexivity. Qed.

Lemma move_ctor_empty_contract z :
  m_ctor_move (fixed_cfg z) (frame0 fresh fresh) = ROk tt (frame0 fresh fresh).
Proof. reflexivity. Qed.

Lemma self_assign_contract z x :
  m_assign_wrapper (fixed_cfg z) false
    {| f_this := conc x; f_other := conc x; f_alias := true; f_log := [] |} =
  ROk tt {| f_this := conc x; f_other := conc x; f_alias := true;
            f_log := match x with Some _ => [(KRead, This); (KAssign, This)] | None => [] end |}.
Proof. destruct x; reflexivity. Qed.

Lemma reset_emplace_contract x v :
  m_emplace v (frame0 (conc x) fresh) =
  ROk tt {| f_this := conc (Some v); f_other := fresh; f_alias := false;
            f_log := match x with Some _ => [(KDtor, This)] | None => [] end ++ [(KCtor, This)] |}.
Proof. destruct x; reflexivity. Qed.

(* ------------------------------------------------------------------ the code before the repairs *)
Lemma assign_empty_old :
  r_err (run (old_cfg true) [CtorValue 0 false 5; CtorDefault 1 false; AssignCopy 0 1]) = Some (EReadRaw, 1).
Proof. vm_compute. reflexivity. Qed.

Lemma move_ctor_old :
  r_err (run (old_cfg true) [CtorValue 0 false 5; CtorMove 1 0]) = Some (EAssignToRaw, 1).
Proof. vm_compute. reflexivity. Qed.

Lemma assign_empty_refuted : exists z h, r_err (run (old_cfg z) h) <> None.
Proof. exists true, [CtorValue 0 false 5; CtorDefault 1 false; AssignCopy 0 1]. rewrite assign_empty_old. discriminate. Qed.

Lemma move_ctor_refuted : exists z h, r_err (run (old_cfg z) h) <> None.
Proof. exists true, [CtorValue 0 false 5; CtorMove 1 0]. rewrite move_ctor_old. discriminate. Qed.

(* ------------------------------------------------------------------ layout *)
Lemma roundup_mod x a : a <> 0 -> roundup x a mod a = 0.
Proof. intro H. unfold roundup. apply N.mod_mul. exact H. Qed.

Lemma roundup_ge x a : a <> 0 -> x <= roundup x a.
Proof.
  intro H. unfold roundup.
  pose proof (N.div_mod (x + a - 1) a H) as D.
  pose proof (N.mod_upper_bound (x + a - 1) a H) as U.
  rewrite N.mul_comm. lia.
Qed.

Lemma layout_aligned alignT sizeT :
  alignT <> 0 ->
  let '(al, sz, off) := layout true alignT sizeT in
  al mod alignT = 0 /\ off mod alignT = 0 /\ sz mod al = 0 /\ sizeT + 1 <= sz.
Proof.
  intro H. unfold layout, prefixed_offset, opt_size, opt_align.
  assert (E : N.max alignT 1 = alignT) by lia. rewrite E.
  repeat split.
  - apply N.mod_same; exact H.
  - apply N.mod_same; exact H.
  - apply roundup_mod; exact H.
  - apply roundup_ge; exact H.
Qed.

Lemma layout_unaligned_old : fst (fst (layout false 8 8)) mod 8 <> 0 /\ snd (layout false 8 8) mod 8 <> 0.
Proof. vm_compute. split; discriminate. Qed.

(* ------------------------------------------------------------------ == is coarser than identity *)
Lemma cmp_coarser : cmp_payload CEq 4 6 = true /\ 4 <> 6 /\ cmp_payload CLt 4 6 = false /\ cmp_payload CGt 4 6 = false.
Proof. repeat split; try reflexivity; discriminate. Qed.

(* wrapper assignment transfers the source's stored value itself (whatever the payload's
   operator== says about the old and the new value): afterwards value() is Leibniz-equal to it *)
Lemma assign_copy_exact z h i j t x y :
  fst (spec_run z aempty h) i = Some (t, x) ->
  fst (spec_run z aempty h) j = Some (t, y) ->
  r_outs (run (fixed_cfg z) (h ++ [AssignCopy i j; HasValue i; Value i])) =
  r_outs (run (fixed_cfg z) h) ++ [Some OUnit; Some (OBool (is_some y)); Some (OVal y)].
Proof.
  intros Hi Hj.
  eapply last_op_gives with (a' := aupd (fst (spec_run z aempty h)) i (Some (t, y))).
  - cbn [spec_step]. rewrite Hi, Hj. rewrite Bool.eqb_reflx. reflexivity.
  - cbn [gives]. unfold src_state. rewrite Hj. reflexivity.
Qed.

(* ------------------------------------------------------------------ no bytewise path *)
(* every transfer from an ENGAGED source runs the payload's own copy/move operation: the event log of
   the step has a read (or move) of the source payload and a construction of / assignment to the
   target payload - for every payload flavour; there is no other way a value enters a wrapper *)
Lemma transfer_is_payload_copy z s a o i j tj v x s' e :
  sim s a -> transfer_of o = Some (i, j) -> a j = Some (tj, Some v) ->
  step (fixed_cfg z) s o = SOk x s' e ->
  existsb (is_src_read j) e = true /\ existsb (is_dst_write i) e = true.
Proof.
  intros Hs Ht Hj Hst.
  destruct o; try destruct mv; cbn [transfer_of] in Ht; try discriminate; inversion Ht; subst; clear Ht;
    (destruct (N.eqb_spec i j) as [E|Nij];
     [ subst j; pose proof (Hs i) as Hi; rewrite Hj in Hi; cbn in Hi;
       revert Hst; cbv beta iota delta [step ctor_from assign_from deref_from]; rewrite Hi;
       destruct tj; cbv beta iota zeta delta -[upd N.eqb]; rewrite ?N.eqb_refl;
       cbv beta iota zeta delta -[upd N.eqb]; intro Hst; try discriminate; inversion Hst; subst;
       cbn; rewrite ?N.eqb_refl; cbn; rewrite ?orb_true_r; split; reflexivity
     | pose proof (Hs i) as Hi; pose proof (Hs j) as Hj'; rewrite Hj in Hj'; cbn in Hj';
       apply N.eqb_neq in Nij;
       revert Hst; cbv beta iota delta [step ctor_from assign_from deref_from]; rewrite Hi, Hj';
       destruct (a i) as [[[|] [?|]]|]; destruct tj; cbv beta iota zeta delta -[upd N.eqb]; rewrite ?Nij;
       cbv beta iota zeta delta -[upd N.eqb]; intro Hst; try discriminate; inversion Hst; subst;
       cbn; rewrite ?N.eqb_refl; cbn; rewrite ?orb_true_r; split; reflexivity ]).
Qed.

(* ... and these events are observable for every payload kind with user-provided copy operations *)
Lemma transfer_visible pk e j i :
  ((pk = PkFull) \/ (pk = PkNoDtor)) ->
  existsb (is_src_read j) e = true /\ existsb (is_dst_write i) e = true ->
  existsb (is_src_read j) (observed pk e) = true /\ existsb (is_dst_write i) (observed pk e) = true.
Proof.
  intros Hpk [H1 H2]. unfold observed.
  assert (V : forall x, (is_src_read j x = true \/ is_dst_write i x = true) -> visible pk (fst x) = true).
  { intros [k w] [H|H]; destruct Hpk; subst pk; destruct k; cbn in *; try reflexivity; discriminate. }
  split; apply existsb_exists.
  - apply existsb_exists in H1. destruct H1 as (x & Hin & Hx). exists x. split; [|exact Hx].
    apply filter_In. split; [exact Hin | apply V; left; exact Hx].
  - apply existsb_exists in H2. destruct H2 as (x & Hin & Hx). exists x. split; [|exact Hx].
    apply filter_In. split; [exact Hin | apply V; right; exact Hx].
Qed.
