From Coq Require Import Extraction ExtrOcamlBasic NArith List.
From C09 Require Import Model Spec Env Values.
Extraction "Model.ml" step fixed_cfg old_cfg empty_store layout a_step a_init a_store a_next a_log
  count_new count_free N.of_nat N.to_nat estep env0 atoi_code atof_code observed vstep vars0.
