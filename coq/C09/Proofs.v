(* C09 — proofs about the Optional storage machine (Model.v) against the reference semantics (Spec.v). *)
From Common Require Import Prelude.
From C09 Require Import Model Spec.
Local Open Scope N_scope.

Ltac sim_tac Hs :=
  let k := fresh "k" in
  intro k; cbv beta delta [upd aupd]; cbv beta;
  repeat match goal with
         | |- context [N.eqb k ?i] => destruct (N.eqb_spec k i); subst
         end;
  repeat match goal with H : ?a ?i = _ |- context [?a ?i] => rewrite H end;
  try reflexivity; try congruence; try apply Hs.

Ltac life_tac :=
  let w := fresh "w" in
  intro w;
  cbv beta iota zeta delta [live_of proj lifecycle_from upd map filter fst snd fold_left];
  repeat match goal with
         | |- context [N.eqb ?x w] => destruct (N.eqb_spec x w); subst
         | |- context [N.eqb w ?x] => destruct (N.eqb_spec w x); subst
         end;
  try congruence;
  repeat match goal with H : ?s ?i = _ |- context [?s ?i] => rewrite H end;
  try reflexivity.

Ltac crunch := cbv beta iota zeta delta -[upd aupd N.eqb sim N.ltb N.leb pkey].

Ltac finish_step Hs :=
  try match goal with c : cmpop |- _ => destruct c end;
  crunch; rewrite ?N.eqb_refl;
  repeat match goal with H : N.eqb _ _ = false |- _ => rewrite H end;
  crunch;
  first [ reflexivity
        | eexists; eexists; split; [reflexivity | split; [sim_tac Hs | life_tac] ] ].

Ltac unary Hs a i :=
  let Hi := fresh "Hi" in
  cbv beta iota delta [step spec_step on_new on_alive ctor_from assign_from deref_from];
  pose proof (Hs i) as Hi;
  destruct (a i) as [[[|] [?|]]|] eqn:Hai; cbn in Hi;
  rewrite ?Hi; finish_step Hs.

Ltac binary Hs a i j :=
  let Hi := fresh "Hi" in let Hj := fresh "Hj" in
  destruct (N.eqb_spec i j) as [Eij|Nij];
  [ subst j; unary Hs a i
  | pose proof Nij as Nij'; apply N.eqb_neq in Nij;
    cbv beta iota delta [step spec_step on_new on_alive ctor_from assign_from deref_from];
    pose proof (Hs i) as Hi; pose proof (Hs j) as Hj;
    destruct (a i) as [[[|] [?|]]|] eqn:Hai; destruct (a j) as [[[|] [?|]]|] eqn:Haj; cbn in Hi, Hj;
    rewrite ?Hi, ?Hj; finish_step Hs ].

Lemma step_refines z s a o :
  sim s a ->
  match spec_step z a o with
  | Some (x, a') =>
      exists e s', step (fixed_cfg z) s o = SOk x s' e /\ sim s' a' /\
                   (forall w, lifecycle_from (live_of s w) (proj w e) = Some (live_of s' w))
  | None => step (fixed_cfg z) s o = SIll
  end.
Proof.
  intro Hs.
  destruct o.
  all: try destruct mv.
  all: try (unary Hs a i; fail).
  all: try (binary Hs a i j; fail).

Qed.

(* ------------------------------------------------------------------ spec-level facts *)
Ltac spec_cases a :=
  repeat match goal with
         | H : context [match a ?i with _ => _ end] |- _ => destruct (a i) as [[[|] [?|]]|] eqn:?
         | H : context [if ?b then _ else _] |- _ => destruct b eqn:?
         end.

Lemma spec_step_frame z a o x a' k :
  spec_step z a o = Some (x, a') -> ~ In k (writes o) -> a' k = a k.
Proof.
  intros H Hk. destruct o; try destruct mv; cbn [spec_step writes In] in *; spec_cases a; inversion H; subst; clear H;
    cbv beta delta [aupd];
    repeat match goal with |- context [N.eqb k ?i] => destruct (N.eqb_spec k i); subst end;
    try reflexivity; try (cbn; symmetry; eassumption); exfalso; apply Hk; auto.
Qed.

Lemma spec_step_alive z a o x a' k :
  spec_step z a o = Some (x, a') -> a' k <> None -> a k <> None \/ In k (ctor_index o).
Proof.
  intros H Hk. destruct o; try destruct mv; cbn [spec_step ctor_index In] in *; spec_cases a; inversion H; subst; clear H;
    revert Hk; cbv beta delta [aupd];
    repeat match goal with |- context [N.eqb k ?i] => destruct (N.eqb_spec k i); subst end;
    intro Hk; auto; try congruence; left; congruence.
Qed.

Lemma spec_step_gives z a o x a' r g :
  spec_step z a o = Some (x, a') -> gives a o = Some (r, g) -> exists ty, a' r = Some (ty, g).
Proof.
  intros H Hg. destruct o; try destruct mv; cbn [spec_step gives] in *; unfold src_state in *; spec_cases a; cbn in Hg;
    try discriminate; inversion H; subst; clear H; inversion Hg; subst; clear Hg;
    cbv beta delta [aupd]; rewrite ?N.eqb_refl; eauto.
Qed.

(* ------------------------------------------------------------------ histories *)
Lemma sim_empty : sim empty_store aempty.
Proof. intro k. reflexivity. Qed.

Lemma proj_app w l1 l2 : proj w (l1 ++ l2) = proj w l1 ++ proj w l2.
Proof. unfold proj. rewrite filter_app, map_app. reflexivity. Qed.

Definition linv (r : rstate) : Prop :=
  forall w, lifecycle w (r_log r) = Some (live_of (r_store r) w).

Lemma linv_init : linv init.
Proof. intro w. reflexivity. Qed.

Lemma run_from_err c h r e : r_err r = Some e -> run_from c h r = r.
Proof. intro H. destruct h; cbn [run_from]; [reflexivity | rewrite H; reflexivity]. Qed.

Lemma run_from_app c h h' : forall r, run_from c (h ++ h') r = run_from c h' (run_from c h r).
Proof.
  induction h as [|o h IH]; intro r; [reflexivity|].
  cbn [app run_from]. destruct (r_err r) eqn:He.
  - symmetry. apply run_from_err with (e := p). exact He.
  - destruct (step c (r_store r) o); try apply IH.
    symmetry. eapply run_from_err. reflexivity.
Qed.

Lemma run_from_refines z h : forall r a,
  r_err r = None -> sim (r_store r) a -> linv r ->
  r_err (run_from (fixed_cfg z) h r) = None /\
  sim (r_store (run_from (fixed_cfg z) h r)) (fst (spec_run z a h)) /\
  r_outs (run_from (fixed_cfg z) h r) = r_outs r ++ snd (spec_run z a h) /\
  linv (run_from (fixed_cfg z) h r).
Proof.
  induction h as [|o h IH]; intros r a He Hs Hl.
  - cbn. rewrite app_nil_r. auto.
  - cbn [run_from spec_run]. rewrite He.
    pose proof (step_refines z (r_store r) a o Hs) as Hst.
    destruct (spec_step z a o) as [[x a']|].
    + destruct Hst as (e & s' & Hst & Hs' & Hlf). rewrite Hst.
      match goal with |- context [run_from _ h ?R] => assert (Hl' : linv R) end.
      { intro w. cbn [r_log r_store]. unfold lifecycle. rewrite proj_app, fold_left_app.
        fold (lifecycle w (r_log r)). rewrite Hl. apply Hlf. }
      match goal with |- context [run_from _ h ?R] =>
        destruct (IH R a' eq_refl Hs' Hl') as (I1 & I2 & I3 & I4) end.
      destruct (spec_run z a' h) as [af l]. cbn [fst snd] in *.
      repeat split; auto. rewrite I3. cbn [r_outs]. rewrite <- app_assoc. reflexivity.
    + rewrite Hst.
      match goal with |- context [run_from _ h ?R] =>
        destruct (IH R a eq_refl Hs Hl) as (I1 & I2 & I3 & I4) end.
      destruct (spec_run z a h) as [af l]. cbn [fst snd] in *.
      repeat split; auto. rewrite I3. cbn [r_outs]. rewrite <- app_assoc. reflexivity.
Qed.

Lemma optional_history z h :
  r_err (run (fixed_cfg z) h) = None /\
  sim (r_store (run (fixed_cfg z) h)) (fst (spec_run z aempty h)) /\
  r_outs (run (fixed_cfg z) h) = snd (spec_run z aempty h) /\
  linv (run (fixed_cfg z) h).
Proof.
  pose proof (run_from_refines z h init aempty eq_refl sim_empty linv_init) as H.
  exact H.
Qed.
