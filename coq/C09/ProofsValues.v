(* C09 — an lvalue argument of a value operation is never modified; only an xvalue passed to a forwarding member
   (emplace, make_optional) may end moved-from; for the wrapper store the operation is the plain value operation. *)
From Common Require Import Prelude.
From C09 Require Import Model Spec Proofs Proofs2 Values.
Local Open Scope N_scope.

Lemma use_is_plain_op c s vs m i ty k cat o s' e vs' :
  vstep c s vs (VUse m i ty k cat) = VOk o s' e vs' ->
  exists v, vs k = Some v /\ step c s (use_op m i ty v) = SOk o s' e.
Proof.
  cbn [vstep]. destruct (vs k) as [v|]; [|discriminate]. destruct (target_ok s m i ty); [|discriminate].
  destruct (step c s (use_op m i ty v)) eqn:H; try discriminate. intro E. inversion E; subst. eauto.
Qed.

Lemma lvalue_source_unchanged c s vs m i ty k cat o s' e vs' :
  vstep c s vs (VUse m i ty k cat) = VOk o s' e vs' ->
  (cat <> VX -> forall n, vs' n = vs n) /\
  (forall n, n <> k -> vs' n = vs n) /\
  (vs' k <> vs k -> cat = VX /\ forwards m = true /\ mvz c = true /\ vs' k = Some 0).
Proof.
  cbn [vstep]. destruct (vs k) as [v|] eqn:Hk; [|discriminate]. destruct (target_ok s m i ty); [|discriminate].
  destruct (step c s (use_op m i ty v)); try discriminate. intro E. inversion E; subst; clear E.
  unfold moves_from. destruct cat, (forwards m), (mvz c); cbn; repeat split; intros; try reflexivity;
    try congruence; unfold vupd in *;
    try (destruct (N.eqb_spec n k); congruence);
    try (rewrite N.eqb_refl; reflexivity); try (rewrite N.eqb_refl in *; congruence).
Qed.

(* the value assignment and the const T& constructor never modify their argument, whatever its category *)
Lemma copying_members_never_move c s vs m i ty k cat o s' e vs' :
  forwards m = false -> vstep c s vs (VUse m i ty k cat) = VOk o s' e vs' -> forall n, vs' n = vs n.
Proof.
  intros Hm. cbn [vstep]. destruct (vs k) as [v|]; [|discriminate]. destruct (target_ok s m i ty); [|discriminate].
  destruct (step c s (use_op m i ty v)); try discriminate. unfold moves_from. rewrite Hm. cbn.
  intro E. inversion E; subst. reflexivity.
Qed.

(* c = *a : a is unchanged (also for c = std::move( *a ): value() = rhs copies); c.emplace( *a ) leaves a unchanged,
   c.emplace(std::move( *a )) leaves it engaged with the moved-from payload - on every reachable state *)
Lemma deref_source z h i j mv :
  let a := fst (spec_run z aempty h) in
  (r_store (run (fixed_cfg z) (h ++ [AssignDeref i j mv])) j = r_store (run (fixed_cfg z) h) j \/ i = j) /\
  (i <> j -> r_store (run (fixed_cfg z) (h ++ [EmplaceDeref i j false])) j = r_store (run (fixed_cfg z) h) j).
Proof.
  intro a. split.
  - destruct (N.eq_dec i j) as [E|E]; [right; exact E | left].
    apply history_frame. intros o [Ho|[]] Hin. subst o. cbn in Hin. destruct Hin as [Hin|[]]. congruence.
  - intro E. apply history_frame. intros o [Ho|[]] Hin. subst o. cbn in Hin. destruct Hin as [Hin|[]]. congruence.
Qed.
