(* C09 — EXCEPTIONS thrown by payload operations, on the micro-operation programs of Micro.v.  Definitions only.

   A payload construction (ONew, ONewDefault) or assignment (OAssign) may throw: the k-th such operation of a member
   call exits the member at that point, before the operation has any effect (k = 0: nothing is planted).  The wrapper
   is then in the state the statements executed so far have produced - which is exactly what the ORDER of the flag
   store and the payload operation in the source decides. *)
From Common Require Import Prelude.
From C09 Require Import Model Micro.
Local Open Scope N_scope.

Inductive xres :=
| XOk (f : frame) (k : nat)       (* completed; k payload operations still to go before the planted throw *)
| XThrow (f : frame)              (* the planted payload operation threw: the frame as the member left it *)
| XErr (e : lerr * cell)          (* lifetime error of the storage machine *)
| XNone.                          (* unknown statement / depth exhausted *)

Definition pay (k : nat) : option nat := match k with O => Some O | S O => None | S k' => Some k' end.

Fixpoint interpx (n : nat) (z : bool) (tbl : meth -> mfact) (arg : varg) (p : list mop) (k : nat) (f : frame) {struct n} : xres :=
  match n with
  | O => XNone
  | S n' =>
      let lift (m : M unit) (k : nat) (f : frame) : xres :=
        match m f with ROk _ f' => XOk f' k | RErr e _ => XErr e end in
      let payop (m : M unit) (k : nat) (f : frame) : xres :=
        match pay k with None => XThrow f | Some k' => lift m k' f end in
      let op (o : mop) (k : nat) (f : frame) : xres :=
        match o with
        | OIf c t e =>
            match eval_cnd c f with
            | ROk b f' => if b then interpx n' z tbl arg t k f' else interpx n' z tbl arg e k f'
            | RErr e' _ => XErr e'
            end
        | OReset => interpx n' z tbl arg (mf_prog (tbl MReset)) k f
        | ODcsin => interpx n' z tbl arg (mf_prog (tbl MDcsin)) k f
        | OEmplace s => interpx n' z tbl (sub_arg z arg s) (mf_prog (tbl MEmplace)) k f
        | OAssignValue s => interpx n' z tbl (sub_arg z arg s) (mf_prog (tbl MAssignValue)) k f
        | ONew s => payop (v <- eval_src z arg s ;; placement_new This v false) k f
        | ONewDefault => payop (placement_new This 0 true) k f
        | ODtor => lift (dtor_call This) k f
        | OAssign s => payop (v <- eval_src z arg s ;; assign_to This v) k f
        | OFlag b => lift (set_flag This b) k f
        | OUnknown => XNone
        end in
      (fix go (p : list mop) (k : nat) (f : frame) : xres :=
         match p with
         | [] => XOk f k
         | o :: p' => match op o k f with XOk f' k' => go p' k' f' | r => r end
         end) p k f
  end.
Definition runx (z : bool) (tbl : meth -> mfact) (m : meth) (arg : varg) (k : nat) (f : frame) : xres :=
  interpx 8 z tbl arg (mf_prog (tbl m)) k f.

(* basic exception safety of the storage machine: the flag is never set over raw storage *)
Definition flag_live (o : opt) : bool := negb (hv o) || match st o with Live _ => true | Raw => false end.
(* the stronger state: a live payload always carries the flag (otherwise it can never be destroyed) *)
Definition flag_iff_live (o : opt) : bool := Bool.eqb (hv o) (match st o with Live _ => true | Raw => false end).
Definition after (P : opt -> bool) (r : xres) : bool :=
  match r with
  | XOk f _ | XThrow f => P (f_this f) && P (f_other f)
  | XErr _ | XNone => false
  end.

Definition all_meths : list meth :=
  [MDefCtor; MCtorValue; MCtorCopy; MCtorConvCopy; MCtorMove; MCtorConvMove; MMakeOptional; MDtor; MAssignCopy; MAssignMove;
   MAssignConvCopy; MAssignConvMove; MAssignValue; MEmplace; MReset; MDcsin].
Definition is_ctor_meth (m : meth) : bool :=
  match m with MDefCtor | MCtorValue | MCtorCopy | MCtorConvCopy | MCtorMove | MCtorConvMove | MMakeOptional => true | _ => false end.
Definition cfgs (m : meth) : list frame :=
  let o (x : option N) : opt := match x with None => fresh | Some v => {| st := Live v; hv := true |} end in
  let mk a b al := {| f_this := o a; f_other := o b; f_alias := al; f_log := [] |} in
  if is_ctor_meth m then [mk None None false; mk None (Some 7) false]
  else [mk None None false; mk None (Some 7) false; mk (Some 5) None false; mk (Some 5) (Some 7) false;
        mk None None true; mk (Some 5) (Some 5) true].
(* *other may be passed as the value argument only when other is another, engaged wrapper *)
Definition args_for (z : bool) (f : frame) : list varg :=
  if negb (f_alias f) && hv (f_other f) then [vval 9; vderef z false; vderef z true] else [vval 9].
(* every member, every well-formed configuration, both payload flavours, value / wrapper-payload arguments, the throw
   planted at the 1st .. 4th payload operation (or not at all) *)
Definition exc_check (P : opt -> bool) (tbl : meth -> mfact) : bool :=
  forallb (fun m => forallb (fun f => forallb (fun z => forallb (fun a => forallb (fun k =>
    after P (runx z tbl m a k f)) [0; 1; 2; 3; 4]%nat) (args_for z f)) [true; false]) (cfgs m)) all_meths.

(* the helper before the repair (4e05296): the T() it built carried no flag until the caller's assignment had succeeded *)
Definition old_helper_table (m : meth) : mfact :=
  match m with
  | MDcsin => {| mf_fresh := false; mf_prog := [OIf (CNotHas This) [ONewDefault] []] |}
  | _ => model_table m
  end.

(* the order of seeded change C09-17: emplace raises the flag BEFORE the payload constructor runs *)
Definition flag_first_table (m : meth) : mfact :=
  match m with
  | MEmplace => {| mf_fresh := false; mf_prog := [OReset; OFlag true; ONew SValFwd] |}
  | _ => model_table m
  end.
