(* C09 — the reference ("value type") semantics that Properties.v relates the model to.
   Definitions only.

   An Optional is abstractly [option N]: None = empty, Some v = holds payload v.  Each operation
   gives the receiver exactly what the operation's operand says:
     construct/assign/emplace from a value v     -> Some v
     construct/assign from a wrapper in state x  -> x       (so an EMPTY source gives None)
     reset / default construction                -> None
   and changes nothing else, except that the two operations that take the payload with std::move
   (Optional(Optional&&), operator=(Optional&&)) leave the source engaged with a moved-from
   payload.  No lifetime state appears here: that every such step is realised by the storage
   machine of Model.v without an error is what the theorems say. *)
From Common Require Import Prelude.
From C09 Require Import Model.
Local Open Scope N_scope.

Definition aopt := option N.
Definition awrap := (bool * aopt)%type.                (* payload type (false = T, true = U), state *)
Definition astore := N -> option awrap.
Definition aempty : astore := fun _ => None.
Definition aupd (a : astore) (i : N) (x : option awrap) : astore :=
  fun k => if N.eqb k i then x else a k.

(* the storage machine state that represents an abstract state *)
Definition conc (x : aopt) : opt :=
  match x with None => fresh | Some v => {| st := Live v; hv := true |} end.
Definition conc_w (w : awrap) : wrapper := {| w_ty := fst w; w_opt := conc (snd w) |}.
Definition sim (s : store) (a : astore) : Prop := forall k, s k = option_map conc_w (a k).

(* what std::move leaves in the source payload: code 0 (string, vector, the instrumented type)
   or the unchanged value (trivially copyable payloads) *)
Definition moved (z : bool) (x : aopt) : aopt := option_map (fun v => if z then 0 else v) x.
Definition is_some {A} (x : option A) : bool := match x with Some _ => true | None => false end.

Definition spec_cmp (o : cmpop) (x y : aopt) : bool :=
  match o with
  | CNe => negb (match x, y with Some p, Some q => cmp_payload CEq p q | _, _ => false end)
  | _ => match x, y with Some p, Some q => cmp_payload o p q | _, _ => false end
  end.

(* None = the client's call is ill-formed (no such wrapper, wrong payload type, slot in use) *)
Definition spec_step (z : bool) (a : astore) (o : op) : option (out * astore) :=
  match o with
  | CtorDefault i ty =>
      match a i with None => Some (OUnit, aupd a i (Some (ty, None))) | Some _ => None end
  | CtorValue i ty v | MakeOptional i ty v =>
      match a i with None => Some (OUnit, aupd a i (Some (ty, Some v))) | Some _ => None end
  | CtorCopy i j =>
      match a i, a j with
      | None, Some (tj, x) => Some (OUnit, aupd a i (Some (tj, x)))
      | _, _ => None
      end
  | CtorMove i j =>
      match a i, a j with
      | None, Some (tj, x) => Some (OUnit, aupd (aupd a j (Some (tj, moved z x))) i (Some (tj, x)))
      | _, _ => None
      end
  | CtorConvCopy i j =>
      match a i, a j with
      | None, Some (true, x) => Some (OUnit, aupd a i (Some (false, x)))
      | _, _ => None
      end
  | CtorConvMove i j =>
      match a i, a j with
      | None, Some (true, x) => Some (OUnit, aupd (aupd a j (Some (true, moved z x))) i (Some (false, x)))
      | _, _ => None
      end
  | Dtor i =>
      match a i with Some _ => Some (OUnit, aupd a i None) | None => None end
  | AssignValue i v =>
      match a i with Some (ti, _) => Some (OUnit, aupd a i (Some (ti, Some v))) | None => None end
  | AssignCopy i j =>
      match a i, a j with
      | Some (ti, _), Some (tj, x) =>
          if Bool.eqb ti tj then Some (OUnit, aupd a i (Some (ti, x))) else None
      | _, _ => None
      end
  | AssignMove i j =>
      match a i, a j with
      | Some (ti, _), Some (tj, x) =>
          if Bool.eqb ti tj && negb (N.eqb i j)
          then Some (OUnit, aupd (aupd a j (Some (tj, moved z x))) i (Some (ti, x)))
          else None
      | _, _ => None
      end
  | AssignConvCopy i j | AssignConvMove i j =>      (* operator=(Optional<U>&&) copies the payload *)
      match a i, a j with
      | Some (false, _), Some (true, x) => Some (OUnit, aupd a i (Some (false, x)))
      | _, _ => None
      end
  | AssignDeref i j mv =>                          (* c = *a : c gets a's value, a is unchanged (also for std::move( *a )) *)
      match a i, a j with
      | Some (ti, _), Some (tj, Some v) =>
          if Bool.eqb ti tj then Some (OUnit, aupd a i (Some (ti, Some v))) else None
      | _, _ => None
      end
  | EmplaceDeref i j mv =>                         (* c.emplace( *a ) / c.emplace(std::move( *a )) *)
      match a i, a j with
      | Some (ti, _), Some (tj, Some v) =>
          if Bool.eqb ti tj && negb (N.eqb i j)
          then Some (OUnit, aupd (aupd a j (Some (tj, if mv then moved z (Some v) else Some v))) i (Some (ti, Some v)))
          else None
      | _, _ => None
      end
  | Emplace i v =>
      match a i with Some (ti, _) => Some (OUnit, aupd a i (Some (ti, Some v))) | None => None end
  | Reset i =>
      match a i with Some (ti, _) => Some (OUnit, aupd a i (Some (ti, None))) | None => None end
  | HasValue i =>
      match a i with Some (_, x) => Some (OBool (is_some x), a) | None => None end
  | Value i =>
      match a i with Some (_, x) => Some (OVal x, a) | None => None end
  | ValueOr i d =>
      match a i with
      | Some (_, x) => Some (OVal (Some (match x with Some v => v | None => d end)), a)
      | None => None
      end
  | Cmp o i j =>
      match a i, a j with
      | Some (_, x), Some (_, y) => Some (OBool (spec_cmp o x y), a)
      | _, _ => None
      end
  | ToString i =>
      match a i with Some _ => Some (OStr, a) | None => None end
  end.

Fixpoint spec_run (z : bool) (a : astore) (h : list op) : astore * list (option out) :=
  match h with
  | [] => (a, [])
  | o :: h' =>
      match spec_step z a o with
      | Some (x, a') => let '(af, l) := spec_run z a' h' in (af, Some x :: l)
      | None => let '(af, l) := spec_run z a h' in (af, None :: l)
      end
  end.

(* the wrappers an operation may change: its receiver, and the source of a moving operation *)
Definition writes (o : op) : list N :=
  match o with
  | CtorDefault i _ | CtorValue i _ _ | MakeOptional i _ _ | CtorCopy i _ | CtorConvCopy i _
  | Dtor i | AssignValue i _ | AssignCopy i _ | AssignConvCopy i _ | AssignConvMove i _
  | Emplace i _ | Reset i | AssignDeref i _ _ | EmplaceDeref i _ false => [i]
  | CtorMove i j | CtorConvMove i j | AssignMove i j | EmplaceDeref i j true => [i; j]
  | HasValue _ | Value _ | ValueOr _ _ | Cmp _ _ _ | ToString _ => []
  end.

(* a payload object is alive in wrapper slot w's storage *)
Definition live_of (s : store) (w : N) : bool :=
  match s w with
  | Some x => match st (w_opt x) with Live _ => true | Raw => false end
  | None => false
  end.
Definition lifecycle_from (b : bool) (l : list ekind) : option bool :=
  fold_left lifecycle_step l (Some b).

(* ------------------------------------------------------------------ Any: reference semantics *)
(* abstractly an Any is option (tag * value); get<T> succeeds iff tag = T *)
Definition aany := option (N * N).
Definition abs_any (x : anyw) : aany :=
  match x with Some h => Some (h_tag h, h_val h) | None => None end.
Definition any_eq_spec (x y : aany) : bool :=
  match x, y with
  | Some (t, v), Some (t', v') => N.eqb t t' && has_eq t && peqv t v v'
  | None, None => true
  | _, _ => false
  end.
(* holder id is owned by some living Any of the world *)
Definition owned (w : aworld) (id : N) : Prop :=
  exists i h, a_store w i = Some (Some h) /\ h_id h = id.

(* what an operation gives its receiver: (receiver, state given), read in the state BEFORE it *)
Definition src_state (a : astore) (j : N) : option aopt :=
  match a j with Some (_, x) => Some x | None => None end.
Definition gives (a : astore) (o : op) : option (N * aopt) :=
  match o with
  | CtorDefault i _ | Reset i => Some (i, None)
  | CtorValue i _ v | MakeOptional i _ v | AssignValue i v | Emplace i v => Some (i, Some v)
  | CtorCopy i j | CtorMove i j | CtorConvCopy i j | CtorConvMove i j
  | AssignCopy i j | AssignMove i j | AssignConvCopy i j | AssignConvMove i j
  | AssignDeref i j _ | EmplaceDeref i j _ =>
      match src_state a j with Some x => Some (i, x) | None => None end
  | _ => None
  end.

(* event counts on one wrapper slot *)
Definition is_ctor (k : ekind) : bool := match k with KDefault | KCtor => true | _ => false end.
Definition is_dtor (k : ekind) : bool := match k with KDtor => true | _ => false end.
Definition count_kind (p : ekind -> bool) (w : N) (l : list ev) : nat := length (filter p (proj w l)).

(* the Any wrappers an operation may change *)
Definition awrites (o : aop) : list N :=
  match o with
  | ACtorDefault i | ACtorValue i _ _ | ACtorCopy i _ | ADtor i | AAssignValue i _ _ | AAssignCopy i _
  | ASet i _ _ => [i]
  | _ => []
  end.
(* what an operation gives its receiver *)
Definition agives (w : aworld) (o : aop) : option (N * aany) :=
  match o with
  | ACtorDefault i => Some (i, None)
  | ACtorValue i t v | AAssignValue i t v => Some (i, Some (t, v))
  | ACtorCopy i j | AAssignCopy i j =>
      match a_store w j with Some y => Some (i, abs_any y) | None => None end
  | _ => None
  end.
Definition get_spec (x : aany) (t : N) : aout :=
  match x with Some (t', v) => if N.eqb t' t then AVal v else AThrow | None => AThrow end.

(* the "skip the copy when the operands already compare equal" shortcut (not what Any does):
   kept only to state that it is NOT a copy, because operator== is coarser than identity *)
Definition assign_copy_skip_if_equal (w : aworld) (i j : N) : ares :=
  match a_store w i, a_store w j with
  | Some x, Some y =>
      match a_eq true x y with
      | Some true => AOk AUnit w
      | _ => a_step true w (AAssignCopy i j)
      end
  | _, _ => AIll
  end.

(* ------------------------------------------------------------------ payload kinds (trait lattice) *)
(* Which payload operations of the storage machine are OBSERVABLE depends on which special members
   of the payload type are user-provided; the machine itself has a single path for every kind (its
   only trait test, reset()'s is_trivially_destructible shortcut, skips a destructor call that would
   be a no-op).  The instrumented traces of the harness are compared with [observed pk] of the model's
   event log. *)
Inductive pkind :=
| PkFull        (* user-provided ctors, copy/move, assignment and destructor: everything is visible *)
| PkNoDtor      (* trivially destructible, user-provided copy/move ctor and assignment (self-pointer,
                   copy counter): destructor calls are not observable *)
| PkDtorOnly    (* user-provided default ctor and destructor, trivial copy/move: only KDefault / KDtor *)
| PkTrivial.    (* trivially copyable: no payload operation is observable *)
Definition visible (pk : pkind) (k : ekind) : bool :=
  match pk, k with
  | PkFull, _ => true
  | PkNoDtor, KDtor => false
  | PkNoDtor, _ => true
  | PkDtorOnly, (KDefault | KDtor) => true
  | PkDtorOnly, _ => false
  | PkTrivial, _ => false
  end.
Definition observed (pk : pkind) (l : list ev) : list ev := filter (fun e => visible pk (fst e)) l.

(* the operations that transfer a payload from wrapper j to wrapper i *)
Definition transfer_of (o : op) : option (N * N) :=
  match o with
  | CtorCopy i j | CtorMove i j | CtorConvCopy i j | CtorConvMove i j
  | AssignCopy i j | AssignMove i j | AssignConvCopy i j | AssignConvMove i j
  | AssignDeref i j _ | EmplaceDeref i j _ => Some (i, j)
  | _ => None
  end.
Definition is_src_read (j : N) (e : ev) : bool :=
  match fst e with KRead | KMove => N.eqb (snd e) j | _ => false end.
Definition is_dst_write (i : N) (e : ev) : bool :=
  match fst e with KCtor | KAssign => N.eqb (snd e) i | _ => false end.
