(* C09 — proofs about the Any model. *)
From Common Require Import Prelude.
From C09 Require Import Model Spec.
Local Open Scope N_scope.

Ltac any_cases w :=
  repeat match goal with
         | |- context [match a_store w ?i with _ => _ end] => destruct (a_store w i) as [[?|]|] eqn:?
         | H : context [match a_store w ?i with _ => _ end] |- _ => destruct (a_store w i) as [[?|]|] eqn:?
         | |- context [if ?b then _ else _] => destruct b eqn:?
         | H : context [if ?b then _ else _] |- _ => destruct b eqn:?
         end.

(* comparison, printing and every other operation of the repaired Any are defined on every state *)
Lemma any_step_total w o : a_step true w o <> ANullDeref.
Proof. destruct o; cbn; any_cases w; cbn; discriminate. Qed.

Lemma any_run_from_total h : forall r, ar_crash r = false -> ar_crash (a_run_from true h r) = false.
Proof.
  induction h as [|o h IH]; intros r Hr; cbn [a_run_from]; [exact Hr|].
  rewrite Hr. pose proof (any_step_total (ar_world r) o) as Ht.
  destruct (a_step true (ar_world r) o); try congruence; apply IH; reflexivity.
Qed.

Lemma any_run_total h : ar_crash (a_run true h) = false /\ ar_crash (a_run_closed true h) = false.
Proof.
  split; [apply any_run_from_total; reflexivity|].
  unfold a_run_closed. apply any_run_from_total. apply any_run_from_total. reflexivity.
Qed.

Lemma any_eq_total w i j x y :
  a_store w i = Some x -> a_store w j = Some y ->
  a_step true w (AEq i j) = AOk (ABool (any_eq_spec (abs_any x) (abs_any y))) w /\
  a_step true w (ANe i j) = AOk (ABool (negb (any_eq_spec (abs_any x) (abs_any y)))) w.
Proof.
  intros Hi Hj. cbn [a_step]. rewrite Hi, Hj.
  destruct x as [hx|], y as [hy|]; cbn; split; reflexivity.
Qed.

Lemma any_tostring_total w i x :
  a_store w i = Some x ->
  a_step true w (AToString i) = AOk (AStr (option_map fst (abs_any x))) w.
Proof. intro Hi. cbn [a_step]. rewrite Hi. destruct x; reflexivity. Qed.

(* get<T>() returns the value iff T is exactly the stored type; otherwise (other type, or empty) throws *)
Lemma any_get_exact fixed w i x t :
  a_store w i = Some x ->
  a_step fixed w (AGet i t) = AOk (get_spec (abs_any x) t) w /\
  a_step fixed w (AIs i t) = AOk (ABool (match abs_any x with Some (t', _) => N.eqb t' t | None => false end)) w /\
  a_step fixed w (AValid i) = AOk (ABool (match abs_any x with Some _ => true | None => false end)) w.
Proof. intro Hi. cbn [a_step]. rewrite Hi. destruct x; cbn; auto. Qed.

(* after an operation the receiver holds exactly what the operation gave it *)
Lemma any_gives fixed w o x w' r g :
  a_step fixed w o = AOk x w' -> agives w o = Some (r, g) ->
  exists y, a_store w' r = Some y /\ abs_any y = g.
Proof.
  intros H Hg. destruct o; cbn [a_step agives a_new a_clone] in *; try discriminate; any_cases w;
    try discriminate; inversion H; subst; clear H; inversion Hg; subst; clear Hg;
    cbn; rewrite ?N.eqb_refl; eauto.
Qed.

(* ... and no other wrapper changes: a copy and its source are independent *)
Lemma any_frame fixed w o x w' k :
  a_step fixed w o = AOk x w' -> ~ In k (awrites o) -> a_store w' k = a_store w k.
Proof.
  intros H Hk. destruct fixed, o; cbn [a_step awrites a_new a_clone In a_eq] in *; any_cases w;
    try discriminate; inversion H; subst; clear H; cbn;
    repeat match goal with |- context [N.eqb k ?i] => destruct (N.eqb_spec k i); subst end;
    try reflexivity; exfalso; apply Hk; auto.
Qed.

Lemma any_eq_empty_old : a_step false a_init (ACtorDefault 0) <> ANullDeref /\
  (forall w, a_step false a_init (ACtorDefault 0) = AOk AUnit w -> a_step false w (AEq 0 0) = ANullDeref /\ a_step false w (AToString 0) = ANullDeref).
Proof. split; [discriminate|]. intros w H. inversion H; subst. split; reflexivity. Qed.

Lemma any_eq_empty_refuted : exists h, ar_crash (a_run false h) = true.
Proof. exists [ACtorDefault 0; ACtorValue 1 0 1; AEq 0 1]. reflexivity. Qed.

(* copy construction / copy assignment install EXACTLY the source's stored state (type and value,
   Leibniz equal - sign bit, shadow component and NaN included), whatever the target held before
   and whether or not the two compared equal *)
Lemma any_copy_exact fixed w i j y x w' :
  a_store w j = Some y ->
  a_step fixed w (AAssignCopy i j) = AOk x w' \/ a_step fixed w (ACtorCopy i j) = AOk x w' ->
  exists y', a_store w' i = Some y' /\ abs_any y' = abs_any y /\
             (i <> j -> a_store w' j = Some y).
Proof.
  intros Hj [H|H].
  - destruct (any_gives fixed w (AAssignCopy i j) x w' i (abs_any y) H) as (y' & H1 & H2).
    { cbn [agives]. rewrite Hj. reflexivity. }
    exists y'. repeat split; auto. intro Hne.
    rewrite (any_frame fixed w _ x w' j H); [exact Hj|]. cbn. intros [E|[]]. congruence.
  - destruct (any_gives fixed w (ACtorCopy i j) x w' i (abs_any y) H) as (y' & H1 & H2).
    { cbn [agives]. rewrite Hj. reflexivity. }
    exists y'. repeat split; auto. intro Hne.
    rewrite (any_frame fixed w _ x w' j H); [exact Hj|]. cbn. intros [E|[]]. congruence.
Qed.

(* operator== of the payload is coarser than identity, and not reflexive on NaN *)
Lemma peqv_coarser :
  (peqv 6 0 1 = true /\ 0 <> 1) /\ (peqv 7 17 18 = true /\ 17 <> 18) /\ peqv 6 2 2 = false.
Proof. repeat split; try reflexivity; discriminate. Qed.

(* hence skipping the copy when the operands compare equal would NOT be a copy *)
Lemma skip_if_equal_refuted :
  exists w i j y w' y', a_store w j = Some y /\ assign_copy_skip_if_equal w i j = AOk AUnit w' /\
                        a_store w' i = Some y' /\ abs_any y' <> abs_any y.
Proof.
  set (w := match a_run true [ACtorValue 0 6 0; ACtorValue 1 6 1] with r => ar_world r end).
  exists w, 0, 1, (Some {| h_id := 1; h_tag := 6; h_val := 1 |}), w, (Some {| h_id := 0; h_tag := 6; h_val := 0 |}).
  repeat split; try reflexivity. cbn. discriminate.
Qed.
