(* C09 — source-derived obligations, part 2 (independent of part 1): what the extracted programs
   do.  On every well-formed configuration each member of the working tree's Optional ends
   without a lifetime error in the wrapper states of the model function; the comparisons return
   the model's result; the storage attribute aligns the payload; Any's members test validity
   before every dereference of the holder and a copy owns a clone.  A property-preserving
   re-sequencing of a member breaks part 1 (and says which member) but not this file. *)
From Common Require Import Prelude.
From C09 Require Import Model Spec Env Micro MicroProofs Exc FactsSem.
From C09.gen Require Import Facts.
Local Open Scope N_scope.

Theorem source_optional_members_safe : forall z v a x y,
  same_cells (run_member z gen_table MReset a (wf1 x)) (m_reset (wf1 x)) /\
  same_cells (run_member z gen_table MDcsin a (wf1 x)) (m_default_construct_storage_if_needed (wf1 x)) /\
  same_cells (run_member z gen_table MEmplace (vval v) (wf1 x)) (m_emplace v (wf1 x)) /\
  same_cells (run_member z gen_table MAssignValue (vval v) (wf1 x)) (m_assign_value v (wf1 x)) /\
  same_cells (run_member z gen_table MCtorValue (vval v) (wf1 None)) (m_ctor_value v (wf1 None)) /\
  same_cells (run_member z gen_table MMakeOptional (vval v) (wf1 None)) (m_emplace v (wf1 None)) /\
  same_cells (bindO (run_member z gen_table MDtor a) (fun _ => lift (release This)) (wf1 x)) (m_dtor (wf1 x)) /\
  same_cells (run_member z gen_table MCtorCopy a (wf2 None y)) (m_ctor_copy (fixed_cfg z) (wf2 None y)) /\
  same_cells (run_member z gen_table MCtorConvCopy a (wf2 None y)) (m_ctor_copy (fixed_cfg z) (wf2 None y)) /\
  same_cells (run_member z gen_table MCtorMove a (wf2 None y)) (m_ctor_move (fixed_cfg z) (wf2 None y)) /\
  same_cells (run_member z gen_table MCtorConvMove a (wf2 None y)) (m_ctor_move (fixed_cfg z) (wf2 None y)) /\
  (same_cells (run_member z gen_table MAssignCopy a (wf2 x y)) (m_assign_wrapper (fixed_cfg z) false (wf2 x y)) /\
   same_cells (run_member z gen_table MAssignCopy a (wf1 x)) (m_assign_wrapper (fixed_cfg z) false (wf1 x))) /\
  same_cells (run_member z gen_table MAssignMove a (wf2 x y)) (m_assign_wrapper (fixed_cfg z) true (wf2 x y)) /\
  same_cells (run_member z gen_table MAssignConvCopy a (wf2 x y)) (m_assign_wrapper (fixed_cfg z) false (wf2 x y)) /\
  same_cells (run_member z gen_table MAssignConvMove a (wf2 x y)) (m_assign_wrapper (fixed_cfg z) false (wf2 x y)).
Proof.
  intros z v a x y.
  split; [apply sem_reset|].
  split; [apply sem_dcsin|].
  split; [apply sem_emplace|].
  split; [apply sem_assign_value|].
  split; [apply sem_ctor_value|].
  split; [apply sem_make_optional|].
  split; [apply sem_dtor|].
  split; [apply sem_ctor_copy|].
  split; [apply sem_ctor_conv_copy|].
  split; [apply sem_ctor_move|].
  split; [apply sem_ctor_conv_move|].
  split; [apply sem_assign_copy|].
  split; [apply sem_assign_move|].
  split; [apply sem_assign_conv_copy|].
  apply sem_assign_conv_move.
Qed.
Print Assumptions source_optional_members_safe.

Theorem source_optional_ctors_start_fresh :
  forallb (fun m => mf_fresh (gen_table m)) [MDefCtor; MCtorValue; MCtorCopy; MCtorConvCopy; MCtorMove; MCtorConvMove; MMakeOptional] = true.
Proof. exact FactsSem.sem_ctors_fresh. Qed.
Print Assumptions source_optional_ctors_start_fresh.

Theorem source_optional_comparisons_total : forall z o, exists m, cmp_sem (fixed_cfg z) gen_cmp o = Some m /\
  forall x y, match m (wf2 x y), m_cmp (fixed_cfg z) o (wf2 x y) with
              | ROk b1 _, ROk b2 _ => b1 = b2
              | _, _ => False
              end.
Proof. exact FactsSem.sem_cmp. Qed.
Print Assumptions source_optional_comparisons_total.

Theorem source_optional_storage_aligned :
  lf_alignas_payload gen_lay = true /\ lf_flag_default_false gen_lay = true /\
  lf_align_value gen_lay mod lf_payload_align gen_lay = 0 /\
  lf_elem_bytes gen_lay * lf_extent gen_lay = lf_payload_size gen_lay.
Proof. exact FactsSem.sem_layout. Qed.
Print Assumptions source_optional_storage_aligned.

Theorem source_any_compare_guarded : forall x y, exists b, any_eq_sem (gen_any AMEq) x y = Some (Some b).
Proof. exact FactsSem.sem_any_eq. Qed.
Print Assumptions source_any_compare_guarded.

Theorem source_any_get_guarded : forall x t,
  (exists r, any_get_sem (gen_any AMGet) x t = Some r /\ r <> GNullDeref) /\
  (exists r, any_get_sem (gen_any AMGetConst) x t = Some r /\ r <> GNullDeref).
Proof. exact FactsSem.sem_any_get. Qed.
Print Assumptions source_any_get_guarded.

Theorem source_any_print_guarded : forall x, exists t, any_str_sem (gen_any AMToString) x = Some (Some t).
Proof. exact FactsSem.sem_any_str. Qed.
Print Assumptions source_any_print_guarded.

Theorem source_any_copy_clones : forall w x,
  any_copy_sem gen_holder (gen_any AMCopyCtor) w x = Some (a_clone w x).
Proof. exact FactsSem.sem_any_copy. Qed.
Print Assumptions source_any_copy_clones.

Theorem source_any_copy_assign_via_copy : gen_any AMCopyAssign = [TTempCopy; TMoveFromTemp] /\ gen_holder = HUnique.
Proof. exact FactsSem.sem_any_copy_assign. Qed.
Print Assumptions source_any_copy_assign_via_copy.

Theorem source_getenv_is_model : forall atoi atof k str i,
  env_sem atoi atof (gen_env k) k str i = Some (m_getenv atoi atof k str i).
Proof. exact FactsSem.sem_env. Qed.
Print Assumptions source_getenv_is_model.

(* a payload without operator== is routed (by the trait, as evaluated by the compiler) to the
   overload that returns false: such Anys never compare equal and comparing them cannot crash *)
Theorem source_any_noeq_payload_compares_false :
  (tf_eq_noeq gen_traits = false /\ tf_impl_noeq_false gen_traits = true /\ tf_same_dispatch gen_traits = true /\
   tf_eq_int gen_traits = true /\ tf_eq_string gen_traits = true /\ tf_eq_payload gen_traits = true /\
   tf_impl_eq_shape gen_traits = true) /\
  (forall h o, h_tag h = 4 -> is_same h o = false).
Proof. split; [exact FactsSem.sem_traits | exact MicroProofs.link_noeq]. Qed.
Print Assumptions source_any_noeq_payload_compares_false.

(* value categories of the argument of a value operation: an LVALUE argument is never modified
   (value assignment copies whatever the category; emplace / make_optional move only from an rvalue) *)
Theorem source_value_assign_never_moves : forall z rv x w,
  same_cells (run_member z gen_table MAssignValue (vderef z rv) (wf2 x (Some w)))
             (m_assign_from (read_value z Other false) (wf2 x (Some w))).
Proof. exact FactsSem.sem_assign_deref. Qed.
Print Assumptions source_value_assign_never_moves.

Theorem source_emplace_forwards : forall z rv x w,
  same_cells (run_member z gen_table MEmplace (vderef z rv) (wf2 x (Some w)))
             (m_emplace_from (read_value z Other rv) (wf2 x (Some w))).
Proof. exact FactsSem.sem_emplace_deref. Qed.
Print Assumptions source_emplace_forwards.

(* basic exception safety of the members as extracted from the working tree: a throwing payload operation never leaves
   the flag set over raw storage (seeded order "hasValue = true; new T(...)" breaks this obligation) *)
Theorem source_exception_flag_implies_live : exc_check flag_live gen_table = true.
Proof. exact FactsSem.sem_exc. Qed.
Print Assumptions source_exception_flag_implies_live.

(* ... and never leaves a payload alive without the flag (the helper raises it right after the default construction) *)
Theorem source_exception_flag_iff_live : exc_check flag_iff_live gen_table = true.
Proof. exact FactsSem.sem_exc_iff. Qed.
Print Assumptions source_exception_flag_iff_live.
