(* C09 — executable model of rkcommon::utility::Optional<T> and rkcommon::utility::Any
   (hand-written, Tie B).  Definitions only.

   Optional<T> is { storage : Raw | Live v ; hasValue : bool }.  Every member function of
   Optional.h is written as the sequence of storage-lifetime micro-operations the C++ performs
   (placement new, destructor call, payload assignment, read of value(), flag stores).  A
   micro-operation applied to storage in the wrong lifetime state is an explicit error result;
   nothing is totalised.  Payload values are N codes (0 = the value-initialised T()).

   A member function runs on a frame of two cells: This (the receiver) and Other (the wrapper
   passed by reference).  f_alias = true means both references name the same object
   (self-assignment, comparing a wrapper with itself): every access to Other then goes to This.

   The functions mirror the REPAIRED code (fix-1 assignment from an empty wrapper, fix-2 move
   constructors); the behaviour before the repairs is kept under the configuration
   [old_cfg] (fx_assign = false, fx_move = false) for the *_refuted witnesses. *)
From Common Require Import Prelude.
Local Open Scope N_scope.

(* ------------------------------------------------------------------ frame monad *)
Inductive storage := Raw | Live (v : N).
Record opt := { st : storage; hv : bool }.
(* Optional() = default : storage bytes untouched, hasValue{false} *)
Definition fresh : opt := {| st := Raw; hv := false |}.

Inductive cell := This | Other.
Inductive ekind := KDefault | KCtor | KAssign | KDtor | KRead | KMove.
Inductive lerr :=
| ENewOnLive      (* placement new over a live payload: the old payload is never destroyed *)
| EDtorOnRaw      (* destructor call on storage that holds no object *)
| EAssignToRaw    (* T::operator= applied to storage that holds no object *)
| EReadRaw        (* value() of storage that holds no object used as a source *)
| ELeak.          (* the wrapper's storage goes away while it still holds a live payload *)

Record frame := { f_this : opt; f_other : opt; f_alias : bool; f_log : list (ekind * cell) }.
Inductive res (A : Type) := ROk (a : A) (f : frame) | RErr (e : lerr * cell) (f : frame).
Arguments ROk {A}. Arguments RErr {A}.
Definition M (A : Type) := frame -> res A.
Definition ret {A} (a : A) : M A := fun f => ROk a f.
Definition bind {A B} (m : M A) (k : A -> M B) : M B :=
  fun f => match m f with ROk a f' => k a f' | RErr e f' => RErr e f' end.
Notation "x <- m ;; k" := (bind m (fun x => k)) (at level 61, m at next level, right associativity).
Notation "m ;; k" := (bind m (fun _ => k)) (at level 61, right associativity).

Definition phys (f : frame) (c : cell) : cell := if f_alias f then This else c.
Definition get_cell (f : frame) (c : cell) : opt :=
  match phys f c with This => f_this f | Other => f_other f end.
Definition set_cell (f : frame) (c : cell) (o : opt) (e : list (ekind * cell)) : frame :=
  match phys f c with
  | This => {| f_this := o; f_other := f_other f; f_alias := f_alias f; f_log := f_log f ++ e |}
  | Other => {| f_this := f_this f; f_other := o; f_alias := f_alias f; f_log := f_log f ++ e |}
  end.

(* ------------------------------------------------------------------ micro-operations *)
(* has_value() *)
Definition has_value (c : cell) : M bool := fun f => ROk (hv (get_cell f c)) f.
(* hasValue = b *)
Definition set_flag (c : cell) (b : bool) : M unit :=
  fun f => ROk tt (set_cell f c {| st := st (get_cell f c); hv := b |} []).
(* new (storage.data()) T(...) : needs raw storage.  dflt = the T() form. *)
Definition placement_new (c : cell) (v : N) (dflt : bool) : M unit :=
  fun f => match st (get_cell f c) with
           | Raw => ROk tt (set_cell f c {| st := Live v; hv := hv (get_cell f c) |}
                                     [(if dflt then KDefault else KCtor, phys f c)])
           | Live _ => RErr (ENewOnLive, phys f c) f
           end.
(* value().~T() : needs a live payload.  (For a trivially destructible T the C++ skips the call;
   the pseudo-destructor is a no-op there and the lifetime ends the same way.) *)
Definition dtor_call (c : cell) : M unit :=
  fun f => match st (get_cell f c) with
           | Live _ => ROk tt (set_cell f c {| st := Raw; hv := hv (get_cell f c) |} [(KDtor, phys f c)])
           | Raw => RErr (EDtorOnRaw, phys f c) f
           end.
(* value() used as the source of a copy (mv = false) or of a move (mv = true): needs a live
   payload.  mvz: a move leaves the source payload with code 0 (std::string, std::vector, the
   instrumented type) or unchanged (int, trivially copyable structs). *)
Definition read_value (mvz : bool) (c : cell) (mv : bool) : M N :=
  fun f => match st (get_cell f c) with
           | Live v => ROk v (set_cell f c {| st := Live (if mv && mvz then 0 else v); hv := hv (get_cell f c) |}
                                       [(if mv then KMove else KRead, phys f c)])
           | Raw => RErr (EReadRaw, phys f c) f
           end.
(* value() = x : needs a live target *)
Definition assign_to (c : cell) (v : N) : M unit :=
  fun f => match st (get_cell f c) with
           | Live _ => ROk tt (set_cell f c {| st := Live v; hv := hv (get_cell f c) |} [(KAssign, phys f c)])
           | Raw => RErr (EAssignToRaw, phys f c) f
           end.
(* end of the wrapper object's own lifetime: its bytes go away *)
Definition release (c : cell) : M unit :=
  fun f => match st (get_cell f c) with
           | Raw => ROk tt f
           | Live _ => RErr (ELeak, phys f c) f
           end.

(* ------------------------------------------------------------------ member functions *)
Record cfg := { mvz : bool; fx_assign : bool; fx_move : bool }.
Definition fixed_cfg (z : bool) : cfg := {| mvz := z; fx_assign := true; fx_move := true |}.
Definition old_cfg (z : bool) : cfg := {| mvz := z; fx_assign := false; fx_move := false |}.

(* void reset() *)
Definition m_reset : M unit :=
  b <- has_value This ;;
  (if b then dtor_call This else ret tt) ;;
  set_flag This false.

(* T &emplace(args...) with the argument evaluated by src when the constructor runs *)
Definition m_emplace_from (src : M N) : M unit :=
  m_reset ;;
  v <- src ;;
  placement_new This v false ;;
  set_flag This true.
Definition m_emplace (v : N) : M unit := m_emplace_from (ret v).

(* void default_construct_storage_if_needed()
   repaired: if (!has_value()) { new (storage.data()) T(); hasValue = true; }   - the flag is raised as soon as the T()
   exists, so that a payload assignment that throws afterwards leaves an ENGAGED wrapper (before the repair the flag was
   only set by the caller after the assignment: Exc.old_helper_table); the callers' own hasValue = true is now redundant *)
Definition m_default_construct_storage_if_needed : M unit :=
  b <- has_value This ;;
  if b then ret tt else (placement_new This 0 true ;; set_flag This true).

(* the common body of all assignment operators:
   default_construct_storage_if_needed(); value() = <src>; hasValue = true; *)
Definition m_assign_from (src : M N) : M unit :=
  m_default_construct_storage_if_needed ;;
  v <- src ;;
  assign_to This v ;;
  set_flag This true.

(* template <U> Optional &operator=(U &&rhs) : value() = rhs *)
Definition m_assign_value (v : N) : M unit := m_assign_from (ret v).

(* Optional(const T &value) : emplace(value) *)
Definition m_ctor_value (v : N) : M unit := m_emplace v.

(* Optional(const Optional<T> &other), Optional(const Optional<U> &other) : Optional()
   { if (other.has_value()) *this = other.value(); }   -- resolves to operator=(U&&) *)
Definition m_ctor_copy (c : cfg) : M unit :=
  b <- has_value Other ;;
  if b then m_assign_from (read_value (mvz c) Other false) else ret tt.

(* Optional(Optional<T> &&other), Optional(Optional<U> &&other) : Optional()
   repaired: if (other.has_value()) emplace(std::move(other.value()));
   before:   if (other.has_value()) { reset(); value() = std::move(other.value()); hasValue = true; } *)
Definition m_ctor_move (c : cfg) : M unit :=
  b <- has_value Other ;;
  if b then
    (if fx_move c then m_emplace_from (read_value (mvz c) Other true)
     else (m_reset ;; v <- read_value (mvz c) Other true ;; assign_to This v ;; set_flag This true))
  else ret tt.

(* the four wrapper assignment operators.  mv: the payload is taken with std::move
   (only operator=(Optional &&) does; operator=(Optional<U> &&) copies).
   repaired: if (other.has_value()) { <body> } else reset();     before: <body> unconditionally *)
Definition m_assign_wrapper (c : cfg) (mv : bool) : M unit :=
  if fx_assign c then
    (b <- has_value Other ;;
     if b then m_assign_from (read_value (mvz c) Other mv) else m_reset)
  else m_assign_from (read_value (mvz c) Other mv).

(* ~Optional() { reset(); }  then the object's storage goes away *)
Definition m_dtor : M unit := m_reset ;; release This.

(* T value_or(U &&d) const : has_value() ? value() : static_cast<T>(d) *)
Definition m_value_or (c : cfg) (d : N) : M N :=
  b <- has_value This ;;
  if b then read_value (mvz c) This false else ret d.

(* client idiom  if (o) use( *o ) : operator* / value() have the precondition has_value() *)
Definition m_value (c : cfg) : M (option N) :=
  b <- has_value This ;;
  if b then (v <- read_value (mvz c) This false ;; ret (Some v)) else ret None.

Inductive cmpop := CEq | CNe | CLt | CLe | CGt | CGe.
(* The payload's comparison operators see only the KEY of a stored value: a code is
   4 * key + shadow, where the shadow is state that == < <= > >= cannot distinguish (the sign bit of
   a floating-point zero, a struct member the operators ignore).  So operator== of the payload is an
   equivalence coarser than identity; assignments and copies nevertheless transfer the whole code. *)
Definition pkey (x : N) : N := x / 4.
Definition cmp_payload (o : cmpop) (x y : N) : bool :=
  match o with
  | CEq | CNe => N.eqb (pkey x) (pkey y)          (* CNe is !(lhs == rhs) at the wrapper level *)
  | CLt => N.ltb (pkey x) (pkey y) | CLe => N.leb (pkey x) (pkey y)
  | CGt => N.ltb (pkey y) (pkey x) | CGe => N.leb (pkey y) (pkey x)
  end.
(* (lhs && rhs) && ( *lhs OP *rhs );   operator!= is !(lhs == rhs) *)
Definition m_cmp_core (c : cfg) (o : cmpop) : M bool :=
  a <- has_value This ;;
  if a then
    (b <- has_value Other ;;
     if b then (x <- read_value (mvz c) This false ;; y <- read_value (mvz c) Other false ;; ret (cmp_payload o x y))
     else ret false)
  else ret false.
Definition m_cmp (c : cfg) (o : cmpop) : M bool :=
  match o with
  | CNe => r <- m_cmp_core c CEq ;; ret (negb r)
  | _ => m_cmp_core c o
  end.

(* ------------------------------------------------------------------ wrappers, histories *)
(* w_ty: false = Optional<T>, true = Optional<U> with U convertible to T (code preserved) *)
Record wrapper := { w_ty : bool; w_opt : opt }.
Definition store := N -> option wrapper.      (* None: no wrapper object alive at this index *)
Definition empty_store : store := fun _ => None.
Definition upd (s : store) (i : N) (x : option wrapper) : store :=
  fun k => if N.eqb k i then x else s k.

Inductive op :=
| CtorDefault (i : N) (ty : bool)
| CtorValue (i : N) (ty : bool) (v : N)
| MakeOptional (i : N) (ty : bool) (v : N)   (* make_optional<T>(v): local; emplace; return (NRVO) *)
| CtorCopy (i j : N) | CtorMove (i j : N)           (* same payload type *)
| CtorConvCopy (i j : N) | CtorConvMove (i j : N)   (* Optional<T> from Optional<U> *)
| Dtor (i : N)
| AssignValue (i v : N)
| AssignCopy (i j : N) | AssignMove (i j : N)
| AssignConvCopy (i j : N) | AssignConvMove (i j : N)
| Emplace (i v : N) | Reset (i : N)
(* value operations whose argument is the payload of ANOTHER wrapper, obtained with *a / a.value():
   c = *a (mv: c = std::move( *a )) goes to the value assignment operator=(U&&), c.emplace( *a ) to emplace.
   Dereferencing an empty wrapper is the client's error (ill-formed use). *)
| AssignDeref (i j : N) (mv : bool) | EmplaceDeref (i j : N) (mv : bool)
| HasValue (i : N) | Value (i : N) | ValueOr (i d : N)
| Cmp (o : cmpop) (i j : N)
| ToString (i : N).

Inductive out := OUnit | OBool (b : bool) | OVal (v : option N) | OStr.
Definition ev := (ekind * N)%type.
Inductive sres :=
| SOk (o : out) (s : store) (e : list ev)
| SErr (e : lerr * N) (l : list ev)
| SIll.                                   (* the client's use is ill-formed (dead wrapper, wrong type) *)

Definition glob (i j : N) (c : cell) : N := match c with This => i | Other => j end.
Definition gl (i j : N) (e : ekind * cell) : ev := (fst e, glob i j (snd e)).

(* run member function m with receiver (i, this) and argument (j, other); write both back *)
Definition call (s : store) (i : N) (ti : bool) (this : opt) (j : N) (tj : bool) (other : opt)
           (m : M out) : sres :=
  match m {| f_this := this; f_other := other; f_alias := N.eqb i j; f_log := [] |} with
  | ROk o f => SOk o (upd (upd s j (Some {| w_ty := tj; w_opt := f_other f |}))
                          i (Some {| w_ty := ti; w_opt := f_this f |}))
                   (map (gl i j) (f_log f))
  | RErr (e, c) f => SErr (e, glob i j c) (map (gl i j) (f_log f))
  end.
(* unary member function: no second object *)
Definition call1 (s : store) (i : N) (ti : bool) (this : opt) (m : M out) : sres :=
  call s i ti this i ti this m.

Definition unit_out (m : M unit) : M out := m ;; ret OUnit.

(* constructor of wrapper i from wrapper j; conv: the converting form (needs U source, gives T) *)
Definition ctor_from (s : store) (i j : N) (conv : bool) (m : M unit) : sres :=
  match s i, s j with
  | None, Some wj =>
      if conv && negb (w_ty wj) then SIll
      else call s i (if conv then false else w_ty wj) fresh j (w_ty wj) (w_opt wj) (unit_out m)
  | _, _ => SIll
  end.
(* assignment to wrapper i from wrapper j *)
Definition assign_from (s : store) (i j : N) (conv self_ok : bool) (m : M unit) : sres :=
  match s i, s j with
  | Some wi, Some wj =>
      if (if conv then negb (negb (w_ty wi) && w_ty wj) else negb (Bool.eqb (w_ty wi) (w_ty wj)))
         || (negb self_ok && N.eqb i j)
      then SIll
      else call s i (w_ty wi) (w_opt wi) j (w_ty wj) (w_opt wj) (unit_out m)
  | _, _ => SIll
  end.
(* value operation on wrapper i whose argument is *j : both alive, same payload type, j ENGAGED *)
Definition deref_from (s : store) (i j : N) (self_ok : bool) (m : M unit) : sres :=
  match s i, s j with
  | Some wi, Some wj =>
      if negb (Bool.eqb (w_ty wi) (w_ty wj)) || negb (hv (w_opt wj)) || (negb self_ok && N.eqb i j)
      then SIll
      else call s i (w_ty wi) (w_opt wi) j (w_ty wj) (w_opt wj) (unit_out m)
  | _, _ => SIll
  end.
Definition on_alive (s : store) (i : N) (m : M out) : sres :=
  match s i with
  | Some wi => call1 s i (w_ty wi) (w_opt wi) m
  | None => SIll
  end.
Definition on_new (s : store) (i : N) (ty : bool) (m : M unit) : sres :=
  match s i with
  | None => call1 s i ty fresh (unit_out m)
  | Some _ => SIll
  end.

Definition step (c : cfg) (s : store) (o : op) : sres :=
  match o with
  | CtorDefault i ty => on_new s i ty (ret tt)
  | CtorValue i ty v => on_new s i ty (m_ctor_value v)
  | MakeOptional i ty v => on_new s i ty (m_emplace v)
  | CtorCopy i j => ctor_from s i j false (m_ctor_copy c)
  | CtorMove i j => ctor_from s i j false (m_ctor_move c)
  | CtorConvCopy i j => ctor_from s i j true (m_ctor_copy c)
  | CtorConvMove i j => ctor_from s i j true (m_ctor_move c)
  | Dtor i =>
      match s i with
      | Some wi =>
          match call1 s i (w_ty wi) (w_opt wi) (unit_out m_dtor) with
          | SOk o s' e => SOk o (upd s' i None) e
          | r => r
          end
      | None => SIll
      end
  | AssignValue i v => on_alive s i (unit_out (m_assign_value v))
  | AssignCopy i j => assign_from s i j false true (m_assign_wrapper c false)
  | AssignMove i j => assign_from s i j false false (m_assign_wrapper c true)
  | AssignConvCopy i j => assign_from s i j true true (m_assign_wrapper c false)
  | AssignConvMove i j => assign_from s i j true true (m_assign_wrapper c false)
  (* operator=(U&& rhs) does  value() = rhs : rhs is a named parameter, so the payload is COPY-assigned whatever the
     value category of the argument - the source is never modified, not even when it is an xvalue *)
  | AssignDeref i j mv => deref_from s i j true (m_assign_from (read_value (mvz c) Other false))
  (* emplace(Args&&... args) forwards: new T(std::forward<Args>(args)...) - an xvalue argument is moved from.
     c.emplace( *c ) would read the payload it has just destroyed: excluded as ill-formed *)
  | EmplaceDeref i j mv => deref_from s i j false (m_emplace_from (read_value (mvz c) Other mv))
  | Emplace i v => on_alive s i (unit_out (m_emplace v))
  | Reset i => on_alive s i (unit_out m_reset)
  | HasValue i => on_alive s i (b <- has_value This ;; ret (OBool b))
  | Value i => on_alive s i (v <- m_value c ;; ret (OVal v))
  | ValueOr i d => on_alive s i (v <- m_value_or c d ;; ret (OVal (Some v)))
  | Cmp o i j =>
      match s i, s j with
      | Some wi, Some wj =>
          call s i (w_ty wi) (w_opt wi) j (w_ty wj) (w_opt wj) (b <- m_cmp c o ;; ret (OBool b))
      | _, _ => SIll
      end
  | ToString i => on_alive s i (ret OStr)          (* returns a constant string *)
  end.

(* a history runs until the first lifetime error; ill-formed operations are skipped *)
Record rstate := { r_store : store; r_log : list ev; r_outs : list (option out);
                   r_err : option (lerr * N) }.
Definition init : rstate := {| r_store := empty_store; r_log := []; r_outs := []; r_err := None |}.
Fixpoint run_from (c : cfg) (h : list op) (r : rstate) : rstate :=
  match h with
  | [] => r
  | o :: h' =>
      match r_err r with
      | Some _ => r
      | None =>
          match step c (r_store r) o with
          | SOk x s' e => run_from c h' {| r_store := s'; r_log := r_log r ++ e;
                                            r_outs := r_outs r ++ [Some x]; r_err := None |}
          | SErr e l => {| r_store := r_store r; r_log := r_log r ++ l; r_outs := r_outs r;
                           r_err := Some e |}
          | SIll => run_from c h' {| r_store := r_store r; r_log := r_log r;
                                     r_outs := r_outs r ++ [None]; r_err := None |}
          end
      end
  end.
Definition run (c : cfg) (h : list op) : rstate := run_from c h init.

(* the wrapper indices a history constructs, and the destructor calls that end the program *)
Definition ctor_index (o : op) : list N :=
  match o with
  | CtorDefault i _ | CtorValue i _ _ | MakeOptional i _ _
  | CtorCopy i _ | CtorMove i _ | CtorConvCopy i _ | CtorConvMove i _ => [i]
  | _ => []
  end.
Definition alive (s : store) (i : N) : bool := match s i with Some _ => true | None => false end.
Definition closing (s : store) (h : list op) : list op :=
  map Dtor (filter (alive s) (nodup N.eq_dec (flat_map ctor_index h))).
Definition run_closed (c : cfg) (h : list op) : rstate :=
  let r := run c h in run_from c (closing (r_store r) h) r.

(* payload lifecycle on one wrapper's storage, read off the event log:
   Some true = alternating construct/destroy, currently constructed; Some false = alternating,
   currently destroyed; None = a double construction or a destruction without object *)
Definition lifecycle_step (acc : option bool) (k : ekind) : option bool :=
  match acc, k with
  | None, _ => None
  | Some false, (KDefault | KCtor) => Some true
  | Some true, (KDefault | KCtor) => None
  | Some true, KDtor => Some false
  | Some false, KDtor => None
  | Some true, (KAssign | KRead | KMove) => Some true
  | Some false, (KAssign | KRead | KMove) => None        (* payload operation on dead storage *)
  end.
Definition proj (w : N) (l : list ev) : list ekind :=
  map fst (filter (fun e => N.eqb (snd e) w) l).
Definition lifecycle (w : N) (l : list ev) : option bool :=
  fold_left lifecycle_step (proj w l) (Some false).

(* ------------------------------------------------------------------ layout *)
(* struct Optional { [alignas(T)] std::array<byte_t, sizeof(T)> storage; bool hasValue; };
   aligned = the storage member carries alignas(T) (fix-3); before, a byte array: alignment 1 *)
Definition roundup (x a : N) : N := ((x + a - 1) / a) * a.
Definition opt_align (aligned : bool) (alignT : N) : N := if aligned then N.max alignT 1 else 1.
Definition opt_size (aligned : bool) (alignT sizeT : N) : N :=
  roundup (sizeT + 1) (opt_align aligned alignT).
(* offset of o in  struct { char c; Optional<T> o; }  = address of the payload relative to an
   aligned base (storage is the first member) *)
Definition prefixed_offset (aligned : bool) (alignT : N) : N := opt_align aligned alignT.
Definition layout (aligned : bool) (alignT sizeT : N) : N * N * N :=
  (opt_align aligned alignT, opt_size aligned alignT sizeT, prefixed_offset aligned alignT).

(* ================================================================== Any *)
(* Any holds std::unique_ptr<handle_base> currentValue; a holder is a heap object with an
   identity, the stored type (tag) and the value.  Tag 4 stands for a payload type without
   operator== (isSameImpl's NoOperatorEquals branch). *)
Record holder := { h_id : N; h_tag : N; h_val : N }.
Definition anyw := option holder.                 (* None = nullptr *)
Inductive hev := HNew (id : N) | HFree (id : N).
Record aworld := { a_store : N -> option anyw; a_next : N; a_log : list hev }.
Definition a_init : aworld := {| a_store := fun _ => None; a_next := 0; a_log := [] |}.
Definition a_upd (w : aworld) (i : N) (x : option anyw) : aworld :=
  {| a_store := fun k => if N.eqb k i then x else a_store w k; a_next := a_next w; a_log := a_log w |}.
(* new handle<T>(v) *)
Definition a_new (w : aworld) (t v : N) : holder * aworld :=
  ({| h_id := a_next w; h_tag := t; h_val := v |},
   {| a_store := a_store w; a_next := a_next w + 1; a_log := a_log w ++ [HNew (a_next w)] |}).
(* unique_ptr releasing what it owns *)
Definition a_free (w : aworld) (x : anyw) : aworld :=
  match x with
  | Some h => {| a_store := a_store w; a_next := a_next w; a_log := a_log w ++ [HFree (h_id h)] |}
  | None => w
  end.
(* copy.valid() ? copy.currentValue->clone() : nullptr *)
Definition a_clone (w : aworld) (x : anyw) : anyw * aworld :=
  match x with
  | Some h => let '(h', w') := a_new w (h_tag h) (h_val h) in (Some h', w')
  | None => (None, w)
  end.

Inductive aop :=
| ACtorDefault (i : N) | ACtorValue (i t v : N) | ACtorCopy (i j : N) | ADtor (i : N)
| AAssignValue (i t v : N) | AAssignCopy (i j : N)
| AGet (i t : N)             (* get<T>() *)
| ASet (i t v : N)           (* get<T>() = v  through the returned reference *)
| AIs (i t : N) | AValid (i : N)
| AEq (i j : N) | ANe (i j : N) | AToString (i : N).
Inductive aout := AUnit | ABool (b : bool) | AVal (v : N) | AThrow | AStr (t : option N).
Inductive ares := AOk (o : aout) (w : aworld) | ANullDeref | AIll.

Definition has_eq (t : N) : bool := negb (N.eqb t 4).
(* T::operator== on two stored values of the same type t.  It is an equivalence COARSER than
   identity for some payload types (and not even reflexive for one):
     tag 6 = double: code 0 = +0.0, 1 = -0.0 (compare equal, differ in the sign bit), 2 = NaN
             (compares unequal to itself), k >= 3 ordinary distinct values
     tag 7 = struct {int key; int shadow;} with operator== on key only: code = 16 * key + shadow
   every other tag: equality of the codes *)
Definition peqv (t x y : N) : bool :=
  if N.eqb t 6 then negb (N.eqb x 2) && negb (N.eqb y 2) && (N.eqb x y || (N.leb x 1 && N.leb y 1))
  else if N.eqb t 7 then N.eqb (x / 16) (y / 16)
  else N.eqb x y.
(* handle<T>::isSame(other): dynamic_cast to handle<T> (null stays null) && values equal;
   constant false for a T without operator== *)
Definition is_same (h : holder) (o : anyw) : bool :=
  match o with
  | Some h' => N.eqb (h_tag h) (h_tag h') && has_eq (h_tag h) && peqv (h_tag h) (h_val h) (h_val h')
  | None => false
  end.
(* bool operator==(const Any &rhs) const
   repaired: if (!valid() || !rhs.valid()) return valid() == rhs.valid();
   then (and before the repair, unconditionally) currentValue->isSame(rhs.currentValue.get()) *)
Definition a_eq (fixed : bool) (x y : anyw) : option bool :=
  match x with
  | Some h => Some (is_same h y)
  | None => if fixed then Some (match y with None => true | Some _ => false end) else None
  end.

Definition a_step (fixed : bool) (w : aworld) (o : aop) : ares :=
  match o with
  | ACtorDefault i =>
      match a_store w i with None => AOk AUnit (a_upd w i (Some None)) | Some _ => AIll end
  | ACtorValue i t v =>
      match a_store w i with
      | None => let '(h, w1) := a_new w t v in AOk AUnit (a_upd w1 i (Some (Some h)))
      | Some _ => AIll
      end
  | ACtorCopy i j =>
      match a_store w i, a_store w j with
      | None, Some x => let '(c, w1) := a_clone w x in AOk AUnit (a_upd w1 i (Some c))
      | _, _ => AIll
      end
  | ADtor i =>
      match a_store w i with
      | Some x => AOk AUnit (a_upd (a_free w x) i None)
      | None => AIll
      end
  | AAssignValue i t v =>        (* currentValue = unique_ptr(new handle<T>(rhs)) *)
      match a_store w i with
      | Some x => let '(h, w1) := a_new w t v in AOk AUnit (a_upd (a_free w1 x) i (Some (Some h)))
      | None => AIll
      end
  | AAssignCopy i j =>           (* Any temp(rhs); currentValue = std::move(temp.currentValue); *)
      match a_store w i, a_store w j with
      | Some x, Some y => let '(c, w1) := a_clone w y in AOk AUnit (a_upd (a_free w1 x) i (Some c))
      | _, _ => AIll
      end
  | AGet i t =>
      match a_store w i with
      | Some (Some h) => AOk (if N.eqb (h_tag h) t then AVal (h_val h) else AThrow) w
      | Some None => AOk AThrow w
      | None => AIll
      end
  | ASet i t v =>
      match a_store w i with
      | Some (Some h) =>
          if N.eqb (h_tag h) t
          then AOk AUnit (a_upd w i (Some (Some {| h_id := h_id h; h_tag := h_tag h; h_val := v |})))
          else AOk AThrow w
      | Some None => AOk AThrow w
      | None => AIll
      end
  | AIs i t =>
      match a_store w i with
      | Some x => AOk (ABool (match x with Some h => N.eqb (h_tag h) t | None => false end)) w
      | None => AIll
      end
  | AValid i =>
      match a_store w i with
      | Some x => AOk (ABool (match x with Some _ => true | None => false end)) w
      | None => AIll
      end
  | AEq i j =>
      match a_store w i, a_store w j with
      | Some x, Some y => match a_eq fixed x y with Some b => AOk (ABool b) w | None => ANullDeref end
      | _, _ => AIll
      end
  | ANe i j =>                   (* not (this == rhs) *)
      match a_store w i, a_store w j with
      | Some x, Some y => match a_eq fixed x y with Some b => AOk (ABool (negb b)) w | None => ANullDeref end
      | _, _ => AIll
      end
  | AToString i =>               (* repaired: tests valid() before currentValue->valueTypeID() *)
      match a_store w i with
      | Some (Some h) => AOk (AStr (Some (h_tag h))) w
      | Some None => if fixed then AOk (AStr None) w else ANullDeref
      | None => AIll
      end
  end.

Record arstate := { ar_world : aworld; ar_outs : list (option aout); ar_crash : bool }.
Fixpoint a_run_from (fixed : bool) (h : list aop) (r : arstate) : arstate :=
  match h with
  | [] => r
  | o :: h' =>
      if ar_crash r then r else
      match a_step fixed (ar_world r) o with
      | AOk x w' => a_run_from fixed h' {| ar_world := w'; ar_outs := ar_outs r ++ [Some x]; ar_crash := false |}
      | ANullDeref => {| ar_world := ar_world r; ar_outs := ar_outs r; ar_crash := true |}
      | AIll => a_run_from fixed h' {| ar_world := ar_world r; ar_outs := ar_outs r ++ [None]; ar_crash := false |}
      end
  end.
Definition a_run (fixed : bool) (h : list aop) : arstate :=
  a_run_from fixed h {| ar_world := a_init; ar_outs := []; ar_crash := false |}.

Definition a_ctor_index (o : aop) : list N :=
  match o with ACtorDefault i | ACtorValue i _ _ | ACtorCopy i _ => [i] | _ => [] end.
Definition a_alive (w : aworld) (i : N) : bool := match a_store w i with Some _ => true | None => false end.
Definition a_closing (w : aworld) (h : list aop) : list aop :=
  map ADtor (filter (a_alive w) (nodup N.eq_dec (flat_map a_ctor_index h))).
Definition a_run_closed (fixed : bool) (h : list aop) : arstate :=
  let r := a_run fixed h in a_run_from fixed (a_closing (ar_world r) h) r.

(* number of HNew / HFree events for a holder identity *)
Definition count_new (id : N) (l : list hev) : nat :=
  length (filter (fun e => match e with HNew k => N.eqb k id | _ => false end) l).
Definition count_free (id : N) (l : list hev) : nat :=
  length (filter (fun e => match e with HFree k => N.eqb k id | _ => false end) l).
