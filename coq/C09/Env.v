(* C09 — rkcommon/utility/getEnvVar.h: getEnvVar<int | float | std::string>(name) returns an
   Optional that is engaged iff getenv(name) != nullptr (an EMPTY string counts as set), holding
   atoi(str) / (float)atof(str) / std::string(str).  Definitions only.

   Environment strings are abstract ids (sid : N; id 0 is the empty string "").  What atoi / atof
   make of a string is an oracle (Section variables) - libc is not modelled; the std::string case is
   exact: the payload is the string itself (its id).  A call of getEnvVar is, for the wrapper store,
   a value construction (found) or a default construction (not found): histories with environment
   operations are DESUGARED to plain Optional histories, to which every history theorem applies. *)
From Common Require Import Prelude.
From C09 Require Import Model.
Local Open Scope N_scope.

Definition envt := N -> option N.                    (* variable name -> string id; None = unset *)
Definition env0 : envt := fun _ => None.
Inductive kind := KInt | KFloat | KStr.
Inductive eop :=
| EOp (o : op)
| EnvSet (n sid : N)              (* setenv(name, string, 1) *)
| EnvUnset (n : N)                (* unsetenv(name) *)
| GetEnv (i : N) (k : kind) (n : N).   (* Optional<K> in slot i = getEnvVar<K>(name) *)
(* in a payload family the float result is the family's second payload type *)
Definition kind_ty (k : kind) : bool := match k with KFloat => true | _ => false end.

Section Oracle.
  Variables atoi atof : N -> N.   (* string id -> payload code of atoi(str) / (float)atof(str) *)
  Definition parse (k : kind) (sid : N) : N :=
    match k with KInt => atoi sid | KFloat => atof sid | KStr => sid end.
  (*  auto *str = getenv(var.c_str());  bool found = (str != nullptr);
      return found ? Optional<K>(conv(str)) : Optional<K>();  *)
  Definition m_getenv (k : kind) (str : option N) (i : N) : op :=
    match str with
    | Some sid => CtorValue i (kind_ty k) (parse k sid)
    | None => CtorDefault i (kind_ty k)
    end.
  Definition estep (e : envt) (x : eop) : envt * list op :=
    match x with
    | EOp o => (e, [o])
    | EnvSet n sid => (fun k => if N.eqb k n then Some sid else e k, [])
    | EnvUnset n => (fun k => if N.eqb k n then None else e k, [])
    | GetEnv i k n => (e, [m_getenv k (e n) i])
    end.
  Fixpoint desugar_from (e : envt) (h : list eop) : list op :=
    match h with
    | [] => []
    | x :: h' => let '(e', l) := estep e x in l ++ desugar_from e' h'
    end.
  Fixpoint env_after (e : envt) (h : list eop) : envt :=
    match h with
    | [] => e
    | x :: h' => env_after (fst (estep e x)) h'
    end.
  Definition desugar (h : list eop) : list op := desugar_from env0 h.
End Oracle.

(* the concrete oracle used by the executable model; the harness renders string id s for the int
   family as a decimal spelling of 4*s (with blanks / trailing junk), for the float family as a
   spelling of s ("-0.0" for id 1, whose payload code is 1 = -0.0), "" for id 0 *)
Definition atoi_code (sid : N) : N := 4 * sid.
Definition atof_code (sid : N) : N := if N.eqb sid 1 then 1 else 4 * sid.
