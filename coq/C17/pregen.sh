#!/bin/bash
# regenerate gen/GenIdx.v from the current repo sources (used by bin/setup; the check regenerates on every run)
cd "$(dirname "$0")"
mkdir -p gen ../../build/include/rkcommon
python3 ../../lib/mkversion.py >/dev/null 2>&1
python3 ../../tools/cxx2coq/cxx2coq.py ../../tools/cxx2coq/inst/idx.cpp gen/GenIdx.v.new --only 'multidim_index|array3D_(longProduct|longIndex|coordsOf)|long_product' && { cmp -s gen/GenIdx.v.new gen/GenIdx.v || mv gen/GenIdx.v.new gen/GenIdx.v; rm -f gen/GenIdx.v.new; }
python3 ../../props/C17/factgen.py --out gen/FactsArr.v --work ../../build/C17/ast --inc ../../build/include 2>/dev/null
