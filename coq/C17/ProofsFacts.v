(* C17 — the source-derived facts (gen/FactsArr.v, regenerated from the clang AST of Array3D.h, for_each.h,
   multidim_index_sequence.h, range.h on every run) mean what Model.v says.
   The extracted expression trees are evaluated in the overflow-CHECKED reading OZ (every operator, literal and
   integral conversion at its C type; None as soon as an exact result does not fit or a divisor is 0) and proved
   equal to Some of the model's function for all inputs in the stated ranges.  The proofs do not look at the
   syntactic form of the trees (commuting / re-associating the source expression keeps them valid); a tree that
   computes something else, loses a size_t promotion, or contains an unrecognised node makes them fail. *)
From Coq Require Import ZArith List Bool Lia.
From Common Require Import CxxSem.
From C17.gen Require Import GenIdx.
From C17 Require Import Checked Model ProofsIdx ProofsArr FactsDefs.
From C17.gen Require Import FactsArr.
Import ListNotations.
Local Open Scope Z_scope.

Lemma ltb_min a b : (if b <? a then b else a) = Z.min a b.
Proof. destruct (Z.ltb_spec b a); lia. Qed.
Lemma ltb_max a b : (if a <? b then b else a) = Z.max a b.
Proof. destruct (Z.ltb_spec a b); lia. Qed.

Lemma rem_abs_bound t d : 0 < d -> - d < Z.rem t d < d.
Proof. intro H. pose proof (Z.rem_bound_abs t d ltac:(lia)). lia. Qed.

Lemma quot_int_bound w n : 0 < n -> - 2 ^ 31 <= w < 2 ^ 31 -> - 2 ^ 31 <= Z.quot w n < 2 ^ 31.
Proof.
  intros Hn Hw. destruct (Z_le_gt_dec 0 w) as [P|P].
  - pose proof (Z.quot_pos w n P Hn). pose proof (Z.quot_le_upper_bound w n w ltac:(lia) ltac:(nia)). lia.
  - assert (E : Z.quot w n = - Z.quot (- w) n) by (rewrite Z.quot_opp_l by lia; lia).
    pose proof (Z.quot_pos (- w) n ltac:(lia) Hn). pose proof (Z.quot_le_upper_bound (- w) n (- w) ltac:(lia) ltac:(nia)). lia.
Qed.

Lemma chk_i32_rem a d : 0 < d < 2 ^ 31 -> chk I32 (Z.rem a d) = Some (Z.rem a d).
Proof. intro H. apply chk_i32. pose proof (rem_abs_bound a d ltac:(lia)). lia. Qed.
Lemma chk_i32_quot a d : 0 < d -> - 2 ^ 31 <= a < 2 ^ 31 -> chk I32 (Z.quot a d) = Some (Z.quot a d).
Proof. intros H Ha. apply chk_i32. apply quot_int_bound; assumption. Qed.

(* unfold the fact table, the evaluator, the generated index functions and the numeric interpretation down to Z
   operations and [chk] *)
Definition env_act (wh dims loc : vec3 IZ) : vvar -> vec3 OZ :=
  fun v => match v with VWhere => toO3 wh | VDims => toO3 dims | VLocal => toO3 loc | _ => vNone end.
Definition env_sh (w d s : vec3 IZ) : vvar -> vec3 OZ :=
  fun v => match v with VWhere => toO3 w | VSrcSize => toO3 d | VShift => toO3 s | _ => vNone end.
Definition env_sb (w lo hi loc : vec3 IZ) : vvar -> vec3 OZ :=
  fun v => match v with VWhere => toO3 w | VClipLo => toO3 lo | VClipHi => toO3 hi | VLocal => toO3 loc | _ => vNone end.
Definition env_ms (w src : vec3 IZ) : vvar -> vec3 OZ :=
  fun v => match v with VWhere => toO3 w | VSrcSize => toO3 src | _ => vNone end.
Definition senv_ms (n num : Z) : svar -> S OZ := fun v => match v with SNSlices => Some n | SSrcNum => Some num end.
Definition env_rp (w rs loc : vec3 IZ) : vvar -> vec3 OZ :=
  fun v => match v with VWhere => toO3 w | VRepSize => toO3 rs | VLocal => toO3 loc | _ => vNone end.

Ltac fcbv :=
  cbv [gen_arr f_act_size f_act_get_shape f_act_get_where f_act_get_index f_act_set_shape f_act_set_index f_act_indexOf f_act_num f_act_clear_shape f_act_clear_extent f_act_alloc f_fe_shape f_fe_loops f_fe_arg f_fe_size_lower f_fe_box_ok f_sh_shape f_sh_arg f_sh_size f_sh_num_src f_sb_shape f_sb_arg f_sb_size f_sb_num f_sb_num_local f_ac_shape f_ac_arg f_ac_size f_ac_num_src f_ms_shape f_ms_slice f_ms_arg f_ms_size f_ms_num f_rp_shape f_rp_init f_rp_cond f_rp_flip f_rp_size f_rp_num f_vr_init f_vr_loop_ok f_vr_full_ok f_rg_default_empty f_rg_single f_rg_extend_minmax f_rg_empty_def f_it_pre f_it_pre_ret_ok f_it_post f_it_ne_not_eq f_it_eq_ok f_clamp_def_ok f_box_size_def_ok
       aeval veval comp vlift2 toO3 vO vNone sNone env_act env_sh env_sb env_ms senv_ms env_rp
       clampc clampz shift_coord vsub rep_coord rep_axis actual_indexOf actual_num ac_dims total3];
  gen_unfold; cbn [lib OZ]; cbv beta iota delta [oseq z_lib].
Ltac fchk :=
  match goal with
  | |- context [chk I32 (Z.rem ?a ?d)] => no_chk_in a; rewrite (chk_i32_rem a d) by lia
  | |- context [chk I32 (Z.quot ?a ?d)] => no_chk_in a; rewrite (chk_i32_quot a d) by lia
  | |- context [chk U64 ?z] => no_chk_in z; rewrite (chk_u64 z) by first [ lia | timeout 3 nia ]
  | |- context [chk I32 ?z] => no_chk_in z; rewrite (chk_i32 z) by first [ lia | timeout 3 nia ]
  | |- context [?y =? 0] => rewrite (proj2 (Z.eqb_neq y 0)) by lia
  end; cbv beta iota delta [o_bop z_bop oseq z_lib].
Ltac fstep := first [ rewrite ltb_min | rewrite ltb_max | fchk ].
(* equal up to linear arithmetic in the leaves *)
Ltac feq0 := first [ timeout 2 reflexivity | timeout 2 lia | (f_equal; feq0) ].
Ltac feq := timeout 8 feq0.
(* split conjunctions only (plain [split] would also try eq_refl on the equations, i.e. full conversion) *)
Ltac csplit := repeat lazymatch goal with |- _ /\ _ => split end.
Ltac fdone :=
  once (repeat fstep);
  lazymatch goal with
  | |- context [chk ?t ?z] => fail "a check remains"
  | _ => feq
  end.

Definition int_range (z : Z) : Prop := - 2 ^ 31 <= z < 2 ^ 31.
Definition int_coord (c : vec3 IZ) : Prop := int_range (vec3_x c) /\ int_range (vec3_y c) /\ int_range (vec3_z c).
Definition small_coord (b : Z) (c : vec3 IZ) : Prop :=
  - b <= vec3_x c <= b /\ - b <= vec3_y c <= b /\ - b <= vec3_z c <= b.

(* ------------------------------------------------------------------ ActualArray3D *)

(* get: the local `where` is the coordinate clamped into the extent ... *)
Lemma act_get_where_fact (d c : vec3 IZ) : int_extent d -> int_coord c ->
  f_act_get_shape gen_arr = true /\
  veval OZ (env_act c d c) sNone (f_act_get_where gen_arr) = toO3 (clampc d c).
Proof.
  destruct d as [dx dy dz], c as [x y z]. unfold int_extent, int_coord, int_range. cbn [vec3_x vec3_y vec3_z].
  intros (Hx & Hy & Hz) (Cx & Cy & Cz). split; [reflexivity|]. fcbv. fdone.
Qed.

(* ... and the cell read is value[longIndex (clamped where) dims], every intermediate exact in size_t:
   the cell of Model.actual_get *)
Lemma act_get_index_fact (d c : vec3 IZ) : int_extent d -> total3 d < 2 ^ 64 -> int_coord c ->
  aeval OZ (env_act c d (clampc d c)) sNone (f_act_get_index gen_arr) =
  Some (array3D_longIndex__v3i_v3i IZ (clampc d c) d).
Proof.
  intros Hd Ht Hc.
  assert (Hin : in3 d (clampc d c)) by (apply clampc_in; unfold int_extent in Hd; unfold pos_extent; lia).
  revert Hin. generalize (clampc d c). intros [x y z].
  destruct d as [dx dy dz]. unfold int_extent, in3, total3 in *. cbn [vec3_x vec3_y vec3_z] in *.
  intros (Cx & Cy & Cz). destruct Hd as (Hx & Hy & Hz).
  assert (0 <= y + dy * z < dy * dz) by nia.
  assert (dy * dz <= dx * dy * dz) by nia.
  assert (0 <= dx * (y + dy * z) /\ x + dx * (y + dy * z) < dx * dy * dz) by nia.
  assert (0 <= dy * z < dy * dz) by nia.
  fcbv. fdone.
Qed.

Ltac index_facts dx dy dz x y z :=
  assert (0 <= y + dy * z < dy * dz) by nia;
  assert (dy * dz <= dx * dy * dz) by nia;
  assert (0 <= dx * (y + dy * z) /\ x + dx * (y + dy * z) < dx * dy * dz) by nia;
  assert (0 <= dy * z < dy * dz) by nia.

(* set: value[E] = t with E the flattened index of `where` (the cell of Model.actual_set) *)
Lemma act_set_fact (d c : vec3 IZ) : int_extent d -> total3 d < 2 ^ 64 -> in3 d c ->
  f_act_set_shape gen_arr = true /\
  aeval OZ (env_act c d c) sNone (f_act_set_index gen_arr) = Some (array3D_longIndex__v3i_v3i IZ c d).
Proof.
  destruct d as [dx dy dz], c as [x y z]. unfold int_extent, in3, total3. cbn [vec3_x vec3_y vec3_z].
  intros (Hx & Hy & Hz) Ht (Cx & Cy & Cz). split; [reflexivity|]. index_facts dx dy dz x y z. fcbv. fdone.
Qed.

Lemma act_indexOf_fact (d c : vec3 IZ) : int_extent d -> total3 d < 2 ^ 64 -> in3 d c ->
  aeval OZ (env_act c d c) sNone (f_act_indexOf gen_arr) = Some (actual_indexOf {| ac_dims := d; ac_cells := fun _ => 0 |} c).
Proof.
  destruct d as [dx dy dz], c as [x y z]. unfold int_extent, in3, total3. cbn [vec3_x vec3_y vec3_z].
  intros (Hx & Hy & Hz) Ht (Cx & Cy & Cz). index_facts dx dy dz x y z. fcbv. fdone.
Qed.

Lemma act_num_fact (d : vec3 IZ) : int_extent d -> total3 d < 2 ^ 64 ->
  aeval OZ (env_act d d d) sNone (f_act_num gen_arr) = Some (actual_num {| ac_dims := d; ac_cells := fun _ => 0 |}) /\
  aeval OZ (env_act d d d) sNone (f_act_alloc gen_arr) = Some (total3 d) /\
  veval OZ (env_act d d d) sNone (f_act_size gen_arr) = toO3 d.
Proof.
  destruct d as [dx dy dz]. unfold int_extent, total3. cbn [vec3_x vec3_y vec3_z].
  intros (Hx & Hy & Hz) Ht. assert (0 <= dx * dy < 2 ^ 62) by nia.
  csplit; fcbv; fdone.
Qed.

Lemma act_clear_fact (d : vec3 IZ) :
  f_act_clear_shape gen_arr = true /\ veval OZ (env_act d d d) sNone (f_act_clear_extent gen_arr) = toO3 d.
Proof. destruct d. split; reflexivity. Qed.

(* ------------------------------------------------------------------ for_each *)
Lemma for_each_fact (lo hi : vec3 IZ) : for_each_of_facts gen_arr lo hi = for_each lo hi.
Proof. destruct lo, hi. reflexivity. Qed.

Lemma for_each_overloads_fact :
  f_fe_box_ok gen_arr = true /\
  veval OZ (fun _ => vNone) sNone (f_fe_size_lower gen_arr) = vO 0 0 0.
Proof. split; [reflexivity|]. fcbv. fdone. Qed.

(* ------------------------------------------------------------------ IndexShiftedArray3D *)

Lemma shifted_fact (d s w : vec3 IZ) :
  0 < vec3_x d <= 2 ^ 29 -> 0 < vec3_y d <= 2 ^ 29 -> 0 < vec3_z d <= 2 ^ 29 -> small_coord (2 ^ 29) s -> small_coord (2 ^ 29) w ->
  f_sh_shape gen_arr = true /\ f_sh_num_src gen_arr = true /\
  veval OZ (env_sh w d s) sNone (f_sh_size gen_arr) = toO3 d /\
  veval OZ (env_sh w d s) sNone (f_sh_arg gen_arr) = toO3 (shift_coord d s w).
Proof.
  destruct d as [dx dy dz], s as [sx sy sz], w as [x y z]. unfold small_coord. cbn [vec3_x vec3_y vec3_z].
  intros Hx Hy Hz (Sx & Sy & Sz) (Wx & Wy & Wz).
  pose proof (rem_abs_bound (x + dx + sx) dx ltac:(lia)). pose proof (rem_abs_bound (y + dy + sy) dy ltac:(lia)).
  pose proof (rem_abs_bound (z + dz + sz) dz ltac:(lia)).
  csplit; fcbv; fdone.
Qed.

(* ------------------------------------------------------------------ SubBoxArray3D *)

Lemma subbox_fact (w lo hi : vec3 IZ) : small_coord (2 ^ 30 - 1) w -> small_coord (2 ^ 30 - 1) lo -> small_coord (2 ^ 30 - 1) hi ->
  f_sb_shape gen_arr = true /\ f_box_size_def_ok gen_arr = true /\
  veval OZ (env_sb w lo hi w) sNone (f_sb_arg gen_arr) =
    toO3 (mk_vec3 IZ (vec3_x w + vec3_x lo) (vec3_y w + vec3_y lo) (vec3_z w + vec3_z lo)) /\
  veval OZ (env_sb w lo hi w) sNone (f_sb_size gen_arr) = toO3 (vsub hi lo) /\
  veval OZ (env_sb w lo hi w) sNone (f_sb_num_local gen_arr) = toO3 (vsub hi lo).
Proof.
  destruct w as [x y z], lo as [lx ly lz], hi as [hx hy hz]. unfold small_coord, vsub. cbn [vec3_x vec3_y vec3_z].
  intros (Wx & Wy & Wz) (Lx & Ly & Lz) (Hx & Hy & Hz). csplit; fcbv; fdone.
Qed.

Lemma subbox_num_fact (s : vec3 IZ) : 0 <= vec3_x s < 2 ^ 31 -> 0 <= vec3_y s < 2 ^ 31 -> 0 <= vec3_z s < 2 ^ 31 -> total3 s < 2 ^ 64 ->
  aeval OZ (env_sb s s s s) sNone (f_sb_num gen_arr) = Some (total3 s).
Proof.
  destruct s as [sx sy sz]. unfold total3. cbn [vec3_x vec3_y vec3_z]. intros Hx Hy Hz Ht.
  assert (0 <= sx * sy < 2 ^ 62) by nia. assert (0 <= sx * sy * sz) by nia. fcbv. fdone.
Qed.

(* ------------------------------------------------------------------ Array3DAccessor *)
Lemma accessor_fact (w d : vec3 IZ) :
  f_ac_shape gen_arr = true /\ f_ac_num_src gen_arr = true /\
  veval OZ (env_sh w d d) sNone (f_ac_arg gen_arr) = toO3 w /\ veval OZ (env_sh w d d) sNone (f_ac_size gen_arr) = toO3 d.
Proof. destruct w, d. repeat split; reflexivity. Qed.

(* ------------------------------------------------------------------ MultiSliceArray3D *)

Lemma multislice_fact (w src : vec3 IZ) (n num : Z) : 1 <= n < 2 ^ 31 -> int_coord w -> 0 <= num -> num * n < 2 ^ 64 ->
  f_ms_shape gen_arr = true /\ f_clamp_def_ok gen_arr = true /\
  aeval OZ (env_ms w src) (senv_ms n num) (f_ms_slice gen_arr) = Some (clampz (vec3_z w) 0 (n - 1)) /\
  veval OZ (env_ms w src) (senv_ms n num) (f_ms_arg gen_arr) = toO3 (mk_vec3 IZ (vec3_x w) (vec3_y w) 0) /\
  veval OZ (env_ms w src) (senv_ms n num) (f_ms_size gen_arr) = toO3 (mk_vec3 IZ (vec3_x src) (vec3_y src) n) /\
  aeval OZ (env_ms w src) (senv_ms n num) (f_ms_num gen_arr) = Some (num * n).
Proof.
  destruct w as [x y z], src as [sx sy sz]. unfold int_coord, int_range, clampz. cbn [vec3_x vec3_y vec3_z].
  intros Hn (Wx & Wy & Wz) Hnum Hp. assert (num < 2 ^ 64) by nia.
  csplit; fcbv; fdone.
Qed.

(* ------------------------------------------------------------------ Array3DRepeater *)

(* the code's per-axis computation as one function of the evaluated trees: where = init; if (cond) where = flip *)
Definition rep_axis_of_facts (a : axis) (w rs : vec3 IZ) : option Z :=
  match comp OZ a (veval OZ (env_rp w rs w) sNone (f_rp_init gen_arr)), aeval OZ (env_rp w rs w) sNone (f_rp_cond gen_arr a) with
  | Some r, Some c =>
      if c =? 0 then Some r
      else aeval OZ (env_rp w rs (mk_vec3 IZ r r r)) sNone (f_rp_flip gen_arr a)
  | _, _ => None
  end.

Lemma repeater_fact (a : axis) (w rs : vec3 IZ) :
  0 < vec3_x rs <= 2 ^ 30 -> 0 < vec3_y rs <= 2 ^ 30 -> 0 < vec3_z rs <= 2 ^ 30 -> total3 rs < 2 ^ 64 -> int_coord w ->
  f_rp_shape gen_arr = true /\
  rep_axis_of_facts a w rs = Some (comp IZ a (rep_coord rs w)) /\
  veval OZ (env_rp w rs w) sNone (f_rp_size gen_arr) = toO3 rs /\
  aeval OZ (env_rp w rs w) sNone (f_rp_num gen_arr) = Some (total3 rs).
Proof.
  destruct w as [x y z], rs as [nx ny nz]. unfold int_coord, int_range, total3. cbn [vec3_x vec3_y vec3_z].
  intros Hx Hy Hz Ht (Wx & Wy & Wz).
  pose proof (rem_abs_bound x nx ltac:(lia)). pose proof (rem_abs_bound y ny ltac:(lia)). pose proof (rem_abs_bound z nz ltac:(lia)).
  pose proof (quot_int_bound x nx ltac:(lia) Wx). pose proof (quot_int_bound y ny ltac:(lia) Wy). pose proof (quot_int_bound z nz ltac:(lia) Wz).
  pose proof (rem_abs_bound (Z.quot x nx) 2 ltac:(lia)). pose proof (rem_abs_bound (Z.quot y ny) 2 ltac:(lia)).
  pose proof (rem_abs_bound (Z.quot z nz) 2 ltac:(lia)).
  assert (0 <= nx * ny < 2 ^ 62) by nia. assert (0 <= nx * ny * nz) by nia.
  split; [reflexivity|]. split; [|csplit; fcbv; fdone].
  unfold rep_axis_of_facts, rep_coord, rep_axis. destruct a; fcbv; once (repeat fstep);
    once (match goal with |- context [?c =? 0] => destruct (c =? 0) end); once (repeat fstep); reflexivity.
Qed.

(* ------------------------------------------------------------------ getValueRange / range_t *)
Lemma value_range_fact (a : arr) (b e : vec3 IZ) : value_range_of_facts gen_arr a b e = value_range a b e.
Proof. reflexivity. Qed.

Lemma value_range_shape_fact :
  f_vr_init gen_arr = VRInitEmpty /\ f_vr_loop_ok gen_arr = true /\ f_vr_full_ok gen_arr = true /\ f_vr_no_override gen_arr = true /\
  f_rg_default_empty gen_arr = true /\ f_rg_extend_minmax gen_arr = true /\ f_rg_empty_def gen_arr = true.
Proof. repeat split; reflexivity. Qed.

(* ------------------------------------------------------------------ iterator *)
Lemma preinc3_fact (it : multidim_index_iterator3 IZ) : preinc3_of_facts gen_arr it = preinc3 it.
Proof. reflexivity. Qed.
Lemma preinc2_fact (it : multidim_index_iterator2 IZ) : preinc2_of_facts gen_arr it = preinc2 it.
Proof. reflexivity. Qed.
Lemma iterator_shape_fact :
  f_it_post gen_arr = IncByOne /\ f_it_ne_not_eq gen_arr = true /\ f_it_eq_ok gen_arr = true.
Proof. repeat split; reflexivity. Qed.
