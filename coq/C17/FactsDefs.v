(* C17 — vocabulary of the source-derived fact table gen/FactsArr.v (regenerated on every run by
   props/C17/factgen.py from the clang AST of Array3D.h / for_each.h / multidim_index_sequence.h /
   range.h in the working tree) and what it means.

   The bodies of the Array3D classes are outside cxx2coq's subset (pointers, virtuals, shared_ptr),
   so they are extracted as typed expression trees instead: [aexp] is a scalar C++ expression in which
   every operator, literal and integral conversion carries its C type (exactly the information
   cxx2coq keeps), [vexp] a vec3i-valued one.  They are evaluated in any numeric interpretation of
   coq/Common/CxxSem.v — in particular the overflow-checked OZ of Checked.v — and ProofsFacts.v
   proves the evaluated trees equal to the functions Model.v was written with.
   Assumed meaning of the leaves (trusted, stated in the evidence): vec_t<int,3> operators + - % and
   min/max are the component-wise liftings at type int (property C04); std::min/std::max are CxxSem's
   LMin/LMax; longIndex/longProduct calls denote the GENERATED definitions of gen/GenIdx.v.
   Anything the extractor does not recognise becomes AUnknown / VUnknown / false / an "Other"
   constructor, which makes the obligations fail (fail closed). *)
From Coq Require Import ZArith List Bool Lia.
From Common Require Import CxxSem.
From C17.gen Require Import GenIdx.
From C17 Require Import Checked Model.
Import ListNotations.
Local Open Scope Z_scope.

Inductive axis := AX | AY | AZ.
(* vec3i-valued leaves *)
Inductive vvar :=
| VWhere      (* the coordinate parameter (where / _where / pos / idx) *)
| VDims       (* ActualArray3D::dims *)
| VShift      (* IndexShiftedArray3D::shift *)
| VClipLo | VClipHi   (* SubBoxArray3D::clipBox.lower / .upper *)
| VRepSize    (* Array3DRepeater::repeatedSize *)
| VSrcSize    (* actual->size() / slice[0]->size() *)
| VLocal.     (* the function's local vec3i (get: the clamped `where`; numElements: `dims`; repeater: `where`) *)
(* scalar leaves *)
Inductive svar :=
| SNSlices    (* slice.size(), a size_t *)
| SSrcNum.    (* actual->numElements() / slice[0]->numElements(), a size_t *)

Inductive aexp :=
| ALit (t : ctype) (z : Z)
| ASVar (v : svar)
| AComp (a : axis) (v : vexp)
| ACast (from to : ctype) (e : aexp)
| ABin (o : binop) (t : ctype) (a b : aexp)
| AMin (t : ctype) (a b : aexp)          (* std::min(a, b) *)
| AMax (t : ctype) (a b : aexp)          (* std::max(a, b) *)
| ALongIndex (i d : vexp)                (* array3D::longIndex(i, d) *)
| ALongProduct (d : vexp)                (* array3D::longProduct(d) *)
| AUnknown
with vexp :=
| VVar (v : vvar)
| VSplat (e : aexp)                      (* vec3i(e) *)
| VMk (x y z : aexp)                     (* vec3i(x, y, z) *)
| VBin (o : binop) (a b : vexp)          (* component-wise operator at type int *)
| VMin (a b : vexp)
| VMax (a b : vexp)
| VUnknown.

Fixpoint aknown (e : aexp) : bool :=
  match e with
  | ALit _ _ | ASVar _ => true
  | AComp _ v => vknown v
  | ACast _ _ e => aknown e
  | ABin _ _ a b | AMin _ a b | AMax _ a b => aknown a && aknown b
  | ALongIndex i d => vknown i && vknown d
  | ALongProduct d => vknown d
  | AUnknown => false
  end
with vknown (v : vexp) : bool :=
  match v with
  | VVar _ => true
  | VSplat e => aknown e
  | VMk x y z => aknown x && aknown y && aknown z
  | VBin _ a b | VMin a b | VMax a b => vknown a && vknown b
  | VUnknown => false
  end.

Section Eval.
  Variable I : interp.
  Variable ev : vvar -> vec3 I.
  Variable es : svar -> S I.

  Definition comp (a : axis) (v : vec3 I) : S I :=
    match a with AX => vec3_x v | AY => vec3_y v | AZ => vec3_z v end.
  Definition vlift2 (f : S I -> S I -> S I) (p q : vec3 I) : vec3 I :=
    mk_vec3 I (f (vec3_x p) (vec3_x q)) (f (vec3_y p) (vec3_y q)) (f (vec3_z p) (vec3_z q)).

  Fixpoint aeval (e : aexp) : S I :=
    match e with
    | ALit t z => ilit I t z
    | ASVar v => es v
    | AComp a v => comp a (veval v)
    | ACast f t e => cast I f t (aeval e)
    | ABin o t a b => bop I o t (aeval a) (aeval b)
    | AMin t a b => lib I LMin t [aeval a; aeval b]
    | AMax t a b => lib I LMax t [aeval a; aeval b]
    | ALongIndex i d => array3D_longIndex__v3i_v3i I (veval i) (veval d)
    | ALongProduct d => array3D_longProduct__v3i I (veval d)
    | AUnknown => ilit I I32 (-1)
    end
  with veval (v : vexp) : vec3 I :=
    match v with
    | VVar x => ev x
    | VSplat e => let s := aeval e in mk_vec3 I s s s
    | VMk x y z => mk_vec3 I (aeval x) (aeval y) (aeval z)
    | VBin o a b => vlift2 (bop I o I32) (veval a) (veval b)
    | VMin a b => vlift2 (fun p q => lib I LMin I32 [p; q]) (veval a) (veval b)
    | VMax a b => vlift2 (fun p q => lib I LMax I32 [p; q]) (veval a) (veval b)
    | VUnknown => mk_vec3 I (ilit I I32 (-1)) (ilit I I32 (-1)) (ilit I I32 (-1))
    end.
End Eval.

(* ------------------------------------------------------------------ statement-level facts *)
(* one `for (int v = lower.<a>; v <cmp> upper.<b>; v++)` of for_each's nest *)
Record loopfact := mkLoopF {
  lf_init : axis;           (* the loop variable starts at lower.<axis> *)
  lf_bound : axis;          (* and is compared with upper.<axis> *)
  lf_cmp : cmpop;           (* comparison `v cmp upper.<axis>` *)
  lf_step_ok : bool         (* declared int, incremented by exactly one per iteration (v++ / ++v) *)
}.

(* how getValueRange's accumulator is initialised *)
Inductive vrinit := VRInitEmpty | VRInitGetBegin | VRInitOther.
(* what an iterator increment does to current_index *)
Inductive incfact := IncByOne | IncOther.

Record arrfacts := mkArrFacts {
  (* --- ActualArray3D<T> *)
  f_act_size : vexp;               (* size(): return <vexp> *)
  f_act_get_shape : bool;          (* { const vec3i where = W; size_t index = E; const T v = value[index]; return v; } *)
  f_act_get_where : vexp;          (* W, over VWhere (the parameter) and VDims *)
  f_act_get_index : aexp;          (* E, over VLocal (the clamped where) and VDims *)
  f_act_set_shape : bool;          (* { value[E] = t; } *)
  f_act_set_index : aexp;
  f_act_indexOf : aexp;            (* indexOf(pos): return E; pos is VWhere *)
  f_act_num : aexp;                (* numElements(): return E *)
  f_act_clear_shape : bool;        (* { for_each(X, [&](const vec3i &idx) { set(idx, t); }); } *)
  f_act_clear_extent : vexp;       (* X *)
  f_act_alloc : aexp;              (* constructor: numVoxels = E; value = new T[numVoxels] *)
  (* --- array3D::for_each *)
  f_fe_shape : bool;               (* exactly three nested for loops around functor(vec3i(a, b, c)) *)
  f_fe_loops : list loopfact;      (* outermost first *)
  f_fe_arg : list nat;             (* for the x, y, z argument of vec3i(...): index of the loop (0 = outermost) whose variable it is *)
  f_fe_size_lower : vexp;          (* for_each(size, f) calls for_each(<this>, size, f) *)
  f_fe_box_ok : bool;              (* for_each(box, f) calls for_each(box.lower, box.upper, f) *)
  (* --- IndexShiftedArray3D<T> *)
  f_sh_shape : bool;               (* get: { return actual->get(A); } *)
  f_sh_arg : vexp;
  f_sh_size : vexp;
  f_sh_num_src : bool;             (* numElements: return actual->numElements() *)
  (* --- SubBoxArray3D<T> *)
  f_sb_shape : bool;
  f_sb_arg : vexp;
  f_sb_size : vexp;
  f_sb_num : aexp;                 (* over VLocal = the local `dims` initialised with f_sb_num_local *)
  f_sb_num_local : vexp;
  (* --- Array3DAccessor<in,out> *)
  f_ac_shape : bool;               (* get: { return (out_t)actual->get(A); } *)
  f_ac_arg : vexp;
  f_ac_size : vexp;
  f_ac_num_src : bool;
  (* --- MultiSliceArray3D<T> *)
  f_ms_shape : bool;               (* get: { return slice[K]->get(A); } *)
  f_ms_slice : aexp;               (* K, as converted to the vector's size_type *)
  f_ms_arg : vexp;
  f_ms_size : vexp;
  f_ms_num : aexp;
  (* --- Array3DRepeater<T> *)
  f_rp_shape : bool;               (* { vec3i where(I); if (Cx) where.x = Fx; if (Cy) ...; if (Cz) ...; return actual->get(where); } *)
  f_rp_init : vexp;                (* I, over VWhere and VRepSize *)
  f_rp_cond : axis -> aexp;        (* C<axis>, over VWhere and VRepSize *)
  f_rp_flip : axis -> aexp;        (* F<axis>, over VLocal (where) and VRepSize *)
  f_rp_size : vexp;
  f_rp_num : aexp;
  (* --- Array3D<T>::getValueRange(begin, end) and range_t<T> *)
  f_vr_init : vrinit;
  f_vr_loop_ok : bool;             (* for_each(begin, end, [&](const vec3i &idx) { v.extend(get(idx)); }); return v; *)
  f_vr_full_ok : bool;             (* getValueRange(): return getValueRange(vec3i(0), size()) *)
  f_vr_no_override : bool;         (* no class of Array3D.h other than Array3D<T> defines a getValueRange of its own *)
  f_rg_default_empty : bool;       (* range_t() : lower(pos_inf), upper(neg_inf) *)
  f_rg_single : bool;              (* range_t(const T &t) : lower(t), upper(t) *)
  f_rg_extend_minmax : bool;       (* extend(t): lower = min(lower, t); upper = max(upper, t) *)
  f_rg_empty_def : bool;           (* empty(): anyLessThan(upper, lower) *)
  (* --- multidim_index_iterator<NDIMS> *)
  f_it_pre : incfact;              (* operator++(): return multidim_index_iterator(dims.dimensions(), ++current_index) *)
  f_it_pre_ret_ok : bool;
  f_it_post : incfact;             (* operator++(int): current_index++; return *this *)
  f_it_ne_not_eq : bool;           (* operator!=: return !( *this == other) *)
  f_it_eq_ok : bool;               (* operator==: dims.dimensions() == other.dims.dimensions() && current_index == other.current_index *)
  (* --- library leaves whose definition is checked too *)
  f_clamp_def_ok : bool;           (* math::clamp(x, lower, upper) = max(min(x, upper), lower) *)
  f_box_size_def_ok : bool         (* box_t::size() = upper - lower *)
}.

(* ------------------------------------------------------------------ meaning of the statement-level facts *)
(* the values a loop variable takes: lower <= v cmp upper, stepping by one *)
Definition loop_range (l : loopfact) (lo hi : vec3 IZ) : list Z :=
  let a := comp IZ (lf_init l) lo in
  let b := comp IZ (lf_bound l) hi in
  if lf_step_ok l then
    match lf_cmp l with
    | Lt => zrange a b
    | Le => zrange a (b + 1)
    | _ => []          (* other comparisons: not a counting loop we can give a meaning to; [] makes the theorem fail *)
    end
  else [].

(* the list of functor arguments produced by the extracted nest *)
Definition for_each_of_facts (f : arrfacts) (lo hi : vec3 IZ) : list (vec3 IZ) :=
  match f_fe_loops f, f_fe_arg f with
  | [l0; l1; l2], [px; py; pz] =>
      if f_fe_shape f then
        flat_map (fun v0 => flat_map (fun v1 => map (fun v2 =>
            let pick (p : nat) := match p with O => v0 | Datatypes.S O => v1 | _ => v2 end in
            mk_vec3 IZ (pick px) (pick py) (pick pz))
          (loop_range l2 lo hi)) (loop_range l1 lo hi)) (loop_range l0 lo hi)
      else []
  | _, _ => []
  end.

Definition value_range_of_facts (f : arrfacts) (a : arr) (b e : vec3 IZ) : option (Z * Z) :=
  if f_vr_loop_ok f && f_rg_extend_minmax f && f_vr_no_override f then
    match f_vr_init f with
    | VRInitEmpty => if f_rg_default_empty f then fold_left (fun r c => extend r (a_get a c)) (for_each b e) None else Some (0, -1)
    | VRInitGetBegin => if f_rg_single f then fold_left (fun r c => extend r (a_get a c)) (for_each b e) (Some (a_get a b, a_get a b)) else Some (0, -1)
    | VRInitOther => Some (0, -1)
    end
  else Some (0, -1).

Definition preinc3_of_facts (f : arrfacts) (it : multidim_index_iterator3 IZ) :=
  match f_it_pre f, f_it_pre_ret_ok f with
  | IncByOne, true =>
      let c := multidim_index_iterator3_current_index it + 1 in
      (mk_multidim_index_iterator3 IZ (multidim_index_iterator3_dims it) c,
       multidim_index_iterator3_mk__v3ul_ul IZ (multidim_index_sequence3_dimensions__ IZ (multidim_index_iterator3_dims it)) c)
  | _, _ => (it, it)
  end.
Definition preinc2_of_facts (f : arrfacts) (it : multidim_index_iterator2 IZ) :=
  match f_it_pre f, f_it_pre_ret_ok f with
  | IncByOne, true =>
      let c := multidim_index_iterator2_current_index it + 1 in
      (mk_multidim_index_iterator2 IZ (multidim_index_iterator2_dims it) c,
       multidim_index_iterator2_mk__v2ul_ul IZ (multidim_index_sequence2_dimensions__ IZ (multidim_index_iterator2_dims it)) c)
  | _, _ => (it, it)
  end.

(* ------------------------------------------------------------------ environments *)
Definition vO (x y z : Z) : vec3 OZ := mk_vec3 OZ (Some x) (Some y) (Some z).
Definition vNone : vec3 OZ := mk_vec3 OZ None None None.
Definition sNone : svar -> S OZ := fun _ => None.
