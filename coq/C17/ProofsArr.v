(* C17 — proofs about the hand-modelled loops (for_each, iterator traversal) and the array
   adaptors of Model.v.  Everything that mentions index arithmetic goes through the lemmas of
   ProofsIdx.v about the GENERATED definitions. *)
From Coq Require Import ZArith List Bool Lia FinFun.
From Common Require Import CxxSem.
From C17.gen Require Import GenIdx.
From C17 Require Import Checked Model ProofsIdx.
Import ListNotations.
Local Open Scope Z_scope.

(* ------------------------------------------------------------ integer ranges *)
(* zr n = [0; 1; ...; n-1] *)
Definition zr (n : Z) : list Z := map Z.of_nat (seq 0 (Z.to_nat n)).

Lemma zrange_zr lo hi : zrange lo hi = map (fun i => lo + i) (zr (hi - lo)).
Proof. unfold zrange, zr. rewrite map_map. reflexivity. Qed.

Lemma zr_in n i : In i (zr n) <-> 0 <= i < n.
Proof.
  unfold zr. rewrite in_map_iff. split.
  - intros (k & <- & Hk). apply in_seq in Hk. lia.
  - intros H. exists (Z.to_nat i). split; [lia|]. apply in_seq. lia.
Qed.

Lemma zrange_in lo hi i : In i (zrange lo hi) <-> lo <= i < hi.
Proof.
  rewrite zrange_zr, in_map_iff. split.
  - intros (k & <- & Hk). apply zr_in in Hk. lia.
  - intros H. exists (i - lo). split; [lia|]. apply zr_in. lia.
Qed.

Lemma zr_nonpos n : n <= 0 -> zr n = [].
Proof. intro H. unfold zr. replace (Z.to_nat n) with 0%nat by lia. reflexivity. Qed.

Lemma zr_NoDup n : NoDup (zr n).
Proof. unfold zr. apply Injective_map_NoDup; [intros a b; apply Nat2Z.inj | apply seq_NoDup]. Qed.

Lemma seq_of_nat_shift n : forall a, map Z.of_nat (seq a n) = map (fun k => Z.of_nat a + Z.of_nat k) (seq 0 n).
Proof.
  induction n as [|n IH]; intro a; [reflexivity|].
  cbn [seq map]. f_equal; [lia|].
  rewrite (IH (Datatypes.S a)). rewrite <- (seq_shift n 0), (map_map Datatypes.S).
  apply map_ext. intro k. lia.
Qed.

Lemma zr_app a b : 0 <= a -> 0 <= b -> zr (a + b) = zr a ++ map (fun i => a + i) (zr b).
Proof.
  intros Ha Hb. unfold zr. replace (Z.to_nat (a + b)) with (Z.to_nat a + Z.to_nat b)%nat by lia.
  rewrite seq_app, map_app. f_equal. cbn [Nat.add]. rewrite seq_of_nat_shift, (map_map Z.of_nat).
  apply map_ext. intro i. lia.
Qed.

Lemma zr_1 : zr 1 = [0].
Proof. reflexivity. Qed.

Lemma zr_snoc n : 0 <= n -> zr (n + 1) = zr n ++ [n].
Proof. intro H. rewrite zr_app, zr_1 by lia. cbn [map]. do 2 f_equal. lia. Qed.

Lemma zr_cons n : 0 <= n -> zr (1 + n) = 0 :: map (fun i => 1 + i) (zr n).
Proof. intro H. rewrite zr_app, zr_1 by lia. reflexivity. Qed.

Lemma zrange_cons lo hi : lo < hi -> zrange lo hi = lo :: zrange (lo + 1) hi.
Proof.
  intro H. rewrite !zrange_zr. replace (hi - lo) with (1 + (hi - (lo + 1))) by lia.
  rewrite zr_cons by lia. cbn [map]. f_equal; [lia|]. rewrite map_map. apply map_ext. intro i. lia.
Qed.

Lemma zrange_empty lo hi : hi <= lo -> zrange lo hi = [].
Proof. intro H. rewrite zrange_zr, zr_nonpos by lia. reflexivity. Qed.

(* ------------------------------------------------------------ list plumbing *)
Lemma map_flat_map {A B C} (g : B -> C) (f : A -> list B) l :
  map g (flat_map f l) = flat_map (fun a => map g (f a)) l.
Proof. induction l as [|a l IH]; [reflexivity|]. cbn. rewrite map_app, IH. reflexivity. Qed.

Lemma flat_map_map {A B C} (f : B -> list C) (h : A -> B) l :
  flat_map f (map h l) = flat_map (fun a => f (h a)) l.
Proof. induction l as [|a l IH]; [reflexivity|]. cbn. rewrite IH. reflexivity. Qed.

(* n consecutive blocks of length m make up [0, m*n) *)
Lemma blocks_nat m (k : nat) : 0 <= m ->
  flat_map (fun j => map (fun i => i + m * j) (zr m)) (zr (Z.of_nat k)) = zr (m * Z.of_nat k).
Proof.
  intro Hm. induction k as [|k IH].
  - rewrite Z.mul_0_r. reflexivity.
  - rewrite Nat2Z.inj_succ. unfold Z.succ. rewrite zr_snoc by lia.
    rewrite flat_map_app, IH. cbn [flat_map]. rewrite app_nil_r.
    replace (m * (Z.of_nat k + 1)) with (m * Z.of_nat k + m) by ring.
    rewrite zr_app by nia. f_equal. apply map_ext. intro i. ring.
Qed.

Lemma blocks m n : 0 <= m ->
  flat_map (fun j => map (fun i => i + m * j) (zr m)) (zr n) = zr (m * n).
Proof.
  intro Hm. destruct (Z_le_gt_dec n 0) as [Hn|Hn].
  - rewrite (zr_nonpos n), (zr_nonpos (m * n)) by nia. reflexivity.
  - rewrite <- (Z2Nat.id n) by lia. apply blocks_nat. exact Hm.
Qed.

Lemma blocks_shift m n c : 0 <= m ->
  flat_map (fun j => map (fun i => i + m * (j + c)) (zr m)) (zr n) = map (fun i => i + m * c) (zr (m * n)).
Proof.
  intro Hm. rewrite <- (blocks m n Hm), map_flat_map. apply flat_map_ext. intro j.
  rewrite map_map. apply map_ext. intro i. ring.
Qed.

(* ------------------------------------------------------------ for_each *)
Definition in_region (lo hi c : vec3 IZ) : Prop :=
  vec3_x lo <= vec3_x c < vec3_x hi /\ vec3_y lo <= vec3_y c < vec3_y hi /\ vec3_z lo <= vec3_z c < vec3_z hi.
Definition vsub (a b : vec3 IZ) : vec3 IZ := mk_vec3 IZ (vec3_x a - vec3_x b) (vec3_y a - vec3_y b) (vec3_z a - vec3_z b).
Definition volume (lo hi : vec3 IZ) : Z := total3 (vsub hi lo).
(* flattened index of c relative to the region, by the GENERATED longIndex *)
Definition rel_index (lo hi c : vec3 IZ) : Z := array3D_longIndex__v3i_v3i IZ (vsub c lo) (vsub hi lo).

Lemma for_each_in (lo hi c : vec3 IZ) : In c (for_each lo hi) <-> in_region lo hi c.
Proof.
  unfold for_each, in_region. rewrite in_flat_map. split.
  - intros (z & Hz & H). apply in_flat_map in H as (y & Hy & H). apply in_map_iff in H as (x & <- & Hx).
    apply zrange_in in Hx, Hy, Hz. cbn. lia.
  - intros (Hx & Hy & Hz). destruct c as [x y z]; cbn in *.
    exists z. split; [apply zrange_in; lia|]. apply in_flat_map.
    exists y. split; [apply zrange_in; lia|]. apply in_map_iff.
    exists x. split; [reflexivity | apply zrange_in; lia].
Qed.

Lemma for_each_flat_order (lo hi : vec3 IZ) :
  vec3_x lo <= vec3_x hi -> vec3_y lo <= vec3_y hi -> vec3_z lo <= vec3_z hi ->
  map (rel_index lo hi) (for_each lo hi) = zr (volume lo hi).
Proof.
  destruct lo as [lx ly lz], hi as [hx hy hz]. cbn [vec3_x vec3_y vec3_z]. intros Hx Hy Hz.
  unfold for_each, volume, total3, vsub. cbn [vec3_x vec3_y vec3_z].
  rewrite !zrange_zr.
  set (nx := hx - lx). set (ny := hy - ly). set (nz := hz - lz).
  rewrite map_flat_map, flat_map_map.
  rewrite (flat_map_ext _ (fun k => map (fun i => i + (nx * ny) * k) (zr (nx * ny)))).
  - apply blocks. nia.
  - intro k. rewrite map_flat_map, flat_map_map.
    rewrite (flat_map_ext _ (fun j => map (fun i => i + nx * (j + ny * k)) (zr nx))).
    + rewrite blocks_shift by lia. apply map_ext. intro i. ring.
    + intro j. rewrite !map_map. apply map_ext. intro i.
      unfold rel_index, vsub. gen_unfold. fold nx ny nz. ring.
Qed.

Lemma for_each_empty (lo hi : vec3 IZ) :
  vec3_x hi <= vec3_x lo \/ vec3_y hi <= vec3_y lo \/ vec3_z hi <= vec3_z lo -> for_each lo hi = [].
Proof.
  intro H. destruct (for_each lo hi) as [|c l] eqn:E; [reflexivity|].
  assert (Hc : In c (for_each lo hi)) by (rewrite E; left; reflexivity).
  apply for_each_in in Hc. unfold in_region in Hc. lia.
Qed.

Lemma for_each_NoDup (lo hi : vec3 IZ) : NoDup (for_each lo hi).
Proof.
  destruct (Z_le_gt_dec (vec3_x lo) (vec3_x hi)) as [Hx|Hx];
  [destruct (Z_le_gt_dec (vec3_y lo) (vec3_y hi)) as [Hy|Hy];
   [destruct (Z_le_gt_dec (vec3_z lo) (vec3_z hi)) as [Hz|Hz]|]|].
  - apply (NoDup_map_inv (rel_index lo hi)). rewrite for_each_flat_order by assumption. apply zr_NoDup.
  - rewrite for_each_empty by lia. constructor.
  - rewrite for_each_empty by lia. constructor.
  - rewrite for_each_empty by lia. constructor.
Qed.

Lemma for_each_length (lo hi : vec3 IZ) :
  vec3_x lo <= vec3_x hi -> vec3_y lo <= vec3_y hi -> vec3_z lo <= vec3_z hi ->
  Z.of_nat (length (for_each lo hi)) = volume lo hi.
Proof.
  intros Hx Hy Hz. rewrite <- (map_length (rel_index lo hi)), for_each_flat_order by assumption.
  unfold zr. rewrite map_length, seq_length. unfold volume, total3, vsub. cbn [vec3_x vec3_y vec3_z].
  apply Z2Nat.id. apply Z.mul_nonneg_nonneg; [apply Z.mul_nonneg_nonneg|]; lia.
Qed.

Lemma for_each_head lo hi : in_region lo hi lo -> exists rest, for_each lo hi = lo :: rest.
Proof.
  destruct lo as [lx ly lz], hi as [hx hy hz]. unfold in_region. cbn [vec3_x vec3_y vec3_z]. intros (Hx & Hy & Hz).
  unfold for_each. cbn [vec3_x vec3_y vec3_z].
  rewrite (zrange_cons lz) by lia. cbn [flat_map]. rewrite (zrange_cons ly) by lia. cbn [flat_map].
  rewrite (zrange_cons lx) by lia. cbn [map app]. eexists. reflexivity.
Qed.

(* ------------------------------------------------------------ iterator traversal *)
Section Loop.
  Context {It C : Type} (ne : It -> It -> bool) (deref : It -> C) (next : It -> It) (mk : Z -> It).
  Fixpoint loop (fuel : nat) (it e : It) : option (list C) :=
    if ne it e then
      match fuel with
      | O => None
      | Datatypes.S f => option_map (cons (deref it)) (loop f (next it) e)
      end
    else Some [].
  Hypothesis Hne : forall a b, ne (mk a) (mk b) = negb (a =? b).
  Hypothesis Hnext : forall a, next (mk a) = mk (a + 1).

  Lemma loop_enum (n : nat) : forall k fuel, (n <= fuel)%nat ->
    loop fuel (mk k) (mk (k + Z.of_nat n)) = Some (map (fun i => deref (mk (k + i))) (zr (Z.of_nat n))).
  Proof.
    induction n as [|n IH]; intros k fuel Hf.
    - rewrite Z.add_0_r. destruct fuel; cbn [loop]; rewrite Hne, Z.eqb_refl; reflexivity.
    - destruct fuel as [|f]; [lia|]. cbn [loop]. rewrite Hne.
      destruct (Z.eqb_spec k (k + Z.of_nat (Datatypes.S n))) as [E|_]; [lia|]. cbn [negb].
      rewrite Hnext. replace (k + Z.of_nat (Datatypes.S n)) with (k + 1 + Z.of_nat n) by lia.
      rewrite IH by lia. cbn [option_map]. rewrite Nat2Z.inj_succ. unfold Z.succ.
      replace (Z.of_nat n + 1) with (1 + Z.of_nat n) by lia. rewrite zr_cons by lia.
      cbn [map]. rewrite Z.add_0_r, map_map. do 2 f_equal. apply map_ext. intro i. f_equal. f_equal. lia.
  Qed.
End Loop.

Definition it3 (d : vec3 IZ) (k : Z) := multidim_index_iterator3_mk__v3ul_ul IZ d k.
Definition it2 (d : vec2 IZ) (k : Z) := multidim_index_iterator2_mk__v2ul_ul IZ d k.

(* contracts of the generated iterator operators *)
Lemma ne_it3 d a b : multidim_index_iterator3_op_ne__multidim_index_iterator3 IZ (it3 d a) (it3 d b) = negb (a =? b).
Proof. destruct d. unfold it3. gen_unfold. rewrite !Z.eqb_refl. reflexivity. Qed.
Lemma ne_it2 d a b : multidim_index_iterator2_op_ne__multidim_index_iterator2 IZ (it2 d a) (it2 d b) = negb (a =? b).
Proof. destruct d. unfold it2. gen_unfold. rewrite !Z.eqb_refl. reflexivity. Qed.
Lemma inc_it3 d a : multidim_index_iterator3_op_inc__i IZ (it3 d a) 0 = it3 d (a + 1).
Proof. destruct d. reflexivity. Qed.
Lemma inc_it2 d a : multidim_index_iterator2_op_inc__i IZ (it2 d a) 0 = it2 d (a + 1).
Proof. destruct d. reflexivity. Qed.
Lemma preinc_it3 d a : preinc3 (it3 d a) = (it3 d (a + 1), it3 d (a + 1)).
Proof. destruct d. reflexivity. Qed.
Lemma preinc_it2 d a : preinc2 (it2 d a) = (it2 d (a + 1), it2 d (a + 1)).
Proof. destruct d. reflexivity. Qed.
Lemma deref_it3 d a : multidim_index_iterator3_op_mul__ IZ (it3 d a) = multidim_index_sequence3_reshape__ul IZ (seq3 d) a.
Proof. destruct d. reflexivity. Qed.
Lemma deref_it2 d a : multidim_index_iterator2_op_mul__ IZ (it2 d a) = multidim_index_sequence2_reshape__ul IZ (seq2 d) a.
Proof. destruct d. reflexivity. Qed.
Lemma begin_it3 d : multidim_index_sequence3_begin__ IZ (seq3 d) = it3 d 0.
Proof. destruct d. reflexivity. Qed.
Lemma end_it3 d : multidim_index_sequence3_end__ IZ (seq3 d) = it3 d (total3 d).
Proof. destruct d. reflexivity. Qed.
Lemma begin_it2 d : multidim_index_sequence2_begin__ IZ (seq2 d) = it2 d 0.
Proof. destruct d. reflexivity. Qed.
Lemma end_it2 d : multidim_index_sequence2_end__ IZ (seq2 d) = it2 d (total2 d).
Proof. destruct d. reflexivity. Qed.

Lemma iterate3_loop fuel : forall it e,
  iterate3 fuel it e = loop (multidim_index_iterator3_op_ne__multidim_index_iterator3 IZ) (multidim_index_iterator3_op_mul__ IZ)
                            (fun it => multidim_index_iterator3_op_inc__i IZ it 0) fuel it e.
Proof. induction fuel as [|f IH]; intros it e; cbn [iterate3 loop]; [reflexivity | rewrite IH; reflexivity]. Qed.
Lemma iterate2_loop fuel : forall it e,
  iterate2 fuel it e = loop (multidim_index_iterator2_op_ne__multidim_index_iterator2 IZ) (multidim_index_iterator2_op_mul__ IZ)
                            (fun it => multidim_index_iterator2_op_inc__i IZ it 0) fuel it e.
Proof. induction fuel as [|f IH]; intros it e; cbn [iterate2 loop]; [reflexivity | rewrite IH; reflexivity]. Qed.
Lemma rangefor3_loop fuel : forall it e,
  rangefor3 fuel it e = loop (multidim_index_iterator3_op_ne__multidim_index_iterator3 IZ) (multidim_index_iterator3_op_mul__ IZ)
                             (fun it => fst (preinc3 it)) fuel it e.
Proof. induction fuel as [|f IH]; intros it e; cbn [rangefor3 loop]; [reflexivity | rewrite IH; reflexivity]. Qed.
Lemma rangefor2_loop fuel : forall it e,
  rangefor2 fuel it e = loop (multidim_index_iterator2_op_ne__multidim_index_iterator2 IZ) (multidim_index_iterator2_op_mul__ IZ)
                             (fun it => fst (preinc2 it)) fuel it e.
Proof. induction fuel as [|f IH]; intros it e; cbn [rangefor2 loop]; [reflexivity | rewrite IH; reflexivity]. Qed.

(* begin..end with != / * / ++ visits reshape(0), reshape(1), ..., reshape(total-1) and stops *)
Lemma iterator3_enumerates (d : vec3 IZ) (fuel : nat) : 0 <= total3 d -> (Z.to_nat (total3 d) <= fuel)%nat ->
  iterate3 fuel (multidim_index_sequence3_begin__ IZ (seq3 d)) (multidim_index_sequence3_end__ IZ (seq3 d))
  = Some (map (multidim_index_sequence3_reshape__ul IZ (seq3 d)) (zr (total3 d))).
Proof.
  intros Ht Hf. rewrite iterate3_loop, begin_it3, end_it3.
  rewrite <- (Z2Nat.id (total3 d)) at 1 by lia.
  rewrite <- (Z.add_0_l (Z.of_nat _)).
  rewrite (loop_enum _ _ _ (it3 d) (ne_it3 d) (inc_it3 d)) by lia.
  rewrite Z2Nat.id by lia. apply f_equal. apply map_ext. intro i. rewrite Z.add_0_l. apply deref_it3.
Qed.

Lemma iterator2_enumerates (d : vec2 IZ) (fuel : nat) : 0 <= total2 d -> (Z.to_nat (total2 d) <= fuel)%nat ->
  iterate2 fuel (multidim_index_sequence2_begin__ IZ (seq2 d)) (multidim_index_sequence2_end__ IZ (seq2 d))
  = Some (map (multidim_index_sequence2_reshape__ul IZ (seq2 d)) (zr (total2 d))).
Proof.
  intros Ht Hf. rewrite iterate2_loop, begin_it2, end_it2.
  rewrite <- (Z2Nat.id (total2 d)) at 1 by lia.
  rewrite <- (Z.add_0_l (Z.of_nat _)).
  rewrite (loop_enum _ _ _ (it2 d) (ne_it2 d) (inc_it2 d)) by lia.
  rewrite Z2Nat.id by lia. apply f_equal. apply map_ext. intro i. rewrite Z.add_0_l. apply deref_it2.
Qed.

Lemma rangefor3_enumerates (d : vec3 IZ) (fuel : nat) : 0 <= total3 d -> (Z.to_nat (total3 d) <= fuel)%nat ->
  rangefor3 fuel (multidim_index_sequence3_begin__ IZ (seq3 d)) (multidim_index_sequence3_end__ IZ (seq3 d))
  = Some (map (multidim_index_sequence3_reshape__ul IZ (seq3 d)) (zr (total3 d))).
Proof.
  intros Ht Hf. rewrite rangefor3_loop, begin_it3, end_it3.
  rewrite <- (Z2Nat.id (total3 d)) at 1 by lia.
  rewrite <- (Z.add_0_l (Z.of_nat _)).
  rewrite (loop_enum _ _ _ (it3 d) (ne_it3 d) (fun a => f_equal fst (preinc_it3 d a))) by lia.
  rewrite Z2Nat.id by lia. apply f_equal. apply map_ext. intro i. rewrite Z.add_0_l. apply deref_it3.
Qed.

Lemma rangefor2_enumerates (d : vec2 IZ) (fuel : nat) : 0 <= total2 d -> (Z.to_nat (total2 d) <= fuel)%nat ->
  rangefor2 fuel (multidim_index_sequence2_begin__ IZ (seq2 d)) (multidim_index_sequence2_end__ IZ (seq2 d))
  = Some (map (multidim_index_sequence2_reshape__ul IZ (seq2 d)) (zr (total2 d))).
Proof.
  intros Ht Hf. rewrite rangefor2_loop, begin_it2, end_it2.
  rewrite <- (Z2Nat.id (total2 d)) at 1 by lia.
  rewrite <- (Z.add_0_l (Z.of_nat _)).
  rewrite (loop_enum _ _ _ (it2 d) (ne_it2 d) (fun a => f_equal fst (preinc_it2 d a))) by lia.
  rewrite Z2Nat.id by lia. apply f_equal. apply map_ext. intro i. rewrite Z.add_0_l. apply deref_it2.
Qed.

(* the visited coordinates, flattened again, are 0, 1, ..., total-1: every coordinate of the extent
   exactly once, in flattened order *)
Lemma visited3_flat_order (d : vec3 IZ) : 0 < vec3_x d -> 0 < vec3_y d ->
  map (multidim_index_sequence3_flatten__v3ul IZ (seq3 d))
      (map (multidim_index_sequence3_reshape__ul IZ (seq3 d)) (zr (total3 d))) = zr (total3 d).
Proof.
  intros Hx Hy. rewrite map_map. rewrite <- (map_id (zr (total3 d))) at 2.
  apply map_ext_in. intros i Hi. apply zr_in in Hi. apply flatten3_reshape3; assumption.
Qed.

Lemma visited2_flat_order (d : vec2 IZ) : 0 < vec2_x d ->
  map (multidim_index_sequence2_flatten__v2ul IZ (seq2 d))
      (map (multidim_index_sequence2_reshape__ul IZ (seq2 d)) (zr (total2 d))) = zr (total2 d).
Proof.
  intros Hx. rewrite map_map. rewrite <- (map_id (zr (total2 d))) at 2.
  apply map_ext_in. intros i Hi. apply zr_in in Hi. apply flatten2_reshape2; assumption.
Qed.

(* ------------------------------------------------------------ ActualArray3D *)
Definition pos_extent (d : vec3 IZ) : Prop := 0 < vec3_x d /\ 0 < vec3_y d /\ 0 < vec3_z d.

Lemma clampc_inside d c : in3 d c -> clampc d c = c.
Proof. destruct d, c. unfold in3, clampc, clampz. cbn. intros (Hx & Hy & Hz). f_equal; lia. Qed.

Lemma clampc_in d c : pos_extent d -> in3 d (clampc d c).
Proof. destruct d, c. unfold pos_extent, in3, clampc, clampz. cbn. lia. Qed.

Lemma clampc_idem d c : clampc d (clampc d c) = clampc d c.
Proof. destruct d, c. unfold clampc, clampz. cbn. f_equal; lia. Qed.

Lemma clampc_nearest d c : pos_extent d ->
  (vec3_x (clampc d c) = if vec3_x c <? 0 then 0 else if vec3_x d <=? vec3_x c then vec3_x d - 1 else vec3_x c) /\
  (vec3_y (clampc d c) = if vec3_y c <? 0 then 0 else if vec3_y d <=? vec3_y c then vec3_y d - 1 else vec3_y c) /\
  (vec3_z (clampc d c) = if vec3_z c <? 0 then 0 else if vec3_z d <=? vec3_z c then vec3_z d - 1 else vec3_z c).
Proof.
  destruct d as [dx dy dz], c as [x y z]. unfold pos_extent, clampc, clampz. cbn. intros (Hx & Hy & Hz).
  repeat split.
  - destruct (x <? 0) eqn:A; [lia|]. destruct (dx <=? x) eqn:B; lia.
  - destruct (y <? 0) eqn:A; [lia|]. destruct (dy <=? y) eqn:B; lia.
  - destruct (z <? 0) eqn:A; [lia|]. destruct (dz <=? z) eqn:B; lia.
Qed.

Lemma longIndex_inj d c c' : in3 d c -> in3 d c' ->
  array3D_longIndex__v3i_v3i IZ c d = array3D_longIndex__v3i_v3i IZ c' d -> c = c'.
Proof.
  intros H H' E. rewrite <- (coordsOf_longIndex d c H), <- (coordsOf_longIndex d c' H'), E. reflexivity.
Qed.

Lemma get_inside a c : in3 (ac_dims a) c ->
  actual_get a c = ac_cells a (array3D_longIndex__v3i_v3i IZ c (ac_dims a)).
Proof. intro H. unfold actual_get. rewrite clampc_inside by assumption. reflexivity. Qed.

Lemma get_clamped a c : actual_get a c = actual_get a (clampc (ac_dims a) c).
Proof. unfold actual_get. rewrite clampc_idem. reflexivity. Qed.

Lemma get_set_same a c v : in3 (ac_dims a) c -> actual_get (actual_set a c v) c = v.
Proof.
  intro H. unfold actual_get, actual_set. cbn [ac_dims ac_cells].
  rewrite clampc_inside by assumption. rewrite Z.eqb_refl. reflexivity.
Qed.

Lemma get_set_other a c v c' : in3 (ac_dims a) c -> clampc (ac_dims a) c' <> c ->
  actual_get (actual_set a c v) c' = actual_get a c'.
Proof.
  intros H Hne. unfold actual_get, actual_set. cbn [ac_dims ac_cells].
  destruct (_ =? _) eqn:E; [|reflexivity]. exfalso. apply Hne. apply Z.eqb_eq in E.
  apply (longIndex_inj (ac_dims a)); try assumption.
  apply clampc_in. unfold in3 in H. unfold pos_extent. lia.
Qed.

Lemma set_dims a c v : ac_dims (actual_set a c v) = ac_dims a.
Proof. reflexivity. Qed.

Lemma indexOf_range a c : in3 (ac_dims a) c -> 0 <= actual_indexOf a c < actual_num a.
Proof. intro H. unfold actual_indexOf, actual_num. apply (longIndex_range (ac_dims a) c H). Qed.

(* ------------------------------------------------------------ adaptors *)
Lemma shifted_def a s w : a_get (shifted a s) w = a_get a (shift_coord (a_dims a) s w) /\ a_dims (shifted a s) = a_dims a.
Proof. split; reflexivity. Qed.

Lemma rem_wrap w d s : 0 <= w < d -> - d <= s -> Z.rem (w + d + s) d = (w + s) mod d.
Proof.
  intros Hw Hs. rewrite Z.rem_mod_nonneg by lia.
  replace (w + d + s) with (w + s + 1 * d) by ring. apply Z_mod_plus_full.
Qed.

(* inside the extent and for shifts not below -size the named cell is the cyclically shifted one *)
Lemma shifted_cyclic (d s w : vec3 IZ) : in3 d w -> - vec3_x d <= vec3_x s -> - vec3_y d <= vec3_y s -> - vec3_z d <= vec3_z s ->
  shift_coord d s w = mk_vec3 IZ ((vec3_x w + vec3_x s) mod vec3_x d) ((vec3_y w + vec3_y s) mod vec3_y d) ((vec3_z w + vec3_z s) mod vec3_z d)
  /\ in3 d (shift_coord d s w).
Proof.
  destruct d as [dx dy dz], s as [sx sy sz], w as [x y z]. unfold in3, shift_coord. cbn [vec3_x vec3_y vec3_z].
  intros (Hx & Hy & Hz) Sx Sy Sz. rewrite !rem_wrap by lia. split; [reflexivity|].
  pose proof (Z.mod_pos_bound (x + sx) dx ltac:(lia)). pose proof (Z.mod_pos_bound (y + sy) dy ltac:(lia)).
  pose proof (Z.mod_pos_bound (z + sz) dz ltac:(lia)). lia.
Qed.

Lemma subbox_def a lo hi w :
  a_get (subbox a lo hi) w = a_get a (mk_vec3 IZ (vec3_x w + vec3_x lo) (vec3_y w + vec3_y lo) (vec3_z w + vec3_z lo))
  /\ a_dims (subbox a lo hi) = vsub hi lo
  /\ a_num (subbox a lo hi) = total3 (vsub hi lo).
Proof. repeat split; reflexivity. Qed.

Lemma subbox_inside (d lo hi w : vec3 IZ) : in3 (vsub hi lo) w ->
  0 <= vec3_x lo -> 0 <= vec3_y lo -> 0 <= vec3_z lo -> vec3_x hi <= vec3_x d -> vec3_y hi <= vec3_y d -> vec3_z hi <= vec3_z d ->
  in3 d (mk_vec3 IZ (vec3_x w + vec3_x lo) (vec3_y w + vec3_y lo) (vec3_z w + vec3_z lo)) /\
  in_region lo hi (mk_vec3 IZ (vec3_x w + vec3_x lo) (vec3_y w + vec3_y lo) (vec3_z w + vec3_z lo)).
Proof. destruct d, lo, hi, w. unfold in3, in_region, vsub. cbn. lia. Qed.

Lemma accessor_def conv a w : a_get (accessor conv a) w = conv (a_get a w) /\ a_dims (accessor conv a) = a_dims a /\ a_num (accessor conv a) = a_num a.
Proof. repeat split; reflexivity. Qed.

Lemma multislice_def s0 rest x y z : 0 <= z < Z.of_nat (Datatypes.S (length rest)) ->
  a_get (multislice s0 rest) (mk_vec3 IZ x y z) = a_get (nth (Z.to_nat z) (s0 :: rest) s0) (mk_vec3 IZ x y 0).
Proof.
  intro Hz. unfold multislice. cbn [a_get vec3_x vec3_y vec3_z]. unfold clampz.
  replace (Z.max 0 (Z.min z (Z.of_nat (Datatypes.S (length rest)) - 1))) with z by lia. reflexivity.
Qed.

Lemma multislice_clamped s0 rest x y z :
  a_get (multislice s0 rest) (mk_vec3 IZ x y z) =
  a_get (multislice s0 rest) (mk_vec3 IZ x y (clampz z 0 (Z.of_nat (Datatypes.S (length rest)) - 1))).
Proof.
  unfold multislice. cbn [a_get vec3_x vec3_y vec3_z]. unfold clampz. do 3 f_equal. lia.
Qed.

Lemma multislice_size s0 rest :
  a_dims (multislice s0 rest) = mk_vec3 IZ (vec3_x (a_dims s0)) (vec3_y (a_dims s0)) (Z.of_nat (Datatypes.S (length rest)))
  /\ a_num (multislice s0 rest) = a_num s0 * Z.of_nat (Datatypes.S (length rest)).
Proof. split; reflexivity. Qed.

Lemma numElements_def a : a_num (as_arr a) = total3 (ac_dims a) /\ a_dims (as_arr a) = ac_dims a.
Proof. split; reflexivity. Qed.

(* ------------------------------------------------------------ getValueRange *)
Lemma fold_extend_some l : forall lo hi, lo <= hi ->
  exists lo' hi', fold_left extend l (Some (lo, hi)) = Some (lo', hi') /\ lo' <= lo /\ hi <= hi' /\
    (forall v, In v l -> lo' <= v <= hi') /\ (lo' = lo \/ In lo' l) /\ (hi' = hi \/ In hi' l).
Proof.
  induction l as [|v l IH]; intros lo hi Hle.
  - exists lo, hi. cbn. repeat split; try lia; auto; contradiction.
  - cbn [fold_left extend].
    destruct (IH (Z.min lo v) (Z.max hi v) ltac:(lia)) as (lo' & hi' & E & H1 & H2 & H3 & H4 & H5).
    exists lo', hi'. split; [exact E|]. split; [lia|]. split; [lia|]. split; [|split].
    + intros w [<-|Hw]; [lia | apply H3; assumption].
    + destruct H4 as [H4|H4]; [|right; right; assumption].
      destruct (Z.min_spec lo v) as [[_ M]|[_ M]]; rewrite M in H4; [left; assumption | right; left; congruence].
    + destruct H5 as [H5|H5]; [|right; right; assumption].
      destruct (Z.max_spec hi v) as [[_ M]|[_ M]]; rewrite M in H5; [right; left; congruence | left; assumption].
Qed.

Lemma fold_extend_nonempty v l :
  exists lo hi, fold_left extend (v :: l) None = Some (lo, hi) /\
    (forall w, In w (v :: l) -> lo <= w <= hi) /\ In lo (v :: l) /\ In hi (v :: l).
Proof.
  cbn [fold_left extend].
  destruct (fold_extend_some l v v ltac:(lia)) as (lo & hi & E & H1 & H2 & H3 & H4 & H5).
  exists lo, hi. split; [exact E|]. split; [|split].
  - intros w [<-|Hw]; [lia | apply H3; assumption].
  - destruct H4 as [->|H4]; [left; reflexivity | right; assumption].
  - destruct H5 as [->|H5]; [left; reflexivity | right; assumption].
Qed.

Lemma fold_extend_map {A} (g : A -> Z) l : forall init,
  fold_left (fun r c => extend r (g c)) l init = fold_left extend (map g l) init.
Proof. induction l as [|c l IH]; intro init; [reflexivity | cbn; apply IH]. Qed.

(* bounds every value of the region, and both ends are values of cells in the region *)
Lemma value_range_nonempty a b e : in_region b e b ->
  exists lo hi, value_range a b e = Some (lo, hi) /\
    (forall c, in_region b e c -> lo <= a_get a c <= hi) /\
    (exists c, in_region b e c /\ a_get a c = lo) /\ (exists c, in_region b e c /\ a_get a c = hi).
Proof.
  intro Hb. unfold value_range. rewrite fold_extend_map.
  destruct (for_each_head b e Hb) as (rest & E).
  assert (Hin : forall c, In c (for_each b e) <-> in_region b e c) by (intro; apply for_each_in).
  rewrite E in *. cbn [map].
  destruct (fold_extend_nonempty (a_get a b) (map (a_get a) rest)) as (lo & hi & Ev & H1 & H2 & H3).
  exists lo, hi. split; [exact Ev|]. split; [|split].
  - intros c Hc. apply H1. change (In (a_get a c) (map (a_get a) (b :: rest))). apply in_map. apply Hin. assumption.
  - change (In lo (map (a_get a) (b :: rest))) in H2. apply in_map_iff in H2 as (c & Hc & Hi).
    exists c. split; [apply Hin; assumption | assumption].
  - change (In hi (map (a_get a) (b :: rest))) in H3. apply in_map_iff in H3 as (c & Hc & Hi).
    exists c. split; [apply Hin; assumption | assumption].
Qed.

Lemma value_range_bounds a b e c : in_region b e c ->
  exists lo hi, value_range a b e = Some (lo, hi) /\ lo <= a_get a c <= hi.
Proof.
  intro Hc. assert (Hb : in_region b e b) by (unfold in_region in *; lia).
  destruct (value_range_nonempty a b e Hb) as (lo & hi & E & H1 & _).
  exists lo, hi. split; [exact E | apply H1; assumption].
Qed.

Lemma value_range_empty a (b e : vec3 IZ) :
  vec3_x e <= vec3_x b \/ vec3_y e <= vec3_y b \/ vec3_z e <= vec3_z b -> value_range a b e = None.
Proof. intro H. unfold value_range. rewrite for_each_empty by assumption. reflexivity. Qed.

(* the code as found agrees with the repaired one on every non-empty region ... *)
Lemma value_range_old_nonempty a b e : in_region b e b -> value_range_old a b e = value_range a b e.
Proof.
  intro Hb. unfold value_range_old, value_range. destruct (for_each_head b e Hb) as (rest & ->).
  cbn [fold_left extend]. rewrite Z.min_id, Z.max_id. reflexivity.
Qed.

(* ... and on an empty region returns the singleton [get(begin), get(begin)] *)
Lemma value_range_old_empty a (b e : vec3 IZ) :
  vec3_x e <= vec3_x b \/ vec3_y e <= vec3_y b \/ vec3_z e <= vec3_z b ->
  value_range_old a b e = Some (a_get a b, a_get a b).
Proof. intro H. unfold value_range_old. rewrite for_each_empty by assumption. reflexivity. Qed.

Lemma value_range_old_refuted :
  exists a b e, (forall c, ~ in_region b e c) /\ value_range_old a b e = Some (7, 7).
Proof.
  exists {| a_dims := v3z 2 2 2; a_get := fun _ => 7; a_num := 8 |}, (v3z 1 1 1), (v3z 1 2 2).
  split; [|reflexivity]. intros c. unfold in_region. cbn. lia.
Qed.

(* ------------------------------------------------------------ Array3DRepeater (as coded) *)
Lemma repeater_def a rs w :
  a_get (repeater a rs) w = a_get a (rep_coord rs w) /\ a_dims (repeater a rs) = rs /\ a_num (repeater a rs) = total3 rs.
Proof. repeat split; reflexivity. Qed.

(* per axis, for a non-negative coordinate: period n, every odd repetition mirrored; the result is inside [0, n) *)
Lemma rep_axis_mirror n w : 0 < n -> 0 <= w ->
  rep_axis n w = (if Z.even (w / n) then w mod n else n - 1 - w mod n) /\ 0 <= rep_axis n w < n.
Proof.
  intros Hn Hw. unfold rep_axis.
  pose proof (Z.mod_pos_bound w n Hn) as Hb. pose proof (Z.div_pos w n Hw Hn) as Hq.
  rewrite (Z.quot_div_nonneg w n) by lia. rewrite (Z.rem_mod_nonneg w n) by lia.
  rewrite (Z.rem_mod_nonneg (w / n) 2) by lia. rewrite Zmod_even.
  destruct (Z.even (w / n)); cbn; lia.
Qed.

(* inside [0, repeatedSize) the repeater is the identity on coordinates: what is returned is decided by the source's
   own get (for an ActualArray3D: the value of the nearest source cell) - it does not tile the source *)
Lemma repeater_inside a rs w : in3 rs w -> a_get (repeater a rs) w = a_get a w.
Proof.
  destruct rs as [nx ny nz], w as [x y z]. unfold in3. cbn [vec3_x vec3_y vec3_z]. intros (Hx & Hy & Hz).
  unfold repeater, rep_coord, rep_axis. cbn [a_get vec3_x vec3_y vec3_z].
  rewrite (Z.quot_small x nx), (Z.quot_small y ny), (Z.quot_small z nz) by lia.
  rewrite (Z.rem_small x nx), (Z.rem_small y ny), (Z.rem_small z nz) by lia. reflexivity.
Qed.

(* ------------------------------------------------------------ getValueRange THROUGH the adaptors
   value_range is generic in the array's get; instantiated, it bounds (tightly) the values the ADAPTOR's own get returns
   over the region - converted values for the accessor, re-addressed cells for the others *)
Definition tight_over (g : vec3 IZ -> Z) (b e : vec3 IZ) (r : option (Z * Z)) : Prop :=
  exists lo hi, r = Some (lo, hi) /\
    (forall c, in_region b e c -> lo <= g c <= hi) /\
    (exists c, in_region b e c /\ g c = lo) /\ (exists c, in_region b e c /\ g c = hi).

Lemma value_range_tight_over a b e : in_region b e b -> tight_over (a_get a) b e (value_range a b e).
Proof. intro H. exact (value_range_nonempty a b e H). Qed.

Lemma value_range_accessor conv a b e : in_region b e b ->
  tight_over (fun c => conv (a_get a c)) b e (value_range (accessor conv a) b e).
Proof. intro H. exact (value_range_nonempty (accessor conv a) b e H). Qed.

Lemma value_range_shifted a s b e : in_region b e b ->
  tight_over (fun c => a_get a (shift_coord (a_dims a) s c)) b e (value_range (shifted a s) b e).
Proof. intro H. exact (value_range_nonempty (shifted a s) b e H). Qed.

Lemma value_range_subbox a (lo hi : vec3 IZ) b e : in_region b e b ->
  tight_over (fun c => a_get a (mk_vec3 IZ (vec3_x c + vec3_x lo) (vec3_y c + vec3_y lo) (vec3_z c + vec3_z lo))) b e
             (value_range (subbox a lo hi) b e).
Proof. intro H. exact (value_range_nonempty (subbox a lo hi) b e H). Qed.

Lemma value_range_multislice s0 rest b e : in_region b e b ->
  tight_over (a_get (multislice s0 rest)) b e (value_range (multislice s0 rest) b e).
Proof. intro H. exact (value_range_nonempty (multislice s0 rest) b e H). Qed.

Lemma value_range_repeater a rs b e : in_region b e b ->
  tight_over (fun c => a_get a (rep_coord rs c)) b e (value_range (repeater a rs) b e).
Proof. intro H. exact (value_range_nonempty (repeater a rs) b e H). Qed.

(* converting only the two ends of the wrapped array's range is NOT the accessor's range when the conversion is not
   monotone on the stored values: int -> unsigned char over cells -1, 3, 300 *)
Lemma accessor_range_endpoints_refuted :
  exists conv a b e lo hi, in_region b e b /\ value_range a b e = Some (lo, hi) /\
    value_range (accessor conv a) b e = Some (3, 255) /\ (conv lo, conv hi) = (255, 44).
Proof.
  exists (fun v => v mod 256),
         {| a_dims := v3z 3 1 1; a_get := fun c => if vec3_x c =? 0 then -1 else if vec3_x c =? 1 then 3 else 300; a_num := 3 |},
         (v3z 0 0 0), (v3z 3 1 1), (-1), 300.
  split; [unfold in_region; cbn; lia|]. repeat split; vm_compute; reflexivity.
Qed.

(* ------------------------------------------------------------ the other iterator members (generated operators):
   constructor, jump_to, current, + and - with an offset or another iterator, the postfix-signature --, ==, dimensions *)
Lemma iterator3_members (d : vec3 IZ) (a b : Z) :
  multidim_index_iterator3_mk__v3ul IZ d = it3 d 0 /\
  multidim_index_iterator3_current__ IZ (it3 d a) = a /\
  multidim_index_iterator3_jump_to__ul IZ (it3 d a) b = it3 d b /\
  multidim_index_iterator3_op_add__ul IZ (it3 d a) b = it3 d (a + b) /\
  multidim_index_iterator3_op_sub__ul IZ (it3 d a) b = it3 d (a - b) /\
  multidim_index_iterator3_op_add__multidim_index_iterator3 IZ (it3 d a) (it3 d b) = it3 d (a + b) /\
  multidim_index_iterator3_op_sub__multidim_index_iterator3 IZ (it3 d a) (it3 d b) = it3 d (a - b) /\
  multidim_index_iterator3_op_dec__i IZ (it3 d a) 0 = it3 d (a - 1) /\
  multidim_index_iterator3_op_eq__multidim_index_iterator3 IZ (it3 d a) (it3 d b) = (a =? b) /\
  multidim_index_sequence3_dimensions__ IZ (seq3 d) = d.
Proof.
  destruct d as [dx dy dz]. repeat lazymatch goal with |- _ /\ _ => split end; try reflexivity.
  unfold it3. gen_unfold. rewrite !Z.eqb_refl. reflexivity.
Qed.

Lemma iterator2_members (d : vec2 IZ) (a b : Z) :
  multidim_index_iterator2_mk__v2ul IZ d = it2 d 0 /\
  multidim_index_iterator2_current__ IZ (it2 d a) = a /\
  multidim_index_iterator2_jump_to__ul IZ (it2 d a) b = it2 d b /\
  multidim_index_iterator2_op_add__ul IZ (it2 d a) b = it2 d (a + b) /\
  multidim_index_iterator2_op_sub__ul IZ (it2 d a) b = it2 d (a - b) /\
  multidim_index_iterator2_op_add__multidim_index_iterator2 IZ (it2 d a) (it2 d b) = it2 d (a + b) /\
  multidim_index_iterator2_op_sub__multidim_index_iterator2 IZ (it2 d a) (it2 d b) = it2 d (a - b) /\
  multidim_index_iterator2_op_dec__i IZ (it2 d a) 0 = it2 d (a - 1) /\
  multidim_index_iterator2_op_eq__multidim_index_iterator2 IZ (it2 d a) (it2 d b) = (a =? b) /\
  multidim_index_sequence2_dimensions__ IZ (seq2 d) = d.
Proof.
  destruct d as [dx dy]. repeat lazymatch goal with |- _ /\ _ => split end; try reflexivity.
  unfold it2. gen_unfold. rewrite !Z.eqb_refl. reflexivity.
Qed.
