(* C17 — proofs about the GENERATED index arithmetic (gen/GenIdx.v), read in the ideal-Z and in the
   machine interpretation. *)
From Coq Require Import ZArith List Bool Lia.
From Common Require Import CxxSem.
From C17.gen Require Import GenIdx.
Import ListNotations.
Local Open Scope Z_scope.

(* unfold the generated definitions and the ideal interpretation, leaving Z operations folded *)
Ltac gen_unfold :=
  cbv [multidim_index_sequence2_flatten__v2ul multidim_index_sequence2_reshape__ul
       multidim_index_sequence3_flatten__v3ul multidim_index_sequence3_reshape__ul
       multidim_index_sequence2_total_indices__ multidim_index_sequence3_total_indices__
       multidim_index_sequence2_dimensions__ multidim_index_sequence3_dimensions__
       multidim_index_sequence2_mk__v2ul multidim_index_sequence3_mk__v3ul
       multidim_index_sequence2_begin__ multidim_index_sequence2_end__
       multidim_index_sequence3_begin__ multidim_index_sequence3_end__
       multidim_index_iterator2_mk__v2ul multidim_index_iterator2_mk__v2ul_ul
       multidim_index_iterator3_mk__v3ul multidim_index_iterator3_mk__v3ul_ul
       multidim_index_iterator2_op_mul__ multidim_index_iterator3_op_mul__
       multidim_index_iterator2_op_inc__i multidim_index_iterator3_op_inc__i
       multidim_index_iterator2_op_ne__multidim_index_iterator2 multidim_index_iterator3_op_ne__multidim_index_iterator3
       multidim_index_iterator2_op_eq__multidim_index_iterator2 multidim_index_iterator3_op_eq__multidim_index_iterator3
       multidim_index_iterator2_current__ multidim_index_iterator3_current__
       op_eq__v2ul_v2ul op_eq__v3ul_v3ul
       v2ul_long_product__ v3ul_long_product__ v2ul_mk__ul_ul v3ul_mk__ul_ul_ul v3i_mk__i_i_i
       array3D_longProduct__v3i array3D_longIndex__v3i_v3i array3D_coordsOf__ul_v3i
       multidim_index_sequence2_dims multidim_index_sequence3_dims
       multidim_index_iterator2_dims multidim_index_iterator2_current_index
       multidim_index_iterator3_dims multidim_index_iterator3_current_index
       vec2_x vec2_y vec3_x vec3_y vec3_z];
  cbn [bop uop cmp cast ilit ofbool tobool S IZ MZ z_bop z_cmp z_uop].

(* ------------------------------------------------------- pure arithmetic *)
Lemma quot_rem_unique a b q r : 0 <= r < b -> a = b * q + r -> 0 <= q -> Z.quot a b = q /\ Z.rem a b = r.
Proof.
  intros Hr Ha Hq. assert (0 <= a) by nia.
  split; [symmetry; apply (Z.quot_unique a b q r) | symmetry; apply (Z.rem_unique a b q r)]; try lia.
Qed.

Lemma quot_lt_bound i a b : 0 <= i < a * b -> 0 < a -> 0 <= Z.quot i a < b.
Proof.
  intros Hi Ha. rewrite Z.quot_div_nonneg by lia.
  split; [apply Z.div_pos; lia | apply Z.div_lt_upper_bound; lia].
Qed.

Lemma rem_bound i a : 0 <= i -> 0 < a -> 0 <= Z.rem i a < a.
Proof. intros. rewrite Z.rem_mod_nonneg by lia. apply Z.mod_pos_bound. lia. Qed.

Lemma quot_rem_eq i a : a <> 0 -> i = a * Z.quot i a + Z.rem i a.
Proof. intro. apply Z.quot_rem'. Qed.

(* ---------------------------------------- multidim_index_sequence (size_t) *)
Definition in2 (d c : vec2 IZ) : Prop := 0 <= vec2_x c < vec2_x d /\ 0 <= vec2_y c < vec2_y d.
Definition in3 (d c : vec3 IZ) : Prop :=
  0 <= vec3_x c < vec3_x d /\ 0 <= vec3_y c < vec3_y d /\ 0 <= vec3_z c < vec3_z d.
Definition total2 (d : vec2 IZ) : Z := vec2_x d * vec2_y d.
Definition total3 (d : vec3 IZ) : Z := vec3_x d * vec3_y d * vec3_z d.
Definition seq2 (d : vec2 IZ) := multidim_index_sequence2_mk__v2ul IZ d.
Definition seq3 (d : vec3 IZ) := multidim_index_sequence3_mk__v3ul IZ d.

Lemma total2_gen (d : vec2 IZ) : multidim_index_sequence2_total_indices__ IZ (seq2 d) = total2 d.
Proof. destruct d. reflexivity. Qed.
Lemma total3_gen (d : vec3 IZ) : multidim_index_sequence3_total_indices__ IZ (seq3 d) = total3 d.
Proof. destruct d. reflexivity. Qed.

Lemma flatten2_range d c : in2 d c ->
  0 <= multidim_index_sequence2_flatten__v2ul IZ (seq2 d) c < total2 d.
Proof. destruct d as [dx dy], c as [x y]. unfold in2, total2, seq2. gen_unfold. intros [Hx Hy]. nia. Qed.

Lemma reshape2_flatten2 d c : in2 d c ->
  multidim_index_sequence2_reshape__ul IZ (seq2 d) (multidim_index_sequence2_flatten__v2ul IZ (seq2 d) c) = c.
Proof.
  destruct d as [dx dy], c as [x y]. unfold in2, seq2. gen_unfold. intros [Hx Hy].
  destruct (quot_rem_unique (x + dx * y) dx y x) as [Hq Hr]; try lia.
  now rewrite Hq, Hr.
Qed.

Lemma flatten2_reshape2 (d : vec2 IZ) (i : Z) : 0 < vec2_x d -> 0 <= i < total2 d ->
  in2 d (multidim_index_sequence2_reshape__ul IZ (seq2 d) i) /\
  multidim_index_sequence2_flatten__v2ul IZ (seq2 d) (multidim_index_sequence2_reshape__ul IZ (seq2 d) i) = i.
Proof.
  destruct d as [dx dy]. unfold in2, total2, seq2. gen_unfold. intros Hd Hi.
  pose proof (rem_bound i dx ltac:(lia) Hd). pose proof (quot_lt_bound i dx dy ltac:(lia) Hd).
  pose proof (quot_rem_eq i dx ltac:(lia)). repeat split; lia.
Qed.

Lemma flatten3_range d c : in3 d c ->
  0 <= multidim_index_sequence3_flatten__v3ul IZ (seq3 d) c < total3 d.
Proof.
  destruct d as [dx dy dz], c as [x y z]. unfold in3, total3, seq3. gen_unfold. intros (Hx & Hy & Hz).
  assert (0 <= y + dy * z < dy * dz) by nia. nia.
Qed.

Lemma reshape3_flatten3 d c : in3 d c ->
  multidim_index_sequence3_reshape__ul IZ (seq3 d) (multidim_index_sequence3_flatten__v3ul IZ (seq3 d) c) = c.
Proof.
  destruct d as [dx dy dz], c as [x y z]. unfold in3, seq3. gen_unfold. intros (Hx & Hy & Hz).
  set (i := x + dx * (y + dy * z)).
  assert (Hq : Z.quot i (dx * dy) = z) by (apply (quot_rem_unique i (dx * dy) z (x + dx * y)); [nia | unfold i; ring | lia]).
  rewrite Hq. replace (i - z * dx * dy) with (x + dx * y) by (unfold i; ring).
  destruct (quot_rem_unique (x + dx * y) dx y x) as [Hq2 Hr2]; try lia.
  now rewrite Hq2, Hr2.
Qed.

Lemma flatten3_reshape3 (d : vec3 IZ) (i : Z) : 0 < vec3_x d -> 0 < vec3_y d -> 0 <= i < total3 d ->
  in3 d (multidim_index_sequence3_reshape__ul IZ (seq3 d) i) /\
  multidim_index_sequence3_flatten__v3ul IZ (seq3 d) (multidim_index_sequence3_reshape__ul IZ (seq3 d) i) = i.
Proof.
  destruct d as [dx dy dz]. unfold in3, total3, seq3. gen_unfold. intros Hx Hy Hi.
  assert (Hxy : 0 < dx * dy) by nia.
  pose proof (quot_lt_bound i (dx * dy) dz ltac:(lia) Hxy) as Hz.
  pose proof (quot_rem_eq i (dx * dy) ltac:(lia)) as He.
  pose proof (rem_bound i (dx * dy) ltac:(lia) Hxy) as Hr.
  set (z := Z.quot i (dx * dy)) in *.
  assert (Ei : i - z * dx * dy = Z.rem i (dx * dy)) by lia.
  rewrite Ei. set (j := Z.rem i (dx * dy)) in *.
  pose proof (rem_bound j dx ltac:(lia) Hx). pose proof (quot_lt_bound j dx dy ltac:(lia) Hx).
  pose proof (quot_rem_eq j dx ltac:(lia)). repeat split; try lia; nia.
Qed.

(* ------------------------------------------------ array3D::longIndex/coordsOf (int coords) *)
Lemma longProduct_gen (d : vec3 IZ) : array3D_longProduct__v3i IZ d = total3 d.
Proof. destruct d. reflexivity. Qed.

Lemma longIndex_range d c : in3 d c -> 0 <= array3D_longIndex__v3i_v3i IZ c d < total3 d.
Proof.
  destruct d as [dx dy dz], c as [x y z]. unfold in3, total3. gen_unfold. intros (Hx & Hy & Hz).
  assert (0 <= y + dy * z < dy * dz) by nia. nia.
Qed.

Lemma coordsOf_longIndex d c : in3 d c ->
  array3D_coordsOf__ul_v3i IZ (array3D_longIndex__v3i_v3i IZ c d) d = c.
Proof.
  destruct d as [dx dy dz], c as [x y z]. unfold in3. gen_unfold. intros (Hx & Hy & Hz).
  set (i := x + dx * (y + dy * z)).
  destruct (quot_rem_unique i dx (y + dy * z) x) as [Hq Hr]; [lia | unfold i; ring | nia |].
  rewrite Hq, Hr.
  destruct (quot_rem_unique (y + dy * z) dy z y) as [Hq2 Hr2]; try lia.
  now rewrite Hq2, Hr2.
Qed.

Lemma longIndex_coordsOf (d : vec3 IZ) (i : Z) : 0 < vec3_x d -> 0 < vec3_y d -> 0 <= i < total3 d ->
  in3 d (array3D_coordsOf__ul_v3i IZ i d) /\
  array3D_longIndex__v3i_v3i IZ (array3D_coordsOf__ul_v3i IZ i d) d = i.
Proof.
  destruct d as [dx dy dz]. unfold in3, total3. gen_unfold. intros Hx Hy Hi.
  pose proof (rem_bound i dx ltac:(lia) Hx).
  pose proof (quot_rem_eq i dx ltac:(lia)).
  assert (0 <= Z.quot i dx < dy * dz) by (apply quot_lt_bound; nia).
  set (j := Z.quot i dx) in *.
  pose proof (rem_bound j dy ltac:(lia) Hy). pose proof (quot_lt_bound j dy dz ltac:(lia) Hy).
  pose proof (quot_rem_eq j dy ltac:(lia)). repeat split; try lia; nia.
Qed.

(* ---------------------------------------- machine reading = ideal reading *)
Lemma wrap_u64_small z : 0 <= z < 2 ^ 64 -> wrap U64 z = z.
Proof. intro H. cbv [wrap isfloat signed bits]. rewrite Z.mod_small; lia. Qed.
Lemma wrap_i32_small z : - 2 ^ 31 <= z < 2 ^ 31 -> wrap I32 z = z.
Proof.
  intro H. cbv [wrap isfloat signed bits]. change (32 - 1) with 31.
  rewrite Z.mod_small; lia.
Qed.

Ltac wrap_small :=
  repeat match goal with
         | |- context [wrap U64 ?z] => rewrite (wrap_u64_small z) by nia
         | |- context [wrap I32 ?z] => rewrite (wrap_i32_small z) by nia
         end.

(* multidim_index_sequence: all size_t.  If the extent's total is below 2^64 nothing wraps. *)
Lemma flatten3_machine (d c : vec3 IZ) : in3 d c -> total3 d < 2 ^ 64 ->
  multidim_index_sequence3_flatten__v3ul MZ (multidim_index_sequence3_mk__v3ul MZ d) c =
  multidim_index_sequence3_flatten__v3ul IZ (seq3 d) c.
Proof.
  destruct d as [dx dy dz], c as [x y z]. unfold in3, total3, seq3. gen_unfold. intros (Hx & Hy & Hz) Ht.
  assert (0 <= y + dy * z < dy * dz) by nia.
  assert (0 <= dx * (y + dy * z) /\ x + dx * (y + dy * z) < dx * dy * dz) by nia.
  assert (0 <= dy * z < dy * dz) by nia.
  assert (dy * dz <= dx * dy * dz) by nia.
  rewrite (wrap_u64_small (dy * z)) by nia.
  rewrite (wrap_u64_small (y + dy * z)) by nia.
  rewrite (wrap_u64_small (dx * (y + dy * z))) by nia.
  rewrite (wrap_u64_small (x + dx * (y + dy * z))) by nia. reflexivity.
Qed.

Lemma reshape3_machine (d : vec3 IZ) (i : Z) : 0 < vec3_x d -> 0 < vec3_y d -> 0 < vec3_z d -> total3 d < 2 ^ 64 -> 0 <= i < total3 d ->
  multidim_index_sequence3_reshape__ul MZ (multidim_index_sequence3_mk__v3ul MZ d) i =
  multidim_index_sequence3_reshape__ul IZ (seq3 d) i.
Proof.
  destruct d as [dx dy dz]. unfold total3, seq3. gen_unfold. intros Hx Hy Hz Ht Hi.
  assert (Hxy : 0 < dx * dy) by nia. assert (dx * dy <= dx * dy * dz) by nia.
  pose proof (quot_lt_bound i (dx * dy) dz ltac:(lia) Hxy) as Hzb.
  pose proof (quot_rem_eq i (dx * dy) ltac:(lia)) as He.
  pose proof (rem_bound i (dx * dy) ltac:(lia) Hxy) as Hr.
  rewrite (wrap_u64_small (dx * dy)) by nia.
  set (z := Z.quot i (dx * dy)) in *.
  rewrite (wrap_u64_small z) by nia.
  assert (0 <= z * dx <= z * dx * dy) by nia.
  assert (z * dx * dy <= i) by nia.
  rewrite (wrap_u64_small (z * dx)) by nia.
  rewrite (wrap_u64_small (z * dx * dy)) by nia.
  rewrite (wrap_u64_small (i - z * dx * dy)) by nia.
  set (j := i - z * dx * dy) in *.
  assert (0 <= j < dx * dy) by (unfold j; nia).
  pose proof (rem_bound j dx ltac:(lia) Hx). pose proof (quot_lt_bound j dx dy ltac:(lia) Hx).
  rewrite (wrap_u64_small (Z.quot j dx)) by nia.
  rewrite (wrap_u64_small (Z.rem j dx)) by nia. reflexivity.
Qed.

(* array3D (int extents): extents are positive ints, coordinates inside; the product fits 64 bits *)
Definition int_extent (d : vec3 IZ) : Prop :=
  0 < vec3_x d < 2 ^ 31 /\ 0 < vec3_y d < 2 ^ 31 /\ 0 < vec3_z d < 2 ^ 31.

Lemma longProduct_machine (d : vec3 IZ) : int_extent d ->
  array3D_longProduct__v3i MZ d = array3D_longProduct__v3i IZ d.
Proof.
  destruct d as [dx dy dz]. unfold int_extent. gen_unfold. intros (Hx & Hy & Hz).
  rewrite (wrap_u64_small dx) by lia. rewrite (wrap_u64_small dy) by lia. rewrite (wrap_u64_small dz) by lia.
  assert (0 <= dx * dy < 2 ^ 62) by nia.
  rewrite (wrap_u64_small (dx * dy)) by lia.
  assert (0 <= dx * dy * dz < 2 ^ 93) by nia.
  (* three 31-bit extents: the product is below 2^93 and may exceed 2^64 only if the caller's
     volume does; the statement therefore carries the hypothesis in longProduct_machine' *)
Abort.

Lemma longProduct_machine (d : vec3 IZ) : int_extent d -> total3 d < 2 ^ 64 ->
  array3D_longProduct__v3i MZ d = array3D_longProduct__v3i IZ d.
Proof.
  destruct d as [dx dy dz]. unfold int_extent, total3. gen_unfold. intros (Hx & Hy & Hz) Ht.
  rewrite (wrap_u64_small dx) by lia. rewrite (wrap_u64_small dy) by lia. rewrite (wrap_u64_small dz) by lia.
  assert (0 <= dx * dy < 2 ^ 62) by nia.
  rewrite (wrap_u64_small (dx * dy)) by lia.
  rewrite (wrap_u64_small (dx * dy * dz)) by nia. reflexivity.
Qed.

Lemma longIndex_machine (d c : vec3 IZ) : int_extent d -> in3 d c -> total3 d < 2 ^ 64 ->
  array3D_longIndex__v3i_v3i MZ c d = array3D_longIndex__v3i_v3i IZ c d.
Proof.
  destruct d as [dx dy dz], c as [x y z]. unfold int_extent, in3, total3. gen_unfold.
  intros (Hx & Hy & Hz) (Cx & Cy & Cz) Ht.
  rewrite (wrap_u64_small x), (wrap_u64_small y), (wrap_u64_small z), (wrap_u64_small dx), (wrap_u64_small dy) by lia.
  assert (0 <= y + dy * z < dy * dz) by nia.
  assert (dy * dz <= dx * dy * dz) by nia.
  assert (0 <= dx * (y + dy * z) /\ x + dx * (y + dy * z) < dx * dy * dz) by nia.
  rewrite (wrap_u64_small (dy * z)) by nia.
  rewrite (wrap_u64_small (y + dy * z)) by nia.
  rewrite (wrap_u64_small (dx * (y + dy * z))) by nia.
  rewrite (wrap_u64_small (x + dx * (y + dy * z))) by nia. reflexivity.
Qed.

Lemma coordsOf_machine (d : vec3 IZ) (i : Z) : int_extent d -> 0 <= i < total3 d -> total3 d < 2 ^ 64 ->
  array3D_coordsOf__ul_v3i MZ i d = array3D_coordsOf__ul_v3i IZ i d.
Proof.
  destruct d as [dx dy dz]. unfold int_extent, total3. gen_unfold. intros (Hx & Hy & Hz) Hi Ht.
  rewrite (wrap_u64_small dx), (wrap_u64_small dy) by lia.
  pose proof (rem_bound i dx ltac:(lia) ltac:(lia)).
  assert (0 <= Z.quot i dx < dy * dz) by (apply quot_lt_bound; nia).
  assert (dy * dz <= dx * dy * dz) by nia.
  set (j := Z.quot i dx) in *.
  pose proof (rem_bound j dy ltac:(lia) ltac:(lia)). pose proof (quot_lt_bound j dy dz ltac:(lia) ltac:(lia)).
  rewrite (wrap_u64_small (Z.rem i dx)) by lia.
  rewrite (wrap_u64_small j) by lia.
  rewrite (wrap_u64_small (Z.rem j dy)) by lia.
  rewrite (wrap_u64_small (Z.quot j dy)) by lia.
  rewrite !wrap_i32_small by lia. reflexivity.
Qed.
