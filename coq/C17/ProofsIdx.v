(* C17 — proofs about the GENERATED index arithmetic (gen/GenIdx.v), read in the ideal-Z and in the
   machine interpretation. *)
From Coq Require Import ZArith List Bool Lia.
From Common Require Import CxxSem.
From C17.gen Require Import GenIdx.
From C17 Require Import Checked.
Import ListNotations.
Local Open Scope Z_scope.

(* unfold the generated definitions and the ideal interpretation, leaving Z operations folded *)
Ltac gen_unfold :=
  cbv [multidim_index_sequence2_flatten__v2ul multidim_index_sequence2_reshape__ul
       multidim_index_sequence3_flatten__v3ul multidim_index_sequence3_reshape__ul
       multidim_index_sequence2_total_indices__ multidim_index_sequence3_total_indices__
       multidim_index_sequence2_dimensions__ multidim_index_sequence3_dimensions__
       multidim_index_sequence2_mk__v2ul multidim_index_sequence3_mk__v3ul
       multidim_index_sequence2_begin__ multidim_index_sequence2_end__
       multidim_index_sequence3_begin__ multidim_index_sequence3_end__
       multidim_index_iterator2_mk__v2ul multidim_index_iterator2_mk__v2ul_ul
       multidim_index_iterator3_mk__v3ul multidim_index_iterator3_mk__v3ul_ul
       multidim_index_iterator2_op_mul__ multidim_index_iterator3_op_mul__
       multidim_index_iterator2_op_inc__i multidim_index_iterator3_op_inc__i
       multidim_index_iterator2_op_ne__multidim_index_iterator2 multidim_index_iterator3_op_ne__multidim_index_iterator3
       multidim_index_iterator2_op_eq__multidim_index_iterator2 multidim_index_iterator3_op_eq__multidim_index_iterator3
       multidim_index_iterator2_current__ multidim_index_iterator3_current__
       op_eq__v2ul_v2ul op_eq__v3ul_v3ul
       v2ul_long_product__ v3ul_long_product__ v2ul_mk__ul_ul v3ul_mk__ul_ul_ul v3i_mk__i_i_i
       array3D_longProduct__v3i array3D_longIndex__v3i_v3i array3D_coordsOf__ul_v3i
       multidim_index_sequence2_dims multidim_index_sequence3_dims
       multidim_index_iterator2_dims multidim_index_iterator2_current_index
       multidim_index_iterator3_dims multidim_index_iterator3_current_index
       vec2_x vec2_y vec3_x vec3_y vec3_z];
  cbn [bop uop cmp cast ilit ofbool tobool S IZ MZ OZ o_bop z_bop z_cmp z_uop].

(* bring the dividend / divisor of every quot and rem that is ring-equal to the given canonical term into that form, so
   that the proofs below do not depend on how the source associates or commutes its index expression *)
Ltac canon_arg E0 :=
  repeat match goal with
  | |- context [Z.quot ?E ?D] => lazymatch E with E0 => fail | _ => idtac end; replace E with E0 by ring
  | |- context [Z.rem ?E ?D] => lazymatch E with E0 => fail | _ => idtac end; replace E with E0 by ring
  end.
Ltac canon_div D0 :=
  repeat match goal with
  | |- context [Z.quot ?E ?D] => lazymatch D with D0 => fail | _ => idtac end; replace D with D0 by ring
  | |- context [Z.rem ?E ?D] => lazymatch D with D0 => fail | _ => idtac end; replace D with D0 by ring
  end.

(* ------------------------------------------------------- pure arithmetic *)
Lemma quot_rem_unique a b q r : 0 <= r < b -> a = b * q + r -> 0 <= q -> Z.quot a b = q /\ Z.rem a b = r.
Proof.
  intros Hr Ha Hq. assert (0 <= a) by nia.
  split; [symmetry; apply (Z.quot_unique a b q r) | symmetry; apply (Z.rem_unique a b q r)]; try lia.
Qed.

Lemma quot_lt_bound i a b : 0 <= i < a * b -> 0 < a -> 0 <= Z.quot i a < b.
Proof.
  intros Hi Ha. rewrite Z.quot_div_nonneg by lia.
  split; [apply Z.div_pos; lia | apply Z.div_lt_upper_bound; lia].
Qed.

Lemma rem_bound i a : 0 <= i -> 0 < a -> 0 <= Z.rem i a < a.
Proof. intros. rewrite Z.rem_mod_nonneg by lia. apply Z.mod_pos_bound. lia. Qed.

Lemma quot_rem_eq i a : a <> 0 -> i = a * Z.quot i a + Z.rem i a.
Proof. intro. apply Z.quot_rem'. Qed.

(* ---------------------------------------- multidim_index_sequence (size_t) *)
Definition in2 (d c : vec2 IZ) : Prop := 0 <= vec2_x c < vec2_x d /\ 0 <= vec2_y c < vec2_y d.
Definition in3 (d c : vec3 IZ) : Prop :=
  0 <= vec3_x c < vec3_x d /\ 0 <= vec3_y c < vec3_y d /\ 0 <= vec3_z c < vec3_z d.
Definition total2 (d : vec2 IZ) : Z := vec2_x d * vec2_y d.
Definition total3 (d : vec3 IZ) : Z := vec3_x d * vec3_y d * vec3_z d.
Definition seq2 (d : vec2 IZ) := multidim_index_sequence2_mk__v2ul IZ d.
Definition seq3 (d : vec3 IZ) := multidim_index_sequence3_mk__v3ul IZ d.

Lemma total2_gen (d : vec2 IZ) : multidim_index_sequence2_total_indices__ IZ (seq2 d) = total2 d.
Proof. destruct d. reflexivity. Qed.
Lemma total3_gen (d : vec3 IZ) : multidim_index_sequence3_total_indices__ IZ (seq3 d) = total3 d.
Proof. destruct d. reflexivity. Qed.

Lemma flatten2_range d c : in2 d c ->
  0 <= multidim_index_sequence2_flatten__v2ul IZ (seq2 d) c < total2 d.
Proof. destruct d as [dx dy], c as [x y]. unfold in2, total2, seq2. gen_unfold. intros [Hx Hy]. nia. Qed.

Lemma reshape2_flatten2 d c : in2 d c ->
  multidim_index_sequence2_reshape__ul IZ (seq2 d) (multidim_index_sequence2_flatten__v2ul IZ (seq2 d) c) = c.
Proof.
  destruct d as [dx dy], c as [x y]. unfold in2, seq2. gen_unfold. intros [Hx Hy].
  canon_arg (x + dx * y).
  destruct (quot_rem_unique (x + dx * y) dx y x) as [Hq Hr]; try lia.
  now rewrite Hq, Hr.
Qed.

Lemma flatten2_reshape2 (d : vec2 IZ) (i : Z) : 0 < vec2_x d -> 0 <= i < total2 d ->
  in2 d (multidim_index_sequence2_reshape__ul IZ (seq2 d) i) /\
  multidim_index_sequence2_flatten__v2ul IZ (seq2 d) (multidim_index_sequence2_reshape__ul IZ (seq2 d) i) = i.
Proof.
  destruct d as [dx dy]. unfold in2, total2, seq2. gen_unfold. intros Hd Hi.
  pose proof (rem_bound i dx ltac:(lia) Hd). pose proof (quot_lt_bound i dx dy ltac:(lia) Hd).
  pose proof (quot_rem_eq i dx ltac:(lia)). repeat split; lia.
Qed.

Lemma flatten3_range d c : in3 d c ->
  0 <= multidim_index_sequence3_flatten__v3ul IZ (seq3 d) c < total3 d.
Proof.
  destruct d as [dx dy dz], c as [x y z]. unfold in3, total3, seq3. gen_unfold. intros (Hx & Hy & Hz).
  assert (0 <= y + dy * z < dy * dz) by nia. nia.
Qed.

Lemma reshape3_flatten3 d c : in3 d c ->
  multidim_index_sequence3_reshape__ul IZ (seq3 d) (multidim_index_sequence3_flatten__v3ul IZ (seq3 d) c) = c.
Proof.
  destruct d as [dx dy dz], c as [x y z]. unfold in3, seq3. gen_unfold. intros (Hx & Hy & Hz).
  canon_div (dx * dy). canon_arg (x + dx * (y + dy * z)).
  assert (Hq : Z.quot (x + dx * (y + dy * z)) (dx * dy) = z)
    by (apply (quot_rem_unique (x + dx * (y + dy * z)) (dx * dy) z (x + dx * y)); [nia | ring | lia]).
  rewrite !Hq. canon_arg (x + dx * y).
  destruct (quot_rem_unique (x + dx * y) dx y x) as [Hq2 Hr2]; try lia.
  now rewrite Hq2, Hr2.
Qed.

Lemma flatten3_reshape3 (d : vec3 IZ) (i : Z) : 0 < vec3_x d -> 0 < vec3_y d -> 0 <= i < total3 d ->
  in3 d (multidim_index_sequence3_reshape__ul IZ (seq3 d) i) /\
  multidim_index_sequence3_flatten__v3ul IZ (seq3 d) (multidim_index_sequence3_reshape__ul IZ (seq3 d) i) = i.
Proof.
  destruct d as [dx dy dz]. unfold in3, total3, seq3. gen_unfold. intros Hx Hy Hi.
  assert (Hxy : 0 < dx * dy) by nia.
  pose proof (quot_lt_bound i (dx * dy) dz ltac:(lia) Hxy) as Hz.
  pose proof (quot_rem_eq i (dx * dy) ltac:(lia)) as He.
  pose proof (rem_bound i (dx * dy) ltac:(lia) Hxy) as Hr.
  set (z := Z.quot i (dx * dy)) in *.
  assert (Ei : i - z * dx * dy = Z.rem i (dx * dy)) by lia.
  rewrite Ei. set (j := Z.rem i (dx * dy)) in *.
  pose proof (rem_bound j dx ltac:(lia) Hx). pose proof (quot_lt_bound j dx dy ltac:(lia) Hx).
  pose proof (quot_rem_eq j dx ltac:(lia)). repeat split; try lia; nia.
Qed.

(* ------------------------------------------------ array3D::longIndex/coordsOf (int coords) *)
Lemma longProduct_gen (d : vec3 IZ) : array3D_longProduct__v3i IZ d = total3 d.
Proof. destruct d. reflexivity. Qed.

Lemma longIndex_range d c : in3 d c -> 0 <= array3D_longIndex__v3i_v3i IZ c d < total3 d.
Proof.
  destruct d as [dx dy dz], c as [x y z]. unfold in3, total3. gen_unfold. intros (Hx & Hy & Hz).
  assert (0 <= y + dy * z < dy * dz) by nia. nia.
Qed.

Lemma coordsOf_longIndex d c : in3 d c ->
  array3D_coordsOf__ul_v3i IZ (array3D_longIndex__v3i_v3i IZ c d) d = c.
Proof.
  destruct d as [dx dy dz], c as [x y z]. unfold in3. gen_unfold. intros (Hx & Hy & Hz).
  canon_arg (x + dx * (y + dy * z)).
  destruct (quot_rem_unique (x + dx * (y + dy * z)) dx (y + dy * z) x) as [Hq Hr]; [lia | ring | nia |].
  rewrite !Hq, ?Hr.
  destruct (quot_rem_unique (y + dy * z) dy z y) as [Hq2 Hr2]; try lia.
  now rewrite Hq2, Hr2.
Qed.

Lemma longIndex_coordsOf (d : vec3 IZ) (i : Z) : 0 < vec3_x d -> 0 < vec3_y d -> 0 <= i < total3 d ->
  in3 d (array3D_coordsOf__ul_v3i IZ i d) /\
  array3D_longIndex__v3i_v3i IZ (array3D_coordsOf__ul_v3i IZ i d) d = i.
Proof.
  destruct d as [dx dy dz]. unfold in3, total3. gen_unfold. intros Hx Hy Hi.
  pose proof (rem_bound i dx ltac:(lia) Hx).
  pose proof (quot_rem_eq i dx ltac:(lia)).
  assert (0 <= Z.quot i dx < dy * dz) by (apply quot_lt_bound; nia).
  set (j := Z.quot i dx) in *.
  pose proof (rem_bound j dy ltac:(lia) Hy). pose proof (quot_lt_bound j dy dz ltac:(lia) Hy).
  pose proof (quot_rem_eq j dy ltac:(lia)). repeat split; try lia; nia.
Qed.

(* ---------------------------------------- machine reading = ideal reading *)
(* The two readings have the same carrier (Z) but are different instances of the generated
   records, so values are moved across with toM2/toM3 (componentwise identity). *)
Definition toM2 (v : vec2 IZ) : vec2 MZ := mk_vec2 MZ (vec2_x v) (vec2_y v).
Definition toM3 (v : vec3 IZ) : vec3 MZ := mk_vec3 MZ (vec3_x v) (vec3_y v) (vec3_z v).
Definition mseq2 (d : vec2 IZ) := multidim_index_sequence2_mk__v2ul MZ (toM2 d).
Definition mseq3 (d : vec3 IZ) := multidim_index_sequence3_mk__v3ul MZ (toM3 d).

Lemma wrap_u64_small z : 0 <= z < 2 ^ 64 -> wrap U64 z = z.
Proof. intro H. cbv [wrap isfloat signed bits]. rewrite Z.mod_small; lia. Qed.
Lemma wrap_i32_small z : - 2 ^ 31 <= z < 2 ^ 31 -> wrap I32 z = z.
Proof.
  intro H. cbv [wrap isfloat signed bits]. change (32 - 1) with 31.
  rewrite Z.mod_small; lia.
Qed.

(* remove every wrap whose argument is wrap-free and provably in range, innermost first *)
Ltac no_wrap_in z := lazymatch z with context [wrap] => fail | _ => idtac end.
Ltac wrap_small :=
  repeat match goal with
         | |- context [wrap U64 ?z] => no_wrap_in z; rewrite (wrap_u64_small z) by (timeout 3 nia)
         | |- context [wrap I32 ?z] => no_wrap_in z; rewrite (wrap_i32_small z) by (timeout 3 nia)
         end.
Ltac wrap_done := once wrap_small; lazymatch goal with |- context [wrap] => fail "a wrap remains" | _ => reflexivity end.

Ltac munfold := cbv [mseq2 mseq3 seq2 seq3]; cbv [toM2 toM3]; gen_unfold.

(* multidim_index_sequence: everything is size_t.  If the total is below 2^64 nothing wraps. *)
Lemma total2_machine (d : vec2 IZ) : 0 <= vec2_x d -> 0 <= vec2_y d -> total2 d < 2 ^ 64 ->
  multidim_index_sequence2_total_indices__ MZ (mseq2 d) = total2 d.
Proof. destruct d as [dx dy]. unfold total2. munfold. intros. wrap_done. Qed.

Lemma total3_machine (d : vec3 IZ) : 0 < vec3_x d -> 0 < vec3_y d -> 0 < vec3_z d -> total3 d < 2 ^ 64 ->
  multidim_index_sequence3_total_indices__ MZ (mseq3 d) = total3 d.
Proof.
  destruct d as [dx dy dz]. unfold total3. munfold. intros Hx Hy Hz Ht.
  assert (dx * dy <= dx * dy * dz) by nia. wrap_done.
Qed.

Lemma flatten2_machine (d c : vec2 IZ) : in2 d c -> total2 d < 2 ^ 64 ->
  multidim_index_sequence2_flatten__v2ul MZ (mseq2 d) (toM2 c) =
  multidim_index_sequence2_flatten__v2ul IZ (seq2 d) c.
Proof.
  destruct d as [dx dy], c as [x y]. unfold in2, total2. munfold. intros (Hx & Hy) Ht.
  assert (0 <= dx * y /\ x + dx * y < dx * dy) by nia. wrap_done.
Qed.

Lemma reshape2_machine (d : vec2 IZ) (i : Z) : 0 < vec2_x d -> total2 d < 2 ^ 64 -> 0 <= i < total2 d ->
  multidim_index_sequence2_reshape__ul MZ (mseq2 d) i = toM2 (multidim_index_sequence2_reshape__ul IZ (seq2 d) i).
Proof.
  destruct d as [dx dy]. unfold total2. munfold. intros Hx Ht Hi.
  pose proof (rem_bound i dx ltac:(lia) Hx). pose proof (quot_lt_bound i dx dy ltac:(lia) Hx).
  assert (dy <= dx * dy) by nia. wrap_done.
Qed.

Lemma flatten3_machine (d c : vec3 IZ) : in3 d c -> total3 d < 2 ^ 64 ->
  multidim_index_sequence3_flatten__v3ul MZ (mseq3 d) (toM3 c) =
  multidim_index_sequence3_flatten__v3ul IZ (seq3 d) c.
Proof.
  destruct d as [dx dy dz], c as [x y z]. unfold in3, total3. munfold. intros (Hx & Hy & Hz) Ht.
  assert (0 <= y + dy * z < dy * dz) by nia.
  assert (0 <= dx * (y + dy * z) /\ x + dx * (y + dy * z) < dx * dy * dz) by nia.
  assert (0 <= dy * z < dy * dz) by nia.
  assert (dy * dz <= dx * dy * dz) by nia.
  wrap_done.
Qed.

Lemma reshape3_machine (d : vec3 IZ) (i : Z) : 0 < vec3_x d -> 0 < vec3_y d -> 0 < vec3_z d -> total3 d < 2 ^ 64 -> 0 <= i < total3 d ->
  multidim_index_sequence3_reshape__ul MZ (mseq3 d) i = toM3 (multidim_index_sequence3_reshape__ul IZ (seq3 d) i).
Proof.
  destruct d as [dx dy dz]. unfold total3. munfold. intros Hx Hy Hz Ht Hi.
  assert (Hxy : 0 < dx * dy) by nia. assert (dx * dy <= dx * dy * dz) by nia.
  pose proof (quot_lt_bound i (dx * dy) dz ltac:(lia) Hxy) as Hzb.
  pose proof (quot_rem_eq i (dx * dy) ltac:(lia)) as He.
  pose proof (rem_bound i (dx * dy) ltac:(lia) Hxy) as Hr.
  rewrite (wrap_u64_small (dx * dy)) by nia.
  set (z := Z.quot i (dx * dy)) in *.
  assert (0 <= z * dx <= z * dx * dy) by nia.
  assert (z * dx * dy <= i) by nia.
  rewrite (wrap_u64_small z) by nia.
  rewrite (wrap_u64_small (z * dx)) by nia.
  rewrite (wrap_u64_small (z * dx * dy)) by nia.
  rewrite (wrap_u64_small (i - z * dx * dy)) by nia.
  set (j := i - z * dx * dy) in *.
  assert (0 <= j < dx * dy) by (unfold j; nia).
  pose proof (rem_bound j dx ltac:(lia) Hx). pose proof (quot_lt_bound j dx dy ltac:(lia) Hx).
  assert (dy <= dx * dy) by nia.
  wrap_done.
Qed.

(* array3D (int extents): extents are positive ints, coordinates inside; the product fits 64 bits *)
Definition int_extent (d : vec3 IZ) : Prop :=
  0 < vec3_x d < 2 ^ 31 /\ 0 < vec3_y d < 2 ^ 31 /\ 0 < vec3_z d < 2 ^ 31.

Lemma longProduct_machine (d : vec3 IZ) : int_extent d -> total3 d < 2 ^ 64 ->
  array3D_longProduct__v3i MZ (toM3 d) = array3D_longProduct__v3i IZ d.
Proof.
  destruct d as [dx dy dz]. unfold int_extent, total3. munfold. intros (Hx & Hy & Hz) Ht.
  assert (0 <= dx * dy < 2 ^ 62) by nia. wrap_done.
Qed.

Lemma longIndex_machine (d c : vec3 IZ) : int_extent d -> in3 d c -> total3 d < 2 ^ 64 ->
  array3D_longIndex__v3i_v3i MZ (toM3 c) (toM3 d) = array3D_longIndex__v3i_v3i IZ c d.
Proof.
  destruct d as [dx dy dz], c as [x y z]. unfold int_extent, in3, total3. munfold.
  intros (Hx & Hy & Hz) (Cx & Cy & Cz) Ht.
  assert (0 <= y + dy * z < dy * dz) by nia.
  assert (dy * dz <= dx * dy * dz) by nia.
  assert (0 <= dx * (y + dy * z) /\ x + dx * (y + dy * z) < dx * dy * dz) by nia.
  assert (0 <= dy * z < dy * dz) by nia.
  wrap_done.
Qed.

Lemma coordsOf_machine (d : vec3 IZ) (i : Z) : int_extent d -> 0 <= i < total3 d -> total3 d < 2 ^ 64 ->
  array3D_coordsOf__ul_v3i MZ i (toM3 d) = toM3 (array3D_coordsOf__ul_v3i IZ i d).
Proof.
  destruct d as [dx dy dz]. unfold int_extent, total3. munfold. intros (Hx & Hy & Hz) Hi Ht.
  rewrite (wrap_u64_small dx), (wrap_u64_small dy) by lia.
  pose proof (rem_bound i dx ltac:(lia) ltac:(lia)).
  assert (0 <= Z.quot i dx < dy * dz) by (apply quot_lt_bound; nia).
  assert (dy * dz <= dx * dy * dz) by nia.
  set (j := Z.quot i dx) in *.
  pose proof (rem_bound j dy ltac:(lia) ltac:(lia)). pose proof (quot_lt_bound j dy dz ltac:(lia) ltac:(lia)).
  wrap_done.
Qed.

(* ---------------------------------------- overflow-checked reading (Checked.v) *)
(* "f OZ (inputs) = Some v": every operation and conversion in the C++ expression produced its
   mathematically exact value within its C type; nothing wrapped, no divisor was zero. *)
Definition toO2 (v : vec2 IZ) : vec2 OZ := mk_vec2 OZ (Some (vec2_x v)) (Some (vec2_y v)).
Definition toO3 (v : vec3 IZ) : vec3 OZ := mk_vec3 OZ (Some (vec3_x v)) (Some (vec3_y v)) (Some (vec3_z v)).
Definition oseq2 (d : vec2 IZ) := multidim_index_sequence2_mk__v2ul OZ (toO2 d).
Definition oseq3 (d : vec3 IZ) := multidim_index_sequence3_mk__v3ul OZ (toO3 d).

Ltac no_chk_in z := lazymatch z with context [chk] => fail | _ => idtac end.
Ltac chk_step :=
  match goal with
  | |- context [chk U64 ?z] => no_chk_in z; rewrite (chk_u64 z) by (timeout 3 nia)
  | |- context [chk I32 ?z] => no_chk_in z; rewrite (chk_i32 z) by (timeout 3 nia)
  | |- context [?y =? 0] => rewrite (proj2 (Z.eqb_neq y 0)) by (timeout 3 nia)
  end; cbv beta iota delta [o_bop z_bop].
Ltac chk_done := once (repeat chk_step); lazymatch goal with |- context [chk] => fail "a check remains" | _ => reflexivity end.
Ltac ounfold := cbv [oseq2 oseq3 seq2 seq3]; cbv [toO2 toO3]; gen_unfold.

Lemma total2_checked (d : vec2 IZ) : 0 <= vec2_x d -> 0 <= vec2_y d -> total2 d < 2 ^ 64 ->
  multidim_index_sequence2_total_indices__ OZ (oseq2 d) = Some (total2 d).
Proof. destruct d as [dx dy]. unfold total2. ounfold. intros. chk_done. Qed.

Lemma total3_checked (d : vec3 IZ) : 0 < vec3_x d -> 0 < vec3_y d -> 0 < vec3_z d -> total3 d < 2 ^ 64 ->
  multidim_index_sequence3_total_indices__ OZ (oseq3 d) = Some (total3 d).
Proof.
  destruct d as [dx dy dz]. unfold total3. ounfold. intros Hx Hy Hz Ht.
  assert (dx * dy <= dx * dy * dz) by nia. chk_done.
Qed.

Lemma flatten2_checked (d c : vec2 IZ) : in2 d c -> total2 d < 2 ^ 64 ->
  multidim_index_sequence2_flatten__v2ul OZ (oseq2 d) (toO2 c) =
  Some (multidim_index_sequence2_flatten__v2ul IZ (seq2 d) c).
Proof.
  destruct d as [dx dy], c as [x y]. unfold in2, total2. ounfold. intros (Hx & Hy) Ht.
  assert (0 <= dx * y /\ x + dx * y < dx * dy) by nia. chk_done.
Qed.

Lemma reshape2_checked (d : vec2 IZ) (i : Z) : 0 < vec2_x d -> total2 d < 2 ^ 64 -> 0 <= i < total2 d ->
  multidim_index_sequence2_reshape__ul OZ (oseq2 d) (Some i) = toO2 (multidim_index_sequence2_reshape__ul IZ (seq2 d) i).
Proof.
  destruct d as [dx dy]. unfold total2. ounfold. intros Hx Ht Hi.
  pose proof (rem_bound i dx ltac:(lia) Hx). pose proof (quot_lt_bound i dx dy ltac:(lia) Hx).
  assert (dy <= dx * dy) by nia. chk_done.
Qed.

Lemma flatten3_checked (d c : vec3 IZ) : in3 d c -> total3 d < 2 ^ 64 ->
  multidim_index_sequence3_flatten__v3ul OZ (oseq3 d) (toO3 c) =
  Some (multidim_index_sequence3_flatten__v3ul IZ (seq3 d) c).
Proof.
  destruct d as [dx dy dz], c as [x y z]. unfold in3, total3. ounfold. intros (Hx & Hy & Hz) Ht.
  assert (0 <= y + dy * z < dy * dz) by nia.
  assert (0 <= dx * (y + dy * z) /\ x + dx * (y + dy * z) < dx * dy * dz) by nia.
  assert (0 <= dy * z < dy * dz) by nia.
  assert (dy * dz <= dx * dy * dz) by nia.
  chk_done.
Qed.

Lemma reshape3_checked (d : vec3 IZ) (i : Z) : 0 < vec3_x d -> 0 < vec3_y d -> 0 < vec3_z d -> total3 d < 2 ^ 64 -> 0 <= i < total3 d ->
  multidim_index_sequence3_reshape__ul OZ (oseq3 d) (Some i) = toO3 (multidim_index_sequence3_reshape__ul IZ (seq3 d) i).
Proof.
  destruct d as [dx dy dz]. unfold total3. ounfold. intros Hx Hy Hz Ht Hi.
  assert (Hxy : 0 < dx * dy) by nia. assert (dx * dy <= dx * dy * dz) by nia.
  pose proof (quot_lt_bound i (dx * dy) dz ltac:(lia) Hxy) as Hzb.
  pose proof (quot_rem_eq i (dx * dy) ltac:(lia)) as He.
  pose proof (rem_bound i (dx * dy) ltac:(lia) Hxy) as Hr.
  rewrite (chk_u64 (dx * dy)) by nia. cbv beta iota delta [o_bop z_bop].
  rewrite (proj2 (Z.eqb_neq (dx * dy) 0)) by nia. cbv beta iota delta [o_bop z_bop].
  set (z := Z.quot i (dx * dy)) in *.
  assert (0 <= z * dx <= z * dx * dy) by nia.
  assert (z * dx * dy <= i) by nia.
  rewrite (chk_u64 z) by nia. cbv beta iota delta [o_bop z_bop].
  rewrite (chk_u64 (z * dx)) by nia. cbv beta iota delta [o_bop z_bop].
  rewrite (chk_u64 (z * dx * dy)) by nia. cbv beta iota delta [o_bop z_bop].
  rewrite (chk_u64 (i - z * dx * dy)) by nia. cbv beta iota delta [o_bop z_bop].
  set (j := i - z * dx * dy) in *.
  assert (0 <= j < dx * dy) by (unfold j; nia).
  pose proof (rem_bound j dx ltac:(lia) Hx). pose proof (quot_lt_bound j dx dy ltac:(lia) Hx).
  assert (dy <= dx * dy) by nia.
  chk_done.
Qed.

Lemma longProduct_checked (d : vec3 IZ) : int_extent d -> total3 d < 2 ^ 64 ->
  array3D_longProduct__v3i OZ (toO3 d) = Some (array3D_longProduct__v3i IZ d).
Proof.
  destruct d as [dx dy dz]. unfold int_extent, total3. ounfold. intros (Hx & Hy & Hz) Ht.
  assert (0 <= dx * dy < 2 ^ 62) by nia. chk_done.
Qed.

Lemma longIndex_checked (d c : vec3 IZ) : int_extent d -> in3 d c -> total3 d < 2 ^ 64 ->
  array3D_longIndex__v3i_v3i OZ (toO3 c) (toO3 d) = Some (array3D_longIndex__v3i_v3i IZ c d).
Proof.
  destruct d as [dx dy dz], c as [x y z]. unfold int_extent, in3, total3. ounfold.
  intros (Hx & Hy & Hz) (Cx & Cy & Cz) Ht.
  assert (0 <= y + dy * z < dy * dz) by nia.
  assert (dy * dz <= dx * dy * dz) by nia.
  assert (0 <= dx * (y + dy * z) /\ x + dx * (y + dy * z) < dx * dy * dz) by nia.
  assert (0 <= dy * z < dy * dz) by nia.
  chk_done.
Qed.

Lemma coordsOf_checked (d : vec3 IZ) (i : Z) : int_extent d -> 0 <= i < total3 d -> total3 d < 2 ^ 64 ->
  array3D_coordsOf__ul_v3i OZ (Some i) (toO3 d) = toO3 (array3D_coordsOf__ul_v3i IZ i d).
Proof.
  destruct d as [dx dy dz]. unfold int_extent, total3. ounfold. intros (Hx & Hy & Hz) Hi Ht.
  pose proof (rem_bound i dx ltac:(lia) ltac:(lia)).
  assert (0 <= Z.quot i dx < dy * dz) by (apply quot_lt_bound; nia).
  assert (dy * dz <= dx * dy * dz) by nia.
  pose proof (rem_bound (Z.quot i dx) dy ltac:(lia) ltac:(lia)).
  pose proof (quot_lt_bound (Z.quot i dx) dy dz ltac:(lia) ltac:(lia)).
  rewrite (chk_u64 dx), (chk_u64 dy) by lia. cbv beta iota delta [o_bop z_bop].
  chk_done.
Qed.
