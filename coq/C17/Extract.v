From Coq Require Import Extraction ExtrOcamlBasic ZArith NArith List.
From Common Require Import CxxSem.
From C17.gen Require Import GenIdx.
From C17 Require Import Checked Model.
Extraction "Model.ml"
  IZ MZ OZ idZ someZ
  x_total2 x_total3 x_flatten2 x_reshape2 x_flatten3 x_reshape3 x_longProduct x_longIndex x_coordsOf
  for_each iterate3 iterate2 rangefor3 rangefor2 preinc3 preinc2 seq3_begin seq3_end seq2_begin seq2_end
  multidim_index_iterator3_current__ multidim_index_iterator2_current__
  actual_new actual_clear actual_set actual_get actual_indexOf actual_num ac_cells ac_dims as_arr
  shifted subbox accessor multislice repeater value_range value_range_old a_dims a_get a_num v3z v2z t3 t2
  Z.add Z.sub Z.quot Z.mul Z.opp Z.div Z.modulo Z.of_nat Z.to_nat N.of_nat.
