(* C17 - source-derived obligations: the bodies of the Array3D classes, for_each, getValueRange and the iterator
   increments, extracted from the clang AST of the working tree into gen/FactsArr.v on every run, mean what Model.v
   says (statements and ranges in ProofsFacts.v; vocabulary in FactsDefs.v). *)
From Coq Require Import ZArith List Bool Lia.
From Common Require Import CxxSem.
From C17.gen Require Import GenIdx FactsArr.
From C17 Require Import Checked Model ProofsIdx ProofsArr FactsDefs ProofsFacts.
Import ListNotations.
Local Open Scope Z_scope.


(* ---- ActualArray3D: the extracted body of get clamps each coordinate into [0, dims-1] and reads value[longIndex(clamped, dims)] with every
   size_t intermediate exact (the cell of Model.actual_get); set / indexOf / numElements / the constructor's allocation size / clear *)
Theorem act_get_where_fact :
  forall (d c : vec3 IZ),
  int_extent d -> int_coord c ->
  f_act_get_shape gen_arr = true /\
  veval OZ (env_act c d c) sNone (f_act_get_where gen_arr) = toO3 (clampc d c).
Proof. exact ProofsFacts.act_get_where_fact. Qed.
Print Assumptions act_get_where_fact.

Theorem act_get_index_fact :
  forall (d c : vec3 IZ),
  int_extent d -> total3 d < 2 ^ 64 -> int_coord c ->
  aeval OZ (env_act c d (clampc d c)) sNone (f_act_get_index gen_arr) =
  Some (array3D_longIndex__v3i_v3i IZ (clampc d c) d).
Proof. exact ProofsFacts.act_get_index_fact. Qed.
Print Assumptions act_get_index_fact.

Theorem act_set_fact :
  forall (d c : vec3 IZ),
  int_extent d -> total3 d < 2 ^ 64 -> in3 d c ->
  f_act_set_shape gen_arr = true /\
  aeval OZ (env_act c d c) sNone (f_act_set_index gen_arr) = Some (array3D_longIndex__v3i_v3i IZ c d).
Proof. exact ProofsFacts.act_set_fact. Qed.
Print Assumptions act_set_fact.

Theorem act_indexOf_fact :
  forall (d c : vec3 IZ),
  int_extent d -> total3 d < 2 ^ 64 -> in3 d c ->
  aeval OZ (env_act c d c) sNone (f_act_indexOf gen_arr) = Some (actual_indexOf {| ac_dims := d; ac_cells := fun _ => 0 |} c).
Proof. exact ProofsFacts.act_indexOf_fact. Qed.
Print Assumptions act_indexOf_fact.

Theorem act_num_fact :
  forall (d : vec3 IZ),
  int_extent d -> total3 d < 2 ^ 64 ->
  aeval OZ (env_act d d d) sNone (f_act_num gen_arr) = Some (actual_num {| ac_dims := d; ac_cells := fun _ => 0 |}) /\
  aeval OZ (env_act d d d) sNone (f_act_alloc gen_arr) = Some (total3 d) /\
  veval OZ (env_act d d d) sNone (f_act_size gen_arr) = toO3 d.
Proof. exact ProofsFacts.act_num_fact. Qed.
Print Assumptions act_num_fact.

Theorem act_clear_fact :
  forall (d : vec3 IZ),
  f_act_clear_shape gen_arr = true /\ veval OZ (env_act d d d) sNone (f_act_clear_extent gen_arr) = toO3 d.
Proof. exact ProofsFacts.act_clear_fact. Qed.
Print Assumptions act_clear_fact.


(* ---- for_each: the extracted loop nest (order, per-axis bounds, comparison, step, argument order) enumerates exactly Model.for_each *)
Theorem for_each_fact :
  forall (lo hi : vec3 IZ),
  for_each_of_facts gen_arr lo hi = for_each lo hi.
Proof. exact ProofsFacts.for_each_fact. Qed.
Print Assumptions for_each_fact.

Theorem for_each_overloads_fact :
  f_fe_box_ok gen_arr = true /\
  veval OZ (fun _ => vNone) sNone (f_fe_size_lower gen_arr) = vO 0 0 0.
Proof. exact ProofsFacts.for_each_overloads_fact. Qed.
Print Assumptions for_each_overloads_fact.


(* ---- adaptors: the coordinate handed to the wrapped array is the model's *)
Theorem shifted_fact :
  forall (d s w : vec3 IZ),
  0 < vec3_x d <= 2 ^ 29 -> 0 < vec3_y d <= 2 ^ 29 -> 0 < vec3_z d <= 2 ^ 29 -> small_coord (2 ^ 29) s -> small_coord (2 ^ 29) w ->
  f_sh_shape gen_arr = true /\ f_sh_num_src gen_arr = true /\
  veval OZ (env_sh w d s) sNone (f_sh_size gen_arr) = toO3 d /\
  veval OZ (env_sh w d s) sNone (f_sh_arg gen_arr) = toO3 (shift_coord d s w).
Proof. exact ProofsFacts.shifted_fact. Qed.
Print Assumptions shifted_fact.

Theorem subbox_fact :
  forall (w lo hi : vec3 IZ),
  small_coord (2 ^ 30 - 1) w -> small_coord (2 ^ 30 - 1) lo -> small_coord (2 ^ 30 - 1) hi ->
  f_sb_shape gen_arr = true /\ f_box_size_def_ok gen_arr = true /\
  veval OZ (env_sb w lo hi w) sNone (f_sb_arg gen_arr) =
    toO3 (mk_vec3 IZ (vec3_x w + vec3_x lo) (vec3_y w + vec3_y lo) (vec3_z w + vec3_z lo)) /\
  veval OZ (env_sb w lo hi w) sNone (f_sb_size gen_arr) = toO3 (vsub hi lo) /\
  veval OZ (env_sb w lo hi w) sNone (f_sb_num_local gen_arr) = toO3 (vsub hi lo).
Proof. exact ProofsFacts.subbox_fact. Qed.
Print Assumptions subbox_fact.

Theorem subbox_num_fact :
  forall (s : vec3 IZ),
  0 <= vec3_x s < 2 ^ 31 -> 0 <= vec3_y s < 2 ^ 31 -> 0 <= vec3_z s < 2 ^ 31 -> total3 s < 2 ^ 64 ->
  aeval OZ (env_sb s s s s) sNone (f_sb_num gen_arr) = Some (total3 s).
Proof. exact ProofsFacts.subbox_num_fact. Qed.
Print Assumptions subbox_num_fact.

Theorem accessor_fact :
  forall (w d : vec3 IZ),
  f_ac_shape gen_arr = true /\ f_ac_num_src gen_arr = true /\
  veval OZ (env_sh w d d) sNone (f_ac_arg gen_arr) = toO3 w /\ veval OZ (env_sh w d d) sNone (f_ac_size gen_arr) = toO3 d.
Proof. exact ProofsFacts.accessor_fact. Qed.
Print Assumptions accessor_fact.

Theorem multislice_fact :
  forall (w src : vec3 IZ) (n num : Z),
  1 <= n < 2 ^ 31 -> int_coord w -> 0 <= num -> num * n < 2 ^ 64 ->
  f_ms_shape gen_arr = true /\ f_clamp_def_ok gen_arr = true /\
  aeval OZ (env_ms w src) (senv_ms n num) (f_ms_slice gen_arr) = Some (clampz (vec3_z w) 0 (n - 1)) /\
  veval OZ (env_ms w src) (senv_ms n num) (f_ms_arg gen_arr) = toO3 (mk_vec3 IZ (vec3_x w) (vec3_y w) 0) /\
  veval OZ (env_ms w src) (senv_ms n num) (f_ms_size gen_arr) = toO3 (mk_vec3 IZ (vec3_x src) (vec3_y src) n) /\
  aeval OZ (env_ms w src) (senv_ms n num) (f_ms_num gen_arr) = Some (num * n).
Proof. exact ProofsFacts.multislice_fact. Qed.
Print Assumptions multislice_fact.

Theorem repeater_fact :
  forall (a : axis) (w rs : vec3 IZ),
  0 < vec3_x rs <= 2 ^ 30 -> 0 < vec3_y rs <= 2 ^ 30 -> 0 < vec3_z rs <= 2 ^ 30 -> total3 rs < 2 ^ 64 -> int_coord w ->
  f_rp_shape gen_arr = true /\
  rep_axis_of_facts a w rs = Some (comp IZ a (rep_coord rs w)) /\
  veval OZ (env_rp w rs w) sNone (f_rp_size gen_arr) = toO3 rs /\
  aeval OZ (env_rp w rs w) sNone (f_rp_num gen_arr) = Some (total3 rs).
Proof. exact ProofsFacts.repeater_fact. Qed.
Print Assumptions repeater_fact.


(* ---- getValueRange: accumulator initialisation + loop of the extracted body are Model.value_range; range_t's default constructor / extend / empty *)
Theorem value_range_fact :
  forall (a : arr) (b e : vec3 IZ),
  value_range_of_facts gen_arr a b e = value_range a b e.
Proof. exact ProofsFacts.value_range_fact. Qed.
Print Assumptions value_range_fact.

Theorem value_range_shape_fact :
  f_vr_init gen_arr = VRInitEmpty /\ f_vr_loop_ok gen_arr = true /\ f_vr_full_ok gen_arr = true /\ f_vr_no_override gen_arr = true /\
  f_rg_default_empty gen_arr = true /\ f_rg_extend_minmax gen_arr = true /\ f_rg_empty_def gen_arr = true.
Proof. exact ProofsFacts.value_range_shape_fact. Qed.
Print Assumptions value_range_shape_fact.


(* ---- index-sequence iterator: prefix ++ (the hand-modelled preinc of Model.v), postfix ++, != and == *)
Theorem preinc3_fact :
  forall (it : multidim_index_iterator3 IZ),
  preinc3_of_facts gen_arr it = preinc3 it.
Proof. exact ProofsFacts.preinc3_fact. Qed.
Print Assumptions preinc3_fact.

Theorem preinc2_fact :
  forall (it : multidim_index_iterator2 IZ),
  preinc2_of_facts gen_arr it = preinc2 it.
Proof. exact ProofsFacts.preinc2_fact. Qed.
Print Assumptions preinc2_fact.

Theorem iterator_shape_fact :
  f_it_post gen_arr = IncByOne /\ f_it_ne_not_eq gen_arr = true /\ f_it_eq_ok gen_arr = true.
Proof. exact ProofsFacts.iterator_shape_fact. Qed.
Print Assumptions iterator_shape_fact.


(* ---- non-vacuity: the ranges are inhabited and the evaluated trees give concrete cells *)
Example ex_fact_get_cell :
  int_extent (v3z 2000 1500 1500) /\ total3 (v3z 2000 1500 1500) < 2 ^ 64 /\ int_coord (v3z 5000 (-3) 1499) /\
  veval OZ (env_act (v3z 5000 (-3) 1499) (v3z 2000 1500 1500) (v3z 0 0 0)) sNone (f_act_get_where gen_arr) = vO 1999 0 1499 /\
  aeval OZ (env_act (v3z 0 0 0) (v3z 2000 1500 1500) (v3z 1999 0 1499)) sNone (f_act_get_index gen_arr) = Some 4497001999.
Proof. unfold int_extent, total3, int_coord, int_range. cbn [vec3_x vec3_y vec3_z v3z]. repeat split; try lia; vm_compute; reflexivity. Qed.

Example ex_fact_adaptors :
  veval OZ (env_sh (v3z 0 1 0) (v3z 3 2 1) (v3z (-1) 0 5)) sNone (f_sh_arg gen_arr) = vO 2 1 0 /\
  veval OZ (env_sb (v3z 1 1 1) (v3z 2 0 1) (v3z 4 4 4) (v3z 0 0 0)) sNone (f_sb_arg gen_arr) = vO 3 1 2 /\
  aeval OZ (env_ms (v3z 1 1 9) (v3z 2 2 1)) (senv_ms 4 4) (f_ms_slice gen_arr) = Some 3 /\
  veval OZ (env_ms (v3z 1 1 9) (v3z 2 2 1)) (senv_ms 4 4) (f_ms_arg gen_arr) = vO 1 1 0 /\
  rep_axis_of_facts AX (v3z 7 0 0) (v3z 3 3 3) = Some 1 /\ rep_axis_of_facts AY (v3z 7 5 0) (v3z 3 3 3) = Some 0.
Proof. repeat split; vm_compute; reflexivity. Qed.

Example ex_fact_for_each :
  for_each_of_facts gen_arr (v3z 0 0 0) (v3z 2 1 2) = [v3z 0 0 0; v3z 1 0 0; v3z 0 0 1; v3z 1 0 1].
Proof. vm_compute. reflexivity. Qed.
