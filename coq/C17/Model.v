(* C17 — hand-written part of the model (Tie B): the loops and the array adaptors, which the
   expression translator does not cover.  The index arithmetic itself (flatten / reshape /
   longIndex / coordsOf / longProduct / iterator operators) is GENERATED into gen/GenIdx.v from
   the current sources on every run and is what the theorems in ProofsIdx.v are about.
   Definitions only; proofs are in ProofsIdx.v / ProofsArr.v. *)
From Coq Require Import ZArith List Bool Lia.
From Common Require Import CxxSem.
From C17.gen Require Import GenIdx.
From C17 Require Import Checked.
Import ListNotations.
Local Open Scope Z_scope.

(* integer range [lo, hi) in increasing order: the C++ "for (int i = lo; i < hi; i++)" *)
Definition zrange (lo hi : Z) : list Z := map (fun k => lo + Z.of_nat k) (seq 0 (Z.to_nat (hi - lo))).

(* array3D::for_each(lower, upper, f): z outermost, x innermost; the list of functor arguments *)
Definition for_each (lo hi : vec3 IZ) : list (vec3 IZ) :=
  flat_map (fun z => flat_map (fun y => map (fun x => mk_vec3 IZ x y z)
                                            (zrange (vec3_x lo) (vec3_x hi)))
                              (zrange (vec3_y lo) (vec3_y hi)))
           (zrange (vec3_z lo) (vec3_z hi)).

(* iterating "for (it = seq.begin(); it != seq.end(); it++) visit( *it )" with the GENERATED
   iterator operators (operator++(int) is the one that mutates and returns *this);
   fuel bounds the number of steps, None = fuel exhausted *)
Fixpoint iterate3 (fuel : nat) (it e : multidim_index_iterator3 IZ) : option (list (vec3 IZ)) :=
  if multidim_index_iterator3_op_ne__multidim_index_iterator3 IZ it e then
    match fuel with
    | O => None
    | Datatypes.S f =>
        option_map (cons (multidim_index_iterator3_op_mul__ IZ it))
                   (iterate3 f (multidim_index_iterator3_op_inc__i IZ it 0) e)
    end
  else Some [].

Fixpoint iterate2 (fuel : nat) (it e : multidim_index_iterator2 IZ) : option (list (vec2 IZ)) :=
  if multidim_index_iterator2_op_ne__multidim_index_iterator2 IZ it e then
    match fuel with
    | O => None
    | Datatypes.S f =>
        option_map (cons (multidim_index_iterator2_op_mul__ IZ it))
                   (iterate2 f (multidim_index_iterator2_op_inc__i IZ it 0) e)
    end
  else Some [].

(* operator++() (prefix; the one a range-based for uses) is outside the translator's subset
   ("mutating function returning a value"), so it is hand-modelled:
     return multidim_index_iterator(dims.dimensions(), ++current_index);
   result = (iterator after the call, returned copy) *)
Definition preinc3 (it : multidim_index_iterator3 IZ) : multidim_index_iterator3 IZ * multidim_index_iterator3 IZ :=
  let c := multidim_index_iterator3_current_index it + 1 in
  (mk_multidim_index_iterator3 IZ (multidim_index_iterator3_dims it) c,
   multidim_index_iterator3_mk__v3ul_ul IZ (multidim_index_sequence3_dimensions__ IZ (multidim_index_iterator3_dims it)) c).
Definition preinc2 (it : multidim_index_iterator2 IZ) : multidim_index_iterator2 IZ * multidim_index_iterator2 IZ :=
  let c := multidim_index_iterator2_current_index it + 1 in
  (mk_multidim_index_iterator2 IZ (multidim_index_iterator2_dims it) c,
   multidim_index_iterator2_mk__v2ul_ul IZ (multidim_index_sequence2_dimensions__ IZ (multidim_index_iterator2_dims it)) c).

(* "for (auto c : seq) visit(c)"  ==  for (it = begin; it != end; ++it) visit( *it ) *)
Fixpoint rangefor3 (fuel : nat) (it e : multidim_index_iterator3 IZ) : option (list (vec3 IZ)) :=
  if multidim_index_iterator3_op_ne__multidim_index_iterator3 IZ it e then
    match fuel with
    | O => None
    | Datatypes.S f => option_map (cons (multidim_index_iterator3_op_mul__ IZ it)) (rangefor3 f (fst (preinc3 it)) e)
    end
  else Some [].
Fixpoint rangefor2 (fuel : nat) (it e : multidim_index_iterator2 IZ) : option (list (vec2 IZ)) :=
  if multidim_index_iterator2_op_ne__multidim_index_iterator2 IZ it e then
    match fuel with
    | O => None
    | Datatypes.S f => option_map (cons (multidim_index_iterator2_op_mul__ IZ it)) (rangefor2 f (fst (preinc2 it)) e)
    end
  else Some [].

(* ---- ActualArray3D and the adaptors: an array is its extent and a total cell function *)
Definition clampz (x lo hi : Z) : Z := Z.max lo (Z.min x hi).      (* max(lo, min(x, hi)) *)

(* any Array3D<T>: size(), get(), numElements() *)
Record arr := { a_dims : vec3 IZ; a_get : vec3 IZ -> Z; a_num : Z }.

(* storage of an ActualArray3D: value[linear index] *)
Record actual := { ac_dims : vec3 IZ; ac_cells : Z -> Z }.

Definition clampc (d c : vec3 IZ) : vec3 IZ :=
  mk_vec3 IZ (clampz (vec3_x c) 0 (vec3_x d - 1)) (clampz (vec3_y c) 0 (vec3_y d - 1))
          (clampz (vec3_z c) 0 (vec3_z d - 1)).

(* ActualArray3D::indexOf and the index expression inside get(): the same formula as longIndex
   (separate source text; tied by the differential harness) *)
Definition actual_indexOf (a : actual) (c : vec3 IZ) : Z := array3D_longIndex__v3i_v3i IZ c (ac_dims a).

(* ActualArray3D::get: where = max(0, min(_where, dims - 1)), then value[index(where)] *)
Definition actual_get (a : actual) (c : vec3 IZ) : Z :=
  ac_cells a (array3D_longIndex__v3i_v3i IZ (clampc (ac_dims a) c) (ac_dims a)).

(* ActualArray3D::set: value[longIndex(where, size())] = t *)
Definition actual_set (a : actual) (c : vec3 IZ) (v : Z) : actual :=
  let i := array3D_longIndex__v3i_v3i IZ c (ac_dims a) in
  {| ac_dims := ac_dims a; ac_cells := fun j => if j =? i then v else ac_cells a j |}.

(* ActualArray3D::clear(t): for_each(size(), set(idx, t)) *)
Definition actual_clear (a : actual) (v : Z) : actual :=
  fold_left (fun a c => actual_set a c v) (for_each (mk_vec3 IZ 0 0 0) (ac_dims a)) a.

(* a freshly constructed array (new T[n]: indeterminate cells, modelled by an arbitrary filler) *)
Definition actual_new (d : vec3 IZ) (filler : Z) : actual := {| ac_dims := d; ac_cells := fun _ => filler |}.

(* ActualArray3D::numElements: size_t(dims.x) * size_t(dims.y) * size_t(dims.z) *)
Definition actual_num (a : actual) : Z := vec3_x (ac_dims a) * vec3_y (ac_dims a) * vec3_z (ac_dims a).

Definition as_arr (a : actual) : arr := {| a_dims := ac_dims a; a_get := actual_get a; a_num := actual_num a |}.

(* IndexShiftedArray3D::get: actual->get((where + size() + shift) % size()) — C++ % truncates *)
Definition shift_coord (d shift w : vec3 IZ) : vec3 IZ :=
  mk_vec3 IZ (Z.rem (vec3_x w + vec3_x d + vec3_x shift) (vec3_x d))
             (Z.rem (vec3_y w + vec3_y d + vec3_y shift) (vec3_y d))
             (Z.rem (vec3_z w + vec3_z d + vec3_z shift) (vec3_z d)).
Definition shifted (a : arr) (shift : vec3 IZ) : arr :=
  {| a_dims := a_dims a;
     a_get := fun w => a_get a (shift_coord (a_dims a) shift w);
     a_num := a_num a |}.

(* SubBoxArray3D: size = clip.upper - clip.lower, get(where + clip.lower),
   numElements = product of the size *)
Definition subbox (a : arr) (lo hi : vec3 IZ) : arr :=
  let d := mk_vec3 IZ (vec3_x hi - vec3_x lo) (vec3_y hi - vec3_y lo) (vec3_z hi - vec3_z lo) in
  {| a_dims := d;
     a_get := fun w => a_get a (mk_vec3 IZ (vec3_x w + vec3_x lo) (vec3_y w + vec3_y lo) (vec3_z w + vec3_z lo));
     a_num := vec3_x d * vec3_y d * vec3_z d |}.

(* Array3DAccessor<in,out>: (out_t) actual->get(where); the conversion is a parameter *)
Definition accessor (conv : Z -> Z) (a : arr) : arr :=
  {| a_dims := a_dims a; a_get := fun w => conv (a_get a w); a_num := a_num a |}.

(* MultiSliceArray3D: slice[clamp(z, 0, n-1)]->get(x, y, 0); size = (slice0.x, slice0.y, n);
   numElements = slice[0]->numElements() * n *)
Definition multislice (s0 : arr) (rest : list arr) : arr :=
  let n := Z.of_nat (Datatypes.S (length rest)) in
  {| a_dims := mk_vec3 IZ (vec3_x (a_dims s0)) (vec3_y (a_dims s0)) n;
     a_get := fun w =>
       let k := clampz (vec3_z w) 0 (n - 1) in
       a_get (nth (Z.to_nat k) (s0 :: rest) s0) (mk_vec3 IZ (vec3_x w) (vec3_y w) 0);
     a_num := a_num s0 * n |}.

(* Array3DRepeater<T>(actual, repeatedSize): size() = repeatedSize; get(_where):
     where = _where % repeatedSize (per axis, C++ %); if ((_where / repeatedSize) % 2) where = repeatedSize - 1 - where;
     return actual->get(where)
   i.e. a mirror-repeat with period repeatedSize (NOT the source's size): inside [0, repeatedSize) it is the
   identity, so the source array's own get (clamping, for an ActualArray3D) decides what is returned. *)
Definition rep_axis (n w : Z) : Z :=
  let r := Z.rem w n in if Z.rem (Z.quot w n) 2 =? 0 then r else n - 1 - r.
Definition rep_coord (rs w : vec3 IZ) : vec3 IZ :=
  mk_vec3 IZ (rep_axis (vec3_x rs) (vec3_x w)) (rep_axis (vec3_y rs) (vec3_y w)) (rep_axis (vec3_z rs) (vec3_z w)).
Definition repeater (a : arr) (rs : vec3 IZ) : arr :=
  {| a_dims := rs; a_get := fun w => a_get a (rep_coord rs w); a_num := vec3_x rs * vec3_y rs * vec3_z rs |}.

(* ---- getValueRange.  A range_t<T> is (lower, upper); the empty range (pos_inf, neg_inf) is None.
   range_t<T>::extend(t): lower = min(lower, t); upper = max(upper, t) *)
Definition extend (r : option (Z * Z)) (v : Z) : option (Z * Z) :=
  match r with
  | None => Some (v, v)
  | Some (lo, hi) => Some (Z.min lo v, Z.max hi v)
  end.

(* the repaired Array3D::getValueRange(begin, end): start from the empty range, extend over the region *)
Definition value_range (a : arr) (b e : vec3 IZ) : option (Z * Z) :=
  fold_left (fun r c => extend r (a_get a c)) (for_each b e) None.

(* the code as found: range_t<value_t> v = get(begin); then extend over the region *)
Definition value_range_old (a : arr) (b e : vec3 IZ) : option (Z * Z) :=
  fold_left (fun r c => extend r (a_get a c)) (for_each b e) (Some (a_get a b, a_get a b)).

(* ---- executable wrappers used by the extracted driver: the generated definitions in the
   ideal (IZ), machine (MZ) and overflow-checked (OZ) readings, on plain integers *)
Definition t2 {I} (v : vec2 I) := (vec2_x v, vec2_y v).
Definition t3 {I} (v : vec3 I) := (vec3_x v, vec3_y v, vec3_z v).
Definition v3z (x y z : Z) : vec3 IZ := mk_vec3 IZ x y z.
Definition v2z (x y : Z) : vec2 IZ := mk_vec2 IZ x y.

Section Exec.
  Variable I : interp.
  Variable inj : Z -> S I.
  Definition x_v2 (x y : Z) : vec2 I := mk_vec2 I (inj x) (inj y).
  Definition x_v3 (x y z : Z) : vec3 I := mk_vec3 I (inj x) (inj y) (inj z).
  Definition x_total2 dx dy := multidim_index_sequence2_total_indices__ I (multidim_index_sequence2_mk__v2ul I (x_v2 dx dy)).
  Definition x_total3 dx dy dz := multidim_index_sequence3_total_indices__ I (multidim_index_sequence3_mk__v3ul I (x_v3 dx dy dz)).
  Definition x_flatten2 dx dy x y :=
    multidim_index_sequence2_flatten__v2ul I (multidim_index_sequence2_mk__v2ul I (x_v2 dx dy)) (x_v2 x y).
  Definition x_reshape2 dx dy i :=
    t2 (multidim_index_sequence2_reshape__ul I (multidim_index_sequence2_mk__v2ul I (x_v2 dx dy)) (inj i)).
  Definition x_flatten3 dx dy dz x y z :=
    multidim_index_sequence3_flatten__v3ul I (multidim_index_sequence3_mk__v3ul I (x_v3 dx dy dz)) (x_v3 x y z).
  Definition x_reshape3 dx dy dz i :=
    t3 (multidim_index_sequence3_reshape__ul I (multidim_index_sequence3_mk__v3ul I (x_v3 dx dy dz)) (inj i)).
  Definition x_longProduct dx dy dz := array3D_longProduct__v3i I (x_v3 dx dy dz).
  Definition x_longIndex dx dy dz x y z := array3D_longIndex__v3i_v3i I (x_v3 x y z) (x_v3 dx dy dz).
  Definition x_coordsOf dx dy dz i := t3 (array3D_coordsOf__ul_v3i I (inj i) (x_v3 dx dy dz)).
End Exec.

Definition idZ (z : Z) : Z := z.
Definition someZ (z : Z) : option Z := Some z.

Definition seq3_begin (dx dy dz : Z) := multidim_index_sequence3_begin__ IZ (multidim_index_sequence3_mk__v3ul IZ (v3z dx dy dz)).
Definition seq3_end (dx dy dz : Z) := multidim_index_sequence3_end__ IZ (multidim_index_sequence3_mk__v3ul IZ (v3z dx dy dz)).
Definition seq2_begin (dx dy : Z) := multidim_index_sequence2_begin__ IZ (multidim_index_sequence2_mk__v2ul IZ (v2z dx dy)).
Definition seq2_end (dx dy : Z) := multidim_index_sequence2_end__ IZ (multidim_index_sequence2_mk__v2ul IZ (v2z dx dy)).
