(* C17 — hand-written part of the model (Tie B): the loops and the array adaptors, which the
   expression translator does not cover.  The index arithmetic itself (flatten / reshape /
   longIndex / coordsOf / longProduct / iterator operators) is GENERATED into gen/GenIdx.v from
   the current sources on every run and is what the theorems in ProofsIdx.v are about. *)
From Coq Require Import ZArith List Bool Lia.
From Common Require Import CxxSem.
From C17.gen Require Import GenIdx.
Import ListNotations.
Local Open Scope Z_scope.

(* integer range [lo, hi) in increasing order: the C++ "for (int i = lo; i < hi; i++)" *)
Definition zrange (lo hi : Z) : list Z := map (fun k => lo + Z.of_nat k) (seq 0 (Z.to_nat (hi - lo))).

(* array3D::for_each(lower, upper, f): z outermost, x innermost *)
Definition for_each (lo hi : vec3 IZ) : list (vec3 IZ) :=
  flat_map (fun z => flat_map (fun y => map (fun x => mk_vec3 IZ x y z)
                                            (zrange (vec3_x lo) (vec3_x hi)))
                              (zrange (vec3_y lo) (vec3_y hi)))
           (zrange (vec3_z lo) (vec3_z hi)).

(* iterating "for (it = seq.begin(); it != seq.end(); it++) visit(*it)" with the GENERATED
   iterator operators; fuel bounds the number of steps, None = fuel exhausted *)
Fixpoint iterate3 (fuel : nat) (it e : multidim_index_iterator3 IZ) : option (list (vec3 IZ)) :=
  if multidim_index_iterator3_op_ne__multidim_index_iterator3 IZ it e then
    match fuel with
    | O => None
    | Datatypes.S f =>
        option_map (cons (multidim_index_iterator3_op_mul__ IZ it))
                   (iterate3 f (multidim_index_iterator3_op_inc__i IZ it 0) e)
    end
  else Some [].

Fixpoint iterate2 (fuel : nat) (it e : multidim_index_iterator2 IZ) : option (list (vec2 IZ)) :=
  if multidim_index_iterator2_op_ne__multidim_index_iterator2 IZ it e then
    match fuel with
    | O => None
    | Datatypes.S f =>
        option_map (cons (multidim_index_iterator2_op_mul__ IZ it))
                   (iterate2 f (multidim_index_iterator2_op_inc__i IZ it 0) e)
    end
  else Some [].

(* ---- ActualArray3D and the adaptors: an array is its extent and a total cell function *)
Definition clampz (x lo hi : Z) : Z := Z.max lo (Z.min x hi).      (* max(lo, min(x, hi)) *)

Record arr := { a_dims : vec3 IZ; a_get : vec3 IZ -> Z }.           (* any Array3D: size() and get() *)

(* storage of an ActualArray3D: value[longIndex] *)
Record actual := { ac_dims : vec3 IZ; ac_cells : Z -> Z }.

Definition clampc (d c : vec3 IZ) : vec3 IZ :=
  mk_vec3 IZ (clampz (vec3_x c) 0 (vec3_x d - 1)) (clampz (vec3_y c) 0 (vec3_y d - 1))
          (clampz (vec3_z c) 0 (vec3_z d - 1)).

(* ActualArray3D::get: clamp, then index with the same formula as longIndex *)
Definition actual_get (a : actual) (c : vec3 IZ) : Z :=
  ac_cells a (array3D_longIndex__v3i_v3i IZ (clampc (ac_dims a) c) (ac_dims a)).

(* ActualArray3D::set: value[longIndex(where, size())] = t *)
Definition actual_set (a : actual) (c : vec3 IZ) (v : Z) : actual :=
  let i := array3D_longIndex__v3i_v3i IZ c (ac_dims a) in
  {| ac_dims := ac_dims a; ac_cells := fun j => if j =? i then v else ac_cells a j |}.

Definition as_arr (a : actual) : arr := {| a_dims := ac_dims a; a_get := actual_get a |}.

(* IndexShiftedArray3D::get: actual->get((where + size() + shift) % size()) — C++ % (truncating) *)
Definition shifted (a : arr) (shift : vec3 IZ) : arr :=
  {| a_dims := a_dims a;
     a_get := fun w =>
       let d := a_dims a in
       a_get a (mk_vec3 IZ (Z.rem (vec3_x w + vec3_x d + vec3_x shift) (vec3_x d))
                          (Z.rem (vec3_y w + vec3_y d + vec3_y shift) (vec3_y d))
                          (Z.rem (vec3_z w + vec3_z d + vec3_z shift) (vec3_z d))) |}.

(* SubBoxArray3D: size = clip.upper - clip.lower, get(where + clip.lower) *)
Definition subbox (a : arr) (lo hi : vec3 IZ) : arr :=
  {| a_dims := mk_vec3 IZ (vec3_x hi - vec3_x lo) (vec3_y hi - vec3_y lo) (vec3_z hi - vec3_z lo);
     a_get := fun w => a_get a (mk_vec3 IZ (vec3_x w + vec3_x lo) (vec3_y w + vec3_y lo) (vec3_z w + vec3_z lo)) |}.

(* Array3DAccessor<in,out>: (out_t) actual->get(where), conversion as a function *)
Definition accessor (conv : Z -> Z) (a : arr) : arr :=
  {| a_dims := a_dims a; a_get := fun w => conv (a_get a w) |}.

(* MultiSliceArray3D: slice[clamp(z, 0, n-1)]->get(x, y, 0); size = (slice0.x, slice0.y, n) *)
Definition multislice (s0 : arr) (rest : list arr) : arr :=
  let n := Z.of_nat (Datatypes.S (length rest)) in
  {| a_dims := mk_vec3 IZ (vec3_x (a_dims s0)) (vec3_y (a_dims s0)) n;
     a_get := fun w =>
       let k := clampz (vec3_z w) 0 (n - 1) in
       a_get (nth (Z.to_nat k) (s0 :: rest) s0) (mk_vec3 IZ (vec3_x w) (vec3_y w) 0) |}.

(* Array3D::getValueRange(begin, end): v = [get(begin), get(begin)], then extend over the region.
   range_t<T>::extend(t): lower = min(lower, t); upper = max(upper, t) *)
Definition value_range (a : arr) (b e : vec3 IZ) : Z * Z :=
  fold_left (fun '(lo, hi) c => (Z.min lo (a_get a c), Z.max hi (a_get a c)))
            (for_each b e) (a_get a b, a_get a b).
