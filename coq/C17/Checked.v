(* C17 - a third executable reading of the generated definitions: overflow-CHECKED arithmetic.
   The carrier is [option Z]; every operation, cast and literal is performed at its C type and
   yields [None] as soon as the mathematically exact result does not fit that type (or a division
   has a zero divisor).  "f OZ args = Some v" therefore says: every intermediate value of the C++
   expression equals its ideal value, nothing wrapped, no narrowing lost bits - which is how the
   property's "computed in 64 bits without overflow" is stated in ProofsIdx.v.
   (Local to C17; coq/Common/CxxSem.v is not modified.) *)
From Coq Require Import ZArith List Bool Lia.
From Common Require Import CxxSem.
Import ListNotations.
Local Open Scope Z_scope.

Definition chk (t : ctype) (z : Z) : option Z :=
  if isfloat t then Some z
  else if (tmin t <=? z) && (z <=? tmax t) then Some z else None.

Fixpoint oseq (l : list (option Z)) : option (list Z) :=
  match l with
  | [] => Some []
  | Some x :: r => match oseq r with Some r' => Some (x :: r') | None => None end
  | None :: _ => None
  end.

Definition o_bop (o : binop) (t : ctype) (a b : option Z) : option Z :=
  match a, b with
  | Some x, Some y =>
      match o with
      | Div | Rem => if y =? 0 then None else chk t (z_bop o x y)
      | _ => chk t (z_bop o x y)
      end
  | _, _ => None
  end.

Definition OZ : interp := {|
  S := option Z;
  bop := o_bop;
  uop := fun o t a => match a with Some x => chk t (z_uop o x) | None => None end;
  cmp := fun o _ a b => match a, b with Some x, Some y => z_cmp o x y | _, _ => false end;
  cast := fun _ t a => match a with Some x => chk t x | None => None end;
  ilit := fun t z => chk t z;
  flit := fun _ n d => Some (Z.quot n d);
  lib := fun f t l => match oseq l with Some zs => chk t (z_lib f zs) | None => None end;
  ofbool := fun _ b => Some (if b then 1 else 0);
  tobool := fun _ a => match a with Some z => negb (z =? 0) | None => false end;
|}.

Lemma chk_u64 z : 0 <= z < 2 ^ 64 -> chk U64 z = Some z.
Proof.
  intro H. unfold chk. cbn [isfloat]. change (tmin U64) with 0. change (tmax U64) with (2 ^ 64 - 1).
  destruct (0 <=? z) eqn:A, (z <=? 2 ^ 64 - 1) eqn:B; try reflexivity; lia.
Qed.

Lemma chk_i32 z : - 2 ^ 31 <= z < 2 ^ 31 -> chk I32 z = Some z.
Proof.
  intro H. unfold chk. cbn [isfloat]. change (tmin I32) with (- 2 ^ 31). change (tmax I32) with (2 ^ 31 - 1).
  destruct (- 2 ^ 31 <=? z) eqn:A, (z <=? 2 ^ 31 - 1) eqn:B; try reflexivity; lia.
Qed.

Lemma chk_some t z v : chk t z = Some v -> v = z /\ (isfloat t = false -> tmin t <= z <= tmax t).
Proof.
  unfold chk. destruct (isfloat t).
  - intro H; inversion H; split; [reflexivity | discriminate].
  - destruct (tmin t <=? z) eqn:A, (z <=? tmax t) eqn:B; cbn; intro H; inversion H; split; auto; intros _; lia.
Qed.
