(* C17 - Index maps are bijections and 3D array adaptors address the right cell.
   Property theorems only: each is discharged by a lemma of ProofsIdx.v (about the definitions GENERATED from the
   current sources into gen/GenIdx.v) or ProofsArr.v (hand-modelled loops and adaptors, Model.v). *)
From Coq Require Import ZArith List Bool Lia.
From Common Require Import CxxSem.
From C17.gen Require Import GenIdx.
From C17 Require Import Checked Model ProofsIdx ProofsArr.
Import ListNotations.
Local Open Scope Z_scope.


(* ---- Ideal reading (unbounded integers) of the GENERATED flatten / reshape / longIndex / coordsOf:
   mutually inverse bijections between {c | 0 <= c_i < d_i} and [0, total) for all positive extents *)
Theorem total2_gen :
  forall (d : vec2 IZ),
  multidim_index_sequence2_total_indices__ IZ (seq2 d) = total2 d.
Proof. exact ProofsIdx.total2_gen. Qed.
Print Assumptions total2_gen.

Theorem total3_gen :
  forall (d : vec3 IZ),
  multidim_index_sequence3_total_indices__ IZ (seq3 d) = total3 d.
Proof. exact ProofsIdx.total3_gen. Qed.
Print Assumptions total3_gen.

Theorem longProduct_gen :
  forall (d : vec3 IZ),
  array3D_longProduct__v3i IZ d = total3 d.
Proof. exact ProofsIdx.longProduct_gen. Qed.
Print Assumptions longProduct_gen.

Theorem flatten2_range :
  forall d c,
  in2 d c ->
  0 <= multidim_index_sequence2_flatten__v2ul IZ (seq2 d) c < total2 d.
Proof. exact ProofsIdx.flatten2_range. Qed.
Print Assumptions flatten2_range.

Theorem reshape2_flatten2 :
  forall d c,
  in2 d c ->
  multidim_index_sequence2_reshape__ul IZ (seq2 d) (multidim_index_sequence2_flatten__v2ul IZ (seq2 d) c) = c.
Proof. exact ProofsIdx.reshape2_flatten2. Qed.
Print Assumptions reshape2_flatten2.

Theorem flatten2_reshape2 :
  forall (d : vec2 IZ) (i : Z),
  0 < vec2_x d -> 0 <= i < total2 d ->
  in2 d (multidim_index_sequence2_reshape__ul IZ (seq2 d) i) /\
  multidim_index_sequence2_flatten__v2ul IZ (seq2 d) (multidim_index_sequence2_reshape__ul IZ (seq2 d) i) = i.
Proof. exact ProofsIdx.flatten2_reshape2. Qed.
Print Assumptions flatten2_reshape2.

Theorem flatten3_range :
  forall d c,
  in3 d c ->
  0 <= multidim_index_sequence3_flatten__v3ul IZ (seq3 d) c < total3 d.
Proof. exact ProofsIdx.flatten3_range. Qed.
Print Assumptions flatten3_range.

Theorem reshape3_flatten3 :
  forall d c,
  in3 d c ->
  multidim_index_sequence3_reshape__ul IZ (seq3 d) (multidim_index_sequence3_flatten__v3ul IZ (seq3 d) c) = c.
Proof. exact ProofsIdx.reshape3_flatten3. Qed.
Print Assumptions reshape3_flatten3.

Theorem flatten3_reshape3 :
  forall (d : vec3 IZ) (i : Z),
  0 < vec3_x d -> 0 < vec3_y d -> 0 <= i < total3 d ->
  in3 d (multidim_index_sequence3_reshape__ul IZ (seq3 d) i) /\
  multidim_index_sequence3_flatten__v3ul IZ (seq3 d) (multidim_index_sequence3_reshape__ul IZ (seq3 d) i) = i.
Proof. exact ProofsIdx.flatten3_reshape3. Qed.
Print Assumptions flatten3_reshape3.

Theorem longIndex_range :
  forall d c,
  in3 d c -> 0 <= array3D_longIndex__v3i_v3i IZ c d < total3 d.
Proof. exact ProofsIdx.longIndex_range. Qed.
Print Assumptions longIndex_range.

Theorem coordsOf_longIndex :
  forall d c,
  in3 d c ->
  array3D_coordsOf__ul_v3i IZ (array3D_longIndex__v3i_v3i IZ c d) d = c.
Proof. exact ProofsIdx.coordsOf_longIndex. Qed.
Print Assumptions coordsOf_longIndex.

Theorem longIndex_coordsOf :
  forall (d : vec3 IZ) (i : Z),
  0 < vec3_x d -> 0 < vec3_y d -> 0 <= i < total3 d ->
  in3 d (array3D_coordsOf__ul_v3i IZ i d) /\
  array3D_longIndex__v3i_v3i IZ (array3D_coordsOf__ul_v3i IZ i d) d = i.
Proof. exact ProofsIdx.longIndex_coordsOf. Qed.
Print Assumptions longIndex_coordsOf.


(* ---- "computed in 64 bits without overflow": in the overflow-CHECKED reading (Checked.v: every operation, cast and
   literal at its C type, None as soon as an exact result does not fit) the generated expressions return Some of
   their ideal value - every size_t intermediate is exact and coordsOf's narrowing to int loses nothing *)
Theorem total2_checked :
  forall (d : vec2 IZ),
  0 <= vec2_x d -> 0 <= vec2_y d -> total2 d < 2 ^ 64 ->
  multidim_index_sequence2_total_indices__ OZ (oseq2 d) = Some (total2 d).
Proof. exact ProofsIdx.total2_checked. Qed.
Print Assumptions total2_checked.

Theorem flatten2_checked :
  forall (d c : vec2 IZ),
  in2 d c -> total2 d < 2 ^ 64 ->
  multidim_index_sequence2_flatten__v2ul OZ (oseq2 d) (toO2 c) =
  Some (multidim_index_sequence2_flatten__v2ul IZ (seq2 d) c).
Proof. exact ProofsIdx.flatten2_checked. Qed.
Print Assumptions flatten2_checked.

Theorem reshape2_checked :
  forall (d : vec2 IZ) (i : Z),
  0 < vec2_x d -> total2 d < 2 ^ 64 -> 0 <= i < total2 d ->
  multidim_index_sequence2_reshape__ul OZ (oseq2 d) (Some i) = toO2 (multidim_index_sequence2_reshape__ul IZ (seq2 d) i).
Proof. exact ProofsIdx.reshape2_checked. Qed.
Print Assumptions reshape2_checked.

Theorem total3_checked :
  forall (d : vec3 IZ),
  0 < vec3_x d -> 0 < vec3_y d -> 0 < vec3_z d -> total3 d < 2 ^ 64 ->
  multidim_index_sequence3_total_indices__ OZ (oseq3 d) = Some (total3 d).
Proof. exact ProofsIdx.total3_checked. Qed.
Print Assumptions total3_checked.

Theorem flatten3_checked :
  forall (d c : vec3 IZ),
  in3 d c -> total3 d < 2 ^ 64 ->
  multidim_index_sequence3_flatten__v3ul OZ (oseq3 d) (toO3 c) =
  Some (multidim_index_sequence3_flatten__v3ul IZ (seq3 d) c).
Proof. exact ProofsIdx.flatten3_checked. Qed.
Print Assumptions flatten3_checked.

Theorem reshape3_checked :
  forall (d : vec3 IZ) (i : Z),
  0 < vec3_x d -> 0 < vec3_y d -> 0 < vec3_z d -> total3 d < 2 ^ 64 -> 0 <= i < total3 d ->
  multidim_index_sequence3_reshape__ul OZ (oseq3 d) (Some i) = toO3 (multidim_index_sequence3_reshape__ul IZ (seq3 d) i).
Proof. exact ProofsIdx.reshape3_checked. Qed.
Print Assumptions reshape3_checked.

Theorem longProduct_checked :
  forall (d : vec3 IZ),
  int_extent d -> total3 d < 2 ^ 64 ->
  array3D_longProduct__v3i OZ (toO3 d) = Some (array3D_longProduct__v3i IZ d).
Proof. exact ProofsIdx.longProduct_checked. Qed.
Print Assumptions longProduct_checked.

Theorem longIndex_checked :
  forall (d c : vec3 IZ),
  int_extent d -> in3 d c -> total3 d < 2 ^ 64 ->
  array3D_longIndex__v3i_v3i OZ (toO3 c) (toO3 d) = Some (array3D_longIndex__v3i_v3i IZ c d).
Proof. exact ProofsIdx.longIndex_checked. Qed.
Print Assumptions longIndex_checked.

Theorem coordsOf_checked :
  forall (d : vec3 IZ) (i : Z),
  int_extent d -> 0 <= i < total3 d -> total3 d < 2 ^ 64 ->
  array3D_coordsOf__ul_v3i OZ (Some i) (toO3 d) = toO3 (array3D_coordsOf__ul_v3i IZ i d).
Proof. exact ProofsIdx.coordsOf_checked. Qed.
Print Assumptions coordsOf_checked.


(* ---- the machine reading (every result wrapped to its C type; this is what is executed against the C++ in the
   translation-validation run) equals the ideal reading under the same bounds *)
Theorem flatten2_machine :
  forall (d c : vec2 IZ),
  in2 d c -> total2 d < 2 ^ 64 ->
  multidim_index_sequence2_flatten__v2ul MZ (mseq2 d) (toM2 c) =
  multidim_index_sequence2_flatten__v2ul IZ (seq2 d) c.
Proof. exact ProofsIdx.flatten2_machine. Qed.
Print Assumptions flatten2_machine.

Theorem reshape2_machine :
  forall (d : vec2 IZ) (i : Z),
  0 < vec2_x d -> total2 d < 2 ^ 64 -> 0 <= i < total2 d ->
  multidim_index_sequence2_reshape__ul MZ (mseq2 d) i = toM2 (multidim_index_sequence2_reshape__ul IZ (seq2 d) i).
Proof. exact ProofsIdx.reshape2_machine. Qed.
Print Assumptions reshape2_machine.

Theorem flatten3_machine :
  forall (d c : vec3 IZ),
  in3 d c -> total3 d < 2 ^ 64 ->
  multidim_index_sequence3_flatten__v3ul MZ (mseq3 d) (toM3 c) =
  multidim_index_sequence3_flatten__v3ul IZ (seq3 d) c.
Proof. exact ProofsIdx.flatten3_machine. Qed.
Print Assumptions flatten3_machine.

Theorem reshape3_machine :
  forall (d : vec3 IZ) (i : Z),
  0 < vec3_x d -> 0 < vec3_y d -> 0 < vec3_z d -> total3 d < 2 ^ 64 -> 0 <= i < total3 d ->
  multidim_index_sequence3_reshape__ul MZ (mseq3 d) i = toM3 (multidim_index_sequence3_reshape__ul IZ (seq3 d) i).
Proof. exact ProofsIdx.reshape3_machine. Qed.
Print Assumptions reshape3_machine.

Theorem total3_machine :
  forall (d : vec3 IZ),
  0 < vec3_x d -> 0 < vec3_y d -> 0 < vec3_z d -> total3 d < 2 ^ 64 ->
  multidim_index_sequence3_total_indices__ MZ (mseq3 d) = total3 d.
Proof. exact ProofsIdx.total3_machine. Qed.
Print Assumptions total3_machine.

Theorem longProduct_machine :
  forall (d : vec3 IZ),
  int_extent d -> total3 d < 2 ^ 64 ->
  array3D_longProduct__v3i MZ (toM3 d) = array3D_longProduct__v3i IZ d.
Proof. exact ProofsIdx.longProduct_machine. Qed.
Print Assumptions longProduct_machine.

Theorem longIndex_machine :
  forall (d c : vec3 IZ),
  int_extent d -> in3 d c -> total3 d < 2 ^ 64 ->
  array3D_longIndex__v3i_v3i MZ (toM3 c) (toM3 d) = array3D_longIndex__v3i_v3i IZ c d.
Proof. exact ProofsIdx.longIndex_machine. Qed.
Print Assumptions longIndex_machine.

Theorem coordsOf_machine :
  forall (d : vec3 IZ) (i : Z),
  int_extent d -> 0 <= i < total3 d -> total3 d < 2 ^ 64 ->
  array3D_coordsOf__ul_v3i MZ i (toM3 d) = toM3 (array3D_coordsOf__ul_v3i IZ i d).
Proof. exact ProofsIdx.coordsOf_machine. Qed.
Print Assumptions coordsOf_machine.


(* ---- for_each over a region (hand-modelled z-y-x nest): exactly the coordinates of the region, each once,
   in flattened order; empty when some upper_i <= lower_i *)
Theorem for_each_in :
  forall (lo hi c : vec3 IZ),
  In c (for_each lo hi) <-> in_region lo hi c.
Proof. exact ProofsArr.for_each_in. Qed.
Print Assumptions for_each_in.

Theorem for_each_NoDup :
  forall (lo hi : vec3 IZ),
  NoDup (for_each lo hi).
Proof. exact ProofsArr.for_each_NoDup. Qed.
Print Assumptions for_each_NoDup.

Theorem for_each_flat_order :
  forall (lo hi : vec3 IZ),
  vec3_x lo <= vec3_x hi -> vec3_y lo <= vec3_y hi -> vec3_z lo <= vec3_z hi ->
  map (rel_index lo hi) (for_each lo hi) = zr (volume lo hi).
Proof. exact ProofsArr.for_each_flat_order. Qed.
Print Assumptions for_each_flat_order.

Theorem for_each_length :
  forall (lo hi : vec3 IZ),
  vec3_x lo <= vec3_x hi -> vec3_y lo <= vec3_y hi -> vec3_z lo <= vec3_z hi ->
  Z.of_nat (length (for_each lo hi)) = volume lo hi.
Proof. exact ProofsArr.for_each_length. Qed.
Print Assumptions for_each_length.

Theorem for_each_empty :
  forall (lo hi : vec3 IZ),
  vec3_x hi <= vec3_x lo \/ vec3_y hi <= vec3_y lo \/ vec3_z hi <= vec3_z lo -> for_each lo hi = [].
Proof. exact ProofsArr.for_each_empty. Qed.
Print Assumptions for_each_empty.


(* ---- iterating begin..end with != / * / ++ (generated operators; prefix ++ hand-modelled) visits reshape 0 .. reshape (total-1)
   and stops; flattened again that is 0 .. total-1 *)
Theorem iterator3_enumerates :
  forall (d : vec3 IZ) (fuel : nat),
  0 <= total3 d -> (Z.to_nat (total3 d) <= fuel)%nat ->
  iterate3 fuel (multidim_index_sequence3_begin__ IZ (seq3 d)) (multidim_index_sequence3_end__ IZ (seq3 d))
  = Some (map (multidim_index_sequence3_reshape__ul IZ (seq3 d)) (zr (total3 d))).
Proof. exact ProofsArr.iterator3_enumerates. Qed.
Print Assumptions iterator3_enumerates.

Theorem iterator2_enumerates :
  forall (d : vec2 IZ) (fuel : nat),
  0 <= total2 d -> (Z.to_nat (total2 d) <= fuel)%nat ->
  iterate2 fuel (multidim_index_sequence2_begin__ IZ (seq2 d)) (multidim_index_sequence2_end__ IZ (seq2 d))
  = Some (map (multidim_index_sequence2_reshape__ul IZ (seq2 d)) (zr (total2 d))).
Proof. exact ProofsArr.iterator2_enumerates. Qed.
Print Assumptions iterator2_enumerates.

Theorem rangefor3_enumerates :
  forall (d : vec3 IZ) (fuel : nat),
  0 <= total3 d -> (Z.to_nat (total3 d) <= fuel)%nat ->
  rangefor3 fuel (multidim_index_sequence3_begin__ IZ (seq3 d)) (multidim_index_sequence3_end__ IZ (seq3 d))
  = Some (map (multidim_index_sequence3_reshape__ul IZ (seq3 d)) (zr (total3 d))).
Proof. exact ProofsArr.rangefor3_enumerates. Qed.
Print Assumptions rangefor3_enumerates.

Theorem rangefor2_enumerates :
  forall (d : vec2 IZ) (fuel : nat),
  0 <= total2 d -> (Z.to_nat (total2 d) <= fuel)%nat ->
  rangefor2 fuel (multidim_index_sequence2_begin__ IZ (seq2 d)) (multidim_index_sequence2_end__ IZ (seq2 d))
  = Some (map (multidim_index_sequence2_reshape__ul IZ (seq2 d)) (zr (total2 d))).
Proof. exact ProofsArr.rangefor2_enumerates. Qed.
Print Assumptions rangefor2_enumerates.

Theorem visited3_flat_order :
  forall (d : vec3 IZ),
  0 < vec3_x d -> 0 < vec3_y d ->
  map (multidim_index_sequence3_flatten__v3ul IZ (seq3 d))
      (map (multidim_index_sequence3_reshape__ul IZ (seq3 d)) (zr (total3 d))) = zr (total3 d).
Proof. exact ProofsArr.visited3_flat_order. Qed.
Print Assumptions visited3_flat_order.

Theorem visited2_flat_order :
  forall (d : vec2 IZ),
  0 < vec2_x d ->
  map (multidim_index_sequence2_flatten__v2ul IZ (seq2 d))
      (map (multidim_index_sequence2_reshape__ul IZ (seq2 d)) (zr (total2 d))) = zr (total2 d).
Proof. exact ProofsArr.visited2_flat_order. Qed.
Print Assumptions visited2_flat_order.


(* ---- ActualArray3D: get returns the value last set; coordinates outside are clamped to the nearest cell *)
Theorem get_set_same :
  forall a c v,
  in3 (ac_dims a) c -> actual_get (actual_set a c v) c = v.
Proof. exact ProofsArr.get_set_same. Qed.
Print Assumptions get_set_same.

Theorem get_set_other :
  forall a c v c',
  in3 (ac_dims a) c -> clampc (ac_dims a) c' <> c ->
  actual_get (actual_set a c v) c' = actual_get a c'.
Proof. exact ProofsArr.get_set_other. Qed.
Print Assumptions get_set_other.

Theorem get_clamped :
  forall a c,
  actual_get a c = actual_get a (clampc (ac_dims a) c).
Proof. exact ProofsArr.get_clamped. Qed.
Print Assumptions get_clamped.

Theorem clampc_nearest :
  forall d c,
  pos_extent d ->
  (vec3_x (clampc d c) = if vec3_x c <? 0 then 0 else if vec3_x d <=? vec3_x c then vec3_x d - 1 else vec3_x c) /\
  (vec3_y (clampc d c) = if vec3_y c <? 0 then 0 else if vec3_y d <=? vec3_y c then vec3_y d - 1 else vec3_y c) /\
  (vec3_z (clampc d c) = if vec3_z c <? 0 then 0 else if vec3_z d <=? vec3_z c then vec3_z d - 1 else vec3_z c).
Proof. exact ProofsArr.clampc_nearest. Qed.
Print Assumptions clampc_nearest.

Theorem clampc_in :
  forall d c,
  pos_extent d -> in3 d (clampc d c).
Proof. exact ProofsArr.clampc_in. Qed.
Print Assumptions clampc_in.

Theorem get_inside :
  forall a c,
  in3 (ac_dims a) c ->
  actual_get a c = ac_cells a (array3D_longIndex__v3i_v3i IZ c (ac_dims a)).
Proof. exact ProofsArr.get_inside. Qed.
Print Assumptions get_inside.

Theorem indexOf_range :
  forall a c,
  in3 (ac_dims a) c -> 0 <= actual_indexOf a c < actual_num a.
Proof. exact ProofsArr.indexOf_range. Qed.
Print Assumptions indexOf_range.

Theorem numElements_def :
  forall a,
  a_num (as_arr a) = total3 (ac_dims a) /\ a_dims (as_arr a) = ac_dims a.
Proof. exact ProofsArr.numElements_def. Qed.
Print Assumptions numElements_def.


(* ---- adaptors return the value of the cell their definition names *)
Theorem shifted_def :
  forall a s w,
  a_get (shifted a s) w = a_get a (shift_coord (a_dims a) s w) /\ a_dims (shifted a s) = a_dims a.
Proof. exact ProofsArr.shifted_def. Qed.
Print Assumptions shifted_def.

Theorem shifted_cyclic :
  forall (d s w : vec3 IZ),
  in3 d w -> - vec3_x d <= vec3_x s -> - vec3_y d <= vec3_y s -> - vec3_z d <= vec3_z s ->
  shift_coord d s w = mk_vec3 IZ ((vec3_x w + vec3_x s) mod vec3_x d) ((vec3_y w + vec3_y s) mod vec3_y d) ((vec3_z w + vec3_z s) mod vec3_z d)
  /\ in3 d (shift_coord d s w).
Proof. exact ProofsArr.shifted_cyclic. Qed.
Print Assumptions shifted_cyclic.

Theorem subbox_def :
  forall a lo hi w,
  a_get (subbox a lo hi) w = a_get a (mk_vec3 IZ (vec3_x w + vec3_x lo) (vec3_y w + vec3_y lo) (vec3_z w + vec3_z lo))
  /\ a_dims (subbox a lo hi) = vsub hi lo
  /\ a_num (subbox a lo hi) = total3 (vsub hi lo).
Proof. exact ProofsArr.subbox_def. Qed.
Print Assumptions subbox_def.

Theorem subbox_inside :
  forall (d lo hi w : vec3 IZ),
  in3 (vsub hi lo) w ->
  0 <= vec3_x lo -> 0 <= vec3_y lo -> 0 <= vec3_z lo -> vec3_x hi <= vec3_x d -> vec3_y hi <= vec3_y d -> vec3_z hi <= vec3_z d ->
  in3 d (mk_vec3 IZ (vec3_x w + vec3_x lo) (vec3_y w + vec3_y lo) (vec3_z w + vec3_z lo)) /\
  in_region lo hi (mk_vec3 IZ (vec3_x w + vec3_x lo) (vec3_y w + vec3_y lo) (vec3_z w + vec3_z lo)).
Proof. exact ProofsArr.subbox_inside. Qed.
Print Assumptions subbox_inside.

Theorem accessor_def :
  forall conv a w,
  a_get (accessor conv a) w = conv (a_get a w) /\ a_dims (accessor conv a) = a_dims a /\ a_num (accessor conv a) = a_num a.
Proof. exact ProofsArr.accessor_def. Qed.
Print Assumptions accessor_def.

Theorem multislice_def :
  forall s0 rest x y z,
  0 <= z < Z.of_nat (Datatypes.S (length rest)) ->
  a_get (multislice s0 rest) (mk_vec3 IZ x y z) = a_get (nth (Z.to_nat z) (s0 :: rest) s0) (mk_vec3 IZ x y 0).
Proof. exact ProofsArr.multislice_def. Qed.
Print Assumptions multislice_def.

Theorem multislice_clamped :
  forall s0 rest x y z,
  a_get (multislice s0 rest) (mk_vec3 IZ x y z) =
  a_get (multislice s0 rest) (mk_vec3 IZ x y (clampz z 0 (Z.of_nat (Datatypes.S (length rest)) - 1))).
Proof. exact ProofsArr.multislice_clamped. Qed.
Print Assumptions multislice_clamped.

Theorem multislice_size :
  forall s0 rest,
  a_dims (multislice s0 rest) = mk_vec3 IZ (vec3_x (a_dims s0)) (vec3_y (a_dims s0)) (Z.of_nat (Datatypes.S (length rest)))
  /\ a_num (multislice s0 rest) = a_num s0 * Z.of_nat (Datatypes.S (length rest)).
Proof. exact ProofsArr.multislice_size. Qed.
Print Assumptions multislice_size.


(* ---- getValueRange (repaired: starts from the empty range): bounds every value of the region, both ends are attained
   inside a non-empty region, the empty region gives the empty range; the code as found (value_range_old) agrees on
   non-empty regions and returns the singleton [get begin, get begin] on an empty one (finding, DESIGN section 6 row 19) *)
Theorem value_range_bounds :
  forall a b e c,
  in_region b e c ->
  exists lo hi, value_range a b e = Some (lo, hi) /\ lo <= a_get a c <= hi.
Proof. exact ProofsArr.value_range_bounds. Qed.
Print Assumptions value_range_bounds.

Theorem value_range_nonempty :
  forall a b e,
  in_region b e b ->
  exists lo hi, value_range a b e = Some (lo, hi) /\
    (forall c, in_region b e c -> lo <= a_get a c <= hi) /\
    (exists c, in_region b e c /\ a_get a c = lo) /\ (exists c, in_region b e c /\ a_get a c = hi).
Proof. exact ProofsArr.value_range_nonempty. Qed.
Print Assumptions value_range_nonempty.

Theorem value_range_empty :
  forall a (b e : vec3 IZ),
  vec3_x e <= vec3_x b \/ vec3_y e <= vec3_y b \/ vec3_z e <= vec3_z b -> value_range a b e = None.
Proof. exact ProofsArr.value_range_empty. Qed.
Print Assumptions value_range_empty.

Theorem value_range_old_nonempty :
  forall a b e,
  in_region b e b -> value_range_old a b e = value_range a b e.
Proof. exact ProofsArr.value_range_old_nonempty. Qed.
Print Assumptions value_range_old_nonempty.

Theorem value_range_old_empty :
  forall a (b e : vec3 IZ),
  vec3_x e <= vec3_x b \/ vec3_y e <= vec3_y b \/ vec3_z e <= vec3_z b ->
  value_range_old a b e = Some (a_get a b, a_get a b).
Proof. exact ProofsArr.value_range_old_empty. Qed.
Print Assumptions value_range_old_empty.

Theorem value_range_old_refuted :
  exists a b e, (forall c, ~ in_region b e c) /\ value_range_old a b e = Some (7, 7).
Proof. exact ProofsArr.value_range_old_refuted. Qed.
Print Assumptions value_range_old_refuted.


(* ---- non-vacuity: the hypotheses are satisfiable and the statements say something on concrete data *)
Example ex_in3_flatten : in3 (v3z 4 3 2) (v3z 3 2 1) /\
  multidim_index_sequence3_flatten__v3ul IZ (seq3 (v3z 4 3 2)) (v3z 3 2 1) = 23 /\
  multidim_index_sequence3_reshape__ul IZ (seq3 (v3z 4 3 2)) 23 = v3z 3 2 1.
Proof. unfold in3. cbn. repeat split; lia. Qed.

Example ex_flatten2_transposition_visible :
  multidim_index_sequence2_flatten__v2ul IZ (seq2 (v2z 7 2)) (v2z 3 1) = 10 /\
  multidim_index_sequence2_reshape__ul IZ (seq2 (v2z 7 2)) 10 = v2z 3 1 /\ in2 (v2z 7 2) (v2z 3 1).
Proof. unfold in2. cbn. repeat split; lia. Qed.

(* an extent whose product exceeds 2^32: the last cell, in all three readings *)
Example ex_large_extent :
  int_extent (v3z 2000 1500 1500) /\ in3 (v3z 2000 1500 1500) (v3z 1999 1499 1499) /\ total3 (v3z 2000 1500 1500) < 2 ^ 64 /\
  2 ^ 31 < 2 ^ 32 < array3D_longIndex__v3i_v3i IZ (v3z 1999 1499 1499) (v3z 2000 1500 1500) /\
  array3D_longIndex__v3i_v3i MZ (toM3 (v3z 1999 1499 1499)) (toM3 (v3z 2000 1500 1500)) = 4499999999 /\
  array3D_longIndex__v3i_v3i OZ (toO3 (v3z 1999 1499 1499)) (toO3 (v3z 2000 1500 1500)) = Some 4499999999 /\
  array3D_coordsOf__ul_v3i OZ (Some 4499999999) (toO3 (v3z 2000 1500 1500)) = toO3 (v3z 1999 1499 1499).
Proof. unfold int_extent, in3, total3. cbn [vec3_x vec3_y vec3_z v3z]. repeat split; try lia; vm_compute; reflexivity. Qed.

(* the checked reading does report an overflow when there is one: a 2^31-1 cube does not fit 64 bits *)
Example ex_checked_detects_overflow :
  array3D_longProduct__v3i OZ (toO3 (v3z 2147483647 2147483647 2147483647)) = None /\
  array3D_longProduct__v3i MZ (toM3 (v3z 2147483647 2147483647 2147483647)) <> array3D_longProduct__v3i IZ (v3z 2147483647 2147483647 2147483647).
Proof. split; vm_compute; [reflexivity | discriminate]. Qed.

Example ex_for_each :
  for_each (v3z 1 0 5) (v3z 3 2 6) = [v3z 1 0 5; v3z 2 0 5; v3z 1 1 5; v3z 2 1 5] /\
  for_each (v3z 1 0 5) (v3z 3 0 6) = [] /\ in_region (v3z 1 0 5) (v3z 3 2 6) (v3z 2 1 5) /\ volume (v3z 1 0 5) (v3z 3 2 6) = 4.
Proof. unfold in_region. cbn [vec3_x vec3_y vec3_z v3z]. repeat split; try lia; vm_compute; reflexivity. Qed.

Example ex_iterate :
  iterate3 12 (seq3_begin 2 3 2) (seq3_end 2 3 2) = Some (map (multidim_index_sequence3_reshape__ul IZ (seq3 (v3z 2 3 2))) (zr 12)) /\
  iterate3 11 (seq3_begin 2 3 2) (seq3_end 2 3 2) = None /\
  rangefor2 6 (seq2_begin 3 2) (seq2_end 3 2) = Some [v2z 0 0; v2z 1 0; v2z 2 0; v2z 0 1; v2z 1 1; v2z 2 1].
Proof. repeat split; vm_compute; reflexivity. Qed.

Definition ex_arr : actual := actual_set (actual_set (actual_clear (actual_new (v3z 2 2 2) 99) 0) (v3z 1 0 1) 5) (v3z 0 1 0) (-3).
Example ex_get_set :
  in3 (ac_dims ex_arr) (v3z 1 0 1) /\ pos_extent (ac_dims ex_arr) /\
  actual_get ex_arr (v3z 1 0 1) = 5 /\ actual_get ex_arr (v3z 7 (-2) 4) = 5 /\ actual_get ex_arr (v3z 0 0 0) = 0 /\
  actual_get ex_arr (v3z (-1) 1 0) = -3.
Proof. unfold in3, pos_extent. cbn [ac_dims ex_arr actual_set actual_clear vec3_x vec3_y vec3_z v3z]. repeat split; try (vm_compute; intuition congruence). Qed.

Example ex_adaptors :
  a_get (shifted (as_arr ex_arr) (v3z 1 (-1) 3)) (v3z 0 1 0) = 5 /\
  a_get (subbox (as_arr ex_arr) (v3z 1 0 0) (v3z 2 2 2)) (v3z 0 0 1) = 5 /\
  a_get (accessor (fun z => z mod 4) (as_arr ex_arr)) (v3z 1 0 1) = 1 /\
  a_get (multislice (as_arr ex_arr) [subbox (as_arr ex_arr) (v3z 0 0 1) (v3z 2 2 2)]) (v3z 1 0 1) = 5 /\
  a_num (multislice (as_arr ex_arr) [as_arr ex_arr]) = 16.
Proof. repeat split; vm_compute; reflexivity. Qed.

Example ex_value_range :
  value_range (as_arr ex_arr) (v3z 0 0 0) (v3z 2 2 2) = Some (-3, 5) /\
  value_range (as_arr ex_arr) (v3z 1 0 0) (v3z 2 1 2) = Some (0, 5) /\
  value_range (as_arr ex_arr) (v3z 1 0 1) (v3z 1 2 2) = None /\
  value_range_old (as_arr ex_arr) (v3z 1 0 1) (v3z 1 2 2) = Some (5, 5) /\
  in_region (v3z 0 0 0) (v3z 2 2 2) (v3z 0 0 0).
Proof. unfold in_region. cbn [vec3_x vec3_y vec3_z v3z]. repeat split; try lia; vm_compute; reflexivity. Qed.

(* ---- Array3DRepeater as coded: a mirror-repeat with period repeatedSize (not the source's size); inside
   [0, repeatedSize) it hands the coordinate through unchanged *)
Theorem repeater_def :
  forall a rs w,
  a_get (repeater a rs) w = a_get a (rep_coord rs w) /\ a_dims (repeater a rs) = rs /\ a_num (repeater a rs) = total3 rs.
Proof. exact ProofsArr.repeater_def. Qed.
Print Assumptions repeater_def.

Theorem rep_axis_mirror :
  forall n w, 0 < n -> 0 <= w ->
  rep_axis n w = (if Z.even (w / n) then w mod n else n - 1 - w mod n) /\ 0 <= rep_axis n w < n.
Proof. exact ProofsArr.rep_axis_mirror. Qed.
Print Assumptions rep_axis_mirror.

Theorem repeater_inside :
  forall a rs w, in3 rs w -> a_get (repeater a rs) w = a_get a w.
Proof. exact ProofsArr.repeater_inside. Qed.
Print Assumptions repeater_inside.

Example ex_repeater :
  a_get (repeater (as_arr ex_arr) (v3z 4 4 4)) (v3z 5 0 1) = a_get (as_arr ex_arr) (v3z 2 0 1) /\
  a_get (repeater (as_arr ex_arr) (v3z 4 4 4)) (v3z 3 0 1) = 5 /\ in3 (v3z 4 4 4) (v3z 3 0 1).
Proof. unfold in3. cbn [vec3_x vec3_y vec3_z v3z]. repeat split; try lia; vm_compute; reflexivity. Qed.

(* ---- getValueRange through every adaptor bounds, tightly, the values the adaptor's own get returns *)
Theorem value_range_tight_over :
  forall a b e, in_region b e b -> tight_over (a_get a) b e (value_range a b e).
Proof. exact ProofsArr.value_range_tight_over. Qed.
Print Assumptions value_range_tight_over.

Theorem value_range_accessor :
  forall conv a b e, in_region b e b -> tight_over (fun c => conv (a_get a c)) b e (value_range (accessor conv a) b e).
Proof. exact ProofsArr.value_range_accessor. Qed.
Print Assumptions value_range_accessor.

Theorem value_range_shifted :
  forall a s b e, in_region b e b -> tight_over (fun c => a_get a (shift_coord (a_dims a) s c)) b e (value_range (shifted a s) b e).
Proof. exact ProofsArr.value_range_shifted. Qed.
Print Assumptions value_range_shifted.

Theorem value_range_subbox :
  forall a (lo hi : vec3 IZ) b e, in_region b e b ->
  tight_over (fun c => a_get a (mk_vec3 IZ (vec3_x c + vec3_x lo) (vec3_y c + vec3_y lo) (vec3_z c + vec3_z lo))) b e
             (value_range (subbox a lo hi) b e).
Proof. exact ProofsArr.value_range_subbox. Qed.
Print Assumptions value_range_subbox.

Theorem value_range_multislice :
  forall s0 rest b e, in_region b e b -> tight_over (a_get (multislice s0 rest)) b e (value_range (multislice s0 rest) b e).
Proof. exact ProofsArr.value_range_multislice. Qed.
Print Assumptions value_range_multislice.

Theorem value_range_repeater :
  forall a rs b e, in_region b e b -> tight_over (fun c => a_get a (rep_coord rs c)) b e (value_range (repeater a rs) b e).
Proof. exact ProofsArr.value_range_repeater. Qed.
Print Assumptions value_range_repeater.

Theorem accessor_range_endpoints_refuted :
  exists conv a b e lo hi, in_region b e b /\ value_range a b e = Some (lo, hi) /\
    value_range (accessor conv a) b e = Some (3, 255) /\ (conv lo, conv hi) = (255, 44).
Proof. exact ProofsArr.accessor_range_endpoints_refuted. Qed.
Print Assumptions accessor_range_endpoints_refuted.

(* ---- the other members of the index-sequence iterator (generated operators) *)
Theorem iterator3_members :
  forall (d : vec3 IZ) (a b : Z),
  multidim_index_iterator3_mk__v3ul IZ d = it3 d 0 /\
  multidim_index_iterator3_current__ IZ (it3 d a) = a /\
  multidim_index_iterator3_jump_to__ul IZ (it3 d a) b = it3 d b /\
  multidim_index_iterator3_op_add__ul IZ (it3 d a) b = it3 d (a + b) /\
  multidim_index_iterator3_op_sub__ul IZ (it3 d a) b = it3 d (a - b) /\
  multidim_index_iterator3_op_add__multidim_index_iterator3 IZ (it3 d a) (it3 d b) = it3 d (a + b) /\
  multidim_index_iterator3_op_sub__multidim_index_iterator3 IZ (it3 d a) (it3 d b) = it3 d (a - b) /\
  multidim_index_iterator3_op_dec__i IZ (it3 d a) 0 = it3 d (a - 1) /\
  multidim_index_iterator3_op_eq__multidim_index_iterator3 IZ (it3 d a) (it3 d b) = (a =? b) /\
  multidim_index_sequence3_dimensions__ IZ (seq3 d) = d.
Proof. exact ProofsArr.iterator3_members. Qed.
Print Assumptions iterator3_members.

Theorem iterator2_members :
  forall (d : vec2 IZ) (a b : Z),
  multidim_index_iterator2_mk__v2ul IZ d = it2 d 0 /\
  multidim_index_iterator2_current__ IZ (it2 d a) = a /\
  multidim_index_iterator2_jump_to__ul IZ (it2 d a) b = it2 d b /\
  multidim_index_iterator2_op_add__ul IZ (it2 d a) b = it2 d (a + b) /\
  multidim_index_iterator2_op_sub__ul IZ (it2 d a) b = it2 d (a - b) /\
  multidim_index_iterator2_op_add__multidim_index_iterator2 IZ (it2 d a) (it2 d b) = it2 d (a + b) /\
  multidim_index_iterator2_op_sub__multidim_index_iterator2 IZ (it2 d a) (it2 d b) = it2 d (a - b) /\
  multidim_index_iterator2_op_dec__i IZ (it2 d a) 0 = it2 d (a - 1) /\
  multidim_index_iterator2_op_eq__multidim_index_iterator2 IZ (it2 d a) (it2 d b) = (a =? b) /\
  multidim_index_sequence2_dimensions__ IZ (seq2 d) = d.
Proof. exact ProofsArr.iterator2_members. Qed.
Print Assumptions iterator2_members.

