#!/bin/bash
# batchseed.sh "<ID k>" ... : validate seeded changes one after the other; keep the caught ones; list the rest
for s in "$@"; do set -- $s; id=$1; k=$2
  [ -f /tmp/seedout/$id-$k/patch.diff ] || { echo "$id-$k: no patch"; continue; }
  out=$(tools/tryseed.sh $id $k 2>&1)
  c=$(echo "$out" | grep -A1 "demo on clean" | grep -o "rc=[0-9]*" | head -1)
  p=$(echo "$out" | grep -A1 "demo with patch" | grep -o "rc=[0-9]*" | head -1)
  t=$(echo "$out" | grep -c "100% tests passed")
  v=$(echo "$out" | grep -o "vcheck rc=[0-9]*")
  nf=$(grep -c "^VIOLATION.*no-failing-input-found" /tmp/seedout/$id-$k/vcheck.log)
  nv=$(grep -c "^VIOLATION" /tmp/seedout/$id-$k/vcheck.log)
  w=$(grep -m1 " -> " /tmp/seedout/$id-$k/vcheck.log | cut -c1-220)
  status="??"
  if [ "$c" = "rc=0" ] && [ "$p" != "rc=0" ] && [ "$t" = "1" ]; then
    if [ "$v" = "vcheck rc=1" ] && [ $nv -gt $nf ]; then status="CAUGHT"; tools/keepseed.sh $id $k "caught: quick tier (see violation lines)" >/dev/null
    elif [ "$v" = "vcheck rc=1" ]; then status="NOINPUT"
    else status="MISSED"; fi
  else status="INVALID(clean $c patched $p tests $t)"; fi
  echo "$id-$k: $status  $v violations=$nv noinput=$nf :: $w"
done
