#!/usr/bin/env python3
"""sync_claims.py: make the first "<N> obligations" number in every props/<ID>/claim.json text equal the obligation count of the
committed evidence file (the claims are prose written by hand; only that number is synchronised), then regenerate MANIFEST.json."""
import json, os, re, subprocess, sys
H = os.path.dirname(os.path.dirname(os.path.abspath(__file__)))
for i in range(1, 21):
    pid = "C%02d" % i
    cp = os.path.join(H, "props", pid, "claim.json"); ep = os.path.join(H, "evidence", pid + ".json")
    if not (os.path.exists(cp) and os.path.exists(ep)):
        continue
    c = json.load(open(cp)); n = json.load(open(ep))["coverage"].get("obligations")
    m = re.search(r"(\d+) obligations", c["text"])
    if n and m and int(m.group(1)) != n:
        c["text"] = c["text"][:m.start(1)] + str(n) + c["text"][m.end(1):]
        json.dump(c, open(cp, "w"), indent=1); print(pid, m.group(1), "->", n)
subprocess.run([sys.executable, os.path.join(H, "tools", "mkmanifest.py")])
