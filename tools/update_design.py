#!/usr/bin/env python3
"""Rewrite DESIGN.md from '### 9.2' to the end: generated tables (findings, seeded changes) + the hand-written
per-property status kept in tools/design_9_3.md."""
import os, subprocess, json, glob
H = os.path.dirname(os.path.dirname(os.path.abspath(__file__)))
d = open(os.path.join(H, "DESIGN.md")).read()
head = d[:d.index("### 9.2")]
tabs = subprocess.run(["python3", os.path.join(H, "tools", "mkdesign_tables.py")], capture_output=True, text=True).stdout
t1, t2 = tabs.split("\n\n", 1)
body = open(os.path.join(H, "tools", "design_9_3.md")).read()
out = head + """### 9.2 Genuine defects found and their disposition

Generated from `known_findings.json` (`tools/update_design.py`). Every `fixed` row is one unguarded `fix:` commit in
`/repo` that the corresponding check reproduced before the fix and passes after it; the pinned suite (127 tests)
passes unedited after all of them (`cmake --build /repo/_build && ctest`). `open` rows are known findings: the check
reproduces each on every run, prints `KNOWN-FINDING:` and exits 0; the theorems exclude the case visibly and carry a
`…_refuted` witness. Hooks: one guarded, add-only commit (`MANIFEST.hooks`) adding named scheduling points to
`AsyncLoop.h` + `rkcommon/verif_hook.h`; with `RKCOMMON_VERIF` undefined the preprocessed text is token-identical.

""" + t1 + "\n\n" + body + """

### 9.4 Independent seeded changes and which checks catch them

Each row is a change written by a fresh sub-agent that saw only the property text and a scratch worktree (nothing from
`/verif`), confirmed by the coordinator (demo passes on the clean tree and fails with the change; the unit suite still
passes with the change), then run against `bin/vcheck <ID> --tier quick` with `VERIF_REPO` pointing at the patched
worktree. Kept under `seeded/<id>-<k>/` (patch.diff, demo.cpp, run.sh, meta.json). Where a change was first missed the
row says how the check was strengthened.

""" + t2
open(os.path.join(H, "DESIGN.md"), "w").write(out)
print("DESIGN.md section 9.2-9.4 rewritten")
