#!/usr/bin/env python3
"""Rewrite DESIGN.md from '### 9.2' to the end: generated tables (findings, seeded changes) + the hand-written
per-property status kept in tools/design_9_3.md."""
import os, subprocess, json, glob
H = os.path.dirname(os.path.dirname(os.path.abspath(__file__)))
d = open(os.path.join(H, "DESIGN.md")).read()
head = d[:d.index("### 9.2")]
tabs = subprocess.run(["python3", os.path.join(H, "tools", "mkdesign_tables.py")], capture_output=True, text=True).stdout
t1, t2 = tabs.split("\n\n", 1)
body = open(os.path.join(H, "tools", "design_9_3.md")).read()
out = head + """### 9.2 Genuine defects found and their disposition

Generated from `known_findings.json` (`tools/update_design.py`). Every `fixed` row is one unguarded `fix:` commit in
`/repo` that the corresponding check reproduced before the fix and passes after it; the pinned suite (127 tests)
passes unedited after all of them (`cmake --build /repo/_build && ctest`). `open` rows are known findings: the check
reproduces each on every run, prints `KNOWN-FINDING:` and exits 0; the theorems exclude the case visibly and carry a
`…_refuted` witness. Hooks: one guarded, add-only commit (`MANIFEST.hooks`) adding named scheduling points to
`AsyncLoop.h` + `rkcommon/verif_hook.h`; with `RKCOMMON_VERIF` undefined the preprocessed text is token-identical.

""" + t1 + "\n\n" + body + """

### 9.4 Independent seeded changes and which checks catch them

Each row is a change written by a fresh sub-agent that saw only the property text and a scratch worktree (nothing from
`/verif`), confirmed by the coordinator (demo passes on the clean tree and fails with the change; the unit suite still
passes with the change), then run against `bin/vcheck <ID> --tier quick` with `VERIF_REPO` pointing at the patched
worktree. Kept under `seeded/<id>-<k>/` (patch.diff, demo.cpp, run.sh, meta.json). Where a change was first missed the
row says how the check was strengthened.

""" + t2
tb = ["", "### 9.5 Trusted base as built (generated from the evidence files of the last committed runs)", "",
      "Common to all properties: the Coq 8.16.1 kernel (`coqc`, full `.vo` builds; `vm_compute` for every reflective/table check; no `native_compute`; `coqchk -o` in the thorough tier where noted in the evidence); extraction with `Require Import ExtrOcamlBasic` ONLY — its directives are `Extract Inductive bool => bool [true false]`, `option => option [Some None]`, `unit => unit [()]`, `list => list [\"[]\" \"(::)\"]`, `prod => \"( * )\" [\"(,)\"]`, `sumbool => bool`, `sumor => option`, and `Extract Inlined Constant andb/orb/negb/fst/snd`; no other `Extract Constant` / `Extract Inductive` anywhere (`grep -rn 'Extract ' coq/` shows only `Extraction \"…\"` commands); `Z`, `N`, `positive`, `nat`, `Q` extract as their Coq inductives; OCaml 4.13.1; the C++ harnesses, python generators, canonicalisers and property oracles; g++ 12 with ASan/UBSan/TSan; clang 14's `-ast-dump=json` under every translator/extractor. No `Axiom`/`Parameter`/`Admitted`/`admit` anywhere under `coq/` (scanned on every run, fail closed); external behaviour is always a `Section` variable with its contract as a `Section` hypothesis.", "",
      "| id | obligations | axioms reported by `Print Assumptions` | property-specific trusted parts (translators, extractors, oracles modelled not verified) |", "|---|---|---|---|"]
for evp in sorted(glob.glob(os.path.join(H, "evidence", "C*.json"))):
    ev = json.load(open(evp)); cov = ev["coverage"]; pid = ev["property_id"]
    ax = [t for t in cov.get("trusted_base", []) if t.startswith("Print Assumptions")]
    axs = ax[0].replace("Print Assumptions: ", "") if ax else "-"
    rest = [t for t in cov.get("trusted_base", []) if not t.startswith("Print Assumptions") and not t.startswith("Coq 8.16.1 kernel") and not t.startswith("Extraction to OCaml")]
    rest_s = "; ".join(x.replace("|", "\\|").replace("\n", " ")[:260] for x in rest[:6])
    tb.append("| %s | %s/%s | %s | %s |" % (pid, cov.get("discharged"), cov.get("obligations"), axs.replace("|", "\\|"), rest_s))
out += "\n".join(tb) + "\n"
open(os.path.join(H, "DESIGN.md"), "w").write(out)
print("DESIGN.md section 9.2-9.4 rewritten")
