#!/usr/bin/env python3
"""c14gen: Tie A for C14.  Regenerates coq/C14/gen/GenAlloc.v from the working tree.

1. runs tools/cxx2coq (as a library) on tools/cxx2coq/inst/alloc.cpp: whole pure functions
   (aligned_allocator<T,64>::max_size() for T of size 1,2,4,8 and the ALIGN_PTR wrappers);
2. for the two functions that are outside cxx2coq's subset (pointer parameters / results, throw, a
   call of the external allocator) it walks their statements itself and translates every *expression*
   with cxx2coq's expression translator:
     - aligned_allocator<T,64>::allocate(n): the body as a list of C14.GenSem.astmt
       (if (c) return nullptr / if (c) throw X / pv = alignedMalloc(bytes, align) / if (pv == nullptr) throw X /
       return pv); scalar const locals are inlined; anything else is UNSUPPORTED (fail closed);
     - memory::isAligned(ptr, alignment): the returned expression, the pointer read as its address
       (reinterpret_cast<size_t>(ptr) -> the U64 value v_ptr), and the default argument.
usage: c14gen.py <out.v> [--repo R] [--inc I]
"""
import argparse
import os
import sys

HERE = os.path.dirname(os.path.abspath(__file__))
sys.path.insert(0, os.path.join(HERE, '..', 'cxx2coq'))
import cxx2coq  # noqa
from cxx2coq import Translator, Unsupported, dump_ast  # noqa
from astutil import load_docs  # noqa

ONLY = ('max_size', 'align_ptr')


def kids(n):
    return [c for c in n.get('inner', []) or [] if isinstance(c, dict) and 'kind' in c]


def strip_all(tr, e):
    """strip parens / cleanups and value-preserving pointer casts"""
    while True:
        e = tr.strip(e)
        if e.get('kind') in ('ImplicitCastExpr', 'CXXStaticCastExpr', 'CStyleCastExpr', 'CXXReinterpretCastExpr') and \
                e.get('castKind') in ('LValueToRValue', 'NoOp', 'BitCast', 'NullToPointer', 'FunctionToPointerDecay'):
            e = kids(e)[0]
            continue
        return e


def is_null(tr, e):
    e = strip_all(tr, e)
    return e.get('kind') in ('CXXNullPtrLiteralExpr', 'GNUNullExpr') or \
        (e.get('kind') == 'IntegerLiteral' and e.get('value') == '0' and False)


def refers(tr, e, vid):
    e = strip_all(tr, e)
    return e.get('kind') == 'DeclRefExpr' and (e.get('referencedDecl') or {}).get('id') == vid


def terminator(tr, s, st):
    s = tr.strip(s)
    if s.get('kind') == 'CompoundStmt':
        ks = kids(s)
        if len(ks) != 1:
            raise Unsupported('if-branch with %d statements' % len(ks))
        return terminator(tr, ks[0], st)
    if s.get('kind') == 'ReturnStmt':
        ks = kids(s)
        if ks and is_null(tr, ks[0]):
            return 'TReturnNull'
        if ks and st.get('pv') and refers(tr, ks[0], st['pv']):
            return 'TReturnPtr'
        raise Unsupported('return of something other than nullptr / the allocated pointer')
    if s.get('kind') == 'CXXThrowExpr':
        ks = kids(s)
        t = (ks[0].get('type', {}).get('qualType', '') if ks else '')
        t = t.replace('const ', '').strip()
        return '(TThrow %s)' % {'std::length_error': 'ELengthError', 'std::bad_alloc': 'EBadAlloc'}.get(t, 'EOther')
    raise Unsupported('if-branch of kind %s' % s.get('kind'))


def walk_allocate(tr, f):
    n = f.node
    params = [c for c in kids(n) if c['kind'] == 'ParmVarDecl']
    if len(params) != 1 or tr.typeinfo(params[0].get('type', {})) != ('scalar', 'U64'):
        raise Unsupported('allocate: expected one size_t parameter')
    ctx = {'f': f, 'env': {params[0]['id']: 'v_n'}, 'this_fields': None}
    body = [c for c in kids(n) if c['kind'] == 'CompoundStmt'][0]
    st = {'pv': None}
    out = []
    for s in kids(body):
        k = s['kind']
        if k == 'IfStmt':
            ks = kids(s)
            if len(ks) != 2 or s.get('hasElse'):
                raise Unsupported('if with else / init / condition variable')
            cond, then = ks
            c = tr.strip(cond)
            nullcmp = False
            if st['pv']:
                if c.get('kind') == 'BinaryOperator' and c.get('opcode') == '==':
                    a, b = kids(c)
                    nullcmp = (refers(tr, a, st['pv']) and is_null(tr, b)) or (refers(tr, b, st['pv']) and is_null(tr, a))
                elif c.get('kind') == 'UnaryOperator' and c.get('opcode') == '!':
                    nullcmp = refers(tr, kids(c)[0], st['pv'])
            if nullcmp:
                out.append('SIfNull I %s' % terminator(tr, then, st))
            else:
                out.append('SIf I %s %s' % (tr.trans_cond(cond, ctx), terminator(tr, then, st)))
        elif k == 'DeclStmt':
            for v in kids(s):
                if v['kind'] != 'VarDecl':
                    raise Unsupported('declaration of kind %s' % v['kind'])
                init = kids(v)
                if not init:
                    raise Unsupported('uninitialised local')
                e = strip_all(tr, init[0])
                callee = strip_all(tr, kids(e)[0]) if e.get('kind') == 'CallExpr' else None
                if callee is not None and (callee.get('referencedDecl') or {}).get('name') == 'alignedMalloc' \
                        and callee.get('kind') == 'DeclRefExpr':
                    args = kids(e)[1:]
                    if len(args) != 2 or st['pv']:
                        raise Unsupported('alignedMalloc call shape')
                    b, bt = tr.trans_expr(args[0], ctx)
                    a, at = tr.trans_expr(args[1], ctx)
                    if bt != ('scalar', 'U64') or at != ('scalar', 'U64'):
                        raise Unsupported('alignedMalloc argument types')
                    out.append('SMalloc I %s %s' % (b, a))
                    st['pv'] = v['id']
                else:
                    ti = tr.typeinfo(v.get('type', {}))
                    if ti[0] != 'scalar' or 'const' not in v.get('type', {}).get('qualType', ''):
                        raise Unsupported('local %s is not a const scalar' % v.get('name'))
                    ctx['env'][v['id']] = tr.trans_expr_as(init[0], ti, ctx)     # inlined
        elif k == 'ReturnStmt':
            t = terminator(tr, s, st)
            out.append({'TReturnPtr': 'SReturnPtr I', 'TReturnNull': 'SReturnNull I'}[t])
        else:
            raise Unsupported('statement of kind %s' % k)
    return ('Definition %s_body (I : interp) (this_ : unit) (v_n : S I) : list (astmt I) :=\n  [ %s ].'
            % (f.coq, ';\n    '.join(out)))


def walk_isaligned(tr, f):
    n = f.node
    params = [c for c in kids(n) if c['kind'] == 'ParmVarDecl']
    if len(params) != 2 or '*' not in params[0].get('type', {}).get('qualType', '') or \
            tr.typeinfo(params[1].get('type', {})) != ('scalar', 'I32'):
        raise Unsupported('isAligned: expected (pointer, int)')
    pid = params[0]['id']

    def rewrite(e):
        """reinterpret_cast<size_t>(ptr): the pointer read as its address"""
        if not isinstance(e, dict):
            return e
        if e.get('kind') in ('CXXReinterpretCastExpr', 'CStyleCastExpr') and e.get('castKind') == 'PointerToIntegral' \
                and refers(tr, kids(e)[0], pid) and tr.typeinfo(e.get('type', {})) == ('scalar', 'U64'):
            return {'kind': 'DeclRefExpr', 'type': {'qualType': 'unsigned long'}, 'referencedDecl': {'id': pid, 'kind': 'ParmVarDecl'}}
        e = dict(e)
        if 'inner' in e:
            e['inner'] = [rewrite(c) for c in e['inner']]
        return e
    ctx = {'f': f, 'env': {pid: 'v_ptr', params[1]['id']: 'v_alignment'}, 'this_fields': None}
    body = [c for c in kids(n) if c['kind'] == 'CompoundStmt'][0]
    ks = kids(body)
    if len(ks) != 1 or ks[0]['kind'] != 'ReturnStmt':
        raise Unsupported('isAligned: body is not a single return')
    t = tr.trans_cond(rewrite(kids(ks[0])[0]), ctx)
    res = ['Definition %s_expr (I : interp) (v_ptr : S I) (v_alignment : S I) : bool :=\n  %s.' % (f.coq, t)]
    dflt = kids(params[1])
    if dflt:
        d, dt = tr.trans_expr(dflt[0], dict(ctx, env={}))
        res.append('Definition %s_default_alignment (I : interp) : S I :=\n  %s.' % (f.coq, d))
    return '\n\n'.join(res)


def walk_typed(tr, f):
    """template <typename T> T *alignedMalloc(size_t nElements, size_t align): the (bytes, align) it hands to the untyped one"""
    n = f.node
    params = [c for c in kids(n) if c['kind'] == 'ParmVarDecl']
    if len(params) != 2 or any(tr.typeinfo(p.get('type', {})) != ('scalar', 'U64') for p in params):
        raise Unsupported('typed alignedMalloc: expected (size_t, size_t)')
    ctx = {'f': f, 'env': {params[0]['id']: 'v_nElements', params[1]['id']: 'v_align'}, 'this_fields': None}
    body = [c for c in kids(n) if c['kind'] == 'CompoundStmt'][0]
    ret = None
    for s in kids(body):
        if s['kind'] == 'DeclStmt':
            for v in kids(s):
                init = kids(v)
                ti = tr.typeinfo(v.get('type', {}))
                if v['kind'] != 'VarDecl' or not init or ti[0] != 'scalar' or 'const' not in v.get('type', {}).get('qualType', ''):
                    raise Unsupported('local %s is not an initialised const scalar' % v.get('name'))
                ctx['env'][v['id']] = tr.trans_expr_as(init[0], ti, ctx)
        elif s['kind'] == 'ReturnStmt' and ret is None:
            ret = kids(s)[0]
        else:
            raise Unsupported('statement of kind %s' % s['kind'])
    if ret is None:
        raise Unsupported('no return')
    e = strip_all(tr, ret)
    callee = strip_all(tr, kids(e)[0]) if e.get('kind') == 'CallExpr' else None
    if callee is None or callee.get('kind') != 'DeclRefExpr' or (callee.get('referencedDecl') or {}).get('name') != 'alignedMalloc':
        raise Unsupported('the returned value is not a call of alignedMalloc')
    args = kids(e)[1:]
    if len(args) != 2:
        raise Unsupported('alignedMalloc call with %d arguments' % len(args))
    out = []
    for a in args:
        if tr.strip(a).get('kind') == 'CXXDefaultArgExpr':
            raise Unsupported('an argument of the inner alignedMalloc call is left to its default (not forwarded)')
        t, ti = tr.trans_expr(a, ctx)
        if ti != ('scalar', 'U64'):
            raise Unsupported('argument type')
        out.append(t)
    return ('Definition %s_request (I : interp) (v_nElements : S I) (v_align : S I) : S I * S I :=\n  (%s, %s).'
            % (f.coq, out[0], out[1]))


def ptr_aliases(tr, stmts, pid):
    """locals that are just the pointer p through casts; returns (alias ids, remaining statements)"""
    al, rest = {pid}, []
    for s in stmts:
        if s['kind'] == 'DeclStmt' and all(v['kind'] == 'VarDecl' and kids(v) and '*' in v.get('type', {}).get('qualType', '')
                                            and any(refers(tr, kids(v)[0], a) for a in al) for v in kids(s)):
            for v in kids(s):
                al.add(v['id'])
        else:
            rest.append(s)
    return al, rest


def walk_construct(tr, f):
    """construct(T *const p, const T &t): nothing but  new ((void * )p) T(t)"""
    n = f.node
    params = [c for c in kids(n) if c['kind'] == 'ParmVarDecl']
    if len(params) != 2:
        raise Unsupported('construct: expected (T *const, const T &)')
    body = [c for c in kids(n) if c['kind'] == 'CompoundStmt'][0]
    al, rest = ptr_aliases(tr, kids(body), params[0]['id'])
    out = []
    for s in rest:
        e = tr.strip(s)
        ok = False
        if e.get('kind') == 'CXXNewExpr':
            ks = kids(e)
            place = [k for k in ks if any(refers(tr, k, a) for a in al)]
            init = [k for k in ks if k not in place]
            if len(place) == 1 and len(init) == 1:
                i = tr.strip(init[0])
                if i.get('kind') == 'CXXConstructExpr':
                    args = kids(i)
                    ok = len(args) == 1 and refers(tr, args[0], params[1]['id']) and \
                        i.get('ctorType', {}).get('qualType', '').count('const') >= 1
                else:
                    ok = refers(tr, i, params[1]['id'])           # scalar T: T(t) is a copy of the value
        out.append('CPlacementCopy' if ok else 'COther')
    return 'Definition %s_shape : list cstmt :=\n  [ %s ].' % (f.coq, '; '.join(out))


def walk_destroy(tr, f):
    """destroy(T *const p): nothing but  p->~T()"""
    n = f.node
    params = [c for c in kids(n) if c['kind'] == 'ParmVarDecl']
    if len(params) != 1:
        raise Unsupported('destroy: expected (T *const)')
    body = [c for c in kids(n) if c['kind'] == 'CompoundStmt'][0]
    al, rest = ptr_aliases(tr, kids(body), params[0]['id'])
    out = []
    for s in rest:
        e = tr.strip(s)
        ok = False
        if e.get('kind') == 'CXXMemberCallExpr':
            m = tr.strip(kids(e)[0])
            ok = m.get('kind') == 'MemberExpr' and m.get('name', '').startswith('~') and m.get('isArrow') and \
                any(refers(tr, kids(m)[0], a) for a in al) and len(kids(e)) == 1
        elif e.get('kind') == 'CXXPseudoDestructorExpr' or (e.get('kind') == 'CallExpr' and tr.strip(kids(e)[0]).get('kind') == 'CXXPseudoDestructorExpr'):
            ok = True
        out.append('CDestroyInPlace' if ok else 'COther')
    return 'Definition %s_shape : list cstmt :=\n  [ %s ].' % (f.coq, '; '.join(out))


def main():
    ap = argparse.ArgumentParser()
    ap.add_argument('out')
    ap.add_argument('--repo', default=os.environ.get('VERIF_REPO', '/repo'))
    ap.add_argument('--inc', default='/verif/build/include')
    a = ap.parse_args()
    tu = os.path.join(HERE, '..', 'cxx2coq', 'inst', 'alloc.cpp')
    js = a.out + '.json'
    rc, err = dump_ast(tu, js, a.repo, a.inc, 'rkcommon', [])
    if rc != 0:
        sys.stderr.write(err[-3000:])
        sys.exit(2)
    docs = load_docs(js)
    os.remove(js)
    tr = Translator(docs)
    tr.translate_all()
    frag = []
    for f in sorted(tr.funcs, key=lambda f: f.coq or ''):
        walker = None
        if f.name == 'allocate' and f.rec is not None and len([c for c in kids(f.node) if c['kind'] == 'ParmVarDecl']) == 1:
            walker = walk_allocate
        elif f.name == 'isAligned':
            walker = walk_isaligned
        elif f.name == 'alignedMalloc' and len([c for c in kids(f.node) if c['kind'] == 'ParmVarDecl']) == 2 \
                and '*' in f.node.get('type', {}).get('qualType', '').split('(')[0] \
                and 'void *' not in f.node.get('type', {}).get('qualType', '').split('(')[0]:
            walker = walk_typed
        elif f.name == 'construct' and f.rec is not None:
            walker = walk_construct
        elif f.name == 'destroy' and f.rec is not None:
            walker = walk_destroy
        if walker is None or not [c for c in kids(f.node) if c['kind'] == 'CompoundStmt']:
            continue
        try:
            frag.append(walker(tr, f))
        except Unsupported as ex:
            frag.append('(* UNSUPPORTED %s (statement walk): %s *)' % (f.coq, str(ex).replace('*)', '* )')))
        except (KeyError, IndexError, TypeError, AttributeError) as ex:
            frag.append('(* UNSUPPORTED %s (statement walk): exception %s %s *)' % (f.coq, type(ex).__name__, ex))
    keep = set()

    def add(f):
        if f not in keep:
            keep.add(f)
            for g in f.deps:
                add(g)
    for f in tr.funcs:
        if any(w in (f.coq or '') for w in ONLY):
            add(f)
    tr.funcs = [f for f in tr.funcs if f in keep]
    ok, bad = tr.emit(a.out, header='From C14 Require Import GenSem.')
    with open(a.out, 'a') as o:
        o.write('(* ---- statement walks by tools/c14gen/c14gen.py (expressions by cxx2coq) *)\n')
        o.write('\n\n'.join(frag) + '\n')
    print('c14gen: %d functions translated, %d unsupported, %d statement walks (%d unsupported) -> %s'
          % (ok, bad, len(frag), sum(1 for x in frag if x.startswith('(* UNSUPPORTED')), a.out))


if __name__ == '__main__':
    main()
