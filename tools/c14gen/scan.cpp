// scan TU for props/C14/declscan.py: everything declared in the four anchored files
#include "rkcommon/containers/AlignedVector.h"
#include "rkcommon/memory/malloc.cpp"
