// instantiation TU for tools/c01src/gen_src.py: forces the instantiations whose bodies are translated
#include <cstddef>
#include "rkcommon/tasking/parallel_for.h"
#include "rkcommon/tasking/parallel_foreach.h"
namespace c01inst {
  struct FI { void operator()(int) const {} };
  struct FS { void operator()(size_t) const {} };
  struct GU { void operator()(unsigned, unsigned) const {} };
  struct GI { void operator()(int, int) const {} };
  struct FE { void operator()(unsigned char &) const {} };
  inline void use()
  {
    rkcommon::tasking::parallel_for(int(5), FI());
    rkcommon::tasking::parallel_for(size_t(5), FS());
    rkcommon::tasking::parallel_in_blocks_of<1024>(unsigned(5), GU());
    rkcommon::tasking::parallel_in_blocks_of<4>(int(5), GI());
    unsigned char arr[8] = {0};
    rkcommon::tasking::parallel_foreach(arr + 0, arr + 8, FE());
    rkcommon::tasking::parallel_foreach(arr, FE());
  }
}
