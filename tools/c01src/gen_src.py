#!/usr/bin/env python3
"""C01 source extractor: regenerates coq/C01/gen/Src.v from the CURRENT working tree.

The bodies of the functions the C01 model mirrors are read from the clang JSON AST
(`clang++ -std=c++11 -fsyntax-only -Xclang -ast-dump=json -Xclang -ast-dump-filter=...`) and written,
statement by statement, as terms of the small deep embedding of coq/C01/SrcLang.v (expressions `ex`
with the C type of every arithmetic operation and conversion, statements `stmt`).  The extractor is
deliberately dumb: it knows nothing about the property; which sub-statement means what, and that it
agrees with coq/C01/Model.v, is stated and proved in coq/C01/PropertiesSrc.v.

  TaskScheduler.cpp : SplitTask, TaskScheduler::{StartThreads,TryRunTask,SplitAndAddTask,
                      AddTaskSetToPipe,WaitforTask}
  tools/c01src/inst.cpp, once per tasking backend define:
                      parallel_for_impl<int,FI>, parallel_for_impl<size_t,FS> (dispatch),
                      parallel_in_blocks_of<1024,unsigned,GU>, <4,int,GI> (+ their lambda),
                      parallel_for_internal<FI> and its LocalTask::ExecuteRange (internal backend)

Anything not understood becomes `Unk "..."` / `SUnk "..."`, which makes the obligations fail.

usage: gen_src.py <repo> <include-dir-with-version.h> <out.v> [workdir]
"""
import os, re, subprocess, sys
HERE = os.path.dirname(os.path.abspath(__file__))
sys.path.insert(0, os.path.join(os.path.dirname(HERE), "cxx2coq"))
import astutil  # load_docs, walk

CT = {"unsigned int": "U32", "uint32_t": "U32", "int": "I32", "int32_t": "I32", "unsigned long": "U64",
      "unsigned long long": "U64", "size_t": "U64", "uint64_t": "U64", "long": "I64", "long long": "I64",
      "bool": "TBool", "unsigned char": "U8", "short": "I16", "unsigned short": "U16", "signed char": "I8", "char": "I8"}
BOPS = {"+": "Add", "-": "Sub", "*": "Mul", "/": "Div", "%": "Rem", "&": "BAnd", "|": "BOr", "^": "BXor", "<<": "Shl", ">>": "Shr"}
CMPS = {"<": "Lt", "<=": "Le", ">": "Gt", ">=": "Ge", "==": "Eq", "!=": "Ne"}
TRANSPARENT_CASTS = {"LValueToRValue", "NoOp", "FunctionToPointerDecay", "ArrayToPointerDecay", "UncheckedDerivedToBase",
                     "DerivedToBase", "ConstructorConversion", "UserDefinedConversion"}


def dump(repo, inc, src, flt, out, defs=()):
    cmd = ["clang++", "-std=c++11", "-fsyntax-only", "-I" + repo, "-I" + inc] + list(defs) + \
          ["-Xclang", "-ast-dump=json", "-Xclang", "-ast-dump-filter=" + flt, src]
    with open(out, "w") as f:
        p = subprocess.run(cmd, stdout=f, stderr=subprocess.PIPE, timeout=180, universal_newlines=True)
    if p.returncode != 0:
        raise RuntimeError("clang failed on %s (%s): %s" % (src, flt, p.stderr[-1500:]))
    return astutil.load_docs(out)


def kids(n):
    return [c for c in (n.get("inner") or []) if isinstance(c, dict) and c]


def qstr(s):
    return '"' + s.replace('"', "'") + '"'


def ctype_of(n):
    t = n.get("type", {})
    for key in ("desugaredQualType", "qualType"):
        q = t.get(key)
        if q:
            q = re.sub(r"\b(const|volatile)\b", "", q).replace("&", "").strip()
            q = re.sub(r"^std::", "", q)
            if q in CT:
                return CT[q]
    return None


def tystr(n):
    q = n.get("type", {}).get("qualType", "?")
    q = re.sub(r"\(lambda at [^)]*\)", "LAMBDA", q)
    return q


class Tr:
    """translator for one function body; lambdas are hoisted into self.lambdas"""

    def __init__(self):
        self.lambdas = []

    # ------------------------------------------------------------ lvalue paths
    def path(self, n):
        k = n.get("kind")
        if k in ("ImplicitCastExpr", "ParenExpr", "MaterializeTemporaryExpr", "ExprWithCleanups", "CXXBindTemporaryExpr"):
            return self.path(kids(n)[0])
        if k == "DeclRefExpr":
            return n.get("referencedDecl", {}).get("name", "?")
        if k == "CXXThisExpr":
            return "this"
        if k == "MemberExpr":
            base = self.path(kids(n)[0]) if kids(n) else None
            if base is None:
                return None
            name = n.get("name", "?")
            if base == "this":
                return name
            sep = "->" if n.get("isArrow") else "."
            p = base + sep + name
            # every SubTaskSet copy points to the same task set: X.pTask->f is one location
            p = re.sub(r"^.*\.pTask->", "pTask->", p)
            return p
        if k == "ArraySubscriptExpr":
            a = self.path(kids(n)[0])
            return (a + "[]") if a else None
        if k == "UnaryOperator" and n.get("opcode") == "*":
            a = self.path(kids(n)[0])
            return ("*" + a) if a else None
        return None

    # ------------------------------------------------------------ expressions
    def ex(self, n):
        k = n.get("kind")
        ks = kids(n)
        if k in ("ParenExpr", "MaterializeTemporaryExpr", "ExprWithCleanups", "CXXBindTemporaryExpr", "ConstantExpr"):
            return self.ex(ks[0])
        if k == "SubstNonTypeTemplateParmExpr":
            return self.ex(ks[-1])
        if k == "IntegerLiteral":
            return "(Lit (%s))" % n.get("value")
        if k == "CXXBoolLiteralExpr":
            return "(Lit %d)" % (1 if n.get("value") else 0)
        if k in ("ImplicitCastExpr", "CStyleCastExpr", "CXXFunctionalCastExpr", "CXXStaticCastExpr"):
            ck = n.get("castKind")
            if ck in TRANSPARENT_CASTS:
                return self.ex(ks[-1])
            if ck == "IntegralCast":
                t = ctype_of(n)
                return "(Cast %s %s)" % (t, self.ex(ks[-1])) if t else "(Unk %s)" % qstr("cast to " + tystr(n))
            if ck in ("IntegralToBoolean", "PointerToBoolean"):
                return "(Cmp Ne %s (Lit 0))" % self.ex(ks[-1])
            return "(Unk %s)" % qstr("castKind " + str(ck))
        if k == "ArraySubscriptExpr":
            return "(Call \"[]\" \"\" [%s; %s])" % (self.ex(ks[0]), self.ex(ks[1]))
        if k in ("DeclRefExpr", "MemberExpr", "CXXThisExpr"):
            p = self.path(n)
            return "(Var %s)" % qstr(p) if p else "(Unk %s)" % qstr(k)
        if k == "UnaryOperator":
            op = n.get("opcode")
            if op == "!":
                return "(Not %s)" % self.ex(ks[0])
            if op == "-" and ks[0].get("kind") == "IntegerLiteral":
                return "(Lit (-%s))" % ks[0].get("value")
            if op == "-":
                t = ctype_of(n)
                return "(Bin Sub %s (Lit 0) %s)" % (t, self.ex(ks[0])) if t else "(Unk \"neg\")"
            if op == "&":
                p = self.path(ks[0])
                return "(Var %s)" % qstr("&" + p) if p else "(Unk \"addr\")"
            if op == "*":
                p = self.path(n)
                return "(Var %s)" % qstr(p) if p else "(Unk \"deref\")"
            return "(Unk %s)" % qstr("unary " + str(op))
        if k == "BinaryOperator":
            op = n.get("opcode")
            if op in BOPS:
                t = ctype_of(n)
                if not t:
                    return "(Unk %s)" % qstr("arith at " + tystr(n))
                return "(Bin %s %s %s %s)" % (BOPS[op], t, self.ex(ks[0]), self.ex(ks[1]))
            if op in CMPS:
                return "(Cmp %s %s %s)" % (CMPS[op], self.ex(ks[0]), self.ex(ks[1]))
            if op == "&&":
                return "(Cond %s %s (Lit 0))" % (self.ex(ks[0]), self.ex(ks[1]))
            if op == "||":
                return "(Cond %s (Lit 1) %s)" % (self.ex(ks[0]), self.ex(ks[1]))
            return "(Unk %s)" % qstr("binop " + str(op))
        if k == "ConditionalOperator":
            return "(Cond %s %s %s)" % (self.ex(ks[0]), self.ex(ks[1]), self.ex(ks[2]))
        if k in ("CallExpr", "CXXMemberCallExpr", "CXXOperatorCallExpr"):
            return self.call(n)
        if k == "LambdaExpr":
            return self.lam(n)
        if k in ("CXXConstructExpr", "CXXTemporaryObjectExpr"):
            if len(ks) == 1:
                return self.ex(ks[0])       # copy / move / converting construction from one value
            return "(Call %s %s [%s])" % (qstr("ctor " + tystr(n)), qstr(""), "; ".join(self.ex(c) for c in ks))
        if k == "CXXNullPtrLiteralExpr":
            return "(Lit 0)"
        return "(Unk %s)" % qstr(k or "?")

    def call(self, n):
        ks = kids(n)
        callee, args = ks[0], ks[1:]
        c = callee
        while c.get("kind") in ("ImplicitCastExpr", "ParenExpr") and kids(c):
            c = kids(c)[0]
        sig = ""
        if c.get("kind") == "DeclRefExpr":
            ref = c.get("referencedDecl", {})
            name = ref.get("name", "?")
            sig = re.sub(r"\(lambda at [^)]*\)", "LAMBDA", ref.get("type", {}).get("qualType", ""))
            if n.get("kind") == "CXXOperatorCallExpr" and name == "operator()":
                name = "call " + (self.path(args[0]) or "?")
                args = args[1:]
        elif c.get("kind") == "MemberExpr":
            name = c.get("name", "?")
        else:
            name = "?"
        return "(Call %s %s [%s])" % (qstr(name), qstr(sig), "; ".join(self.ex(a) for a in args))

    def lam(self, n):
        rec = [c for c in kids(n) if c.get("kind") == "CXXRecordDecl"]
        ops = [m for m in kids(rec[0]) if m.get("kind") == "CXXMethodDecl" and m.get("name") == "operator()"] if rec else []
        if not ops:
            return "(Unk \"lambda\")"
        idx = len(self.lambdas)
        self.lambdas.append(None)
        self.lambdas[idx] = self.func(ops[0])
        return "(Var %s)" % qstr("LAMBDA#%d" % idx)

    # ------------------------------------------------------------ statements
    def block(self, n):
        if n is None:
            return []
        if n.get("kind") == "CompoundStmt":
            out = []
            for c in kids(n):
                out += self.stmt(c)
            return out
        return self.stmt(n)

    def lst(self, items):
        return "[" + "; ".join(items) + "]"

    def stmt(self, n):
        k = n.get("kind")
        ks = kids(n)
        if k in ("ExprWithCleanups", "ParenExpr"):
            return self.stmt(ks[0])
        if k == "CompoundStmt":
            return self.block(n)
        if k == "NullStmt":
            return []
        if k == "DeclStmt":
            out = []
            for d in ks:
                if d.get("kind") == "VarDecl":
                    init = [c for c in kids(d) if "Expr" in c.get("kind", "") or c.get("kind", "").endswith("Operator") or c.get("kind", "").endswith("Literal")]
                    sc = (d.get("storageClass") + " ") if d.get("storageClass") else ""
                    out.append("Decl %s %s %s" % (qstr(d.get("name", "?")), qstr(sc + tystr(d)),
                                                  "(Some %s)" % self.ex(init[0]) if init else "None"))
                elif d.get("kind") in ("UsingDirectiveDecl", "StaticAssertDecl", "TypedefDecl", "TypeAliasDecl", "CXXRecordDecl"):
                    pass
                else:
                    out.append("SUnk %s" % qstr("decl " + d.get("kind", "?")))
            return out
        if k == "BinaryOperator" and n.get("opcode") == "=":
            p = self.path(ks[0])
            return ["Asg %s %s" % (qstr(p), self.ex(ks[1]))] if p else ["SUnk \"assignment target\""]
        if k == "CXXOperatorCallExpr" and len(ks) == 3 and "operator=" in str(kids(ks[0])[0].get("referencedDecl", {}).get("name") if kids(ks[0]) else ""):
            p = self.path(ks[1])
            return ["Asg %s %s" % (qstr(p), self.ex(ks[2]))] if p else ["SUnk \"assignment target\""]
        if k == "CompoundAssignOperator":
            p = self.path(ks[0]); t = ctype_of(n); op = n.get("opcode", "?")[:-1]
            if p and t and op in BOPS:
                return ["Asg %s (Bin %s %s (Var %s) %s)" % (qstr(p), BOPS[op], t, qstr(p), self.ex(ks[1]))]
            return ["SUnk \"compound assignment\""]
        if k == "UnaryOperator" and n.get("opcode") in ("++", "--"):
            p = self.path(ks[0]); t = ctype_of(n)
            if p and t:
                return ["Asg %s (Bin %s %s (Var %s) (Lit 1))" % (qstr(p), "Add" if n["opcode"] == "++" else "Sub", t, qstr(p))]
            return ["SUnk \"increment\""]
        if k == "IfStmt":
            body = [c for c in ks]
            cond, th = body[0], body[1]
            el = body[2] if len(body) > 2 else None
            return ["If %s %s %s" % (self.ex(cond), self.lst(self.block(th)), self.lst(self.block(el)))]
        if k == "WhileStmt":
            return ["While %s %s" % (self.ex(ks[0]), self.lst(self.block(ks[1])))]
        if k == "DoStmt":
            return ["SUnk \"do-while\""]
        if k == "ForStmt":
            inner = n.get("inner") or []
            # clang: [init, condvar, cond, inc, body] with {} for absent parts
            init, cond, inc, body = inner[0], inner[2], inner[3], inner[4]
            return ["For %s %s %s %s" % (self.lst(self.stmt(init) if init else []),
                                         self.ex(cond) if cond else "(Lit 1)",
                                         self.lst(self.stmt(inc) if inc else []),
                                         self.lst(self.block(body)))]
        if k == "ReturnStmt":
            return ["Ret %s" % ("(Some %s)" % self.ex(ks[0]) if ks else "None")]
        if k and k.startswith("OMP") and k.endswith("Directive"):
            clauses = []
            for c in ks:
                ck = c.get("kind", "")
                if ck.startswith("OMP") and ck.endswith("Clause") and not c.get("isImplicit"):
                    clauses.append(ck + ("(" + str(c.get("name", "")) + ")" if c.get("name") else ""))
            loops = [x for x, _ in astutil.walk(n) if x.get("kind") == "ForStmt"]
            return ["Omp %s %s %s" % (qstr(k), qstr(" ".join(clauses)), self.lst(self.stmt(loops[0]) if loops else ["SUnk \"omp without loop\""]))]
        if k in ("CallExpr", "CXXMemberCallExpr", "CXXOperatorCallExpr"):
            return ["Exp %s" % self.ex(n)]
        if k in ("BreakStmt", "ContinueStmt"):
            return ["SUnk %s" % qstr(k)]
        if k and (k.endswith("Expr") or k.endswith("Operator")):
            return ["Exp %s" % self.ex(n)]
        return ["SUnk %s" % qstr(k or "?")]

    def func(self, fd):
        params = [(p.get("name", "_"), tystr(p)) for p in kids(fd) if p.get("kind") == "ParmVarDecl"]
        body = [c for c in kids(fd) if c.get("kind") == "CompoundStmt"]
        stmts = self.block(body[0]) if body else ["SUnk \"no body\""]
        return "{| f_type := %s;\n     f_params := [%s];\n     f_body := [\n       %s ] |}" % (
            qstr(tystr(fd)), "; ".join("(%s, %s)" % (qstr(a), qstr(b)) for a, b in params), ";\n       ".join(stmts))


def find_funcs(docs, name, want=None, mangled=None):
    """non-dependent FunctionDecl / CXXMethodDecl nodes with a body, by name (and a substring of the type)"""
    out = []
    for d in docs:
        for n, par in astutil.walk(d):
            if n.get("kind") in ("FunctionDecl", "CXXMethodDecl") and n.get("name") == name:
                q = n.get("type", {}).get("qualType", "")
                if "_T" in q or "dependent" in q:
                    continue
                if not any(c.get("kind") == "CompoundStmt" for c in kids(n)):
                    continue
                if mangled is not None and not re.match(r"^_ZZ?N" + mangled, n.get("mangledName", "")):
                    continue
                if want is None or want in q:
                    out.append((n, par))
    return out


UNK_FUNC = '{| f_type := "missing"; f_params := []; f_body := [SUnk "function not found in the AST"] |}'


def struct_copy_note():
    return ""


def main(argv):
    repo, inc, out = argv[1], argv[2], argv[3]
    work = argv[4] if len(argv) > 4 else os.path.join(os.path.dirname(out), "ast")
    os.makedirs(work, exist_ok=True)
    defs = []       # (coq name, term)
    notes = []

    def emit(name, fds, pick=0):
        if len(fds) <= pick:
            defs.append((name, UNK_FUNC)); notes.append("%s: not found" % name); return
        tr = Tr()
        term = tr.func(fds[pick][0])
        defs.append((name, term))
        for i, l in enumerate(tr.lambdas):
            defs.append(("%s_lambda%d" % (name, i), l or UNK_FUNC))

    ts = os.path.join(repo, "rkcommon/tasking/detail/enkiTS/TaskScheduler.cpp")
    try:
        d1 = dump(repo, inc, ts, "SplitTask", os.path.join(work, "ts_split.json"))
        d2 = dump(repo, inc, ts, "TaskScheduler", os.path.join(work, "ts_sched.json"))
    except Exception as e:      # noqa
        notes.append(str(e)[:500]); d1, d2 = [], []
    emit("src_SplitTask", find_funcs(d1, "SplitTask"))
    for m in ("StartThreads", "TryRunTask", "SplitAndAddTask", "AddTaskSetToPipe", "WaitforTask"):
        emit("src_" + m, find_funcs(d2, m))
    inst = os.path.join(HERE, "inst.cpp")
    for b, dd in (("tbb", ["-DRKCOMMON_TASKING_TBB"]), ("omp", ["-DRKCOMMON_TASKING_OMP", "-fopenmp"]),
                  ("internal", ["-DRKCOMMON_TASKING_INTERNAL"]), ("debug", [])):
        try:
            di = dump(repo, inc, inst, "parallel_for_impl", os.path.join(work, "inst_%s_impl.json" % b), dd)
        except Exception as e:  # noqa
            notes.append(str(e)[:500]); di = []
        emit("src_impl_%s_int" % b, find_funcs(di, "parallel_for_impl", "void (int,", "8rkcommon"))
        emit("src_impl_%s_size_t" % b, find_funcs(di, "parallel_for_impl", "void (unsigned long,", "8rkcommon"))
    try:
        db = dump(repo, inc, inst, "parallel_in_blocks_of", os.path.join(work, "inst_blocks.json"), [])
    except Exception as e:      # noqa
        notes.append(str(e)[:500]); db = []
    emit("src_blocks_u32_1024", find_funcs(db, "parallel_in_blocks_of", "void (unsigned int,", "8rkcommon"))
    emit("src_blocks_i32_4", find_funcs(db, "parallel_in_blocks_of", "void (int,", "8rkcommon"))
    try:
        dn = dump(repo, inc, inst, "parallel_for_internal", os.path.join(work, "inst_internal.json"), ["-DRKCOMMON_TASKING_INTERNAL"])
    except Exception as e:      # noqa
        notes.append(str(e)[:500]); dn = []
    # parallel_foreach: iterator overload (unsigned char *) and container overload (unsigned char[8])
    try:
        de = dump(repo, inc, inst, "parallel_foreach", os.path.join(work, "inst_foreach.json"), [])
    except Exception as e:      # noqa
        notes.append(str(e)[:500]); de = []
    emit("src_foreach_iter", find_funcs(de, "parallel_foreach", "void (unsigned char *, unsigned char *,", "8rkcommon"))
    emit("src_foreach_container", find_funcs(de, "parallel_foreach", "void (unsigned char (&)[8],", "8rkcommon"))
    emit("src_parallel_for_internal", find_funcs(dn, "parallel_for_internal", None, "8rkcommon"))
    emit("src_LocalTask_ExecuteRange", find_funcs(dn, "ExecuteRange", None, "8rkcommon"))
    # the constructor LocalTask(int nunTasks, ..) : Task(nunTasks): parameter type and the conversion to uint32_t
    ctor = "(Unk \"LocalTask constructor not found\")"
    for d in dn:
        for n, par in astutil.walk(d):
            if n.get("kind") == "CXXConstructorDecl" and n.get("name") == "LocalTask" and "_T" not in n.get("type", {}).get("qualType", "") \
                    and any(p.get("kind") == "FunctionDecl" and "_T" not in p.get("type", {}).get("qualType", "") for p in par):
                for c in kids(n):
                    if c.get("kind") == "CXXCtorInitializer" and c.get("baseInit"):
                        tr = Tr()
                        ctor = tr.ex(kids(c)[0])
    defs.append(("src_LocalTask_base_init", ctor))
    # file-scope constant used by StartThreads
    cval = None
    try:
        dc = dump(repo, inc, ts, "MAX_NUM_INITIAL_PARTITIONS", os.path.join(work, "ts_const.json"))
        for d in dc:
            for n, _ in astutil.walk(d):
                if n.get("kind") == "VarDecl" and n.get("name") == "MAX_NUM_INITIAL_PARTITIONS":
                    lits = [x for x, _ in astutil.walk(n) if x.get("kind") == "IntegerLiteral"]
                    if len(lits) == 1:
                        cval = lits[0].get("value")
    except Exception as e:      # noqa
        notes.append(str(e)[:300])
    consts = [("src_MAX_NUM_INITIAL_PARTITIONS", cval if cval is not None else "(-1)")]

    with open(out + ".new", "w") as f:
        f.write("(* GENERATED by tools/c01src/gen_src.py from the repository working tree - do not edit. *)\n")
        f.write("From Coq Require Import ZArith List String.\nFrom Common Require Import CxxSem.\nFrom C01 Require Import SrcLang.\n")
        f.write("Import ListNotations.\nLocal Open Scope Z_scope.\nLocal Open Scope string_scope.\n\n")
        for nme, term in defs:
            ty = "ex" if nme == "src_LocalTask_base_init" else "func"
            f.write("Definition %s : %s :=\n  %s.\n\n" % (nme, ty, term))
        for nme, v in consts:
            f.write("Definition %s : Z := %s.\n\n" % (nme, v))
        for s in notes:
            f.write("(* note: %s *)\n" % s.replace("*)", "* )"))
    if os.path.exists(out) and open(out).read() == open(out + ".new").read():
        os.remove(out + ".new")
        return 0
    os.replace(out + ".new", out)
    return 0


if __name__ == "__main__":
    sys.exit(main(sys.argv))
