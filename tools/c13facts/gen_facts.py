#!/usr/bin/env python3
"""C13 fact table, re-derived from the clang JSON AST of the repository's CURRENT working tree:

  tasking_system_init.cpp (one dump per backend define TBB / OMP / INTERNAL / none)
    * tasking_system_handle(int numThreads): the condition under which the limit is installed
      (global_control created / omp_set_num_threads called), that its value is numThreads; the argument expression
      and guard of initTaskSystemInternal(...); that the parameter is not modified
    * num_threads(): what is returned (active_value / omp_get_max_threads / numThreadsTaskSystemInternal / literal)
    * numTaskingThreads(): value without a handle, num_threads() with one
    * initTaskingSystem(): the relevant statements (assignment of a freshly made handle built from the unmodified
      parameter; early returns; modifications of the parameter; other uses of the global handle)
  TaskSys.cpp: the statements of initTaskSystemInternal; numThreadsTaskSystemInternal
  enkiTS/TaskScheduler.cpp: StartThreads' thread-creation loop bounds; GetNumTaskThreads; Initialize

and written as Coq definitions (coq/C13/gen/Facts.v).   usage: gen_facts.py <repo> <include-dir> <out.v> [workdir]
"""
import os, subprocess, sys
from concurrent.futures import ThreadPoolExecutor
HERE = os.path.dirname(os.path.abspath(__file__))
sys.path.insert(0, os.path.join(os.path.dirname(HERE), "cxx2coq"))
import astutil

CMP = {"<": "OLt", "<=": "OLe", ">": "OGt", ">=": "OGe", "==": "OEq", "!=": "ONe"}
FLIP = {"<": ">", "<=": ">=", ">": "<", ">=": "<=", "==": "==", "!=": "!="}
TRANSPARENT = ("ParenExpr", "ImplicitCastExpr", "ExprWithCleanups", "MaterializeTemporaryExpr", "CXXBindTemporaryExpr",
               "CXXFunctionalCastExpr", "CStyleCastExpr", "CXXStaticCastExpr", "ConstantExpr")


class FactError(Exception):
    pass


def dump(repo, inc, src, flt, out, defs=()):
    cmd = ["clang++", "-std=c++11", "-fsyntax-only", "-I" + repo, "-I" + inc] + list(defs) + \
          ["-Xclang", "-ast-dump=json", "-Xclang", "-ast-dump-filter=" + flt, os.path.join(repo, src)]
    with open(out, "w") as f:
        p = subprocess.run(cmd, stdout=f, stderr=subprocess.PIPE, timeout=180, universal_newlines=True)
    if p.returncode != 0:
        raise FactError("clang failed on %s %s: %s" % (src, defs, p.stderr[-1200:]))
    return astutil.load_docs(out)


def kids(n):
    return [c for c in (n.get("inner") or []) if isinstance(c, dict) and c]


def strip(n):
    while n.get("kind") in TRANSPARENT and len(kids(n)) == 1:
        n = kids(n)[0]
    return n


def walk(n):
    for x, _ in astutil.walk(n):
        yield x


def refname(n):
    n = strip(n)
    if n.get("kind") == "DeclRefExpr":
        return (n.get("referencedDecl") or {}).get("name")
    return None


def intlit(n):
    n = strip(n)
    if n.get("kind") == "IntegerLiteral":
        return int(n.get("value"))
    if n.get("kind") == "UnaryOperator" and n.get("opcode") == "-":
        v = intlit(kids(n)[0])
        return None if v is None else -v
    return None


def coq_z(v):
    return "(%d)" % v if v < 0 else "%d" % v


def guard_of(cond, var):
    """GCmp for `var <op> <int literal>` (either side), else GOther"""
    c = strip(cond)
    if c.get("kind") == "BinaryOperator" and c.get("opcode") in CMP:
        a, b = kids(c)
        if refname(a) == var and intlit(b) is not None:
            return "(GCmp %s %s)" % (CMP[c["opcode"]], coq_z(intlit(b)))
        if refname(b) == var and intlit(a) is not None:
            return "(GCmp %s %s)" % (CMP[FLIP[c["opcode"]]], coq_z(intlit(a)))
    return "GOther"


def callee_name(n):
    """name of the function / member a call expression calls"""
    k = kids(n)
    if not k:
        return None
    c = strip(k[0])
    if c.get("kind") == "DeclRefExpr":
        return (c.get("referencedDecl") or {}).get("name")
    if c.get("kind") == "MemberExpr":
        return c.get("name")
    return None


def is_call(n):
    return n.get("kind") in ("CallExpr", "CXXMemberCallExpr", "CXXOperatorCallExpr")


def mentions(n, name):
    return any((x.get("referencedDecl") or {}).get("name") == name for x in walk(n) if x.get("kind") == "DeclRefExpr") or \
        any(x.get("name") == name for x in walk(n) if x.get("kind") == "MemberExpr")


def assigns_to(n, var):
    for x in walk(n):
        if x.get("kind") in ("BinaryOperator", "CompoundAssignOperator") and (x.get("opcode", "") == "=" or x.get("kind") == "CompoundAssignOperator"):
            if refname(kids(x)[0]) == var:
                return True
        if x.get("kind") == "UnaryOperator" and x.get("opcode") in ("++", "--") and refname(kids(x)[0]) == var:
            return True
    return False


def find_paths(root, pred):
    """(node, ancestors) for nodes satisfying pred"""
    return [(x, ps) for x, ps in astutil.walk(root) if pred(x)]


def guards_on_path(node, ancestors, var):
    """guards of the IfStmt ancestors in whose THEN branch the node lies (else branch / loops -> GOther)"""
    gs = []
    chain = list(ancestors) + [node]
    for i, a in enumerate(chain[:-1]):
        nxt = chain[i + 1]
        if a.get("kind") == "IfStmt":
            k = kids(a)
            if nxt is k[0]:
                continue
            gs.append(guard_of(k[0], var) if len(k) > 1 and nxt is k[1] else "GOther")
        elif a.get("kind") in ("ForStmt", "WhileStmt", "DoStmt", "ConditionalOperator", "SwitchStmt"):
            gs.append("GOther")
    if not gs:
        return "GTrue"
    return gs[0] if len(gs) == 1 else "GOther"



def leaves(stmt):
    """leaf statements of a body; IfStmt conditions are yielded as ('cond', node)"""
    k = stmt.get("kind")
    if k == "CompoundStmt":
        for c in kids(stmt):
            yield from leaves(c)
    elif k == "IfStmt":
        ks = kids(stmt)
        yield ("cond", ks[0])
        for c in ks[1:]:
            yield from leaves(c)
    elif k == "NullStmt":
        return
    else:
        yield ("stmt", stmt)


def call_names(n):
    return [callee_name(x) for x in walk(n) if is_call(x)]


def ctor_stmt_list(body, hit, allowed):
    """COMPLETE list of what the constructor body does: the recognised limit installation (the leaf containing
    the hit node, calling nothing but the allowed functions) is CInstall, everything else CUnknown"""
    out = []
    for kind, s in leaves(body):
        if kind == "cond":
            if call_names(s):
                out.append("CUnknown")
            continue
        if hit is not None and any(x is hit for x in walk(s)) and all(c in allowed for c in call_names(s)):
            out.append("CInstall")
        else:
            out.append("CUnknown")
    return out


def body_of(fn):
    b = [c for c in kids(fn) if c.get("kind") == "CompoundStmt"]
    return b[0] if b else None


def find_fn(docs, kind, name, cls=None):
    for d in docs:
        for x, ps in astutil.walk(d):
            if x.get("kind") == kind and x.get("name") == name and body_of(x) is not None:
                return x
    return None


# ------------------------------------------------------------------ tasking_system_init.cpp, one backend
def init_cpp_facts(docs, backend):
    rec = None
    for d in docs:
        for x in walk(d):
            if x.get("kind") == "CXXRecordDecl" and x.get("name") == "tasking_system_handle" and x.get("completeDefinition"):
                rec = x
    if rec is None:
        raise FactError("%s: struct tasking_system_handle not found" % backend)
    ctors = [c for c in kids(rec) if c.get("kind") == "CXXConstructorDecl" and not c.get("isImplicit") and body_of(c) is not None]
    if len(ctors) != 1:
        raise FactError("%s: expected one user constructor of tasking_system_handle" % backend)
    ctor = ctors[0]
    params = [c.get("name") for c in kids(ctor) if c.get("kind") == "ParmVarDecl"]
    if len(params) != 1:
        raise FactError("%s: constructor parameters %s" % (backend, params))
    pn = params[0]
    body = body_of(ctor)
    out = {"param_unmodified": not assigns_to(body, pn)}
    # the member numThreads is initialised from the parameter (not needed by the model, recorded)
    if backend == "TBB":
        hits = find_paths(body, lambda x: is_call(x) and callee_name(x) == "make_unique" and "global_control" in x.get("type", {}).get("qualType", ""))
        hits += find_paths(body, lambda x: x.get("kind") == "CXXNewExpr" and "global_control" in x.get("type", {}).get("qualType", ""))
        if len(hits) != 1:
            out["guard"], out["value_is_n"] = ("GOther", False) if hits else ("(GCmp OLt 0)", False)   # never created: impossible guard
            if not hits:
                out["guard"] = "GOther"
        else:
            node, anc = hits[0]
            out["guard"] = guards_on_path(node, anc, pn)
            args = kids(node)[1:] if is_call(node) else [a for c in kids(node) for a in kids(c)]
            out["value_is_n"] = bool(args) and refname(args[-1]) == pn
        out["stmts"] = ctor_stmt_list(body, hits[0][0] if len(hits) == 1 else None, ("operator=", "make_unique"))
    elif backend == "OMP":
        hits = find_paths(body, lambda x: is_call(x) and callee_name(x) == "omp_set_num_threads")
        if len(hits) != 1:
            out["guard"], out["value_is_n"] = "GOther", False
        else:
            node, anc = hits[0]
            out["guard"] = guards_on_path(node, anc, pn)
            out["value_is_n"] = refname(kids(node)[1]) == pn
        out["stmts"] = ctor_stmt_list(body, hits[0][0] if len(hits) == 1 else None, ("omp_set_num_threads",))
    elif backend == "INTERNAL":
        hits = find_paths(body, lambda x: is_call(x) and callee_name(x) == "initTaskSystemInternal")
        if len(hits) != 1:
            out["guard"], out["arg"] = "GOther", "IArgOther"
        else:
            node, anc = hits[0]
            out["guard"] = guards_on_path(node, anc, pn)
            a = strip(kids(node)[1]) if len(kids(node)) > 1 else None
            if a is None:
                out["arg"] = "IArgOther"
            elif refname(a) == pn:
                out["arg"] = "IArgVar"
            elif a.get("kind") == "ConditionalOperator":
                c, t, e = kids(a)
                if intlit(t) is not None and refname(e) == pn:
                    out["arg"] = "(IArgCond %s %s)" % (guard_of(c, pn), coq_z(intlit(t)))
                else:
                    out["arg"] = "IArgOther"
            else:
                out["arg"] = "IArgOther"
        out["stmts"] = ctor_stmt_list(body, hits[0][0] if len(hits) == 1 else None, ("initTaskSystemInternal",))
    else:
        # Debug: the constructor must not do anything with the parameter
        out["guard"] = "GTrue" if not [x for x in walk(body) if is_call(x)] else "GOther"
        out["stmts"] = ctor_stmt_list(body, None, ())
    # num_threads()
    nt = [c for c in kids(rec) if c.get("kind") == "CXXMethodDecl" and c.get("name") == "num_threads" and body_of(c) is not None]
    rep = "ROther"
    if len(nt) == 1:
        stmts = kids(body_of(nt[0]))
        rets = [x for x in walk(body_of(nt[0])) if x.get("kind") == "ReturnStmt"]
        if len(stmts) == 1 and len(rets) == 1 and stmts[0] is rets[0] and kids(rets[0]):
            e = strip(kids(rets[0])[0])
            if intlit(e) is not None:
                rep = "(RConst %s)" % coq_z(intlit(e))
            elif is_call(e):
                nm = callee_name(e)
                rep = {"active_value": "RActiveValue", "omp_get_max_threads": "ROmpMax",
                       "numThreadsTaskSystemInternal": "RTaskThreads"}.get(nm, "ROther")
                if nm == "active_value" and not mentions(e, "max_allowed_parallelism"):
                    rep = "ROther"
    out["rep"] = rep

    # numTaskingThreads()
    def handle_test(c):
        """+1: 'handle present', -1: 'handle absent', None: something else"""
        c = strip(c)
        if c.get("kind") == "UnaryOperator" and c.get("opcode") == "!":
            r = handle_test(kids(c)[0])
            return None if r is None else -r
        if c.get("kind") == "BinaryOperator" and c.get("opcode") in ("==", "!=") and \
                any(strip(s).get("kind") == "CXXNullPtrLiteralExpr" for s in kids(c)) and mentions(c, "g_tasking_handle"):
            return -1 if c["opcode"] == "==" else 1
        if mentions(c, "g_tasking_handle") and not [x for x in walk(c) if x.get("kind") == "BinaryOperator"]:
            calls = [callee_name(x) for x in walk(c) if is_call(x)]
            if all(n in ("get", "operator bool") for n in calls):
                return 1
        return None

    def is_num_threads_call(e):
        e = strip(e)
        return is_call(e) and callee_name(e) == "num_threads" and mentions(e, "g_tasking_handle")
    q = find_fn(docs, "FunctionDecl", "numTaskingThreads")
    nohandle, withhandle = "None", False
    if q is not None:
        st = kids(body_of(q))
        if len(st) == 1 and st[0].get("kind") == "IfStmt" and len(kids(st[0])) == 3:
            c, a, b = kids(st[0])
            pol = handle_test(c)
            ra = [x for x in walk(a) if x.get("kind") == "ReturnStmt"]
            rb = [x for x in walk(b) if x.get("kind") == "ReturnStmt"]
            if pol is not None and len(ra) == 1 and len(rb) == 1:
                absent, present = (ra[0], rb[0]) if pol < 0 else (rb[0], ra[0])
                if kids(absent) and intlit(kids(absent)[0]) is not None:
                    nohandle = "(Some %s)" % coq_z(intlit(kids(absent)[0]))
                withhandle = bool(kids(present)) and is_num_threads_call(kids(present)[0])
        elif len(st) == 2 and st[0].get("kind") == "IfStmt" and len(kids(st[0])) == 2 and st[1].get("kind") == "ReturnStmt":
            c, a = kids(st[0])
            pol = handle_test(c)
            ra = [x for x in walk(a) if x.get("kind") == "ReturnStmt"]
            if pol is not None and len(ra) == 1:
                if pol < 0:
                    absent, present = ra[0], st[1]
                else:
                    absent, present = st[1], ra[0]
                if kids(absent) and intlit(kids(absent)[0]) is not None:
                    nohandle = "(Some %s)" % coq_z(intlit(kids(absent)[0]))
                withhandle = bool(kids(present)) and is_num_threads_call(kids(present)[0])
        elif len(st) == 1 and st[0].get("kind") == "ReturnStmt" and kids(st[0]):
            e = strip(kids(st[0])[0])
            if e.get("kind") == "ConditionalOperator":
                c, t, f = kids(e)
                pol = handle_test(c)
                if pol is not None:
                    present, absent = (t, f) if pol > 0 else (f, t)
                    if intlit(absent) is not None:
                        nohandle = "(Some %s)" % coq_z(intlit(absent))
                    withhandle = is_num_threads_call(present)
    out["nohandle"], out["withhandle"] = nohandle, withhandle

    # initTaskingSystem()
    fn = find_fn(docs, "FunctionDecl", "initTaskingSystem")
    if fn is None:
        raise FactError("%s: initTaskingSystem not found" % backend)
    ps = [c.get("name") for c in kids(fn) if c.get("kind") == "ParmVarDecl"]
    pn2 = ps[0]
    ist = []
    flush = ps[1] if len(ps) > 1 else None
    for st in kids(body_of(fn)):
        uses_h = mentions(st, "g_tasking_handle")
        if assigns_to(st, pn2):
            ist.append("IModifiesParam")
        if [x for x in walk(st) if x.get("kind") == "ReturnStmt"]:
            ist.append("IReturn")
        if not uses_h:
            # the only other thing allowed: if (flushDenormals) { MXCSR macros }  (empty macros without SIMD)
            s0 = strip(st)
            harmless = s0.get("kind") == "NullStmt"
            if s0.get("kind") == "IfStmt" and flush and refname(kids(s0)[0]) == flush and not mentions(st, pn2) and \
                    all(c in ("_mm_setcsr", "_mm_getcsr") for c in call_names(st)):
                harmless = True
            if not harmless and not assigns_to(st, pn2):
                ist.append("IUnknownStmt")
            continue
        s = strip(st)
        ok = False
        if s.get("kind") == "CXXOperatorCallExpr" and callee_name(s) == "operator=" and refname(kids(s)[1]) == "g_tasking_handle":
            rhs = strip(kids(s)[2])
            if is_call(rhs) and callee_name(rhs) == "make_unique" and "tasking_system_handle" in rhs.get("type", {}).get("qualType", "") \
                    and len(kids(rhs)) == 2:
                ist.append("IAssignFresh" if refname(kids(rhs)[1]) == pn2 else "IAssignOther")
                ok = True
        if not ok:
            inner = [x for x in walk(st) if x.get("kind") == "CXXOperatorCallExpr" and callee_name(x) == "operator=" and
                     len(kids(x)) > 1 and refname(kids(x)[1]) == "g_tasking_handle"]
            ist.append("IGuardedAssign" if inner and st.get("kind") == "IfStmt" else "IOtherHandleUse")
    out["init"] = ist
    return out


# ----------------------------------------------------------------------------------- TaskSys.cpp
def tasksys_facts(docs):
    fn = find_fn(docs, "FunctionDecl", "initTaskSystemInternal")
    if fn is None:
        raise FactError("initTaskSystemInternal not found")
    pn = [c.get("name") for c in kids(fn) if c.get("kind") == "ParmVarDecl"][0]
    steps = []
    for st in kids(body_of(fn)):
        s = strip(st)
        if [x for x in walk(st) if x.get("kind") == "ReturnStmt"]:
            steps.append("TsEarlyReturn")
            continue
        if s.get("kind") == "CXXOperatorCallExpr" and callee_name(s) == "operator=" and refname(kids(s)[1]) == "g_ts" and \
                [x for x in walk(s) if x.get("kind") == "CXXNewExpr" and "TaskScheduler" in x.get("type", {}).get("qualType", "")]:
            steps.append("TsNew")
            continue
        if s.get("kind") == "IfStmt" and len(kids(s)) == 2:
            c, a = kids(s)
            a = strip(a)
            if a.get("kind") == "CompoundStmt" and len(kids(a)) == 1:
                a = strip(kids(a)[0])
            if a.get("kind") == "BinaryOperator" and a.get("opcode") == "=" and refname(kids(a)[0]) == pn:
                r = strip(kids(a)[1])
                if is_call(r) and callee_name(r) == "GetNumHardwareThreads":
                    steps.append("(TsDefault %s)" % guard_of(c, pn))
                    continue
        if s.get("kind") == "CXXMemberCallExpr" and callee_name(s) == "Initialize" and mentions(kids(s)[0], "g_ts") and \
                len(kids(s)) == 2 and refname(kids(s)[1]) == pn:
            steps.append("TsInit")
            continue
        # draining the previous scheduler before it is replaced: [if (g_ts)] g_ts->WaitforAll();
        drain = [x for x in walk(st) if x.get("kind") == "CXXMemberCallExpr" and callee_name(x) in ("WaitforAll",)]
        others = [x for x in walk(st) if is_call(x) and callee_name(x) not in ("WaitforAll", "get", "operator->", "operator bool", "operator!=", "operator==")]
        if len(drain) == 1 and not others and mentions(st, "g_ts") and not mentions(st, pn):
            steps.append("TsDrainOld")
            continue
        steps.append("TsOther")       # anything else: fail closed
    q = find_fn(docs, "FunctionDecl", "numThreadsTaskSystemInternal")
    qok = False
    if q is not None:
        st = kids(body_of(q))
        if len(st) == 1 and st[0].get("kind") == "ReturnStmt" and kids(st[0]):
            e = strip(kids(st[0])[0])
            qok = is_call(e) and callee_name(e) == "GetNumTaskThreads" and mentions(e, "g_ts")
    return steps, qok


# ----------------------------------------------------------------------------- TaskScheduler.cpp
def scheduler_facts(docs):
    st = find_fn(docs, "CXXMethodDecl", "StartThreads")
    if st is None:
        raise FactError("TaskScheduler::StartThreads not found")
    loops = [x for x in walk(st) if x.get("kind") == "ForStmt" and
             any(is_call(y) and callee_name(y) == "ThreadCreate" for y in walk(x))]
    lo, op = None, "ONe"
    if len(loops) == 1:
        k = loops[0].get("inner") or []
        k = [c for c in k if isinstance(c, dict)]
        # ForStmt inner: init, (condvar), cond, inc, body  — empty slots are {} in the JSON
        init = k[0] if k else {}
        cond = k[2] if len(k) > 2 else {}
        inc = k[3] if len(k) > 3 else {}
        var = None
        for x in walk(init) if init else []:
            if x.get("kind") == "VarDecl" and kids(x):
                var, lo = x.get("name"), intlit(kids(x)[0])
        c = strip(cond) if cond else {}
        if var and c.get("kind") == "BinaryOperator" and c.get("opcode") in CMP:
            a, b = kids(c)
            sb = strip(b)
            if refname(a) == var and sb.get("kind") == "MemberExpr" and sb.get("name") == "m_NumThreads":
                op = CMP[c["opcode"]]
        i = strip(inc) if inc else {}
        if not (i.get("kind") == "UnaryOperator" and i.get("opcode") == "++" and refname(kids(i)[0]) == var):
            op = "ONe"
        # exactly one ThreadCreate per iteration, not under a condition
        tc = find_paths(loops[0], lambda y: is_call(y) and callee_name(y) == "ThreadCreate")
        if len(tc) != 1 or any(a.get("kind") in ("IfStmt", "ConditionalOperator", "WhileStmt") for a in tc[0][1]):
            op = "ONe"
    g = find_fn(docs, "CXXMethodDecl", "GetNumTaskThreads")
    gok = False
    if g is not None:
        s = kids(body_of(g))
        if len(s) == 1 and s[0].get("kind") == "ReturnStmt" and kids(s[0]):
            e = strip(kids(s[0])[0])
            gok = e.get("kind") == "MemberExpr" and e.get("name") == "m_NumThreads"
    # Initialize(uint32_t n): m_NumThreads = n, and StartThreads() is called
    iok = False
    for d in docs:
        for x in walk(d):
            if x.get("kind") == "CXXMethodDecl" and x.get("name") == "Initialize" and body_of(x) is not None:
                ps = [c.get("name") for c in kids(x) if c.get("kind") == "ParmVarDecl"]
                if len(ps) == 1:
                    b = body_of(x)
                    sets = [y for y in walk(b) if y.get("kind") == "BinaryOperator" and y.get("opcode") == "=" and
                            strip(kids(y)[0]).get("kind") == "MemberExpr" and strip(kids(y)[0]).get("name") == "m_NumThreads"]
                    starts = [y for y in walk(b) if is_call(y) and callee_name(y) == "StartThreads"]
                    iok = len(sets) == 1 and refname(kids(sets[0])[1]) == ps[0] and len(starts) == 1
    return (lo if lo is not None else 0), op, (gok and iok)


def main():
    repo, inc, out = sys.argv[1], sys.argv[2], sys.argv[3]
    work = sys.argv[4] if len(sys.argv) > 4 else os.path.dirname(out)
    os.makedirs(work, exist_ok=True)
    os.makedirs(os.path.dirname(out), exist_ok=True)
    INIT = "rkcommon/tasking/detail/tasking_system_init.cpp"
    jobs = {
        "TBB": (INIT, "rkcommon::tasking", ["-DRKCOMMON_TASKING_TBB"]),
        "OMP": (INIT, "rkcommon::tasking", ["-DRKCOMMON_TASKING_OMP", "-fopenmp"]),
        "INTERNAL": (INIT, "rkcommon::tasking", ["-DRKCOMMON_TASKING_INTERNAL"]),
        "DEBUG": (INIT, "rkcommon::tasking", []),
        "tasksys": ("rkcommon/tasking/detail/TaskSys.cpp", "rkcommon::tasking::detail", ["-DRKCOMMON_TASKING_INTERNAL"]),
        "sched": ("rkcommon/tasking/detail/enkiTS/TaskScheduler.cpp", "enki::TaskScheduler", []),
    }
    try:
        with ThreadPoolExecutor(max_workers=3) as ex:
            futs = {k: ex.submit(dump, repo, inc, v[0], v[1], os.path.join(work, "c13_%s.json" % k), v[2]) for k, v in jobs.items()}
            docs = {k: f.result() for k, f in futs.items()}
        per = {b: init_cpp_facts(docs[b], b) for b in ("TBB", "OMP", "INTERNAL", "DEBUG")}
        steps, qok = tasksys_facts(docs["tasksys"])
        lo, op, sok = scheduler_facts(docs["sched"])
    except FactError as e:
        sys.stderr.write("gen_facts: %s\n" % e)
        sys.exit(2)
    bl = lambda x: "true" if x else "false"
    # backend-independent code must read the same in all four dumps
    same = lambda key: all(per[b][key] == per["TBB"][key] for b in per)
    init = per["TBB"]["init"] if same("init") else ["IOtherHandleUse"]
    nohandle = per["TBB"]["nohandle"] if same("nohandle") else "None"
    withhandle = all(per[b]["withhandle"] for b in per)
    unmod = all(per[b]["param_unmodified"] for b in per) and per["DEBUG"]["guard"] == "GTrue"
    txt = """(* GENERATED on every run by tools/c13facts/gen_facts.py from the clang AST of the repository
   working tree (tasking_system_init.cpp under each backend define, TaskSys.cpp, enkiTS/TaskScheduler.cpp).
   Do not edit. *)
From Common Require Import Prelude.
From C13 Require Import Model FactsSem.
Local Open Scope Z_scope.

Definition facts_src : facts := {|
  f_tbb_guard := %s;  f_tbb_value_is_n := %s;
  f_omp_guard := %s;  f_omp_value_is_n := %s;
  f_int_call_guard := %s;  f_int_arg := %s;
  f_ctor_param_unmodified := %s;
  f_ctor_stmts_tbb := [%s];  f_ctor_stmts_omp := [%s];  f_ctor_stmts_int := [%s];  f_ctor_stmts_dbg := [%s];
  f_ts_steps := [%s];
  f_rep_tbb := %s;  f_rep_omp := %s;  f_rep_int := %s;  f_rep_dbg := %s;
  f_int_query_is_numthreads := %s;
  f_nohandle := %s;  f_withhandle_num_threads := %s;
  f_init := [%s];
  f_worker_lo := %s;  f_worker_op := %s
|}.
""" % (per["TBB"]["guard"], bl(per["TBB"]["value_is_n"]), per["OMP"]["guard"], bl(per["OMP"]["value_is_n"]),
       per["INTERNAL"]["guard"], per["INTERNAL"]["arg"], bl(unmod),
       "; ".join(per["TBB"]["stmts"]), "; ".join(per["OMP"]["stmts"]), "; ".join(per["INTERNAL"]["stmts"]), "; ".join(per["DEBUG"]["stmts"]),
       "; ".join(steps),
       per["TBB"]["rep"], per["OMP"]["rep"], per["INTERNAL"]["rep"], per["DEBUG"]["rep"], bl(qok and sok),
       nohandle, bl(withhandle), "; ".join(init), coq_z(lo), op)
    old = open(out).read() if os.path.exists(out) else None
    if old != txt:
        open(out, "w").write(txt)
    print("facts: tbb=%s/%s omp=%s/%s internal=%s %s ts=%s reps=%s,%s,%s,%s query=%s nohandle=%s with=%s init=%s loop=%s,%s unmod=%s ctor_stmts=%s"
          % (per["TBB"]["guard"], per["TBB"]["value_is_n"], per["OMP"]["guard"], per["OMP"]["value_is_n"], per["INTERNAL"]["guard"],
             per["INTERNAL"]["arg"], steps, per["TBB"]["rep"], per["OMP"]["rep"], per["INTERNAL"]["rep"], per["DEBUG"]["rep"],
             qok and sok, nohandle, withhandle, init, lo, op, unmod, {b: per[b]["stmts"] for b in per}))


if __name__ == "__main__":
    main()
