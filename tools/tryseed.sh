#!/bin/bash
# tryseed.sh <ID> <k> [tier]: validate seeded change /tmp/seedout/<ID>-<k> in the scratch worktree /tmp/seed/<ID>:
#  demo passes on clean tree, fails with patch; then run our check against the patched worktree (VERIF_REPO).
id=$1; k=$2; tier=${3:-quick}
wt=/tmp/seed/$id; so=/tmp/seedout/$id-$k
git -C $wt checkout -q -- . ; git -C $wt status --short | grep -v '^??' 
echo "== demo on clean tree"; (cd $so && timeout 600 bash run.sh $wt >/tmp/seedout/$id-$k/clean.log 2>&1; echo "rc=$?")
git -C $wt apply $so/patch.diff || { echo "PATCH DOES NOT APPLY"; exit 2; }
echo "== demo with patch"; (cd $so && timeout 600 bash run.sh $wt >/tmp/seedout/$id-$k/patched.log 2>&1; echo "rc=$?")
echo "== unit tests with patch"; (cmake --build $wt/_b >/tmp/seedout/$id-$k/build.log 2>&1 && ctest --test-dir $wt/_b -j8 --timeout 900 2>&1 | grep -E "tests passed|tests failed" )
echo "== our check on patched tree"
cp /verif/evidence/$id.json /tmp/seedout/$id-$k/evidence.bak 2>/dev/null
(cd /verif && VERIF_REPO=$wt timeout 3000 bin/vcheck $id --tier $tier > /tmp/seedout/$id-$k/vcheck.log 2>&1; echo "vcheck rc=$?"; grep -E "^VIOLATION|^KNOWN|done:| -> " /tmp/seedout/$id-$k/vcheck.log | head -8)
cp /tmp/seedout/$id-$k/evidence.bak /verif/evidence/$id.json 2>/dev/null
git -C $wt checkout -q -- .
