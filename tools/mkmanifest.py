#!/usr/bin/env python3
"""Regenerate /verif/MANIFEST.json from the claim table below (run from anywhere).
Validates against /root/.vp/MANIFEST.schema.json when jsonschema is importable."""
import json, os, sys
HERE = os.path.dirname(os.path.dirname(os.path.abspath(__file__)))

COMMON_TRUST = ("trusted: Coq 8.16.1 kernel (full .vo builds, vm_compute, no native_compute); ExtrOcamlBasic extraction + OCaml 4.13.1; "
                "the C++ harness, case generators and canonicalisers; g++ 12 with ASan/UBSan. ")

# id -> dict(text, note, technique, design_ref [, category])
CLAIMS = {
 "C10": dict(
  text="Refinement proof in Coq (12 theorems, axiom-free): every FlatMap / ParameterizedObject operation of the Gallina model returns what an insertion-ordered unique-key map returns and commutes with the abstraction, for all histories of any length; the model is tied to the code by running the extracted model and the real templates (3 FlatMap instantiations + ParameterizedObject, ASan+UBSan) on the same random and exhaustive histories and diffing every step's result and full contents.",
  note=COMMON_TRUST + "std::vector/find_if/stable_partition/shared_ptr/Any are exercised, not verified",
  technique="Coq refinement proof of a hand-written executable model + differential correspondence (extracted OCaml vs real code)"),
}

PENDING_REASON = "check still under construction (design in DESIGN.md section 5); not claimed until its machinery is sound on the unchanged tree"
ALL = ["C%02d" % i for i in range(1, 21)]


def load_claims():
    """claims may also live in props/<ID>/claim.json (written when a property's check is accepted)."""
    c = dict(CLAIMS)
    for pid in ALL:
        p = os.path.join(HERE, "props", pid, "claim.json")
        if os.path.exists(p):
            c[pid] = json.load(open(p))
    return c


def main():
    claims = load_claims()
    hooks_commits = []
    hp = os.path.join(HERE, "MANIFEST.hooks")
    if os.path.exists(hp):
        hooks_commits = [l.split()[0] for l in open(hp) if l.strip() and not l.startswith("#")]
    man = {
        "version": 1,
        "setup_cmd": "bin/setup",
        "hooks": {
            "guard": "RKCOMMON_VERIF",
            "enable": "harnesses are compiled by the checks themselves with -DRKCOMMON_VERIF (g++ command lines in lib/vlib.py); the CMake build never defines it",
            "baseline_off_cmd": "cmake --build /repo/_build && ctest --test-dir /repo/_build -j8 --timeout 900",
            "source_commits": hooks_commits,
            "add_only": True,
        },
        "engines": [{
            "name": "vcheck", "path": "bin/vcheck", "serves_properties": sorted(claims),
            "kind_free_text": "Coq 8.16.1 proofs over a model (hand-written or regenerated from the source) + extraction to OCaml + differential correspondence against harnesses compiled from /repo's working tree",
        }],
        "checks": [],
        "notes": "see DESIGN.md; known_findings.json lists fixed and open findings",
        "not_applicable": [],
    }
    for pid in ALL:
        if pid in claims:
            c = claims[pid]
            man["checks"].append({
                "property_id": pid,
                "quick_cmd": "bin/vcheck %s --tier quick" % pid,
                "thorough_cmd": "bin/vcheck %s --tier thorough" % pid,
                "evidence_file": "evidence/%s.json" % pid,
                "replay_cmd_template": "bin/vcheck %s --replay {path}" % pid,
                "engine": "vcheck",
                "level_claimed": {"category": c.get("category", "proof"), "text": c["text"],
                                  "design_ref": c.get("design_ref", "DESIGN.md 5 " + pid)},
                "level_note": c["note"],
                "technique": c["technique"],
            })
        else:
            man["not_applicable"].append({"property_id": pid, "reason": PENDING_REASON})
    out = os.path.join(HERE, "MANIFEST.json")
    json.dump(man, open(out, "w"), indent=1)
    try:
        import jsonschema
        jsonschema.validate(man, json.load(open("/root/.vp/MANIFEST.schema.json")))
        print("MANIFEST.json valid; claimed:", " ".join(sorted(claims)))
    except ImportError:
        print("MANIFEST.json written (jsonschema not importable here); claimed:", " ".join(sorted(claims)))


if __name__ == "__main__":
    main()
