#!/usr/bin/env python3
"""mkseedprompt.py <ID> [n]  -> writes /tmp/seed/PROMPT-<ID>.txt for an independent bug-seeding agent.
The prompt contains only the property's text (no information about the verification machinery)."""
import json, sys, os
pid = sys.argv[1]; n = int(sys.argv[2]) if len(sys.argv) > 2 else 2
k0 = int(sys.argv[3]) if len(sys.argv) > 3 else 1   # first index of the output directories
import glob
prev = []
for mp in sorted(glob.glob('/verif/seeded/%s-*/meta.json' % pid)):
    m = json.load(open(mp)); prev.append("- " + str(m.get("what_changed", ""))[:300].replace("\n", " "))
prevtxt = ("\nALREADY TRIED by earlier testers (do NOT repeat these or close variants; pick other functions, other clauses of the property, other mechanisms):\n" + "\n".join(prev) + "\n") if prev else ""
p = [json.loads(l) for l in open('/verif/properties.jsonl') if json.loads(l)['id'] == pid][0]
txt = f"""You are testing how well a semantic property of the C++ library ospray/rkcommon is protected against regressions.
You have your own scratch git worktree of the library at /tmp/seed/{pid} (work ONLY there; never touch /repo; do NOT read or
list anything under /verif — your work must be independent of it). No network.

THE PROPERTY ({pid}: {p['title']})
{p['statement']}
It must hold for: {p['quantifier']['text']}
Why the existing unit tests cannot settle it: {p['why_tests_cant']}
Code it is anchored in: {', '.join(p['anchors']['files'])}

{prevtxt}
YOUR TASK: produce {n} DIFFERENT, independent source changes to the library (each one separately, starting from the clean
worktree), each of which
  (a) BREAKS the property above (some clause of it) — a realistic slip a developer could make during a refactoring or
      "optimisation" (off-by-one, wrong operator, swapped arguments/indices, dropped step, wrong order of two operations,
      a check moved outside a lock, a special case handled wrongly ...), confined to the anchored files (or files they include);
  (b) still COMPILES, and the library's existing unit-test suite still PASSES unchanged:
        cmake -G Ninja -S /tmp/seed/{pid} -B /tmp/seed/{pid}/_b -DCMAKE_BUILD_TYPE=RelWithDebInfo -DBUILD_TESTING=ON -DRKCOMMON_TASKING_SYSTEM=TBB
        cmake --build /tmp/seed/{pid}/_b && ctest --test-dir /tmp/seed/{pid}/_b -j8 --timeout 900
      (do not edit anything under tests/);
  (c) needs something SPECIFIC to manifest — a particular interleaving, a multi-step sequence of operations, an unusual or
      boundary input, a particular type/configuration, or two cooperating sites that each look fine alone — NOT something
      that ordinary use would expose at once. Prefer subtle over blatant; the {n} changes should break different clauses
      or manifest through different mechanisms.
For each change also write a DEMONSTRATION: a small stand-alone C++11 program (demo.cpp, compiled directly against the
worktree's headers/sources, e.g.
   g++ -std=c++11 -O1 -g -I/tmp/seed/{pid} -I/tmp/seed/{pid}/_b demo.cpp <needed rkcommon .cpp files> -lpthread [-ltbb -ltbbmalloc -DRKCOMMON_TASKING_TBB] [-ldl] [-fsanitize=address,undefined]
 — rkcommon/version.h is generated into the _b build dir) that exits 0 on the UNCHANGED worktree and exits non-zero (or is
killed by a sanitizer / times out, say which) WITH the change. Verify both directions yourself.

DELIVER, for change k = {k0}..{k0+n-1}, a directory /tmp/seedout/{pid}-k/ containing:
  patch.diff   (git -C /tmp/seed/{pid} diff  — relative to the clean worktree, applies with `git apply`)
  demo.cpp     and  run.sh (the exact compile+run command line, parameterised by the tree path as $1, exit status = demo's)
  meta.json    {{"property": "{pid}", "clause_broken": "...", "what_changed": "...", "needs_to_manifest": "...",
                "unit_tests_pass": true, "demo_fails_with_change": true, "demo_passes_without": true, "commands_run": ["..."]}}
Never use `git stash` (the stash is shared by all worktrees of the repository). After saving each patch, restore the worktree (git -C /tmp/seed/{pid} checkout -- . ) before starting the next change.
At the end leave the worktree clean (you may leave the _b build directory). Budget: about 45 minutes.
Final answer: 3-4 lines per change (what, why it passes the tests, what it needs to manifest)."""
os.makedirs('/tmp/seed', exist_ok=True)
open(f'/tmp/seed/PROMPT-{pid}.txt', 'w').write(txt)
print("written /tmp/seed/PROMPT-%s.txt" % pid)
