"""Inventory closure helper (C02, C13): enumerate, from the clang JSON AST of a translation unit under a given backend
define, every declaration that lies in one of the anchored files: namespace-level functions / function templates / alias
templates / variables, classes (also local classes inside function templates) and all their written members.
A declaration is (file, kind, qualified name, signature)."""
import os, subprocess, sys
HERE = os.path.dirname(os.path.abspath(__file__))
sys.path.insert(0, os.path.join(os.path.dirname(HERE), "cxx2coq"))
import astutil


def kids(n):
    return [c for c in (n.get("inner") or []) if isinstance(c, dict) and c]


def dump(repo, inc, src, flt, out, defs=()):
    cmd = ["clang++", "-std=c++11", "-fsyntax-only", "-I" + repo, "-I" + inc] + list(defs) + \
          ["-Xclang", "-ast-dump=json", "-Xclang", "-ast-dump-filter=" + flt, src]
    os.makedirs(os.path.dirname(out), exist_ok=True)
    with open(out, "w") as f:
        p = subprocess.run(cmd, stdout=f, stderr=subprocess.PIPE, timeout=180, universal_newlines=True)
    if p.returncode != 0:
        raise RuntimeError("clang failed on %s %s: %s" % (src, defs, p.stderr[-1200:]))
    return astutil.load_docs(out)


class _FileTracker:
    """clang prints "file" in a source location only when it differs from the previously printed one"""
    def __init__(self, main):
        self.cur = main

    def see(self, n):
        for key in ("loc", "range"):
            v = n.get(key)
            if not isinstance(v, dict):
                continue
            for sub in ([v] if key == "loc" else [v.get("begin") or {}, v.get("end") or {}]):
                for s in (sub, sub.get("spellingLoc") or {}, sub.get("expansionLoc") or {}):
                    if isinstance(s, dict) and s.get("file"):
                        self.cur = s["file"]
        return self.cur


def _sig(n):
    return (n.get("type") or {}).get("qualType", "")


def _members(rec, prefix, out, f):
    for c in kids(rec):
        k = c.get("kind")
        if c.get("isImplicit"):
            continue
        nm = c.get("name", "")
        if k == "FieldDecl":
            out.append((f, "field", prefix + nm, _sig(c)))
        elif k == "CXXConstructorDecl":
            out.append((f, "ctor", prefix + "<ctor>", _sig(c) + (" =delete" if c.get("explicitlyDeleted") else "") + (" =default" if c.get("explicitlyDefaulted") else "")))
            _locals(c, prefix + "<ctor>()::", out, f)
        elif k == "CXXDestructorDecl":
            out.append((f, "dtor", prefix + "<dtor>", _sig(c) + (" virtual" if c.get("virtual") else "") + (" =default" if c.get("explicitlyDefaulted") else "")))
        elif k in ("CXXMethodDecl", "CXXConversionDecl"):
            out.append((f, "method", prefix + nm, _sig(c) + (" virtual" if c.get("virtual") else "") + (" =delete" if c.get("explicitlyDeleted") else "")))
            _locals(c, prefix + nm + "()::", out, f)
        elif k == "FunctionTemplateDecl":
            pat = [x for x in kids(c) if x.get("kind") in ("CXXMethodDecl", "CXXConstructorDecl")]
            if pat:
                out.append((f, "method-template", prefix + nm, _sig(pat[0])))
        elif k == "CXXRecordDecl" and c.get("completeDefinition"):
            out.append((f, "class", prefix + nm, c.get("tagUsed", "struct") + _bases(c)))
            _members(c, prefix + nm + "::", out, f)
        elif k in ("TypeAliasDecl", "TypedefDecl"):
            out.append((f, "alias", prefix + nm, _sig(c)))
        elif k == "VarDecl":
            out.append((f, "static-member", prefix + nm, _sig(c)))


def _bases(rec):
    b = [x.get("type", {}).get("qualType", "") for x in (rec.get("bases") or [])]
    return (" : " + ", ".join(b)) if b else ""


def _locals(fn, prefix, out, f):
    """classes defined inside a function body, and lambdas are not declarations of their own"""
    for x, ps in astutil.walk(fn):
        if x is fn:
            continue
        if x.get("kind") == "CXXRecordDecl" and x.get("completeDefinition") and x.get("name") and \
                not any(p.get("kind") == "LambdaExpr" for p in ps) and not any(p.get("kind") == "CXXRecordDecl" and p is not x for p in ps[ps.index(fn) + 1:] if p is not fn):
            out.append((f, "class", prefix + x["name"], x.get("tagUsed", "struct") + _bases(x)))
            _members(x, prefix + x["name"] + "::", out, f)


def _scan(n, prefix, out, f, track):
    for c in kids(n):
        f = track.see(c)
        k = c.get("kind")
        nm = c.get("name", "")
        if k == "NamespaceDecl":
            _scan(c, prefix + nm + "::", out, f, track)
            continue
        if c.get("isImplicit") or c.get("previousDecl") and k in ("CXXMethodDecl", "CXXConstructorDecl", "CXXDestructorDecl"):
            continue
        if k == "FunctionDecl":
            out.append((f, "function", prefix + nm, _sig(c)))
            _locals(c, prefix + nm + "()::", out, f)
        elif k == "FunctionTemplateDecl":
            pats = [x for x in kids(c) if x.get("kind") == "FunctionDecl"]
            if pats:
                out.append((f, "function-template", prefix + nm, _sig(pats[0])))
                _locals(pats[0], prefix + nm + "()::", out, f)
        elif k == "ClassTemplateDecl":
            recs = [x for x in kids(c) if x.get("kind") == "CXXRecordDecl" and x.get("completeDefinition")]
            if recs:
                out.append((f, "class-template", prefix + nm, recs[0].get("tagUsed", "struct") + _bases(recs[0])))
                _members(recs[0], prefix + nm + "::", out, f)
        elif k == "CXXRecordDecl" and c.get("completeDefinition"):
            out.append((f, "class", prefix + nm, c.get("tagUsed", "struct") + _bases(c)))
            _members(c, prefix + nm + "::", out, f)
        elif k in ("TypeAliasTemplateDecl",):
            al = [x for x in kids(c) if x.get("kind") == "TypeAliasDecl"]
            out.append((f, "alias-template", prefix + nm, _sig(al[0]) if al else ""))
        elif k in ("TypeAliasDecl", "TypedefDecl"):
            out.append((f, "alias", prefix + nm, _sig(c)))
        elif k == "VarDecl":
            out.append((f, "variable", prefix + nm, _sig(c) + (" static" if c.get("storageClass") == "static" else "")))
        elif k in ("CXXMethodDecl", "CXXConstructorDecl", "CXXDestructorDecl"):
            # out-of-class definition of a member: same entity as the in-class declaration, but its body may define local classes
            _locals(c, prefix + "%s()::" % nm, out, f)


def enumerate_decls(docs, main_file, anchors, ns_prefix=""):
    """docs: the filtered dump (one document per matched declaration, in source order).
    anchors: repo-relative paths; returns sorted unique list of (anchor, kind, name, sig)"""
    track = _FileTracker(main_file)
    raw = []
    for d in docs:
        f = track.see(d)
        if d.get("kind") == "NamespaceDecl":
            _scan(d, ns_prefix + d.get("name", "") + "::", raw, f, track)
        elif d.get("kind") in ("CXXMethodDecl", "CXXConstructorDecl", "CXXDestructorDecl") and kids(d):
            # enki::TaskScheduler members defined in the .cpp: listed by name
            parent = "enki::TaskScheduler::"
            raw.append((f, "member-definition", parent + d.get("name", ""), _sig(d)))
    out = set()
    for f, k, nm, sg in raw:
        f = os.path.normpath(f) if f else f
        for a in anchors:
            if f and f.endswith(a):
                out.add((a.split("rkcommon/tasking/")[-1], k, nm, sg))
    return sorted(out)


def inventory_union(repo, inc, work, units, anchors, ns_prefix="rkcommon::", strip="rkcommon::tasking::"):
    """units: list of (tag, source path, filter, defs).  Returns dict decl -> sorted list of tags where it is declared;
    decl = (file, kind, name, sig) with the common namespace prefix stripped"""
    from concurrent.futures import ThreadPoolExecutor
    def one(u):
        tag, src, flt, defs = u
        docs = dump(repo, inc, src, flt, os.path.join(work, "inv_%s_%s.json" % (tag, os.path.basename(src))), defs)
        return tag, enumerate_decls(docs, src, anchors, ns_prefix)
    res = {}
    with ThreadPoolExecutor(max_workers=4) as ex:
        for tag, decls in ex.map(one, units):
            for (f, k, nm, sg) in decls:
                key = (f, k, nm.replace(strip, ""), sg.replace(strip, ""))
                res.setdefault(key, set()).add(tag.split(":")[0])
    return {k: sorted(v) for k, v in res.items()}
