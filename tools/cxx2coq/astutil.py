import json
def load_docs(path):
    txt = open(path).read()
    dec = json.JSONDecoder()
    i = 0; docs = []
    n = len(txt)
    while i < n:
        while i < n and txt[i] in ' \n\r\t': i += 1
        if i >= n: break
        if txt[i] != '{':
            j = txt.find('\n', i)
            if j < 0: break
            i = j + 1; continue
        d, j = dec.raw_decode(txt, i); docs.append(d); i = j
    return docs
def walk(n, parents=()):
    yield n, parents
    for c in n.get('inner', []) or []:
        if isinstance(c, dict):
            yield from walk(c, parents + (n,))
def show(n, ind=0, maxd=40):
    if ind > maxd: return
    keys = ['name', 'opcode', 'value', 'castKind', 'valueCategory', 'isPostfix', 'mangledName']
    s = ' '.join('%s=%s' % (k, n[k]) for k in keys if k in n)
    t = n.get('type', {}).get('qualType', '')
    ref = n.get('referencedDecl') or n.get('referencedMemberDecl')
    if isinstance(ref, dict): ref = '%s:%s:%s' % (ref.get('kind'), ref.get('name'), ref.get('id'))
    print('  ' * ind + n.get('kind', '?') + ' ' + s + (' :: ' + t if t else '') + (' -> ' + str(ref) if ref else '') + (' id=' + n['id'] if n.get('kind', '').endswith('Decl') else ''))
    for c in n.get('inner', []) or []:
        if isinstance(c, dict) and c: show(c, ind + 1, maxd)
