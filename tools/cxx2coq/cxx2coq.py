#!/usr/bin/env python3
"""cxx2coq: translate the pure expression-level C++ of rkcommon headers into Gallina.

Input : an instantiation translation unit (tools/cxx2coq/inst/*.cpp) which includes the
        headers of /repo and forces instantiation of the functions of interest.
        It is dumped with clang++ -std=c++11 -fsyntax-only -Xclang -ast-dump=json
        -Xclang -ast-dump-filter=rkcommon and the JSON is walked here.
Output: one .v file: Records for every class (fields in declaration order) and one
        Definition per instantiated (non-dependent) function, as a shallow embedding over
        Common.CxxSem.interp: every arithmetic operation, comparison, cast and literal is
        explicit and carries its C type.  Anything outside the supported subset is emitted as
        a comment  (* UNSUPPORTED name: reason *)  -- fail closed: theorems that need it break.

Supported subset: see DESIGN.md 2.1 (Tie A).
"""
import json
import os
import re
import subprocess
import sys
from fractions import Fraction

sys.path.insert(0, os.path.dirname(os.path.abspath(__file__)))
from astutil import load_docs  # noqa

SCALARS = {
    'bool': 'TBool', 'char': 'I8', 'signed char': 'I8', 'unsigned char': 'U8',
    'short': 'I16', 'unsigned short': 'U16', 'int': 'I32', 'unsigned int': 'U32',
    'long': 'I64', 'unsigned long': 'U64', 'long long': 'I64', 'unsigned long long': 'U64',
    'float': 'F32', 'double': 'F64',
}
ABBR = {'TBool': 'b', 'I8': 'c', 'U8': 'uc', 'I16': 's', 'U16': 'us', 'I32': 'i', 'U32': 'u',
        'I64': 'l', 'U64': 'ul', 'F32': 'f', 'F64': 'd'}
BINOPS = {'+': 'Add', '-': 'Sub', '*': 'Mul', '/': 'Div', '%': 'Rem', '&': 'BAnd', '|': 'BOr',
          '^': 'BXor', '<<': 'Shl', '>>': 'Shr'}
CMPOPS = {'<': 'Lt', '<=': 'Le', '>': 'Gt', '>=': 'Ge', '==': 'Eq', '!=': 'Ne'}
OPNAMES = {'+': 'add', '-': 'sub', '*': 'mul', '/': 'div', '%': 'rem', '+=': 'add_assign', '-=': 'sub_assign',
           '*=': 'mul_assign', '/=': 'div_assign', '%=': 'rem_assign', '==': 'eq', '!=': 'ne', '<': 'lt',
           '<=': 'le', '>': 'gt', '>=': 'ge', '[]': 'index', '()': 'call', '=': 'assign', '!': 'not',
           '~': 'bnot', '&': 'band', '|': 'bor', '^': 'bxor', '<<': 'shl', '>>': 'shr', '++': 'inc',
           '--': 'dec', '&&': 'land', '||': 'lor', '->': 'arrow', '&=': 'band_assign', '|=': 'bor_assign',
           '^=': 'bxor_assign', '<<=': 'shl_assign', '>>=': 'shr_assign'}
LIBFNS = {  # (name, nargs) -> libfn
    ('min', 2): 'LMin', ('max', 2): 'LMax', ('abs', 1): 'LAbs', ('fabs', 1): 'LAbs', ('fabsf', 1): 'LAbs',
    ('sqrt', 1): 'LSqrt', ('sqrtf', 1): 'LSqrt', ('sin', 1): 'LSin', ('sinf', 1): 'LSin',
    ('cos', 1): 'LCos', ('cosf', 1): 'LCos', ('tan', 1): 'LTan', ('tanf', 1): 'LTan',
    ('acos', 1): 'LAcos', ('acosf', 1): 'LAcos', ('asin', 1): 'LAsin', ('asinf', 1): 'LAsin',
    ('atan', 1): 'LAtan', ('atanf', 1): 'LAtan', ('atan2', 2): 'LAtan2', ('atan2f', 2): 'LAtan2',
    ('pow', 2): 'LPow', ('powf', 2): 'LPow', ('exp', 1): 'LExp', ('expf', 1): 'LExp', ('log', 1): 'LLog',
    ('logf', 1): 'LLog', ('round', 1): 'LRound', ('roundf', 1): 'LRound', ('floor', 1): 'LFloor',
    ('floorf', 1): 'LFloor', ('ceil', 1): 'LCeil', ('ceilf', 1): 'LCeil', ('fmod', 2): 'LFmod',
    ('fmodf', 2): 'LFmod', ('isnan', 1): 'LIsNan',
    ('infinity', 0): 'LOther 0', ('max', 0): 'LOther 1', ('min', 0): 'LOther 2', ('lowest', 0): 'LOther 3',
    ('epsilon', 0): 'LOther 4', ('quiet_NaN', 0): 'LOther 5',
}
COQ_RESERVED = set('in at as end fun if then else let match return with using where for fix forall exists Set Prop Type S I'.split())


class Unsupported(Exception):
    pass


def strip_enable_if(s):
    while True:
        i = s.find('std::enable_if<')
        if i < 0:
            i = s.find('enable_if<')
            if i < 0:
                return s
        j = s.find('<', i)
        depth = 0
        k = j
        while k < len(s):
            if s[k] == '<': depth += 1
            elif s[k] == '>':
                depth -= 1
                if depth == 0:
                    break
            k += 1
        tail = s[k + 1:]
        if tail.startswith('::type'):
            tail = tail[len('::type'):]
        s = s[:i] + 'void' + tail


def clean_type(s):
    s = strip_enable_if(s.strip())
    changed = True
    while changed:
        changed = False
        for pre in ('const ', 'volatile ', 'struct ', 'class ', 'typename '):
            if s.startswith(pre):
                s = s[len(pre):]; changed = True
        for suf in (' &&', ' &', '&&', '&', ' const', ' volatile'):
            if s.endswith(suf):
                s = s[:-len(suf)].strip(); changed = True
    return s


def split_targs(s):
    """'a<b, c<d, e>>' -> ('a', ['b', 'c<d, e>'])"""
    i = s.find('<')
    if i < 0 or not s.endswith('>'):
        return s, None
    name, body = s[:i], s[i + 1:-1]
    args, depth, cur = [], 0, ''
    for ch in body:
        if ch == '<': depth += 1
        if ch == '>': depth -= 1
        if ch == ',' and depth == 0:
            args.append(cur.strip()); cur = ''
        else:
            cur += ch
    if cur.strip():
        args.append(cur.strip())
    return name, args


def norm_type_key(s):
    """Canonical key of a class type string: last name component + normalised args."""
    s = clean_type(s)
    name, args = split_targs(s)
    name = name.split('::')[-1]
    if args is None:
        return name
    na = []
    for a in args:
        a = clean_type(a)
        if a == 'false': a = '0'
        if a == 'true': a = '1'
        if '<' in a:
            a = norm_type_key(a)
        else:
            a = a.split('::')[-1] if a not in SCALARS else a
        na.append(a)
    return name + '<' + ','.join(na) + '>'


class Record:
    def __init__(self, rid, cname, key):
        self.id = rid
        self.cname = cname          # C++ class name
        self.key = key              # canonical type key
        self.fields = []            # [(name, fieldId, typeinfo, node)]
        self.coq = None
        self.abbr = None
        self.ctors = []             # Function objects
        self.bases = []


class Function:
    def __init__(self, node, rec, kind):
        self.node = node
        self.rec = rec              # Record or None
        self.kind = kind            # 'fn' | 'method' | 'ctor' | 'conv'
        self.ids = {node['id']}
        self.name = node.get('name', '')
        self.coq = None
        self.params = []            # [(coqname, id, typeinfo, node)]
        self.state = None           # None | 'this' | index of the state parameter
        self.retmode = 'value'      # 'value' | 'state'
        self.deps = set()
        self.text = None
        self.error = None
        self.scope = []
        self.is_const = False
        self.rettype = None


class Translator:
    def __init__(self, docs):
        self.docs = docs
        self.records = {}       # id -> Record
        self.rec_by_key = {}    # key -> Record
        self.field_owner = {}   # FieldDecl id -> (Record, index)
        self.funcs = []         # Function list
        self.func_by_id = {}    # decl id -> Function
        self.prev = {}          # id -> previousDecl id
        self.decl_nodes = {}    # id -> node (functions/methods incl. declarations w/o body)
        self.global_vars = {}   # VarDecl id -> node (namespace-scope variables)
        self.typedefs = {'size_t': 'unsigned long', 'uint8_t': 'unsigned char', 'int8_t': 'signed char',
                         'uint16_t': 'unsigned short', 'int16_t': 'short', 'uint32_t': 'unsigned int', 'int32_t': 'int',
                         'uint64_t': 'unsigned long', 'int64_t': 'long', 'ssize_t': 'long', 'ptrdiff_t': 'long'}
        self.collect()

    # -------------------------------------------------------------- collection
    def collect(self):
        for self.phase in (1, 2):
            for d in self.docs:
                self.visit(d, [], None, False)
        # link redeclarations
        for f in list(self.funcs):
            i = f.node['id']
            seen = set()
            while i in self.prev and i not in seen:
                seen.add(i)
                i = self.prev[i]
                f.ids.add(i)
                self.func_by_id.setdefault(i, f)
        # record names: class name (+ numeric template args); the shapes of the fields are appended only when
        # several specialisations of one class have different shapes
        self.groups = {}
        for r in set(self.records.values()):
            if r.cname == 'vec_t':
                continue
            vals = [str(a.get('value')) for a in getattr(r, 'targs', []) if 'value' in a]
            base = r.cname + ''.join(vals)
            self.groups.setdefault(base, set()).add(r)
        for r in self.records.values():
            self.name_record(r)

    def visit(self, n, scope, rec, dependent):
        k = n.get('kind')
        if k == 'NamespaceDecl':
            sc = scope + [n.get('name', '')]
            for c in n.get('inner', []) or []:
                self.visit(c, sc, rec, dependent)
            return
        if k in ('ClassTemplateDecl',):
            first = True
            for c in n.get('inner', []) or []:
                ck = c.get('kind')
                if ck == 'CXXRecordDecl' and first:
                    first = False
                    self.visit(c, scope, rec, True)      # the pattern
                elif ck in ('ClassTemplateSpecializationDecl',):
                    self.visit(c, scope, rec, dependent)
            return
        if k == 'ClassTemplatePartialSpecializationDecl':
            return
        if k in ('CXXRecordDecl', 'ClassTemplateSpecializationDecl'):
            if dependent:
                return
            if not n.get('inner'):
                return
            self.visit_record(n, scope)
            return
        if k == 'FunctionTemplateDecl':
            first = True
            for c in n.get('inner', []) or []:
                ck = c.get('kind')
                if ck in ('FunctionDecl', 'CXXMethodDecl', 'CXXConstructorDecl', 'CXXConversionDecl'):
                    if first:
                        first = False
                        continue                       # the pattern (dependent)
                    self.visit(c, scope, rec, dependent)
            return
        if k in ('FunctionDecl', 'CXXMethodDecl', 'CXXConstructorDecl', 'CXXConversionDecl'):
            if dependent:
                return
            if self.phase == 1:
                return
            if rec is None and k != 'FunctionDecl':
                # out-of-line member definition: concrete only if its class is a concrete record
                if n.get('parentDeclContextId') not in self.records:
                    return
            self.visit_function(n, scope, rec)
            return
        if k in ('TypedefDecl', 'TypeAliasDecl') and not dependent:
            t = n.get('type', {})
            self.typedefs[n.get('name')] = t.get('desugaredQualType') or t.get('qualType')
            return
        if k == 'VarDecl' and rec is None:
            self.global_vars[n['id']] = n
            return
        if self.phase == 2 and k in ('TypedefDecl', 'TypeAliasDecl'):
            return
        if k in ('LinkageSpecDecl',):
            for c in n.get('inner', []) or []:
                self.visit(c, scope, rec, dependent)

    def visit_record(self, n, scope):
        targs = [c for c in n.get('inner', []) or [] if c.get('kind') == 'TemplateArgument']
        name = n.get('name', '')
        if targs:
            parts = []
            for a in targs:
                if 'type' in a:
                    parts.append(a['type'].get('desugaredQualType') or a['type']['qualType'])
                elif 'value' in a:
                    parts.append(str(a['value']))
                else:
                    parts.append('?')
            key = norm_type_key(name + '<' + ', '.join(parts) + '>')
        else:
            key = name
        r = self.records.get(n['id'])
        if r is None:
            r = self.rec_by_key.get(key)
        if r is None:
            r = Record(n['id'], name, key)
            r.scope = scope
            r.targs = targs
        self.records[n['id']] = r
        self.rec_by_key.setdefault(key, r)
        if 'previousDecl' in n and n['previousDecl'] in self.records:
            pass
        have_fields = bool(r.fields)
        for b in n.get('bases', []) or []:
            bt = b.get('type', {})
            r.bases.append(bt.get('desugaredQualType') or bt.get('qualType'))
        for c in n.get('inner', []) or []:
            ck = c.get('kind')
            if ck in ('TypeAliasDecl', 'TypedefDecl'):
                # (C06, additive) member typedefs of a concrete record: used to resolve 'X<..>::Name' parameter types
                if not hasattr(r, 'member_types'):
                    r.member_types = {}
                r.member_types.setdefault(c.get('name'), c.get('type', {}))
                continue
            if ck == 'FieldDecl' and not have_fields and self.phase == 1:
                r.fields.append([c.get('name', ''), c['id'], c.get('type', {}), c])
                self.field_owner[c['id']] = (r, len(r.fields) - 1)
            elif ck in ('CXXMethodDecl', 'CXXConstructorDecl', 'CXXConversionDecl', 'FunctionTemplateDecl',
                        'CXXRecordDecl', 'ClassTemplateDecl'):
                if ck == 'CXXRecordDecl' and c.get('isImplicit'):
                    continue
                self.visit(c, scope + [name], r, False)

    def visit_function(self, n, scope, rec):
        if self.phase == 1:
            return
        self.decl_nodes[n['id']] = n
        if 'previousDecl' in n:
            self.prev[n['id']] = n['previousDecl']
        if rec is None and 'parentDeclContextId' in n and n['parentDeclContextId'] in self.records:
            rec = self.records[n['parentDeclContextId']]
        k = n.get('kind')
        has_body = any(c.get('kind') == 'CompoundStmt' for c in n.get('inner', []) or [])
        if n.get('isImplicit') or n.get('explicitlyDefaulted') or n.get('explicitlyDeleted'):
            if k == 'CXXConstructorDecl' and rec is not None:
                f = Function(n, rec, 'ctor'); f.implicit = True; f.scope = scope
                rec.ctors.append(f)
            return
        if not has_body:
            return
        kind = {'FunctionDecl': 'fn', 'CXXMethodDecl': 'method', 'CXXConstructorDecl': 'ctor', 'CXXConversionDecl': 'conv'}[k]
        if kind in ('method', 'conv') and n.get('storageClass') == 'static':
            kind = 'fn'
        if kind == 'method' and self.decl_nodes.get(n.get('previousDecl'), {}).get('storageClass') == 'static':
            kind = 'fn'     # (C06, additive) out-of-line definition / explicit specialisation of a static member
        f = Function(n, rec, kind)
        f.implicit = False
        f.scope = scope
        if n['id'] in self.func_by_id:
            return
        self.funcs.append(f)
        self.func_by_id[n['id']] = f
        if kind == 'ctor' and rec is not None:
            rec.ctors.append(f)

    # ------------------------------------------------------------------ types
    def typeinfo(self, t, depth=0):
        """type dict -> ('scalar', ctype) | ('rec', Record) | ('void',) | ('ptr', str) | ('unknown', str)"""
        if not t:
            return ('unknown', '')
        q = t.get('desugaredQualType') or t.get('qualType') or ''
        c = clean_type(q)
        if c in SCALARS:
            return ('scalar', SCALARS[c])
        if c == 'void':
            return ('void',)
        if c.endswith('*') or c.endswith(']'):
            return ('ptr', c)
        if '<dependent type>' in c:
            return ('unknown', c)
        r = self.lookup_record(c)
        if r is not None:
            return ('rec', r)
        last = c.split('::')[-1]
        if '<' not in c and last in self.typedefs and depth < 6:
            return self.typeinfo({'qualType': self.typedefs[last]}, depth + 1)
        # (C06, additive) member typedef of a known record: 'X<..>::Name' (possibly nested: 'X<..>::Vector::Scalar')
        mm = re.match(r'^(.*>(?:::\w+)*)::(\w+)$', c)
        if mm and depth < 6:
            pre = self.typeinfo({'qualType': mm.group(1)}, depth + 1)
            if pre[0] == 'rec' and mm.group(2) in getattr(pre[1], 'member_types', {}):
                return self.typeinfo(pre[1].member_types[mm.group(2)], depth + 1)
        # try the sugared name (typedef to a known record)
        c2 = clean_type(t.get('qualType') or '')
        if c2 != c:
            return self.typeinfo({'qualType': c2}, depth + 1)
        return ('unknown', c)

    def lookup_record(self, c):
        key = self.resolve_key(norm_type_key(c))
        r = self.rec_by_key.get(key)
        if r is not None:
            return r
        name, args = split_targs(key)
        if args is None:
            return None
        for k2, r2 in self.rec_by_key.items():
            n2, a2 = split_targs(k2)
            if n2 == name and a2 is not None and len(a2) > len(args) and a2[:len(args)] == args and all(x in ('0', 'void') for x in a2[len(args):]):
                return r2
        return None

    def resolve_key(self, key):
        """replace typedef names inside template arguments (size_t -> unsigned long ...)"""
        name, args = split_targs(key)
        if args is None:
            return key
        na = []
        for a in args:
            if '<' in a:
                a = self.resolve_key(a)
                r = None
                n2, a2 = split_targs(a)
                # pad defaults so nested keys are canonical
                for k2 in self.rec_by_key:
                    n3, a3 = split_targs(k2)
                    if n3 == n2 and a3 is not None and a2 is not None and len(a3) > len(a2) and a3[:len(a2)] == a2 and all(x in ('0', 'void') for x in a3[len(a2):]):
                        a = k2
                        break
            elif a in self.typedefs and self.typedefs[a] in SCALARS:
                a = self.typedefs[a]
            elif a in self.typedefs:
                a = self.resolve_key(norm_type_key(self.typedefs[a]))
            na.append(a)
        return name + '<' + ','.join(na) + '>' 

    def is_nonconst_ref(self, t):
        q = (t.get('qualType') or '').strip()
        return q.endswith('&') and not q.endswith('&&') and not clean_type(q) != clean_type(q) and not q.startswith('const ')

    def name_record(self, r):
        if r.coq:
            return
        name = r.cname
        if name == 'vec_t':
            vals = [a.get('value') for a in r.targs]
            n = vals[1] if len(vals) > 1 else '?'
            al = vals[2] if len(vals) > 2 else 0
            et = r.targs[0].get('type', {})
            eti = self.typeinfo(et)
            r.coq = 'vec%s%s' % (n, 'a' if al else '')
            r.abbr = 'v%s%s%s' % (n, 'a' if al else '', ABBR.get(eti[1], 'x') if eti[0] == 'scalar' else 'x')
        else:
            sub = []
            ab = []
            for (fname, fid, ft, fn) in r.fields:
                ti = self.typeinfo(ft)
                if ti[0] == 'rec':
                    self.name_record(ti[1])
                    if ti[1].coq not in sub:
                        sub.append(ti[1].coq)
                    if ti[1].abbr not in ab:
                        ab.append(ti[1].abbr)
                elif ti[0] == 'scalar':
                    if ABBR[ti[1]] not in ab:
                        ab.append(ABBR[ti[1]])
            vals = [str(a.get('value')) for a in getattr(r, 'targs', []) if 'value' in a]
            base = name + ''.join(vals)
            grp = [x for x in self.groups.get(base, [r]) if x.fields]
            r.coq = base + (''.join('_' + s for s in sub) if len(grp) > 1 and sub else ('_s' if len(grp) > 1 else ''))
            r.abbr = base + (''.join('_' + s for s in ab) if len(grp) > 1 else '')
        r.coq = re.sub(r'\W', '_', r.coq)
        r.abbr = re.sub(r'\W', '_', r.abbr)

    def rec_fields(self, r):
        """fields that are modelled (padding fields are dropped)"""
        return [(i, f) for i, f in enumerate(r.fields) if not f[0].startswith('padding')]

    def coq_type(self, ti):
        if ti[0] == 'scalar':
            return 'bool' if ti[1] == 'TBool' else 'S I'
        if ti[0] == 'rec':
            if not self.rec_fields(ti[1]):
                return 'unit'
            if not self.record_ok(ti[1]):
                raise Unsupported('record %s has fields outside the subset' % ti[1].coq)
            return '%s I' % ti[1].coq
        raise Unsupported('type %s' % (ti,))

    def record_ok(self, r, depth=0):
        if hasattr(r, 'ok'):
            return r.ok
        ok = True
        for _, f in self.rec_fields(r):
            ti = self.typeinfo(f[2])
            if ti[0] == 'scalar':
                continue
            if ti[0] == 'rec' and depth < 8 and self.record_ok(ti[1], depth + 1):
                continue
            ok = False
        for b in r.bases:
            bt = self.typeinfo({'qualType': b})
            if bt[0] == 'rec' and not self.rec_fields(bt[1]):
                continue
            if b and clean_type(b).split('::')[-1] in ('vec_base',):
                continue
            ok = False
        r.ok = ok
        return ok

    def abbr_type(self, t):
        ti = self.typeinfo(t)
        if ti[0] == 'scalar':
            return ABBR[ti[1]]
        if ti[0] == 'rec':
            return ti[1].abbr
        if ti[0] == 'ptr':
            return 'p'
        return 'x'

    # ------------------------------------------------------------------ names
    def name_functions(self):
        used = {}
        dm = demangle_all([f.node.get('mangledName') for f in self.funcs])
        for f in self.funcs:
            f.dm = demangled_params(dm.get(f.node.get('mangledName'), '') or '')
            params = [c for c in f.node.get('inner', []) or [] if c.get('kind') == 'ParmVarDecl']
            if f.dm and len(f.dm[0]) == len(params):
                for p, d in zip(params, f.dm[0]):
                    ref = '&' if d.endswith('&') else ''
                    cst = 'const ' if re.search(r'\bconst\s*&*$', d) else ''
                    p['ctype'] = {'qualType': cst + clean_type(d) + (' ' + ref if ref else '')}
            else:
                for p in params:
                    p['ctype'] = p.get('type', {})
            if f.dm:
                f.is_const = f.dm[1]
        for f in self.funcs:
            n = f.node
            nm = n.get('name', '')
            if f.kind == 'ctor':
                base = 'mk'
            elif f.kind == 'conv':
                base = 'conv_' + self.abbr_type(n.get('type', {}) and {'qualType': n['type']['qualType'].split('(')[0].strip()})
            elif nm.startswith('operator'):
                op = nm[len('operator'):].strip()
                base = 'op_' + OPNAMES.get(op, re.sub(r'\W', '_', op))
            else:
                base = nm
            scope = [s for s in f.scope if s not in ('rkcommon', 'math', '')]
            parts = []
            if f.rec is not None:
                scope = [s for s in scope if s != f.rec.cname]
                parts = scope + [f.rec.abbr, base]
            else:
                parts = scope + [base]
            params = [c for c in n.get('inner', []) or [] if c.get('kind') == 'ParmVarDecl']
            sig = '_'.join(self.abbr_type(p.get('ctype', p.get('type', {}))) for p in params)
            # unary minus vs binary: the signature already disambiguates
            coq = '_'.join(parts) + '__' + sig
            if f.kind in ('method', 'conv') and 'const' in (n.get('type', {}).get('qualType', '').rsplit(')', 1)[-1]):
                f.is_const = True
            coq = re.sub(r'\W', '_', coq)
            if coq in used:
                k = 2
                while '%s_%d' % (coq, k) in used:
                    k += 1
                coq = '%s_%d' % (coq, k)
            used[coq] = f
            f.coq = coq

    # ------------------------------------------------------------- translation
    def setup_function(self, f):
        n = f.node
        params = [c for c in n.get('inner', []) or [] if c.get('kind') == 'ParmVarDecl']
        qt = n.get('type', {}).get('qualType', '')
        rett = qt.split('(')[0].strip()
        f.rettype = self.find_rettype(n, rett)
        f.params = []
        env = {}
        for i, p in enumerate(params):
            ti = self.typeinfo(p.get('ctype', p.get('type', {})))
            if ti[0] not in ('scalar', 'rec'):
                raise Unsupported('parameter %s of type %s' % (p.get('name'), p.get('ctype', p.get('type', {})).get('qualType')))
            nm = 'v_' + (p.get('name') or 'arg%d' % i)
            f.params.append((nm, p['id'], ti, p))
            env[p['id']] = nm
        # state: this for non-const methods and ctors; else first non-const lvalue-ref record/scalar param
        f.state = None
        if f.kind == 'ctor':
            f.state = 'this'
        elif f.kind in ('method', 'conv') and not f.is_const:
            f.state = 'this'
        else:
            for i, p in enumerate(params):
                q = p.get('ctype', p.get('type', {})).get('qualType', '').strip()
                if q.endswith('&') and not q.endswith('&&') and not q.startswith('const '):
                    if f.state is not None:
                        raise Unsupported('more than one mutable reference parameter')
                    f.state = i
        rti = self.typeinfo(f.rettype) if f.kind != 'ctor' else ('void',)
        if f.state is not None:
            retref = rett.endswith('&') or f.rettype.get('qualType', '').endswith('&')
            if f.kind == 'ctor' or rti[0] == 'void' or retref:
                f.retmode = 'state'
            elif getattr(Translator, 'retloc', False) and rti[0] == 'rec' and (
                    (f.state == 'this' and rti[1] is f.rec) or (f.state != 'this' and rti[1] is self.typeinfo(params[f.state].get('ctype', params[f.state].get('type', {})))[1])):
                # (C04, additive; --retloc) a mutating function that returns its mutated operand BY VALUE: the updated state is the
                # value; the fact that the returned location is NOT the operand's is emitted as <name>__retloc := None
                f.retmode = 'state'
                f.retloc = 'value'
            else:
                f.retmode = 'value_only'   # mutating function that returns a value: state change is lost -> unsupported
                raise Unsupported('mutating function returning a value')
            if getattr(Translator, 'retloc', False) and f.kind != 'ctor' and rti[0] == 'rec' and retref:
                f.retloc = 'ref'
        else:
            f.retmode = 'value'
            if rti[0] not in ('scalar', 'rec'):
                raise Unsupported('return type %s' % rett)
        return env

    def translate_all(self):
        self.name_functions()
        for f in self.funcs:
            self.ensure(f)

    def ensure(self, f):
        if getattr(f, 'state_tr', None) is not None:
            if f.state_tr == 'busy':
                raise Unsupported('recursive call cycle through %s' % f.coq)
            return
        f.state_tr = 'busy'
        try:
            env = self.setup_function(f)
            f.text = self.trans_function(f, env)
        except Unsupported as e:
            f.error = str(e)
        except (KeyError, IndexError, TypeError, AttributeError) as e:
            f.error = 'translator exception %s: %s' % (type(e).__name__, e)
        f.state_tr = 'done'

    def find_rettype(self, n, rett):
        """return type: from the declared string if it resolves, else from the first value-returning return statement"""
        if rett == 'void':
            return {'qualType': 'void'}
        ti = self.typeinfo({'qualType': rett})
        if ti[0] in ('scalar', 'rec'):
            return {'qualType': rett}
        found = []

        def scan(x):
            if found:
                return
            if x.get('kind') == 'ReturnStmt':
                e = (x.get('inner') or [None])[0]
                if e is not None:
                    found.append(e.get('type', {}))
                return
            if x.get('kind') == 'LambdaExpr':
                return
            for c in x.get('inner', []) or []:
                if isinstance(c, dict):
                    scan(c)
        scan(n)
        if found:
            t = dict(found[0])
            if rett.endswith('&'):
                t['qualType'] = (t.get('desugaredQualType') or t.get('qualType', '')) + ' &'
                t.pop('desugaredQualType', None)
            return t
        return {'qualType': rett}

    def this_type(self, f):
        return ('rec', f.rec)

    def trans_function(self, f, env):
        n = f.node
        body = [c for c in n.get('inner', []) or [] if c.get('kind') == 'CompoundStmt'][0]
        ctx = {'f': f, 'env': dict(env), 'this_fields': None}
        args = ['(I : interp)']
        if f.kind in ('method', 'conv') and f.rec is not None:
            args.append('(this_ : %s)' % self.coq_type(('rec', f.rec)))
        for (nm, pid, ti, p) in f.params:
            args.append('(%s : %s)' % (nm, self.coq_type(ti)))
        pre = ''
        if f.kind == 'ctor':
            pre = self.ctor_inits(f, ctx)
        stmts = list(body.get('inner', []) or [])
        term = pre + self.trans_stmts(stmts, ctx)
        if f.retmode == 'state':
            rty = self.coq_type(('rec', f.rec)) if f.state == 'this' else self.coq_type(f.params[f.state][2])
        else:
            rty = self.coq_type(self.typeinfo(f.rettype))
        return 'Definition %s %s : %s :=\n  %s.' % (f.coq, ' '.join(args), rty, term)

    def ctor_inits(self, f, ctx):
        n = f.node
        r = f.rec
        inits = {}
        for c in n.get('inner', []) or []:
            if c.get('kind') != 'CXXCtorInitializer':
                continue
            if 'anyInit' in c:
                fid = c['anyInit']['id']
                owner = self.field_owner.get(fid)
                if owner is None or owner[0] is not r:
                    raise Unsupported('initializer of unknown field')
                e = (c.get('inner') or [None])[0]
                if e is not None and e.get('kind') == 'CXXDefaultInitExpr':
                    continue      # falls back to the in-class initializer below
                inits[owner[1]] = self.trans_expr_as(e, self.typeinfo(r.fields[owner[1]][2]), ctx)
            elif 'delegatingInit' in c or c.get('delegatingInit'):
                e = (c.get('inner') or [None])[0]
                t, ti = self.trans_expr(e, ctx)
                return 'let this_ := %s in\n  ' % t
            elif 'baseInit' in c:
                bt = self.typeinfo(c['baseInit'])
                if bt[0] == 'rec' and not self.rec_fields(bt[1]):
                    continue
                raise Unsupported('base class initializer')
        fields = self.rec_fields(r)
        vals = []
        for (i, fld) in fields:
            if i in inits:
                vals.append(inits[i])
            else:
                # in-class default member initializer?
                init = [c for c in fld[3].get('inner', []) or [] if c.get('kind', '').endswith('Expr') or c.get('kind', '').endswith('Literal')]
                if init:
                    vals.append(self.trans_expr_as(init[0], self.typeinfo(fld[2]), ctx))
                else:
                    vals.append(None)
        ctx['this_partial'] = vals
        if all(v is not None for v in vals):
            return 'let this_ := %s in\n  ' % self.mk_record(r, vals)
        # try to complete from leading "field = expr;" statements of the body
        ctx['need_fill'] = True
        return ''

    def mk_record(self, r, vals):
        if not self.rec_fields(r):
            return 'tt'
        return '(mk_%s I %s)' % (r.coq, ' '.join('(%s)' % v for v in vals))

    def default_record(self, r, depth=0):
        vals = []
        for (i, fld) in self.rec_fields(r):
            ti = self.typeinfo(fld[2])
            if ti[0] == 'scalar':
                vals.append('false' if ti[1] == 'TBool' else 'ilit I %s 0' % ti[1])
            elif ti[0] == 'rec' and depth < 8:
                vals.append(self.default_record(ti[1], depth + 1))
            else:
                raise Unsupported('default construction of field %s' % fld[0])
        return self.mk_record(r, vals)

    def proj(self, r, idx, base):
        return '(%s_%s %s)' % (r.coq, r.fields[idx][0], base)

    def update(self, r, idx, base, val):
        vals = []
        for (i, fld) in self.rec_fields(r):
            vals.append(val if i == idx else self.proj(r, i, base)[1:-1])
        return self.mk_record(r, vals)

    # statements ---------------------------------------------------------------
    def trans_stmts(self, stmts, ctx):
        if not stmts:
            f = ctx['f']
            if f.retmode == 'state':
                return self.state_value(ctx)
            raise Unsupported('control reaches end of non-void function')
        s, rest = stmts[0], stmts[1:]
        k = s.get('kind')
        if k == 'CompoundStmt':
            return self.trans_stmts(list(s.get('inner', []) or []) + rest, ctx)
        if k == 'NullStmt':
            return self.trans_stmts(rest, ctx)
        if k == 'DeclStmt':
            out = ''
            for v in s.get('inner', []) or []:
                if v.get('kind') != 'VarDecl':
                    if v.get('kind') in ('TypedefDecl', 'TypeAliasDecl', 'StaticAssertDecl', 'UsingDecl'):
                        continue
                    raise Unsupported('declaration %s' % v.get('kind'))
                ti = self.typeinfo(v.get('type', {}))
                if ti[0] not in ('scalar', 'rec'):
                    raise Unsupported('local of type %s' % v.get('type', {}).get('qualType'))
                init = [c for c in v.get('inner', []) or [] if 'kind' in c and c['kind'] != 'FullComment']
                if not init:
                    raise Unsupported('uninitialised local %s' % v.get('name'))
                nm = 'v_' + v.get('name', 'tmp')
                t = self.trans_expr_as(init[0], ti, ctx)
                ctx = dict(ctx); ctx['env'] = dict(ctx['env']); ctx['env'][v['id']] = nm
                out += 'let %s := %s in\n  ' % (nm, t)
            return out + self.trans_stmts(rest, ctx)
        if k == 'ReturnStmt':
            f = ctx['f']
            e = (s.get('inner') or [None])[0]
            if f.retmode == 'state':
                # (C06, soundness fix) 'return a = a * b;' / 'return a += b;': the returned expression has an effect on the
                # state.  Unless it is a plain reference to the state (return *this; return a;) translate it as an
                # effect first -- it used to be dropped silently.  Anything trans_effect cannot handle is Unsupported.
                if e is not None and getattr(f, 'retloc', None) == 'value':
                    # (C04, --retloc) 'return a;' by value: a copy construction of the mutated operand
                    e2 = self.strip(e)
                    args2 = [c for c in (e2.get('inner') or []) if 'kind' in c]
                    if e2.get('kind') == 'CXXConstructExpr' and len(args2) == 1 and self.is_state_ref(args2[0], ctx):
                        e = args2[0]
                if e is not None and not self.is_state_ref(e, ctx):
                    pre, ctx2 = self.trans_effect(e, ctx)
                    return pre + self.state_value(ctx2)
                return self.state_value(ctx)
            if e is None:
                raise Unsupported('return without value')
            return self.trans_expr_as(e, self.typeinfo(f.rettype), ctx)
        if k == 'IfStmt':
            inner = s.get('inner', [])
            if s.get('hasInit') or s.get('hasVar'):
                raise Unsupported('if with init/var')
            cond = self.trans_cond(inner[0], ctx)
            th = [inner[1]]
            el = [inner[2]] if len(inner) > 2 else []
            a = self.trans_stmts(th + rest, dict(ctx))
            b = self.trans_stmts(el + rest, dict(ctx))
            return '(if %s\n   then %s\n   else %s)' % (cond, a, b)
        if k in ('ForStmt', 'WhileStmt', 'DoStmt', 'SwitchStmt', 'CXXTryStmt', 'CXXForRangeStmt', 'GotoStmt', 'BreakStmt', 'ContinueStmt'):
            raise Unsupported('statement %s' % k)
        # expression statement
        pre, ctx2 = self.trans_effect(s, ctx)
        return pre + self.trans_stmts(rest, ctx2)

    def is_state_ref(self, e, ctx):
        x = e
        while isinstance(x, dict) and x.get('kind') in ('ImplicitCastExpr', 'ParenExpr', 'ExprWithCleanups', 'MaterializeTemporaryExpr') and x.get('inner'):
            x = x['inner'][0]
        f = ctx['f']
        if x.get('kind') == 'UnaryOperator' and x.get('opcode') == '*' and x.get('inner') and x['inner'][0].get('kind') == 'CXXThisExpr':
            return f.state == 'this'
        if x.get('kind') == 'DeclRefExpr' and isinstance(f.state, int):
            return (x.get('referencedDecl') or {}).get('id') == f.params[f.state][1]
        return False

    def state_value(self, ctx):
        f = ctx['f']
        if f.state == 'this':
            if ctx.get('need_fill'):
                vals = ctx['this_partial']
                if any(v is None for v in vals):
                    raise Unsupported('constructor leaves a field uninitialised')
                return self.mk_record(f.rec, vals)
            return 'this_'
        return f.params[f.state][0]

    def strip(self, e):
        while e is not None and e.get('kind') in ('ParenExpr', 'ExprWithCleanups', 'MaterializeTemporaryExpr', 'CXXBindTemporaryExpr',
                                                   'ConstantExpr', 'SubstNonTypeTemplateParmExpr'):
            e = [c for c in e.get('inner', []) if 'kind' in c][-1] if e.get('kind') == 'SubstNonTypeTemplateParmExpr' else e['inner'][0]
        return e

    def lvalue_path(self, e, ctx):
        """lvalue expr -> (root, [ (Record, idx), ... ]) where root is ('var', id) or ('this',)"""
        e = self.strip(e)
        k = e.get('kind')
        if k == 'DeclRefExpr':
            ref = e.get('referencedDecl', {})
            if ref.get('id') in ctx['env']:
                return ('var', ref['id']), []
            raise Unsupported('assignment to non-local %s' % ref.get('name'))
        if k == 'MemberExpr':
            fid = e.get('referencedMemberDecl')
            owner = self.field_owner.get(fid)
            if owner is None:
                raise Unsupported('member %s is not a data member' % e.get('name'))
            base = e['inner'][0]
            root, path = self.lvalue_path(base, ctx)
            return root, path + [owner]
        if k == 'CXXThisExpr':
            return ('this',), []
        if k == 'UnaryOperator' and e.get('opcode') == '*':
            return self.lvalue_path(e['inner'][0], ctx)
        if k == 'ImplicitCastExpr' and e.get('castKind') in ('NoOp', 'DerivedToBase', 'UncheckedDerivedToBase'):
            return self.lvalue_path(e['inner'][0], ctx)
        raise Unsupported('lvalue of kind %s' % k)

    def root_term(self, root, ctx):
        if root[0] == 'this':
            if ctx.get('need_fill'):
                raise Unsupported('use of *this before all fields are initialised')
            return 'this_'
        return ctx['env'][root[1]]

    def assign(self, lhs, valf, ctx):
        """valf(current_value_term) -> new value term.  Returns (prefix, ctx')."""
        root, path = self.lvalue_path(lhs, ctx)
        f = ctx['f']
        if root[0] == 'this' and f.state != 'this':
            raise Unsupported('assignment to a member in a const context')
        if root[0] == 'var':
            # parameters that are not the state parameter may be reassigned locally only if by value
            pass
        if root[0] == 'this' and ctx.get('need_fill'):
            if len(path) == 1 and path[0][0] is f.rec:
                # constructor body: direct field initialisation
                idxs = [i for (i, _) in self.rec_fields(f.rec)]
                pos = idxs.index(path[0][1])
                cur = ctx['this_partial'][pos]
                if cur is None:
                    cur_t = None
                new = valf(cur)
                ctx = dict(ctx); ctx['this_partial'] = list(ctx['this_partial']); ctx['this_partial'][pos] = new
                if all(v is not None for v in ctx['this_partial']):
                    ctx['need_fill'] = False
                    return 'let this_ := %s in\n  ' % self.mk_record(f.rec, ctx['this_partial']), ctx
                return '', ctx
            raise Unsupported('nested member assignment before construction completes')
        base = self.root_term(root, ctx)
        # current value
        cur = base
        for (r, idx) in path:
            cur = self.proj(r, idx, cur)
        new = valf(cur)
        # rebuild
        def rebuild(b, p, newv):
            if not p:
                return newv
            (r, idx) = p[0]
            inner = rebuild(self.proj(r, idx, b), p[1:], newv)
            return self.update(r, idx, b, inner)
        newroot = rebuild(base, path, new)
        return 'let %s := %s in\n  ' % (base, newroot), ctx

    def trans_effect(self, s, ctx):
        e = self.strip(s)
        k = e.get('kind')
        if k == 'BinaryOperator' and e.get('opcode') == '=':
            lhs, rhs = e['inner']
            ti = self.typeinfo(lhs.get('type', {}))
            val = self.trans_expr_as(rhs, ti, ctx)
            return self.assign(lhs, lambda cur: val, ctx)
        if k == 'CompoundAssignOperator':
            lhs, rhs = e['inner']
            lt = self.typeinfo(lhs.get('type', {}))
            clt = self.typeinfo(e.get('computeLHSType', lhs.get('type', {})))
            crt = self.typeinfo(e.get('computeResultType', lhs.get('type', {})))
            if lt[0] != 'scalar' or crt[0] != 'scalar':
                raise Unsupported('compound assignment on non-scalar')
            op = BINOPS.get(e['opcode'][:-1])
            if op is None:
                raise Unsupported('compound op %s' % e['opcode'])
            r, rti = self.trans_expr(rhs, ctx)

            def valf(cur):
                a = cur if clt[1] == lt[1] else '(cast I %s %s %s)' % (lt[1], clt[1], cur)
                v = '(bop I %s %s %s %s)' % (op, crt[1], a, r)
                return v if crt[1] == lt[1] else '(cast I %s %s %s)' % (crt[1], lt[1], v)
            return self.assign(lhs, valf, ctx)
        if k == 'UnaryOperator' and e.get('opcode') in ('++', '--'):
            lhs = e['inner'][0]
            lt = self.typeinfo(lhs.get('type', {}))
            if lt[0] != 'scalar':
                raise Unsupported('++ on non-scalar')
            op = 'Add' if e['opcode'] == '++' else 'Sub'
            return self.assign(lhs, lambda cur: '(bop I %s %s %s (ilit I %s 1))' % (op, lt[1], cur, lt[1]), ctx)
        if k in ('CXXOperatorCallExpr', 'CXXMemberCallExpr', 'CallExpr'):
            callee, obj, args = self.call_parts(e, ctx)
            if callee is None:
                raise Unsupported('effectful call to unknown function')
            if callee == 'implicit_assign':
                lhs, rhs = obj, args[0]
                ti = self.typeinfo(lhs.get('type', {}))
                val = self.trans_expr_as(rhs, ti, ctx)
                return self.assign(lhs, lambda cur: val, ctx)
            g = callee
            self.ensure(g)
            if g.error:
                raise Unsupported('call to unsupported %s' % g.coq)
            if g.retmode != 'state':
                # pure call whose value is discarded
                return '', ctx
            ctx['f'].deps.add(g)
            if g.state == 'this':
                targs = [self.trans_expr_as(a, g.params[i][2], ctx) for i, a in enumerate(args)]
                return self.assign(obj, lambda cur: '(%s I %s)' % (g.coq, ' '.join([cur] + targs)), ctx)
            else:
                allargs = ([obj] if obj is not None else []) + args
                st = allargs[g.state]
                def valf(cur):
                    ts = []
                    for i, a in enumerate(allargs):
                        ts.append(cur if i == g.state else self.trans_expr_as(a, g.params[i][2], ctx))
                    return '(%s I %s)' % (g.coq, ' '.join(ts))
                return self.assign(st, valf, ctx)
        if k in ('CXXStaticCastExpr', 'CStyleCastExpr', 'CXXFunctionalCastExpr') and e.get('castKind') == 'ToVoid':
            sub = self.strip(e['inner'][0])
            if sub.get('kind') in ('IntegerLiteral', 'DeclRefExpr', 'CXXBoolLiteralExpr'):
                return '', ctx
        raise Unsupported('expression statement of kind %s' % k)

    # calls --------------------------------------------------------------------
    def callee_decl(self, c):
        c = self.strip(c)
        while c.get('kind') == 'ImplicitCastExpr':
            c = self.strip(c['inner'][0])
        return c

    def call_parts(self, e, ctx):
        """-> (Function | 'implicit_assign' | None, object expr or None, arg exprs); for unknown callee returns (None, name, args)"""
        k = e.get('kind')
        inner = [c for c in e.get('inner', []) if 'kind' in c]
        if k == 'CXXMemberCallExpr':
            m = self.strip(inner[0])
            if m.get('kind') != 'MemberExpr':
                raise Unsupported('member call through %s' % m.get('kind'))
            fid = m.get('referencedMemberDecl')
            obj = m['inner'][0]
            g = self.func_by_id.get(fid)
            if g is None:
                d = self.decl_nodes.get(fid)
                raise Unsupported('call to method %s without translatable body' % (m.get('name')))
            return g, obj, inner[1:]
        callee = self.callee_decl(inner[0])
        args = inner[1:]
        if callee.get('kind') != 'DeclRefExpr':
            raise Unsupported('indirect call')
        ref = callee.get('referencedDecl', {})
        g = self.func_by_id.get(ref.get('id'))
        if g is not None:
            if k == 'CXXOperatorCallExpr' and g.kind in ('method', 'conv'):
                return g, args[0], args[1:]
            return g, None, args
        nm = ref.get('name', '')
        if nm == 'operator()' and k == 'CXXOperatorCallExpr' and args:
            # (C05, additive) functor temporary call such as std::less<T>()(a, b): the operator() lives in a record reached only by
            # the second dump (--filter2), whose node ids are unrelated; resolve it by the record of the object and the signature
            oti = self.typeinfo(args[0].get('type', {}))
            if oti[0] == 'rec':
                want = norm_sig(ref.get('type', {}).get('qualType', ''))
                cands = [f for f in self.funcs if f.name == 'operator()' and f.kind == 'method' and f.rec is oti[1]
                         and norm_sig(f.node.get('type', {}).get('qualType', '')) == want]
                if len(cands) == 1:
                    return cands[0], args[0], args[1:]
        if nm == 'operator=' and k == 'CXXOperatorCallExpr':
            # implicitly-defined or defaulted copy/move assignment
            return 'implicit_assign', args[0], args[1:]
        return None, nm, args

    # expressions --------------------------------------------------------------
    def trans_cond(self, e, ctx):
        t, ti = self.trans_expr(e, ctx)
        if ti == ('scalar', 'TBool'):
            return t
        if ti[0] == 'scalar':
            return '(tobool I %s %s)' % (ti[1], t)
        raise Unsupported('condition of non-scalar type')

    def trans_expr_as(self, e, want, ctx):
        t, ti = self.trans_expr(e, ctx)
        if want[0] == 'scalar' and ti[0] == 'scalar' and want[1] != ti[1]:
            raise Unsupported('type mismatch %s vs %s (missing implicit cast?)' % (ti[1], want[1]))
        if want[0] == 'rec' and ti[0] == 'rec' and want[1].coq != ti[1].coq:
            raise Unsupported('record mismatch %s vs %s' % (ti[1].coq, want[1].coq))
        if want[0] != ti[0]:
            raise Unsupported('kind mismatch %s vs %s' % (ti, want))
        return t

    def trans_expr(self, e, ctx):
        e = self.strip(e)
        k = e.get('kind')
        ty = self.typeinfo(e.get('type', {}))
        inner = [c for c in e.get('inner', []) or [] if 'kind' in c]
        if k in ('ImplicitCastExpr', 'CStyleCastExpr', 'CXXStaticCastExpr', 'CXXFunctionalCastExpr'):
            ck = e.get('castKind')
            sub = inner[0]
            if ck in ('LValueToRValue', 'NoOp', 'ConstructorConversion', 'UserDefinedConversion', 'DerivedToBase', 'UncheckedDerivedToBase'):
                return self.trans_expr(sub, ctx)
            t, ti = self.trans_expr(sub, ctx)
            if ck in ('IntegralCast', 'IntegralToFloating', 'FloatingToIntegral', 'FloatingCast'):
                if ti[0] != 'scalar' or ty[0] != 'scalar':
                    raise Unsupported('cast on non-scalars')
                if ti[1] == 'TBool':
                    return '(ofbool I %s %s)' % (ty[1], t), ty
                if ti[1] == ty[1]:
                    return t, ty
                return '(cast I %s %s %s)' % (ti[1], ty[1], t), ty
            if ck in ('IntegralToBoolean', 'FloatingToBoolean'):
                return '(tobool I %s %s)' % (ti[1], t), ('scalar', 'TBool')
            raise Unsupported('cast kind %s' % ck)
        if k == 'IntegerLiteral':
            return '(ilit I %s %s)' % (ty[1], zlit(int(e['value']))), ty
        if k == 'CXXBoolLiteralExpr':
            return ('true' if e.get('value') else 'false'), ('scalar', 'TBool')
        if k == 'FloatingLiteral':
            fr = Fraction(e['value'])
            if getattr(Translator, 'exact_literals', False):
                # (C04, additive; --exact-literals) the exact binary value of the literal (clang prints the evaluated value with
                # round-trip digits): the dyadic rational of the binary64 / binary32 number, not the decimal text
                fv = float(e['value'])
                if ty[1] == 'F32':
                    import struct
                    fv = struct.unpack('f', struct.pack('f', fv))[0]
                fr = Fraction(fv)
            return '(flit I %s %s %s)' % (ty[1], zlit(fr.numerator), zlit(fr.denominator)), ty
        if k == 'CXXThisExpr':
            if ctx.get('need_fill'):
                raise Unsupported('use of this before all fields are initialised')
            return 'this_', ('rec', ctx['f'].rec)
        if k == 'DeclRefExpr':
            ref = e.get('referencedDecl', {})
            rid = ref.get('id')
            if rid in ctx['env']:
                return ctx['env'][rid], ty
            if ref.get('kind') == 'VarDecl' and ty[0] == 'rec' and not self.rec_fields(ty[1]):
                return 'tt', ty
            if ref.get('kind') == 'VarDecl' and rid in self.global_vars:
                g = self.global_vars[rid]
                init = [c for c in g.get('inner', []) or [] if 'kind' in c and c['kind'] != 'FullComment']
                if init and ('const' in g.get('type', {}).get('qualType', '') or g.get('constexpr')):
                    return self.trans_expr(init[0], dict(ctx, env={}))
            if ref.get('kind') == 'EnumConstantDecl':
                raise Unsupported('enum constant')
            raise Unsupported('reference to %s %s' % (ref.get('kind'), ref.get('name')))
        if k == 'MemberExpr':
            fid = e.get('referencedMemberDecl')
            owner = self.field_owner.get(fid)
            if owner is None:
                owner = self.field_by_name(inner[0], e.get('name'))
            if owner is None:
                raise Unsupported('member %s is not a data member' % e.get('name'))
            base = self.strip(inner[0])
            if base.get('kind') == 'CXXThisExpr' and ctx.get('need_fill'):
                idxs = [i for (i, _) in self.rec_fields(owner[0])]
                v = ctx['this_partial'][idxs.index(owner[1])]
                if v is None:
                    raise Unsupported('read of uninitialised field %s' % e.get('name'))
                return '(%s)' % v, ty
            bt, bti = self.trans_expr(base, ctx)
            if bti[0] != 'rec':
                raise Unsupported('member access on non-record')
            # the field owner record and the base record may be different specialisations sharing one Coq record
            return self.proj(bti[1], self.field_index(bti[1], owner), bt), ty
        if k == 'UnaryOperator':
            op = e.get('opcode')
            if op == '*':
                sub = self.strip(inner[0])
                if sub.get('kind') == 'CXXThisExpr':
                    return self.trans_expr(sub, ctx)
                raise Unsupported('pointer dereference')
            if op == '!':
                return '(negb %s)' % self.trans_cond(inner[0], ctx), ('scalar', 'TBool')
            if op in ('-', '+', '~'):
                t, ti = self.trans_expr(inner[0], ctx)
                if ti[0] != 'scalar':
                    raise Unsupported('unary op on non-scalar')
                return '(uop I %s %s %s)' % ({'-': 'Neg', '+': 'Pos', '~': 'BNot'}[op], ty[1], t), ty
            raise Unsupported('unary operator %s in expression' % op)
        if k == 'BinaryOperator':
            op = e.get('opcode')
            if op in ('&&', '||'):
                a = self.trans_cond(inner[0], ctx)
                b = self.trans_cond(inner[1], ctx)
                return '(%s %s %s)' % ('andb' if op == '&&' else 'orb', a, b), ('scalar', 'TBool')
            a, ati = self.trans_expr(inner[0], ctx)
            b, bti = self.trans_expr(inner[1], ctx)
            if ati[0] != 'scalar' or bti[0] != 'scalar':
                raise Unsupported('binary operator %s on non-scalars' % op)
            if op in CMPOPS:
                if ati[1] != bti[1]:
                    raise Unsupported('comparison at different types')
                if ati[1] == 'TBool':
                    a, b = '(ofbool I I32 %s)' % a, '(ofbool I I32 %s)' % b
                    return '(cmp I %s I32 %s %s)' % (CMPOPS[op], a, b), ('scalar', 'TBool')
                return '(cmp I %s %s %s %s)' % (CMPOPS[op], ati[1], a, b), ('scalar', 'TBool')
            if op in BINOPS:
                if ty[0] != 'scalar':
                    raise Unsupported('binary operator result type')
                if op in ('<<', '>>'):
                    return '(bop I %s %s %s %s)' % (BINOPS[op], ty[1], a, b), ty
                if ati[1] != ty[1] or bti[1] != ty[1]:
                    raise Unsupported('binary operator operands not converted to the result type')
                return '(bop I %s %s %s %s)' % (BINOPS[op], ty[1], a, b), ty
            raise Unsupported('binary operator %s in expression' % op)
        if k == 'ConditionalOperator':
            c = self.trans_cond(inner[0], ctx)
            a, ati = self.trans_expr(inner[1], ctx)
            b, bti = self.trans_expr(inner[2], ctx)
            return '(if %s then %s else %s)' % (c, a, b), ati
        if k in ('CallExpr', 'CXXOperatorCallExpr', 'CXXMemberCallExpr'):
            callee, obj, args = self.call_parts(e, ctx)
            if callee == 'implicit_assign':
                raise Unsupported('assignment used as a value')
            if callee is None:
                nm = obj
                lf = LIBFNS.get((nm, len(args)))
                if lf is None:
                    raise Unsupported('call to unknown function %s/%d' % (nm, len(args)))
                if ty[0] != 'scalar':
                    raise Unsupported('library function returning non-scalar')
                ts = []
                for a in args:
                    t, ti = self.trans_expr(a, ctx)
                    if ti[0] != 'scalar':
                        raise Unsupported('library function on non-scalar')
                    if ti[1] == 'TBool':
                        t = '(ofbool I I32 %s)' % t
                    ts.append(t)
                r = '(lib I %s %s [%s])' % ('(%s)' % lf if ' ' in lf else lf, ty[1] if ty[1] != 'TBool' else 'TBool', '; '.join(ts))
                if ty[1] == 'TBool':
                    return '(tobool I I32 %s)' % r.replace(' TBool ', ' I32 '), ty
                return r, ty
            g = callee
            self.ensure(g)
            if g.error:
                raise Unsupported('call to unsupported %s (%s)' % (g.coq, g.error))
            if g.retmode == 'state' and g.kind != 'ctor':
                # value of a mutating call (e.g. a += b used as value): not supported in expression position
                raise Unsupported('mutating call %s used as a value' % g.coq)
            ctx['f'].deps.add(g)
            ts = []
            if obj is not None:
                ot, oti = self.trans_expr(obj, ctx)
                ts.append(ot)
            if len(args) > len(g.params):
                raise Unsupported('too many arguments')
            for i, a in enumerate(args):
                if a.get('kind') == 'CXXDefaultArgExpr':
                    raise Unsupported('default argument')
                ts.append(self.trans_expr_as(a, g.params[i][2], ctx))
            if len(args) < len(g.params):
                raise Unsupported('default arguments')
            rty = self.typeinfo(g.rettype)
            return '(%s I %s)' % (g.coq, ' '.join(ts)) if ts else '(%s I)' % g.coq, rty
        if k in ('CXXConstructExpr', 'CXXTemporaryObjectExpr'):
            if ty[0] != 'rec':
                if ty[0] == 'scalar' and len(inner) == 1:
                    return self.trans_expr(inner[0], ctx)
                raise Unsupported('construction of %s' % e.get('type', {}).get('qualType'))
            r = ty[1]
            if not self.rec_fields(r):
                return 'tt', ty
            args = inner
            ctype = e.get('ctorType', {}).get('qualType', '')
            # copy / move construction
            if len(args) == 1:
                at = self.typeinfo(args[0].get('type', {}))
                if at[0] == 'rec' and at[1] is r and re.match(r'void \((const )?.*&&?\)( noexcept)?$', ctype):
                    pm = re.match(r'void \((.*)\)', ctype).group(1)
                    # (C05, additive) template arguments may themselves contain '::' (range_t<rkcommon::math::vec2f> &&):
                    # also compare the class name in front of the first '<'
                    if (norm_type_key(pm) == r.key or clean_type(pm).split('::')[-1].split('<')[0] == r.cname
                            or clean_type(pm).split('<')[0].split('::')[-1].strip() == r.cname):
                        return self.trans_expr(args[0], ctx)
            cands = [g for g in r.ctors if not getattr(g, 'implicit', False) and g.node.get('type', {}).get('qualType') == ctype]
            if not cands:
                # match by arity and parameter kinds as a fallback
                cands = [g for g in r.ctors if not getattr(g, 'implicit', False) and
                         len([c for c in g.node.get('inner', []) if c.get('kind') == 'ParmVarDecl']) == len(args) and
                         norm_sig(g.node.get('type', {}).get('qualType', '')) == norm_sig(ctype)]
            if not cands and not args and any(getattr(g, 'implicit', False) and not [c for c in g.node.get('inner', []) or [] if c.get('kind') == 'ParmVarDecl'] for g in r.ctors):
                # (C06, additive) implicit / defaulted default constructor: fields are indeterminate in C++; the
                # subset only accepts code that assigns them before reading, so they are modelled as 0 placeholders
                return self.default_record(r), ty
            if len(cands) != 1:
                raise Unsupported('cannot resolve constructor %s of %s (%d candidates)' % (ctype, r.key, len(cands)))
            g = cands[0]
            self.ensure(g)
            if g.error or g.coq is None:
                raise Unsupported('constructor %s unsupported (%s)' % (g.coq, g.error))
            ctx['f'].deps.add(g)
            ts = []
            for i, a in enumerate(args):
                if a.get('kind') == 'CXXDefaultArgExpr':
                    raise Unsupported('default argument')
                ts.append(self.trans_expr_as(a, g.params[i][2], ctx))
            if len(ts) != len(g.params):
                raise Unsupported('default arguments')
            return '(%s I %s)' % (g.coq, ' '.join(ts)) if ts else '(%s I)' % g.coq, ty
        if k == 'InitListExpr':
            if ty[0] == 'scalar' and len(inner) == 1:
                return self.trans_expr(inner[0], ctx)
            if ty[0] == 'rec':
                flds = self.rec_fields(ty[1])
                if len(inner) == len(flds):
                    vals = [self.trans_expr_as(a, self.typeinfo(ty[1].fields[i][2]), ctx) for a, (i, _) in zip(inner, flds)]
                    return self.mk_record(ty[1], vals), ty
            raise Unsupported('initializer list')
        if k == 'CXXDefaultInitExpr':
            raise Unsupported('default member initializer expression')
        if k == 'ImplicitValueInitExpr' or k == 'CXXScalarValueInitExpr':
            if ty[0] == 'scalar':
                return ('false' if ty[1] == 'TBool' else '(ilit I %s 0)' % ty[1]), ty
        if k == 'UnaryExprOrTypeTraitExpr' and e.get('name') == 'sizeof' and ty[0] == 'scalar':
            # (C14, additive) sizeof of a scalar type (LP64): a constant of type size_t; anything else stays unsupported
            at = e.get('argType') or (inner[0].get('type') if inner else None)
            ati = self.typeinfo(at) if at else ('other',)
            nbytes = {'TBool': 1, 'I8': 1, 'U8': 1, 'I16': 2, 'U16': 2, 'I32': 4, 'U32': 4, 'I64': 8, 'U64': 8,
                      'F32': 4, 'F64': 8}
            if ati[0] == 'scalar' and ati[1] in nbytes:
                return '(ilit I %s %d)' % (ty[1], nbytes[ati[1]]), ty
            raise Unsupported('sizeof of a non-scalar type')
        raise Unsupported('expression of kind %s' % k)

    def field_by_name(self, base, name):
        """(C04, additive) a member access whose FieldDecl id is unknown because the expression comes from the second
        AST dump (--filter2, ids live in another namespace): resolve the field by name in the record of the base type"""
        if not getattr(self, 'allow_field_by_name', False) or not name:
            return None
        bti = self.typeinfo((base or {}).get('type', {}))
        if bti[0] != 'rec':
            return None
        for i, f in enumerate(bti[1].fields):
            if f[0] == name:
                return (bti[1], i)
        return None

    def field_index(self, r, owner):
        (orec, idx) = owner
        if orec is r:
            return idx
        # same Coq record shared by several specialisations: map by field name
        name = orec.fields[idx][0]
        for i, f in enumerate(r.fields):
            if f[0] == name:
                return i
        raise Unsupported('field %s not in %s' % (name, r.coq))

    # ------------------------------------------------------------------ output
    def emit(self, out, header=''):
        lines = ['(* GENERATED by tools/cxx2coq/cxx2coq.py from the current /repo sources - do not edit *)',
                 'From Coq Require Import ZArith List Bool.', 'From Common Require Import CxxSem.',
                 'Import ListNotations.', 'Local Open Scope Z_scope.', header, '']
        # records (dependency order by construction: name_record recursion); emit each Coq record once
        done = {}
        order = []

        def emit_rec(r):
            if r.coq in done:
                # consistency check: same field names
                if [f[0] for _, f in self.rec_fields(done[r.coq])] != [f[0] for _, f in self.rec_fields(r)]:
                    lines.append('(* UNSUPPORTED record %s: two specialisations with different fields share a name *)' % r.coq)
                return
            for (fname, fid, ft, fn) in r.fields:
                ti = self.typeinfo(ft)
                if ti[0] == 'rec':
                    emit_rec(ti[1])
            done[r.coq] = r
            flds = self.rec_fields(r)
            if not flds:
                return
            try:
                if not self.record_ok(r):
                    raise Unsupported('has fields or bases outside the subset')
                fs = '; '.join('%s_%s : %s' % (r.coq, f[0], self.coq_type(self.typeinfo(f[2]))) for _, f in flds)
            except Unsupported as ex:
                lines.append('(* UNSUPPORTED record %s: %s *)' % (r.coq, ex))
                r.bad = True
                return
            lines.append('Record %s (I : interp) := mk_%s { %s }.' % (r.coq, r.coq, fs))
            for _, f in flds:
                lines.append('Arguments %s_%s {I}.' % (r.coq, f[0]))
            lines.append('')
        used_recs = set()
        for f in self.funcs:
            if f.rec is not None:
                used_recs.add(f.rec.id)
        for r in self.records.values():
            if r.fields or r.id in used_recs:
                emit_rec(r)
        # functions in dependency order
        emitted = set()
        state = {}

        def emit_fn(f):
            if f in emitted:
                return
            if state.get(f) == 'visiting':
                return
            state[f] = 'visiting'
            for g in sorted(f.deps, key=lambda g: g.coq):
                emit_fn(g)
            emitted.add(f)
            loc = f.node.get('loc', {}).get('line') or f.node.get('loc', {}).get('expansionLoc', {}).get('line')
            if f.error:
                lines.append('(* UNSUPPORTED %s: %s *)' % (f.coq, f.error.replace('*)', '* )')))
            else:
                lines.append(f.text)
                if getattr(f, 'retloc', None):
                    # (C04, --retloc) which location the function returns: Some k = the location of its k-th operand (by reference),
                    # None = a fresh object (by value)
                    k = 0 if f.state == 'this' else f.state
                    lines.append('')
                    lines.append('Definition %s__retloc : option nat := %s.' % (f.coq, ('Some %d%%nat' % k) if f.retloc == 'ref' else 'None'))
            lines.append('')
        for f in sorted(self.funcs, key=lambda f: f.coq or ''):
            emit_fn(f)
        open(out, 'w').write('\n'.join(lines) + '\n')
        return sum(1 for f in self.funcs if not f.error), sum(1 for f in self.funcs if f.error)


def demangle_all(names):
    names = [n for n in names if n]
    if not names:
        return {}
    p = subprocess.run(['c++filt'], input='\n'.join(names) + '\n', stdout=subprocess.PIPE, universal_newlines=True)
    outs = p.stdout.split('\n')
    return dict(zip(names, outs))


def split_top(s, sep=','):
    out, depth, cur = [], 0, ''
    for ch in s:
        if ch in '<([': depth += 1
        if ch in '>)]': depth -= 1
        if ch == sep and depth == 0:
            out.append(cur.strip()); cur = ''
        else:
            cur += ch
    if cur.strip():
        out.append(cur.strip())
    return out


def demangled_params(d):
    """'ret ns::f<..>(A, B) const' -> ([A, B], is_const_method, ret or None)"""
    d = d.strip()
    tail_const = False
    m = re.search(r'\)(\s*const)?(\s*&{1,2})?(\s*\[clone.*\])?$', d)
    if not m:
        return None
    tail_const = bool(m.group(1))
    end = m.start()            # index of the closing ')'
    depth = 0
    i = end
    while i >= 0:
        ch = d[i]
        if ch == ')': depth += 1
        elif ch == '(':
            depth -= 1
            if depth == 0:
                break
        i -= 1
    if i < 0:
        return None
    plist = d[i + 1:end]
    params = [] if plist.strip() in ('', 'void') else split_top(plist)
    head = d[:i]
    # return type: present only for template instantiations: "ret name<args>"; split at top-level space
    parts = split_top(head, ' ')
    ret = None
    if len(parts) >= 2:
        # the name is the last part unless it is "operator X"
        if 'operator' in parts[-2] and not parts[-2].endswith('>'):
            if len(parts) >= 3 and parts[-2].endswith('operator'):
                ret = ' '.join(parts[:-2]) or None
        elif parts[-1].startswith('operator') or '::operator' in parts[-1] or True:
            ret = ' '.join(parts[:-1]) or None
    return params, tail_const, ret


def norm_sig(s):
    return re.sub(r'\s+', ' ', s.replace(' noexcept', '')).strip()


def zlit(v):
    return str(v) if v >= 0 else '(%d)' % v


def dump_ast(tu, out, repo, inc, filt='rkcommon', extra=()):
    cmd = ['clang++', '-std=c++11', '-DNDEBUG', '-I' + repo, '-I' + inc, '-fsyntax-only', '-Xclang', '-ast-dump=json',
           '-Xclang', '-ast-dump-filter=' + filt] + list(extra) + [tu]
    with open(out, 'w') as f:
        p = subprocess.run(cmd, stdout=f, stderr=subprocess.PIPE, universal_newlines=True)
    return p.returncode, p.stderr


def main():
    import argparse
    ap = argparse.ArgumentParser()
    ap.add_argument('tu')
    ap.add_argument('out')
    ap.add_argument('--repo', default=os.environ.get('VERIF_REPO', '/repo'))
    ap.add_argument('--inc', default='/verif/build/include')
    ap.add_argument('--json', default=None)
    ap.add_argument('--filter', default='rkcommon')
    ap.add_argument('--exact-literals', action='store_true', help='(C04) floating literals as exact dyadic rationals')
    ap.add_argument('--retloc', action='store_true', help='(C04) emit <name>__retloc for mutating functions returning their operand')
    ap.add_argument('--filter2', default=None, help='(C04) filter of an additional AST dump of the same TU')
    ap.add_argument('--only', default=None, help='regex on generated names to keep')
    ap.add_argument('-D', action='append', default=[])
    a = ap.parse_args()
    js = a.json or (a.out + '.json')
    rc, err = dump_ast(a.tu, js, a.repo, a.inc, a.filter, ['-D' + d for d in a.D])
    if rc != 0:
        sys.stderr.write(err[-3000:])
        sys.exit(2)
    docs = load_docs(js)
    if a.exact_literals:
        Translator.exact_literals = True
    if a.retloc:
        Translator.retloc = True
    if a.filter2:
        # (C04, additive) a second dump of the same TU with another filter (e.g. 'less' for the std::less<vec_t<..>>
        # specialisations, which live in namespace std and are not reached by the filter 'rkcommon').  Node ids of the two
        # clang runs are unrelated: the ids of the second dump are moved into their own namespace.
        js2 = js + '.2'
        rc, err = dump_ast(a.tu, js2, a.repo, a.inc, a.filter2, ['-D' + d for d in a.D])
        if rc != 0:
            sys.stderr.write(err[-3000:])
            sys.exit(2)
        txt = open(js2).read().replace('"0x', '"0y')
        open(js2, 'w').write(txt)
        docs = docs + load_docs(js2)
        if not a.json:
            os.remove(js2)
        Translator.allow_field_by_name = True
    tr = Translator(docs)
    tr.translate_all()
    if a.only:
        rx = re.compile(a.only)
        keep = set()

        def add(f):
            if f in keep:
                return
            keep.add(f)
            for g in f.deps:
                add(g)
        for f in tr.funcs:
            if rx.search(f.coq or ''):
                add(f)
        tr.funcs = [f for f in tr.funcs if f in keep]
    ok, bad = tr.emit(a.out)
    print('cxx2coq: %d functions translated, %d unsupported -> %s' % (ok, bad, a.out))
    if not a.json:
        os.remove(js)


if __name__ == '__main__':
    main()
