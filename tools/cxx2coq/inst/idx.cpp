// instantiation TU for C17: index maps
#include "rkcommon/utility/multidim_index_sequence.h"
#include "rkcommon/array3D/for_each.h"
#include "rkcommon/array3D/Array3D.h"
using namespace rkcommon;
template struct rkcommon::multidim_index_sequence<2>;
template struct rkcommon::multidim_index_sequence<3>;
template struct rkcommon::multidim_index_iterator<2>;
template struct rkcommon::multidim_index_iterator<3>;
size_t use_idx(const math::vec3i &a, const math::vec3i &d, size_t i)
{
  return array3D::longProduct(d) + array3D::longIndex(a, d) + array3D::coordsOf(i, d).x;
}
template struct rkcommon::array3D::ActualArray3D<int>;
template struct rkcommon::array3D::IndexShiftedArray3D<int>;
template struct rkcommon::array3D::SubBoxArray3D<int>;
template struct rkcommon::array3D::MultiSliceArray3D<int>;
template struct rkcommon::array3D::Array3DAccessor<int, float>;
template struct rkcommon::array3D::Array3DRepeater<int>;
