// instantiation TU for C06: linear / affine / quaternion transforms (float element type,
// double for the quaternion family).  Every function of interest is ODR-used once so that
// clang instantiates its body; cxx2coq translates only the instantiated bodies.
#include "rkcommon/math/AffineSpace.h"
#include <sstream>
using namespace rkcommon::math;

typedef LinearSpace3<vec3f> L3;
typedef LinearSpace2<vec2f> L2;
typedef AffineSpaceT<L3> A3;
typedef AffineSpaceT<L2> A2;
typedef QuaternionT<float> Qf;

float use_lin2(const L2 &a, const L2 &b, const vec2f &v, float r)
{
  L2 m = a * b;
  vec2f w = a * v;
  L2 s = L2::scale(v);
  L2 ro = L2::rotate(r);
  L2 rc = rcp(a);
  return a.det() + a.adjoint().det() + a.inverse().det() + a.transposed().det() + a.row0().x + a.row1().x +
         m.det() + w.x + s.det() + ro.det() + rc.det() + (a + b).det() + (a - b).det() + (r * a).det() + (-a).det() +
         a.orthogonal().det() /* a loop: outside the translated subset, emitted as UNSUPPORTED; its callees are translated */;
}

float use_lin3(const L3 &a, const L3 &b, const vec3f &v, const vec3f &u, float r, const Qf &q)
{
  L3 m = a * b;
  vec3f w = a * v;
  L3 s = L3::scale(v);
  L3 ro = L3::rotate(u, r);
  L3 rc = rcp(a);
  L3 fq(q);
  L3 f1 = frame(v);
  L3 f2 = frame(v, u);
  vec3f p = xfmPoint(a, v), x = xfmVector(a, v), n = xfmNormal(a, v);
  return a.det() + a.adjoint().det() + a.inverse().det() + a.transposed().det() + a.row0().x + a.row1().x +
         a.row2().x + m.det() + w.x + s.det() + ro.det() + rc.det() + fq.det() + f1.det() + f2.det() + p.x + x.x +
         n.x + (a + b).det() + (a - b).det() + (r * a).det() + (-a).det() + (a / r).det();
}

float use_aff3(const A3 &a, const A3 &b, const vec3f &v, const vec3f &u, const vec3f &w, float r, const Qf &q)
{
  A3 m = a * b;
  A3 ra = rcp(a);
  A3 s = A3::scale(v);
  A3 t = A3::translate(v);
  A3 r1 = A3::rotate(u, r);
  A3 r2 = A3::rotate(q);
  A3 r3 = A3::rotate(v, u, r);
  // A3::rotate(p, q) (AffineSpace.h:119-123) does not compile when instantiated: AffineSpaceT * LinearSpace3 has no operator*
  A3 la = A3::lookat(v, u, w);
  A3 fl(a.l);
  vec3f p = xfmPoint(a, v), x = xfmVector(a, v), n = xfmNormal(a, v);
  return m.p.x + ra.p.x + s.p.x + t.p.x + r1.p.x + r2.p.x + r3.p.x + la.p.x + fl.p.x + p.x + x.x + n.x;
}

float use_aff2(const A2 &a, const A2 &b, const vec2f &v, float r)
{
  A2 m = a * b;
  A2 ra = rcp(a);
  A2 s = A2::scale(v);
  A2 t = A2::translate(v);
  A2 r1 = A2::rotate(r);
  A2 r2 = A2::rotate(v, r);
  return m.p.x + ra.p.x + s.p.x + t.p.x + r1.p.x + r2.p.x;
}

// ---- every remaining operator / constructor / conversion of the three headers (props/C06/opscan.py lists what is
// declared; the check fails when a declaration is neither instantiated here nor on its commented exclusion list)
float use_ops_lin(const L2 &a2, const L2 &b2, const L3 &a3, const L3 &b3)
{
  L2 z2(zero);
  L3 z3(zero);
  L2 c2 = a2; c2 *= b2;
  L2 e2 = a2; e2 /= b2;
  L3 c3 = a3; c3 *= b3;
  L3 e3 = a3; e3 /= b3;
  // the converting constructors between element types are instantiated in linconv.cpp (a second specialisation of
  // the class templates in this TU would change every generated name)
  return z2.vx.x + z3.vx.x + c2.vx.x + e2.vx.x + c3.vx.x + e3.vx.x + (a2 / b2).vx.x + (a3 / b3).vx.x + (+a2).vx.x + (+a3).vx.x +
         (a2 == b2) + (a2 != b2) + (a3 == b3) + (a3 != b3) + clamp(a3).vx.x;
}

float use_ops_aff(const A3 &a, const A3 &b, const A2 &a2, const A2 &b2, const vec3f &v, float s)
{
  A3 z(zero), o(one);
  A3 cols(v, v, v, v);
  A3 c = a; c *= b;
  A3 e = a; e /= b;
  A3 as; as = a;                      // AffineSpaceT::operator=
  A2 c2 = a2; c2 *= b2;
  A3 t = a;
  L3 *lp = t;                         // operator L*()
  const L3 *clp = a;                  // operator const L*() const
  return z.p.x + o.p.x + cols.p.x + c.p.x + e.p.x + as.p.x + c2.p.x + lp->vx.x + clp->vx.x + (s * a).p.x + (-a).p.x +
         (+a).p.x + (a + b).p.x + (a - b).p.x + (a / b).p.x + (a == b) + (a != b);
  // not instantiable (ill-formed bodies): operator/(AffineSpaceT, Scalar), operator*=(AffineSpaceT&, Scalar),
  // operator/=(AffineSpaceT&, Scalar)  [AffineSpaceT * Scalar does not exist]; rotate(p, quaternion)
}

size_t use_ops_print(const A3 &a, const A2 &a2, const L3 &l3, const L2 &l2, const Qf &q)
{
  std::stringstream ss;
  ss << a << a2 << l3 << l2 << q;
  return ss.str().size();
}

template <typename T>
T use_quat_ops(const QuaternionT<T> &a, const QuaternionT<T> &b, const vec_t<T, 3> &v, T s, float f)
{
  QuaternionT<T> fromScalar(s);
  QuaternionT<T> z(zero), o(one);
  QuaternionT<T> c = a;
  c += s; c += b; c -= s; c -= b; c *= s; c *= b; c /= s; c /= b;
  return fromScalar.r + z.r + o.r + c.r + (s + a).r + (a + s).r + (s - a).r + (a - s).r + (s / a).r + (a / s).r + (a / b).r + (+a).r +
         (a == b) + (a != b) + xfmQuaternion(a, b).r + xfmNormal(a, v).x;
}
template float use_quat_ops<float>(const QuaternionT<float> &, const QuaternionT<float> &, const vec3f &, float, float);
template double use_quat_ops<double>(const QuaternionT<double> &, const QuaternionT<double> &, const vec3d &, double, float);
// mixed scalar types: only the combinations whose result type equals the quaternion's type are well-formed
double use_quat_mixed(const QuaternionT<double> &a, float f) { return (a * f).r + (f * a).r; }

template <typename T>
T use_quat(const QuaternionT<T> &a, const QuaternionT<T> &b, const vec_t<T, 3> &v, const vec_t<T, 3> &u,
           const vec_t<T, 3> &w, T r, float f)
{
  QuaternionT<T> m = a * b;
  QuaternionT<T> c = conj(a);
  QuaternionT<T> ra = rcp(a);
  QuaternionT<T> na = normalize(a);
  QuaternionT<T> ro = QuaternionT<T>::rotate(u, r);
  vec_t<T, 3> x = a * v;
  QuaternionT<T> fm(v, u, w);
  QuaternionT<T> ypr(r, r, r);
  QuaternionT<T> sl = slerp(f, a, b);
  vec_t<T, 3> p = xfmPoint(a, v);
  return m.r + c.r + ra.r + na.r + ro.r + x.x + fm.r + ypr.r + sl.r + p.x + dot(a, b) + abs(a) + (-a).r + (a + b).r +
         (a - b).r + (r * a).r + (a * r).r;
}
template float use_quat<float>(const QuaternionT<float> &, const QuaternionT<float> &, const vec3f &, const vec3f &,
                               const vec3f &, float, float);
template double use_quat<double>(const QuaternionT<double> &, const QuaternionT<double> &, const vec3d &,
                                 const vec3d &, const vec3d &, double, float);
