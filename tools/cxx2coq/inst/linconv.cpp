// instantiation TU for C06, part 2: the converting constructors between element types
// (LinearSpace2/3 and AffineSpaceT templated copy constructors).  Kept apart from lin.cpp: a second specialisation of
// the class templates in one TU makes cxx2coq qualify every generated name with the element type.
#include "rkcommon/math/AffineSpace.h"
using namespace rkcommon::math;
float use_conv(const LinearSpace3<vec3fa> &pa, const LinearSpace3<vec3f> &a3, const LinearSpace2<vec2d> &d2,
               const AffineSpaceT<LinearSpace3<vec3fa>> &apa)
{
  LinearSpace3<vec3f> fromPadded(pa);
  LinearSpace3<vec3fa> toPadded(a3);
  LinearSpace2<vec2f> fromDouble(d2);
  AffineSpaceT<LinearSpace3<vec3f>> affFromPadded(apa);
  return fromPadded.vx.x + toPadded.vx.x + fromDouble.vx.x + affFromPadded.p.x;
}
