// instantiation TU for C14: the pure size_t arithmetic of the aligned allocator
#include "rkcommon/containers/aligned_allocator.h"
#include "rkcommon/memory/malloc.h"
namespace rkcommon {
  namespace c14inst {
    // ALIGN_PTR is a macro: one-line wrappers for the operand types it is used with
    inline size_t align_ptr_ul(size_t p, size_t a) { return ALIGN_PTR(p, a); }
    inline size_t align_ptr_i(size_t p, int a) { return ALIGN_PTR(p, a); }
    inline bool use(void *p, int a) { return memory::isAligned(p, a) && memory::isAligned(p); }
    // the typed overload alignedMalloc<T>(nElements, align), sizeof(T) = 4 and 8
    inline float *use_typed_f(size_t n, size_t a) { return memory::alignedMalloc<float>(n, a); }
    inline double *use_typed_d(size_t n, size_t a) { return memory::alignedMalloc<double>(n, a); }
    // construct / destroy for a class type with user-provided copy constructor and destructor
    struct Obj { Obj(const Obj &); ~Obj(); int x; };
    inline void use_construct_destroy(Obj *p, const Obj &t)
    {
      containers::aligned_allocator<Obj, 64> a;
      a.construct(p, t);
      a.destroy(p);
    }
  }
  // sizeof(T) of a scalar T is a constant the translator knows: 1, 2, 4, 8
  template struct containers::aligned_allocator<unsigned char, 64>;
  template struct containers::aligned_allocator<short, 64>;
  template struct containers::aligned_allocator<float, 64>;
  template struct containers::aligned_allocator<double, 64>;
}
